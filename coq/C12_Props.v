(* C12 — property theorems only (proved in C12_Proofs.v, C12_Proofs2.v, C12_Proofs3.v, C12_Proofs4.v).
   Vocabulary: [serve et c path ae ops ret err] is the final state of net/http's response for
   one request to a site with configuration [c] (any subset of request_id, limits, log, rewrite,
   gzip, header, errors in its variants, status, mime, templates) whose innermost handler runs
   the script [ops] and returns [(ret, err)]; [cm] = status line sent, [sup] = number of
   superfluous WriteHeader calls that reached net/http, [view] = (garbled?, body after undoing
   the gzip coding announced by Content-Encoding); [et code] is DefaultErrorFunc's text. *)
Require Import V.Lib V.C12_Model V.C12_Proofs V.C12_Proofs2 V.C12_Proofs3 V.C12_Proofs4.
Open Scope Z_scope.
Local Open Scope string_scope.

(* Exactly one response, whatever the configuration and whatever the handler does (returns any
   status with or without error, writes, flushes, panics before or after writing). *)
Theorem C12_exactly_one_response :
  forall et c path ae ops ret err, exists s, cm (serve et c path ae ops ret err) = Some s.
Proof. exact serve_committed. Qed.
Print Assumptions C12_exactly_one_response.

(* A handler that reports an error status without writing (it may have set headers): for EVERY
   subset of the wrapping directives the client receives exactly that status, the header is
   committed once, the body is not garbled and is the error body: the configured page if there
   is one (specific before `*`), the debug message under `errors visible`, else the plain text. *)
Theorem C12_error_status_gets_body :
  forall et c path ae ops ret err,
  forallb set_ok ops = true -> redir_hit c path = false -> status_rule c path = None -> internal_hit c path = false ->
  400 <= ret <= 999 ->
  let x := serve et c path ae ops ret err in
  cm x = Some ret /\ sup x = 0%nat /\ view x = (false, expected_error_body et c path ret err).
Proof. exact error_status_gets_body. Qed.
Print Assumptions C12_error_status_gets_body.

Example C12_error_status_gets_body_nonvacuous :
  let c := {| c_reqid := true; c_limits := true; c_log := true; c_rewrite := true; c_gzip := true; c_header := true;
              c_errors := EPages [(404, Some (bs "page"))] None; c_redir := true; c_status := None; c_mime := true; c_internal := true; c_templates := true |} in
  forallb set_ok [OSet K_XPROBE (bs "v")] = true /\ redir_hit c (bs "/x.html") = false /\ status_rule c (bs "/x.html") = None /\
  internal_hit c (bs "/x.html") = false /\
  view (serve (fun _ => bs "text") c (bs "/x.html") true [OSet K_XPROBE (bs "v")] 404 false) = (false, bs "page").
Proof. vm_compute. repeat split; reflexivity. Qed.

(* The same when the `status` directive answers instead of the inner handlers. *)
Theorem C12_status_directive_error_gets_body :
  forall et c path ae ops ret err s,
  redir_hit c path = false -> status_rule c path = Some s -> 400 <= s <= 999 ->
  let x := serve et c path ae ops ret err in
  cm x = Some s /\ sup x = 0%nat /\ view x = (false, expected_error_body et c path s false).
Proof. exact status_rule_error. Qed.
Print Assumptions C12_status_directive_error_gets_body.

(* A panic before anything was written is contained for EVERY subset of the directives and
   EVERY value [pv] the handler panics with (a string, an error, a runtime error, a nil
   dereference, a custom type, nil, http.ErrAbortHandler - the sentinel is NOT handed on to
   net/http, which would drop the connection without a response): the client receives 500
   (once) with the error body: errors' page for 500 if configured, the panic dump under
   `errors visible`, else the plain text. *)
Theorem C12_panic_before_write_gets_500 :
  forall et c path ae ops pv rest ret err,
  forallb set_ok ops = true -> redir_hit c path = false -> status_rule c path = None -> internal_hit c path = false ->
  let x := serve et c path ae (ops ++ OPanic pv :: rest) ret err in
  cm x = Some 500 /\ sup x = 0%nat /\
  view x = (false, match c_errors c with
                   | EDebug => PANIC_MARK
                   | _ => expected_error_body et c path 500 false
                   end).
Proof.
  intros et c path ae ops pv rest ret err Hs Hrd Hr Hit. rewrite <- (panic_body_spec et c path).
  exact (panic_before_write_500 et c path ae ops pv rest ret err Hs Hrd Hr Hit).
Qed.
Print Assumptions C12_panic_before_write_gets_500.

(* http.ErrAbortHandler with nothing but the top-level recover of Server.ServeHTTP to catch it *)
Example C12_panic_before_write_gets_500_nonvacuous :
  let c := {| c_reqid := false; c_limits := false; c_log := false; c_rewrite := false; c_gzip := false; c_header := false;
              c_errors := ENone; c_redir := false; c_status := None; c_mime := false; c_internal := false; c_templates := false |} in
  let x := serve std_errtext c (bs "/x") false ([OSet K_XPROBE (bs "v")] ++ OPanic PAbort :: [OWr (bs "never")]) 0 false in
  forallb set_ok [OSet K_XPROBE (bs "v")] = true /\ cm x = Some 500 /\ sup x = 0%nat /\
  view x = (false, bs "500 Internal Server Error" ++ [10%N]).
Proof. vm_compute. repeat split; reflexivity. Qed.

(* A handler that writes (headers, WriteHeader s, any number of Writes and Flushes: [wop]) and
   returns a status below 400, with or without an error: the client receives status s and the
   concatenated chunks [wbody ws], ungarbled, the header committed exactly once — for EVERY
   subset of the directives, whether templates streams the response, buffers and passes it on
   (the handler returned 300..399, as browse does for its redirect, or an error) or buffers
   and executes it (then the body must not contain a template action, which is what templates
   is there to replace); a Flush while templates buffers sends nothing; `errors visible`
   logs the error of a handler that has answered instead of writing it into the response. *)
Theorem C12_written_response_unaltered :
  forall et c path ae sets s ws ret err,
  forallb set_ok sets = true -> redir_hit c path = false -> status_rule c path = None -> internal_hit c path = false ->
  valid_code s = true -> bodyless s = false -> ret < 400 ->
  (should_buffer (tmode_of c path) (hs_fun sets []) = true -> ret < 300 -> err = false ->
   contains (wbody ws) TPL_OPEN = false) ->
  let x := serve et c path ae (sets ++ OWh s :: map wop_op ws) ret err in
  cm x = Some s /\ sup x = 0%nat /\ view x = (false, wbody ws).
Proof. exact written_response_unaltered. Qed.
Print Assumptions C12_written_response_unaltered.

Example C12_written_response_unaltered_nonvacuous :
  let c := {| c_reqid := false; c_limits := false; c_log := true; c_rewrite := false; c_gzip := true; c_header := true;
              c_errors := EDebug; c_redir := true; c_status := None; c_mime := true; c_internal := true; c_templates := true |} in
  should_buffer (tmode_of c (bs "/x.html")) (hs_fun [] []) = true /\
  contains (wbody [WWr (bs "he"); WFl; WWr (bs "llo")]) TPL_OPEN = false /\
  (let x := serve (fun _ => []) c (bs "/x.html") true ([] ++ OWh 404 :: map wop_op [WWr (bs "he"); WFl; WWr (bs "llo")]) 0 false in
   cm x = Some 404 /\ view x = (false, bs "hello")) /\
  (* browse's redirect behind templates (DESIGN A17) *)
  (let x := serve (fun _ => []) c (bs "/x.html") true ([] ++ OWh 301 :: map wop_op [WWr (bs "Moved")]) 301 false in
   cm x = Some 301 /\ view x = (false, bs "Moved")) /\
  (* a handler that fails after writing, under errors visible *)
  (let x := serve (fun _ => []) c (bs "/x.html") true ([] ++ OWh 404 :: map wop_op [WWr (bs "custom")]) 0 true in
   cm x = Some 404 /\ view x = (false, bs "custom")).
Proof. vm_compute. repeat split; reflexivity. Qed.

(* A handler that starts with a Write or a Flush instead of WriteHeader: at every level of the
   writer stack (net/http, gzip's filter writer, header's wrapper, templates' ResponseBuffer)
   the first Write or Flush commits the header exactly as WriteHeader(200) does — the whole
   request ends in the same state — for EVERY configuration, return value and continuation. *)
Theorem C12_implicit_header :
  forall et c path ae sets w ws ret err,
  forallb set_ok sets = true ->
  serve et c path ae (sets ++ map wop_op (w :: ws)) ret err =
  serve et c path ae (sets ++ OWh 200 :: map wop_op (w :: ws)) ret err.
Proof. exact serve_implicit_header. Qed.
Print Assumptions C12_implicit_header.

(* Hence the header is committed only once also for those handlers (in particular after a
   Flush before the header): status 200, the chunks as written, no superfluous WriteHeader. *)
Theorem C12_single_commit :
  forall et c path ae sets w ws ret err,
  forallb set_ok sets = true -> redir_hit c path = false -> status_rule c path = None -> internal_hit c path = false -> ret < 400 ->
  (should_buffer (tmode_of c path) (hs_fun sets []) = true -> ret < 300 -> err = false ->
   contains (wbody (w :: ws)) TPL_OPEN = false) ->
  let x := serve et c path ae (sets ++ map wop_op (w :: ws)) ret err in
  cm x = Some 200 /\ sup x = 0%nat /\ view x = (false, wbody (w :: ws)).
Proof. exact implicit_response_unaltered. Qed.
Print Assumptions C12_single_commit.

Example C12_single_commit_nonvacuous :
  let c := {| c_reqid := false; c_limits := false; c_log := true; c_rewrite := false; c_gzip := true; c_header := true;
              c_errors := EDebug; c_redir := true; c_status := None; c_mime := true; c_internal := true; c_templates := true |} in
  (* Flush before the header behind header + gzip + templates (buffering, then streaming) *)
  (let x := serve (fun _ => []) c (bs "/x.html") true ([OSet K_XDEL (bs "gone")] ++ map wop_op [WFl; WWr (bs "hello")]) 0 false in
   cm x = Some 200 /\ sup x = 0%nat /\ view x = (false, bs "hello") /\ hget (csnap x) K_XDEL = None) /\
  (let x := serve (fun _ => []) c (bs "/x.txt") true ([] ++ map wop_op [WFl; WWr (bs "hello"); WFl]) 0 true in
   cm x = Some 200 /\ sup x = 0%nat /\ view x = (false, bs "hello")).
Proof. vm_compute. repeat split; reflexivity. Qed.

(* request_id and limits (as long as the handler does not read an oversized request body: see
   C12_limits_413) never change the response.  mime does (it sets Content-Type): the earlier
   claim that it never matters is refuted; what remains true is covered by the theorems above,
   which hold with and without mime. *)
Theorem C12_transparent_directives :
  forall et c path ae ops ret err r l,
  serve et {| c_reqid := r; c_limits := l; c_log := c_log c; c_rewrite := c_rewrite c; c_gzip := c_gzip c;
              c_header := c_header c; c_errors := c_errors c; c_redir := c_redir c; c_status := c_status c;
              c_mime := c_mime c; c_internal := c_internal c; c_templates := c_templates c |} path ae ops ret err
  = serve et c path ae ops ret err.
Proof. exact serve_transparent. Qed.
Print Assumptions C12_transparent_directives.

Definition c12_cfg0 : cfg :=
  {| c_reqid := false; c_limits := false; c_log := false; c_rewrite := false; c_gzip := false; c_header := false;
     c_errors := ENone; c_redir := false; c_status := None; c_mime := false; c_internal := false; c_templates := false |}.
Definition c12_with_mime (c : cfg) (m : bool) : cfg :=
  {| c_reqid := c_reqid c; c_limits := c_limits c; c_log := c_log c; c_rewrite := c_rewrite c; c_gzip := c_gzip c;
     c_header := c_header c; c_errors := c_errors c; c_redir := c_redir c; c_status := c_status c;
     c_mime := m; c_internal := c_internal c; c_templates := c_templates c |}.
Definition c12_with_templates (c : cfg) : cfg :=
  {| c_reqid := c_reqid c; c_limits := c_limits c; c_log := c_log c; c_rewrite := c_rewrite c; c_gzip := c_gzip c;
     c_header := c_header c; c_errors := c_errors c; c_redir := c_redir c; c_status := c_status c;
     c_mime := c_mime c; c_internal := c_internal c; c_templates := true |}.
Theorem C12_mime_transparent_refuted :
  exists et c path ae ops ret err,
  observe (serve et (c12_with_mime c true) path ae ops ret err) <> observe (serve et (c12_with_mime c false) path ae ops ret err).
Proof.
  exists (fun _ => []), c12_cfg0, (bs "/x.txt"), false, [OWr (bs "a")], 0, false. vm_compute. discriminate.
Qed.
Print Assumptions C12_mime_transparent_refuted.

(* ===================== panic containment at full strength ===================== *)

(* A panic AFTER the handler has started writing (header sets, WriteHeader s, any Writes and
   Flushes, then the panic), for EVERY configuration. What the client sees, exactly:
   - templates was not buffering: the status s the handler committed, and the chunks written
     so far followed by the error body of whoever recovers (errors' page for 500 / panic dump /
     plain text; without `errors`: log's or the server's "500 Internal Server Error" text) -
     ungarbled: with gzip the error text goes through the same compressor -; net/http logs
     exactly one superfluous WriteHeader (the recoverer's WriteHeader(500)), none when header's
     wrapper is there to swallow it: this is the exception the property states, and it is at
     most one;
   - templates was buffering: nothing had reached the connection; the buffered response is
     dropped and the request ends exactly like a panic before writing: 500 once, error body. *)
Theorem C12_panic_after_write_contained :
  forall et c path ae sets s ws pv rest ret err,
  forallb set_ok sets = true -> redir_hit c path = false -> status_rule c path = None -> internal_hit c path = false ->
  valid_code s = true -> bodyless s = false ->
  let x := serve et c path ae (sets ++ OWh s :: map wop_op ws ++ OPanic pv :: rest) ret err in
  (should_buffer (tmode_of c path) (hs_fun sets []) = false ->
     cm x = Some s /\ sup x = panic_sup c /\ (sup x <= 1)%nat /\ view x = (false, wbody ws ++ panic_body et c)) /\
  (should_buffer (tmode_of c path) (hs_fun sets []) = true ->
     cm x = Some 500 /\ sup x = 0%nat /\ view x = (false, panic_body et c)).
Proof.
  intros et c path ae sets s ws pv rest ret err Hs Hrd Hr Hit Hv Hb. cbv zeta. split; intro Hsb.
  - destruct (panic_after_write_streamed et c path ae sets s ws pv rest ret err Hs Hrd Hr Hit Hv Hb Hsb) as (A & B & C).
    repeat split; try assumption. rewrite B. unfold panic_sup. destruct (errors_on c && c_header c); auto.
  - exact (panic_after_write_buffered et c path ae sets s ws pv rest ret err Hs Hrd Hr Hit Hsb).
Qed.
Print Assumptions C12_panic_after_write_contained.

Example C12_panic_after_write_contained_nonvacuous :
  let c := {| c_reqid := false; c_limits := false; c_log := true; c_rewrite := false; c_gzip := true; c_header := false;
              c_errors := EPages [(500, Some (bs "<page>"))] None; c_redir := true; c_status := None; c_mime := true; c_internal := true; c_templates := true |} in
  (let x := serve (fun _ => bs "text") c (bs "/x.txt") true ([] ++ OWh 201 :: map wop_op [WWr (bs "he"); WFl; WWr (bs "llo")] ++ OPanic PAbort :: [OWr (bs "never")]) 0 false in
   should_buffer (tmode_of c (bs "/x.txt")) (hs_fun [] []) = false /\
   cm x = Some 201 /\ sup x = 1%nat /\ view x = (false, bs "hello<page>")) /\
  (let x := serve (fun _ => bs "text") c (bs "/x.html") true ([] ++ OWh 201 :: map wop_op [WWr (bs "hello")] ++ OPanic PRuntime :: []) 0 false in
   should_buffer (tmode_of c (bs "/x.html")) (hs_fun [] []) = true /\
   cm x = Some 500 /\ sup x = 0%nat /\ view x = (false, bs "<page>")).
Proof. vm_compute. repeat split; reflexivity. Qed.

(* Server state: the only objects that outlive a request are the pooled gzip.Writer and
   bytes.Buffer, returned to their pools by deferred calls that also run during a panic, in
   whatever state the request leaves them ([serve_srv] puts [gz_pend]/[b_buf] back); both are
   reset when they are handed out ([gw_reset], [buf_reset]); the recorder, its replacer, header's
   wrapper and every flag of the writer stack are allocated per request ([st0]).  Hence, for
   EVERY initial content of the pools and EVERY sequence of requests (panicking ones
   included), each response is the response to that request served alone by a fresh server:
   a function of the request and the configuration only. *)
Theorem C12_requests_independent :
  forall et c sv qs, run_hist et c sv qs = map (serve_req et c) qs.
Proof. intros et c sv qs. exact (requests_independent et c qs sv). Qed.
Print Assumptions C12_requests_independent.

(* In particular the response to request k+1, whatever requests 1..k did *)
Theorem C12_next_request_unaffected :
  forall et c sv hist q, last (run_hist et c sv (hist ++ [q])) st0 = serve_req et c q.
Proof. exact last_response_independent. Qed.
Print Assumptions C12_next_request_unaffected.

(* and the server after any history answers every request as it did before it *)
Theorem C12_server_state_unchanged :
  forall et c sv hist q,
  fst (serve_srv et c (srv_after et c sv hist) q) = fst (serve_srv et c sv q).
Proof. exact server_equivalent_after. Qed.
Print Assumptions C12_server_state_unchanged.

(* the pools are not trivially empty: a panicking request does leave its buffer behind *)
Example C12_requests_independent_nonvacuous :
  let c := {| c_reqid := false; c_limits := false; c_log := false; c_rewrite := false; c_gzip := true; c_header := false;
              c_errors := ENone; c_redir := false; c_status := None; c_mime := false; c_internal := false; c_templates := true |} in
  let q := {| q_path := bs "/x.html"; q_ae := true; q_blen := 0%N; q_rd := None;
              q_ops := [OWr (bs "left behind"); OPanic PString]; q_ret := 0; q_err := false |} in
  buf_pool (srv_after (fun _ => []) c srv0 [q]) = [bs "left behind"].
Proof. vm_compute. reflexivity. Qed.

(* ===================== single commit for ALL scripts ===================== *)

(* The handler contract (httpserver.Handler's doc + net/http): WriteHeader at most once, before
   anything is written or flushed, with a status 200..999; a handler that has written returns a
   status below 400; a returned error status is at most 999 [handler_contract].  For EVERY
   script under the contract that does not panic after writing - any interleaving of header
   sets (Content-Encoding included), Writes and Flushes, with or without WriteHeader, bodyless
   statuses, a panic before writing, a template that does not parse - and EVERY configuration
   (status/redir/internal rules matching or not), net/http sees exactly one header commit. *)
Theorem C12_single_commit_all :
  forall et c path ae ops ret err,
  handler_contract ops ret = true -> panics_after_write ops = false -> status_ok c = true ->
  sup (serve et c path ae ops ret err) = 0%nat /\ exists s, cm (serve et c path ae ops ret err) = Some s.
Proof.
  intros et c path ae ops ret err Hc Hp Hs. split.
  - exact (single_commit_all et c path ae ops ret err Hc Hp Hs).
  - apply serve_committed.
Qed.
Print Assumptions C12_single_commit_all.

Example C12_single_commit_all_nonvacuous :
  let ops := [OSet K_CE (bs "br"); OFl; OSet K_CT V_HTML; OWr (bs "a"); OFl; OWr (bs "{{")] in
  let c := {| c_reqid := true; c_limits := true; c_log := true; c_rewrite := true; c_gzip := true; c_header := true;
              c_errors := EDebug; c_redir := true; c_status := Some 204; c_mime := true; c_internal := true; c_templates := true |} in
  handler_contract ops 0 = true /\ panics_after_write ops = false /\ status_ok c = true /\
  handler_contract [OSet K_CT V_HTML; OWh 204; OWr (bs "x")] 204 = true /\
  handler_contract [OSet K_CT V_HTML; OPanic PNil; OWh 0] 7 = true /\ handler_contract [] 999 = true.
Proof. vm_compute. repeat split; reflexivity. Qed.

(* Outside the contract the statement is false: a handler that calls WriteHeader twice, or
   writes and then reports an error status, makes net/http log a superfluous WriteHeader. *)
Theorem C12_single_commit_all_refuted :
  (exists et c path ae ops ret err, panics_after_write ops = false /\ status_ok c = true /\
     handler_contract ops ret = false /\ sup (serve et c path ae ops ret err) = 1%nat) /\
  (exists et c path ae ops ret err, panics_after_write ops = false /\ status_ok c = true /\
     wh_first false ops = true /\ sup (serve et c path ae ops ret err) = 1%nat).
Proof.
  split.
  - exists (fun _ => []), c12_cfg0, (bs "/x"), false, [OWh 200; OWh 404], 0, false. vm_compute. repeat split; reflexivity.
  - exists (fun _ => []), c12_cfg0, (bs "/x"), false, [OWr (bs "a")], 404, false. vm_compute. repeat split; reflexivity.
Qed.
Print Assumptions C12_single_commit_all_refuted.

(* ===================== directives that answer themselves ===================== *)

(* redir: the rule matches - exactly one response, 302 with http.Redirect's body, whatever the
   other directives and the inner handler (which is not called) *)
Theorem C12_redir_answers :
  forall et c path ae ops ret err, redir_hit c path = true ->
  let x := serve et c path ae ops ret err in
  cm x = Some 302 /\ sup x = 0%nat /\ view x = (false, REDIR_BODY).
Proof. exact redir_answers. Qed.
Print Assumptions C12_redir_answers.

(* internal: an internal location is answered 404 with the error body of the configuration *)
Theorem C12_internal_location_hidden :
  forall et c path ae ops ret err,
  redir_hit c path = false -> status_rule c path = None -> internal_hit c path = true ->
  let x := serve et c path ae ops ret err in
  cm x = Some 404 /\ sup x = 0%nat /\ view x = (false, expected_error_body et c path 404 false).
Proof. exact internal_hidden. Qed.
Print Assumptions C12_internal_location_hidden.

Example C12_self_answering_nonvacuous :
  let c := {| c_reqid := false; c_limits := false; c_log := true; c_rewrite := true; c_gzip := true; c_header := true;
              c_errors := EPlain; c_redir := true; c_status := Some 403; c_mime := true; c_internal := true; c_templates := true |} in
  redir_hit c (bs "/rd") = true /\
  (redir_hit c (bs "/int/x") = false /\ status_rule c (bs "/int/x") = None /\ internal_hit c (bs "/int/x") = true).
Proof. vm_compute. repeat split; reflexivity. Qed.

(* limits: a handler that reads a request body longer than the limit before writing returns
   (413, err) - the client receives 413 with the error body; otherwise limits is transparent *)
Theorem C12_limits_413 :
  forall et c q n,
  c_limits c = true -> (LIMIT < q_blen q)%N -> q_rd q = Some n ->
  forallb set_ok (firstn n (q_ops q)) = true ->
  redir_hit c (q_path q) = false -> status_rule c (q_path q) = None -> internal_hit c (q_path q) = false ->
  let x := serve_req et c q in
  cm x = Some 413 /\ sup x = 0%nat /\ view x = (false, expected_error_body et c (q_path q) 413 true).
Proof. exact limits_413. Qed.
Print Assumptions C12_limits_413.
Theorem C12_limits_transparent :
  forall et c q, (q_rd q = None \/ (q_blen q <= LIMIT)%N \/ c_limits c = false) ->
  serve_req et c q = serve et c (q_path q) (q_ae q) (q_ops q) (q_ret q) (q_err q).
Proof. exact limits_transparent. Qed.
Print Assumptions C12_limits_transparent.

(* ===================== which error body ===================== *)

(* The body served for an error status, for every (status, configuration), clause by clause
   [error_body_table]: errors visible + error -> the message; page configured for the status and
   readable -> it; configured but unreadable -> the plain text (NOT the `*` page); no page for
   the status: the `*` page if readable, else the plain text. With the text being
   "<code> <reason phrase>\n", the reason phrase empty for statuses net/http has no text for. *)
Theorem C12_error_body_table :
  forall et c path code err, expected_error_body et c path code err = error_body_table et c path code err.
Proof. exact error_body_table_eq. Qed.
Print Assumptions C12_error_body_table.

Theorem C12_error_text_no_reason_phrase :
  std_errtext 599 = bs "599 " ++ [10%N] /\ std_errtext 404 = bs "404 Not Found" ++ [10%N] /\
  forall et c path ae,
  c_errors c = EPages [(404, None); (500, Some (bs "p500"))] (Some (Some (bs "generic"))) ->
  redir_hit c path = false -> status_rule c path = None -> internal_hit c path = false ->
  view (serve et c path ae [] 404 false) = (false, et 404) /\     (* unreadable page: plain text, not `*` *)
  view (serve et c path ae [] 500 false) = (false, bs "p500") /\
  view (serve et c path ae [] 599 false) = (false, bs "generic").
Proof.
  split; [reflexivity|]. split; [reflexivity|].
  intros et c path ae He H1 H2 H3.
  destruct (error_status_gets_body et c path ae [] 404 false eq_refl H1 H2 H3 ltac:(lia)) as (_ & _ & V1).
  destruct (error_status_gets_body et c path ae [] 500 false eq_refl H1 H2 H3 ltac:(lia)) as (_ & _ & V2).
  destruct (error_status_gets_body et c path ae [] 599 false eq_refl H1 H2 H3 ltac:(lia)) as (_ & _ & V3).
  rewrite V1, V2, V3. unfold expected_error_body. rewrite He. repeat split; reflexivity.
Qed.
Print Assumptions C12_error_text_no_reason_phrase.

(* The order in which [chain_p] nests the directives (limits outermost ... templates innermost)
   is the order of httpserver's directive list as extracted from /repo (Gen_C09.gen_directives,
   regenerated by setup.sh): computed. *)
Theorem C12_nesting_is_directive_order :
  strictly_increasing (map (fun k => pos_in V.Gen_C09.gen_directives k 0) chain_order) = true.
Proof. exact nesting_is_directive_order. Qed.
Print Assumptions C12_nesting_is_directive_order.

(* ===================== bodies produced without Write ===================== *)

(* io.Copy / io.CopyN from a plain reader and a direct ReadFrom enter templates' ResponseBuffer
   through ReadFrom and every other writer through Write ([ORf b], b the bytes copied);
   io.WriteString and io.Copy from an io.WriterTo are Writes.  Copying a non-empty source is, for
   EVERY configuration, every script around it and every return value, the same request as
   writing those bytes: in particular the ResponseBuffer decides about buffering (implicit
   WriteHeader(200)) on ReadFrom exactly as on Write.  Hence every theorem above that speaks
   about Writes holds for copies. *)
Theorem C12_copy_is_write :
  forall et c path ae pre b post ret err, b <> [] ->
  serve et c path ae (pre ++ ORf b :: post) ret err = serve et c path ae (pre ++ OWr b :: post) ret err.
Proof. exact serve_copy_is_write. Qed.
Print Assumptions C12_copy_is_write.

(* spelled out for the handler that answers with io.Copy(w, src) and no WriteHeader: 200, the
   bytes copied (followed by whatever it writes later), one header commit, also when the body is
   not a template but contains template delimiters and templates is configured *)
Theorem C12_copied_response_unaltered :
  forall et c path ae sets b ws ret err, b <> [] ->
  forallb set_ok sets = true -> redir_hit c path = false -> status_rule c path = None -> internal_hit c path = false -> ret < 400 ->
  (should_buffer (tmode_of c path) (hs_fun sets []) = true -> ret < 300 -> err = false ->
   contains (b ++ wbody ws) TPL_OPEN = false) ->
  let x := serve et c path ae (sets ++ ORf b :: map wop_op ws) ret err in
  cm x = Some 200 /\ sup x = 0%nat /\ view x = (false, b ++ wbody ws).
Proof. exact copied_response_unaltered. Qed.
Print Assumptions C12_copied_response_unaltered.

Example C12_copied_response_unaltered_nonvacuous :
  let c := {| c_reqid := false; c_limits := false; c_log := true; c_rewrite := false; c_gzip := true; c_header := true;
              c_errors := EPlain; c_redir := false; c_status := None; c_mime := false; c_internal := false; c_templates := true |} in
  let sets := [OSet K_CT (bs "text/plain; charset=utf-8"); OSet K_ETAG (bs "v")] in
  let b := bs "copied, not a template: {{" in
  b <> [] /\ should_buffer (tmode_of c (bs "/x.txt")) (hs_fun sets []) = false /\
  (let x := serve (fun _ => []) c (bs "/x.txt") true (sets ++ ORf b :: map wop_op []) 0 false in
   cm x = Some 200 /\ view x = (false, b) /\ o_etag (observe x) = true).
Proof. vm_compute. repeat split; try reflexivity. discriminate. Qed.

(* Copying an EMPTY source writes nothing and does not touch the response, in EVERY configuration,
   around every script and for every return value: also templates' ResponseBuffer, the one wrapper
   with a ReadFrom of its own, leaves the implicit header to the first byte copied (repair of
   F-C12-6), so the status the handler sets afterwards - or the error status it returns - is the
   one the client receives. *)
Theorem C12_empty_copy_transparent :
  forall et c path ae pre post ret err,
  serve et c path ae (pre ++ ORf [] :: post) ret err = serve et c path ae (pre ++ post) ret err.
Proof. exact serve_empty_copy. Qed.
Print Assumptions C12_empty_copy_transparent.

(* ... and it is invisible to the handler contract: C12_single_commit_all covers the scripts that
   copy an empty source anywhere, before the header included *)
Theorem C12_empty_copy_in_contract :
  forall pre post ret,
  handler_contract (pre ++ ORf [] :: post) ret = handler_contract (pre ++ post) ret /\
  panics_after_write (pre ++ ORf [] :: post) = panics_after_write (pre ++ post).
Proof. exact contract_empty_copy. Qed.
Print Assumptions C12_empty_copy_in_contract.

(* the two witnesses of the former refutation (corpus/C12/f6_templates_empty_copy.json), behind templates *)
Example C12_empty_copy_transparent_witnesses :
  let c := c12_with_templates c12_cfg0 in
  cm (serve (fun _ => []) c (bs "/x.txt") false [ORf []; OWh 404; OWr (bs "custom")] 0 false) = Some 404 /\
  handler_contract [ORf []; OWh 404; OWr (bs "custom")] 0 = true /\
  handler_contract [ORf []] 404 = true /\
  cm (serve (fun _ => []) c (bs "/x.txt") false [ORf []] 404 false) = Some 404 /\
  sup (serve (fun _ => []) c (bs "/x.txt") false [ORf []] 404 false) = 0%nat.
Proof. vm_compute. repeat split; reflexivity. Qed.

(* ===================== a template that fails ===================== *)

(* The inner handler has answered (any header fields: Content-Length, ETag, Last-Modified ...,
   any status, any chunks) and templates takes the response as a template (rule matches, status
   returned < 300, no error) whose text contains an action that fails - to parse, or at
   EXECUTION ({{.Include "missing"}}): templates is then the handler that reports an error
   status without writing, and for EVERY subset of the directives the client receives 500,
   the header committed once, with the complete error body (page for 500 / debug message /
   plain text) ... *)
Theorem C12_failed_template_gets_500 :
  forall et c path ae sets s ws ret err,
  forallb set_ok sets = true -> redir_hit c path = false -> status_rule c path = None -> internal_hit c path = false ->
  should_buffer (tmode_of c path) (hs_fun sets []) = true -> ret < 300 -> err = false ->
  contains (wbody ws) TPL_OPEN = true ->
  let x := serve et c path ae (sets ++ OWh s :: map wop_op ws) ret err in
  cm x = Some 500 /\ sup x = 0%nat /\ view x = (false, expected_error_body et c path 500 true).
Proof. exact failed_template_500. Qed.
Print Assumptions C12_failed_template_gets_500.

(* ... and that error response is written on a writer stack templates has not touched: when it
   returns (500, err) the real header map holds none of the fields of the response that is not
   served (they are still in the ResponseBuffer: CopyHeader comes after Execute), nothing is
   committed, nothing is in the body. *)
Theorem C12_failed_template_header_untouched :
  forall m sets s ws ret err X,
  m <> TOff -> forallb set_ok sets = true -> should_buffer m (hs_fun sets []) = true ->
  ret < 300 -> err = false -> contains (wbody ws) TPL_OPEN = true ->
  exists y, templates_mw m (probe (sets ++ OWh s :: map wop_op ws) ret err) X = HRet 500 true y /\
            chdr y = chdr X /\ cm y = cm X /\ csnap y = csnap X /\ body y = body X /\ sup y = sup X.
Proof. exact failed_template_untouched. Qed.
Print Assumptions C12_failed_template_header_untouched.

Example C12_failed_template_nonvacuous :
  let c := {| c_reqid := false; c_limits := false; c_log := true; c_rewrite := false; c_gzip := true; c_header := true;
              c_errors := EPages [(500, Some (bs "<page 500>"))] None; c_redir := false; c_status := None; c_mime := false;
              c_internal := false; c_templates := true |} in
  let sets := [OSet K_CL (bs "16"); OSet K_ETAG (bs "v"); OSet K_LM (bs "Mon")] in
  let ws := [WWr (bs "{{.NoSuchField}}")] in
  forallb set_ok sets = true /\ should_buffer (tmode_of c (bs "/x.html")) (hs_fun sets []) = true /\
  contains (wbody ws) TPL_OPEN = true /\
  (let x := serve (fun _ => []) c (bs "/x.html") true (sets ++ OWh 200 :: map wop_op ws) 0 false in
   cm x = Some 500 /\ view x = (false, bs "<page 500>") /\
   hget (csnap x) K_CL = None /\ hget (csnap x) K_ETAG = None /\ hget (csnap x) K_LM = None).
Proof. vm_compute. repeat split; reflexivity. Qed.

(* ===================== requests served while another one is in flight ===================== *)

(* Interleavings, not only sequences: a request may be interrupted anywhere between the Get of its
   pooled objects and the deferred Put - inside its handler, or in its response path while
   templates' WriteBuffered / ServeContent or gzip's Close hand status, header and body to the
   connection - and any number of other requests of the site (each possibly interrupted in turn)
   be served completely in the meantime [run_nest]. For EVERY initial content of the two pools,
   EVERY configuration and EVERY such nesting of requests (panicking ones included), every
   response - status, header, BODY - is the response to that request served alone by a fresh
   server: no request ever sees, or sends, bytes that another request's handler wrote. *)
Theorem C12_interleaved_requests_independent :
  forall et c sv t, fst (run_nest et c sv t) = map (serve_req et c) (nest_reqs t).
Proof. intros et c sv t. exact (run_nest_responses et c t sv). Qed.
Print Assumptions C12_interleaved_requests_independent.

(* with nothing served in between, the interruptible service is the plain one (same pools after) *)
Theorem C12_uninterrupted_nest_is_serve :
  forall et c q sv, snd (run_nest et c sv (Nest q [])) = snd (serve_srv et c sv q).
Proof. exact run_nest_holds_objects. Qed.
Print Assumptions C12_uninterrupted_nest_is_serve.

(* the case the theorem is about: behind templates a handler wrote a page and returned (0, err)
   (passed through by WriteBuffered, not rendered); while that response is on its way out a
   second client's page goes through the same templates rule, the pool holding a used buffer:
   each client receives its own page *)
Example C12_interleaved_requests_independent_nonvacuous :
  let c := {| c_reqid := false; c_limits := false; c_log := false; c_rewrite := false; c_gzip := false; c_header := false;
              c_errors := ENone; c_redir := false; c_status := None; c_mime := false; c_internal := false; c_templates := true |} in
  let a := {| q_path := bs "/first.html"; q_ae := false; q_blen := 0%N; q_rd := None;
              q_ops := [OWh 200; OWr (bs "page of the first client")]; q_ret := 0; q_err := true |} in
  let b := {| q_path := bs "/second.html"; q_ae := false; q_blen := 0%N; q_rd := None;
              q_ops := [OWr (bs "account data of the second client")]; q_ret := 0; q_err := false |} in
  let sv := {| gz_pool := []; buf_pool := [bs "stale"] |} in
  map (fun x => (o_status (observe x), o_view (observe x))) (fst (run_nest (fun _ => []) c sv (Nest a [Nest b []])))
    = [(200, bs "page of the first client"); (200, bs "account data of the second client")] /\
  buf_pool (snd (run_nest (fun _ => []) c sv (Nest a [Nest b []])))
    = [bs "page of the first client"; bs "account data of the second client"].
Proof. vm_compute. split; reflexivity. Qed.

(* the same for COMPRESSED responses (round 5, seeded change m10: gzip's writer handed back to its pool before
   its final flush): the first client's compressed stream is held at its very end - after its handler
   returned, while Close pushes the last block and the trailer to the connection - and a second compressed
   response is served completely in that window, the pool holding a used writer: the first request still
   holds its writer (it goes back to the pool only after the flush), each client's body decodes to its own
   page, and afterwards the pool holds the two writers *)
Example C12_interleaved_compressed_requests_nonvacuous :
  let c := {| c_reqid := false; c_limits := false; c_log := false; c_rewrite := false; c_gzip := true; c_header := false;
              c_errors := ENone; c_redir := false; c_status := None; c_mime := false; c_internal := false; c_templates := false |} in
  let a := {| q_path := bs "/first.html"; q_ae := true; q_blen := 0%N; q_rd := None;
              q_ops := [OSet (bs "Content-Type") (bs "text/html"); OWr (bs "page of the first client")]; q_ret := 0; q_err := false |} in
  let b := {| q_path := bs "/second.html"; q_ae := true; q_blen := 0%N; q_rd := None;
              q_ops := [OSet (bs "Content-Type") (bs "text/html"); OWr (bs "account data of the second client")]; q_ret := 0; q_err := false |} in
  let sv := {| gz_pool := [bs "stale"]; buf_pool := [] |} in
  uses_gz c a = true /\ uses_gz c b = true /\
  map (fun x => (o_status (observe x), o_view (observe x))) (fst (run_nest (fun _ => []) c sv (Nest a [Nest b []])))
    = [(200, bs "page of the first client"); (200, bs "account data of the second client")] /\
  fst (run_nest (fun _ => []) c sv (Nest a [Nest b []])) = map (serve_req (fun _ => []) c) [a; b] /\
  gz_pool (snd (run_nest (fun _ => []) c sv (Nest a [Nest b []])))
    = [bs "page of the first client"; bs "account data of the second client"].
Proof. vm_compute. repeat split; reflexivity. Qed.

(* ===================== the third pool: ResponseBuffer's copy buffers ===================== *)

(* io.CopyBuffer through a buffer of ANY content (what an earlier request, a panicking one
   included, copied through it): for every way the source delivers its bytes (every Read returns
   at most len(buf) bytes) the writer receives exactly the bytes of the source, and the buffer goes
   back to the pool with its length unchanged. *)
Theorem C12_copy_buffer_exact :
  forall reads buf,
  forallb (fun ch => Nat.leb (length ch) (length buf)) reads = true ->
  fst (copy_buffer buf reads) = concat reads /\ length (snd (copy_buffer buf reads)) = length buf.
Proof. exact copy_buffer_exact. Qed.
Print Assumptions C12_copy_buffer_exact.

(* the buffers ARE dirty, and never reset: it is only the buf[:nr] discipline that keeps the bytes of
   an earlier request out - handing the writer the whole buffer would leak them *)
Theorem C12_copy_buffer_whole_refuted :
  exists buf reads,
  forallb (fun ch => Nat.leb (length ch) (length buf)) reads = true /\
  fst (copy_buffer_whole buf reads) <> concat reads /\
  snd (copy_buffer (bs "........") [bs "secret"]) = bs "secret..".
Proof.
  exists (bs "earlier!"), [bs "new"]. split; [reflexivity|]. split; [|reflexivity].
  vm_compute. discriminate.
Qed.
Print Assumptions C12_copy_buffer_whole_refuted.

(* The server with its THREE pools (gzip writers, templates' buffers, copy buffers): for every
   initial content of the three pools (copy buffers of the pool's one size L, filled with
   anything), every sequence of requests - any of them panicking at any point after any writes
   and copies, their copies reading their sources in any chunks - the response to each request is
   the response to that request served alone by a fresh server, its copies being plain writes of
   their sources. *)
Theorem C12_three_pools_independent :
  forall et c L fresh qs sv,
  length fresh = L -> pool_len_ok L (cp_pool sv) = true -> forallb (creq_fits L) qs = true ->
  run_hist3 et c fresh sv qs = map (fun q => serve_req et c (creq_plain q)) qs.
Proof. exact three_pools_independent. Qed.
Print Assumptions C12_three_pools_independent.

(* request k+1 after ANY history, judged alone *)
Theorem C12_three_pools_next_request_unaffected :
  forall et c L fresh sv hist q,
  length fresh = L -> pool_len_ok L (cp_pool sv) = true -> forallb (creq_fits L) hist = true -> creq_fits L q = true ->
  fst (serve_srv3 et c fresh (srv3_after et c fresh sv hist) q) = serve_req et c (creq_plain q).
Proof. exact three_pools_next. Qed.
Print Assumptions C12_three_pools_next_request_unaffected.

(* request 1 copies through the pooled buffer and panics after the partial write; its bytes stay in
   all three pools; request 2 (a shorter copy) is answered as if alone *)
Example C12_three_pools_independent_nonvacuous :
  let c := {| c_reqid := false; c_limits := false; c_log := true; c_rewrite := false; c_gzip := true; c_header := false;
              c_errors := ENone; c_redir := false; c_status := None; c_mime := false; c_internal := false; c_templates := true |} in
  let q1 := {| k_path := bs "/x.html"; k_ae := true; k_blen := 0%N; k_rd := None;
               k_ops := [CCopy [bs "left beh"; bs "ind"]; CO (OPanic PString)]; k_ret := 0; k_err := false |} in
  let q2 := {| k_path := bs "/x.html"; k_ae := true; k_blen := 0%N; k_rd := None;
               k_ops := [CCopy [bs "hi"]]; k_ret := 0; k_err := false |} in
  let sv := {| s_two := srv0; cp_pool := [bs "@@@@@@@@"] |} in
  let fresh := bs "00000000" in
  length fresh = 8%nat /\ pool_len_ok 8 (cp_pool sv) = true /\ forallb (creq_fits 8) [q1; q2] = true /\
  cp_pool (srv3_after (fun _ => []) c fresh sv [q1]) = [bs "indt beh"] /\
  buf_pool (s_two (srv3_after (fun _ => []) c fresh sv [q1])) = [bs "left behind"] /\
  map view (run_hist3 std_errtext c fresh sv [q1; q2]) =
    [(false, bs "500 Internal Server Error" ++ [10%N]); (false, bs "hi")].
Proof. vm_compute. repeat split; reflexivity. Qed.

(* ===================== the access log ===================== *)

(* log's ResponseRecorder and net/http's response see the same calls. For EVERY sequence of
   WriteHeader (200..999) / Write / Flush calls that reaches the recorder: when net/http reports no
   superfluous WriteHeader, the status the access log prints is the status the client received.
   With C12_panic_before_write_gets_500 (status 500, no superfluous WriteHeader, for every
   configuration): a panic before any write is logged as 500. *)
Theorem C12_access_log_status_is_client_status :
  forall ks,
  forallb ccall_ok ks = true ->
  sup (fold_left conn_step ks st0) = 0%nat ->
  r_status (fold_left rec_step ks recd0) = client_status (fold_left conn_step ks st0).
Proof. intros ks Hk H0. exact (recorder_logs_client_status ks st0 recd0 Hk rec_inv0 H0). Qed.
Print Assumptions C12_access_log_status_is_client_status.

(* without the hypothesis the two differ: Flush (commits 200, not noted by the recorder), then
   WriteHeader(500): the client has 200, the log says 500 *)
Theorem C12_access_log_status_refuted :
  exists ks, forallb ccall_ok ks = true /\
  r_status (fold_left rec_step ks recd0) <> client_status (fold_left conn_step ks st0).
Proof. exists [KFl; KWh 500]. split; [reflexivity|]. vm_compute. discriminate. Qed.
Print Assumptions C12_access_log_status_refuted.

Example C12_access_log_status_nonvacuous :
  let ks := [KWh 500; KWr (Raw (bs "500 Internal Server Error"))] in
  forallb ccall_ok ks = true /\ sup (fold_left conn_step ks st0) = 0%nat /\
  r_status (fold_left rec_step ks recd0) = 500.
Proof. vm_compute. repeat split; reflexivity. Qed.
