(* C12 — property theorems only (proved in C12_Proofs.v).
   Vocabulary: [serve et c path ae ops ret err] is the final state of net/http's response for
   one request to a site with configuration [c] (any subset of request_id, limits, log, rewrite,
   gzip, header, errors in its variants, status, mime, templates) whose innermost handler runs
   the script [ops] and returns [(ret, err)]; [cm] = status line sent, [sup] = number of
   superfluous WriteHeader calls that reached net/http, [view] = (garbled?, body after undoing
   the gzip coding announced by Content-Encoding); [et code] is DefaultErrorFunc's text. *)
Require Import V.Lib V.C12_Model V.C12_Proofs.
Open Scope Z_scope.
Local Open Scope string_scope.

(* Exactly one response, whatever the configuration and whatever the handler does (returns any
   status with or without error, writes, flushes, panics before or after writing). *)
Theorem C12_exactly_one_response :
  forall et c path ae ops ret err, exists s, cm (serve et c path ae ops ret err) = Some s.
Proof. exact serve_committed. Qed.
Print Assumptions C12_exactly_one_response.

(* A handler that reports an error status without writing (it may have set headers): for EVERY
   subset of the wrapping directives the client receives exactly that status, the header is
   committed once, the body is not garbled and is the error body: the configured page if there
   is one (specific before `*`), the debug message under `errors visible`, else the plain text. *)
Theorem C12_error_status_gets_body :
  forall et c path ae ops ret err,
  forallb set_ok ops = true -> status_rule c path = None -> 400 <= ret <= 999 ->
  let x := serve et c path ae ops ret err in
  cm x = Some ret /\ sup x = 0%nat /\ view x = (false, expected_error_body et c path ret err).
Proof. exact error_status_gets_body. Qed.
Print Assumptions C12_error_status_gets_body.

Example C12_error_status_gets_body_nonvacuous :
  let c := {| c_reqid := true; c_limits := true; c_log := true; c_rewrite := true; c_gzip := true; c_header := true;
              c_errors := EPages [(404, Some (bs "page"))] None; c_status := None; c_mime := true; c_templates := true |} in
  forallb set_ok [OSet K_XPROBE (bs "v")] = true /\ status_rule c (bs "/x.html") = None /\
  view (serve (fun _ => bs "text") c (bs "/x.html") true [OSet K_XPROBE (bs "v")] 404 false) = (false, bs "page").
Proof. vm_compute. repeat split; reflexivity. Qed.

(* The same when the `status` directive answers instead of the inner handlers. *)
Theorem C12_status_directive_error_gets_body :
  forall et c path ae ops ret err s,
  status_rule c path = Some s -> 400 <= s <= 999 ->
  let x := serve et c path ae ops ret err in
  cm x = Some s /\ sup x = 0%nat /\ view x = (false, expected_error_body et c path s false).
Proof. exact status_rule_error. Qed.
Print Assumptions C12_status_directive_error_gets_body.

(* A panic before anything was written is contained for EVERY subset of the directives: the
   client receives 500 (once) with the error body: errors' page for 500 if configured, the
   panic dump under `errors visible`, else the plain text. *)
Theorem C12_panic_before_write_gets_500 :
  forall et c path ae ops rest ret err,
  forallb set_ok ops = true -> status_rule c path = None ->
  let x := serve et c path ae (ops ++ OPanic :: rest) ret err in
  cm x = Some 500 /\ sup x = 0%nat /\
  view x = (false, match c_errors c with
                   | EDebug => PANIC_MARK
                   | _ => expected_error_body et c path 500 false
                   end).
Proof.
  intros et c path ae ops rest ret err Hs Hr. rewrite <- (panic_body_spec et c path).
  exact (panic_before_write_500 et c path ae ops rest ret err Hs Hr).
Qed.
Print Assumptions C12_panic_before_write_gets_500.

(* A handler that writes (headers, WriteHeader s, any number of Writes and Flushes: [wop]) and
   returns a status below 400, with or without an error: the client receives status s and the
   concatenated chunks [wbody ws], ungarbled, the header committed exactly once — for EVERY
   subset of the directives, whether templates streams the response, buffers and passes it on
   (the handler returned 300..399, as browse does for its redirect, or an error) or buffers
   and executes it (then the body must not contain a template action, which is what templates
   is there to replace); a Flush while templates buffers sends nothing; `errors visible`
   logs the error of a handler that has answered instead of writing it into the response. *)
Theorem C12_written_response_unaltered :
  forall et c path ae sets s ws ret err,
  forallb set_ok sets = true -> status_rule c path = None ->
  valid_code s = true -> bodyless s = false -> ret < 400 ->
  (should_buffer (tmode_of c path) (hs_fun sets []) = true -> ret < 300 -> err = false ->
   contains (wbody ws) TPL_OPEN = false) ->
  let x := serve et c path ae (sets ++ OWh s :: map wop_op ws) ret err in
  cm x = Some s /\ sup x = 0%nat /\ view x = (false, wbody ws).
Proof. exact written_response_unaltered. Qed.
Print Assumptions C12_written_response_unaltered.

Example C12_written_response_unaltered_nonvacuous :
  let c := {| c_reqid := false; c_limits := false; c_log := true; c_rewrite := false; c_gzip := true; c_header := true;
              c_errors := EDebug; c_status := None; c_mime := false; c_templates := true |} in
  should_buffer (tmode_of c (bs "/x.html")) (hs_fun [] []) = true /\
  contains (wbody [WWr (bs "he"); WFl; WWr (bs "llo")]) TPL_OPEN = false /\
  (let x := serve (fun _ => []) c (bs "/x.html") true ([] ++ OWh 404 :: map wop_op [WWr (bs "he"); WFl; WWr (bs "llo")]) 0 false in
   cm x = Some 404 /\ view x = (false, bs "hello")) /\
  (* browse's redirect behind templates (DESIGN A17) *)
  (let x := serve (fun _ => []) c (bs "/x.html") true ([] ++ OWh 301 :: map wop_op [WWr (bs "Moved")]) 301 false in
   cm x = Some 301 /\ view x = (false, bs "Moved")) /\
  (* a handler that fails after writing, under errors visible *)
  (let x := serve (fun _ => []) c (bs "/x.html") true ([] ++ OWh 404 :: map wop_op [WWr (bs "custom")]) 0 true in
   cm x = Some 404 /\ view x = (false, bs "custom")).
Proof. vm_compute. repeat split; reflexivity. Qed.

(* A handler that starts with a Write or a Flush instead of WriteHeader: at every level of the
   writer stack (net/http, gzip's filter writer, header's wrapper, templates' ResponseBuffer)
   the first Write or Flush commits the header exactly as WriteHeader(200) does — the whole
   request ends in the same state — for EVERY configuration, return value and continuation. *)
Theorem C12_implicit_header :
  forall et c path ae sets w ws ret err,
  forallb set_ok sets = true ->
  serve et c path ae (sets ++ map wop_op (w :: ws)) ret err =
  serve et c path ae (sets ++ OWh 200 :: map wop_op (w :: ws)) ret err.
Proof. exact serve_implicit_header. Qed.
Print Assumptions C12_implicit_header.

(* Hence the header is committed only once also for those handlers (in particular after a
   Flush before the header): status 200, the chunks as written, no superfluous WriteHeader. *)
Theorem C12_single_commit :
  forall et c path ae sets w ws ret err,
  forallb set_ok sets = true -> status_rule c path = None -> ret < 400 ->
  (should_buffer (tmode_of c path) (hs_fun sets []) = true -> ret < 300 -> err = false ->
   contains (wbody (w :: ws)) TPL_OPEN = false) ->
  let x := serve et c path ae (sets ++ map wop_op (w :: ws)) ret err in
  cm x = Some 200 /\ sup x = 0%nat /\ view x = (false, wbody (w :: ws)).
Proof. exact implicit_response_unaltered. Qed.
Print Assumptions C12_single_commit.

Example C12_single_commit_nonvacuous :
  let c := {| c_reqid := false; c_limits := false; c_log := true; c_rewrite := false; c_gzip := true; c_header := true;
              c_errors := EDebug; c_status := None; c_mime := false; c_templates := true |} in
  (* Flush before the header behind header + gzip + templates (buffering, then streaming) *)
  (let x := serve (fun _ => []) c (bs "/x.html") true ([OSet K_XDEL (bs "gone")] ++ map wop_op [WFl; WWr (bs "hello")]) 0 false in
   cm x = Some 200 /\ sup x = 0%nat /\ view x = (false, bs "hello") /\ hget (csnap x) K_XDEL = None) /\
  (let x := serve (fun _ => []) c (bs "/x.txt") true ([] ++ map wop_op [WFl; WWr (bs "hello"); WFl]) 0 true in
   cm x = Some 200 /\ sup x = 0%nat /\ view x = (false, bs "hello")).
Proof. vm_compute. repeat split; reflexivity. Qed.

(* request_id, limits and mime never change the response. *)
Theorem C12_transparent_directives :
  forall et c path ae ops ret err r l m,
  serve et {| c_reqid := r; c_limits := l; c_log := c_log c; c_rewrite := c_rewrite c; c_gzip := c_gzip c;
              c_header := c_header c; c_errors := c_errors c; c_status := c_status c; c_mime := m;
              c_templates := c_templates c |} path ae ops ret err
  = serve et c path ae ops ret err.
Proof. exact serve_transparent. Qed.
Print Assumptions C12_transparent_directives.
