Require Import V.Lib V.C14_Model.
Open Scope Z_scope.
