(* C14 — proofs about the interleaving model of C14_Model.v. *)
Require Import V.Lib V.C14_Model.
From Coq Require Import ZifyBool.
Open Scope Z_scope.

Definition b2z (b : bool) : Z := if b then 1 else 0.

(* ---------- counting ---------- *)
Lemma cnt_app {A} (P : A -> bool) l1 l2 : cnt P (l1 ++ l2) = cnt P l1 + cnt P l2.
Proof. induction l1 as [|x l1 IH]; simpl; [reflexivity|]. rewrite IH. lia. Qed.

Lemma cnt_nonneg {A} (P : A -> bool) l : 0 <= cnt P l.
Proof. induction l as [|x l IH]; simpl; [lia|]. destruct (P x); lia. Qed.

Lemma cnt_le_length {A} (P : A -> bool) l : cnt P l <= Z.of_nat (length l).
Proof. induction l as [|x l IH]; simpl length; simpl cnt; [lia|]. destruct (P x); lia. Qed.

Lemma cnt_set_nth {A} (P : A -> bool) l t q p :
  nth_error l t = Some q -> cnt P (set_nth l t p) = cnt P l - b2z (P q) + b2z (P p).
Proof.
  revert t; induction l as [|x l IH]; intros [|t] H; simpl in H; try discriminate.
  - injection H as ->. simpl. unfold b2z. destruct (P q), (P p); lia.
  - simpl. rewrite (IH t H). lia.
Qed.

Lemma cnt_map {A B} (f : A -> B) (P : B -> bool) l : cnt P (map f l) = cnt (fun x => P (f x)) l.
Proof. induction l as [|x l IH]; simpl; [reflexivity|]. rewrite IH. reflexivity. Qed.

Lemma cnt_ext {A} (P Q : A -> bool) l : (forall x, In x l -> P x = Q x) -> cnt P l = cnt Q l.
Proof.
  induction l as [|x l IH]; intros H; simpl; [reflexivity|].
  rewrite (H x (or_introl eq_refl)). rewrite IH; [reflexivity|]. intros y Hy. apply H. right. exact Hy.
Qed.

Lemma cnt_zero {A} (P : A -> bool) l : (forall x, In x l -> P x = false) -> cnt P l = 0.
Proof.
  induction l as [|x l IH]; intros H; simpl; [reflexivity|].
  rewrite (H x (or_introl eq_refl)). rewrite IH; [reflexivity|]. intros y Hy. apply H. right. exact Hy.
Qed.

Lemma cnt_mono {A} (P Q : A -> bool) l : (forall x, In x l -> P x = true -> Q x = true) -> cnt P l <= cnt Q l.
Proof.
  induction l as [|x l IH]; intros H; simpl; [lia|].
  assert (IH' : cnt P l <= cnt Q l) by (apply IH; intros y Hy; apply H; right; exact Hy).
  destruct (P x) eqn:E.
  - rewrite (H x (or_introl eq_refl) E). lia.
  - destruct (Q x); lia.
Qed.

Lemma in_set_nth {A} (l : list A) t v x : In x (set_nth l t v) -> x = v \/ In x l.
Proof.
  revert t; induction l as [|y l IH]; intros [|t] H; simpl in H; try contradiction.
  - destruct H as [H|H]; [left; symmetry; exact H | right; right; exact H].
  - destruct H as [H|H]; [right; left; exact H |].
    destruct (IH t H) as [E|E]; [left; exact E | right; right; exact E].
Qed.

Lemma length_set_nth {A} (l : list A) t v : length (set_nth l t v) = length l.
Proof. revert t; induction l as [|y l IH]; intros [|t]; simpl; try reflexivity. rewrite IH. reflexivity. Qed.

Lemma bump_same f h d : bump f h d h = f h + d.
Proof. unfold bump. rewrite Nat.eqb_refl. reflexivity. Qed.

Lemma bump_spec f h d x : bump f h d x = f x + (if Nat.eqb x h then d else 0).
Proof. unfold bump. destruct (Nat.eqb x h); lia. Qed.


Lemma nth_error_set_nth {A} (l : list A) t v q : nth_error l t = Some q -> nth_error (set_nth l t v) t = Some v.
Proof.
  revert t; induction l as [|x l IH]; intros [|t] H; simpl in *; try discriminate; auto.
Qed.

Lemma nth_error_set_nth_other {A} (l : list A) t t' v : t <> t' -> nth_error (set_nth l t' v) t = nth_error l t.
Proof.
  revert t t'; induction l as [|x l IH]; intros [|t] [|t'] H; simpl; try reflexivity; try congruence.
  apply IH. congruence.
Qed.

Lemma cnt_zero_inv {A} (P : A -> bool) l x : cnt P l = 0 -> In x l -> P x = false.
Proof.
  induction l as [|y l IH]; intros H Hx; [contradiction|]. simpl in H.
  pose proof (cnt_nonneg P l) as Hn.
  destruct Hx as [<-|Hx].
  - destruct (P y); [lia | reflexivity].
  - apply IH; [destruct (P y); lia | exact Hx].
Qed.

Lemma cnt_pos_nth {A} (P : A -> bool) l : 0 < cnt P l -> exists k x, nth_error l k = Some x /\ P x = true.
Proof.
  induction l as [|y l IH]; simpl; intros H; [lia|].
  destruct (P y) eqn:E.
  - exists 0%nat, y. split; [reflexivity | exact E].
  - destruct (IH ltac:(lia)) as (k & x & Hk & Hx). exists (S k), x. split; assumption.
Qed.

Lemma setb_spec f h b x : setb f h b x = if Nat.eqb x h then b else f x.
Proof. reflexivity. Qed.

(* ---------- the invariant ---------- *)
Definition acq_ok (c : config) (p : pc) : Prop :=
  match p with Acquiring _ n => 0 < c_max_conns c -> n < c_max_conns c | _ => True end.

Record Inv (c : config) (s : state) : Prop := {
  inv_conns : forall h, conns s h = cnt (is_fwd h) (threads s);
  inv_fails : forall h, fails s h = pending s h;
  inv_fired : forall f w, In f (flog s) -> f_fired f = Some w -> f_at f + c_fail_timeout c <= w <= now s;
  inv_past : forall f, In f (flog s) -> f_at f <= now s;
  inv_off : c_fail_timeout c <= 0 -> flog s = [];
  inv_acq : forall p, In p (threads s) -> acq_ok c p;
  inv_cap : 0 < c_max_conns c -> forall h, conns s h <= c_max_conns c
}.

Lemma inv_init c r u : Inv c (init r u).
Proof. constructor; simpl; intros; try reflexivity; try contradiction; try lia. Qed.

Arguments step : simpl never.
Ltac sset := unfold set_threads, set_conns, set_fails, set_now, set_unhealthy, set_robin in *; simpl in *.
(* open a step of thread t: only the program counter the label applies to survives *)
Ltac open_thread H s t Hn :=
  unfold step in H;
  destruct (nth_error (threads s) t) as [[|?obs ?cur|[?h|]|?h ?n|?h|?h|?code]|] eqn:Hn; try discriminate H.

Lemma full_false_lt c s h : full c s h = false -> 0 < c_max_conns c -> conns s h < c_max_conns c.
Proof.
  unfold full. intros F Hm. apply andb_false_iff in F as [F|F].
  - apply Z.ltb_ge in F. lia.
  - apply Z.leb_gt in F. exact F.
Qed.

(* a thread step that changes no counter: the thread moves between two program counters that are not Forwarding *)
Lemma inv_thread_move c s t q p :
  Inv c s -> nth_error (threads s) t = Some q ->
  (forall h, is_fwd h q = false) -> (forall h, is_fwd h p = false) -> acq_ok c p ->
  Inv c (set_threads s (set_nth (threads s) t p)).
Proof.
  intros [Ic If Id Ip Io Ia Icap] Hn Hq Hp Hok. constructor; sset; auto.
  - intros h. rewrite (cnt_set_nth _ _ _ _ _ Hn), Hq, Hp, Ic. simpl. lia.
  - intros p0 H0. apply in_set_nth in H0 as [->|H0]; [exact Hok | exact (Ia _ H0)].
Qed.

Lemma read_next_selecting c s h obs cur p :
  read_next c s h obs cur = Some p -> exists obs' cur', p = Selecting obs' cur'.
Proof.
  unfold read_next. intros H. destruct cur as [[h' st]|].
  - destruct (Nat.eqb h h'); [|discriminate]. destruct st; injection H as <-.
    + eauto.
    + destruct (c_max_fails c <=? fails s h); eauto.
  - injection H as <-. destruct (unhealthy s h); eauto.
Qed.

Lemma step_inv c pol s l s' : Inv c s -> step c pol s l = Some s' -> Inv c s'.
Proof.
  intros I H. destruct l.
  - (* spawn *) unfold step in H. injection H as <-. destruct I as [Ic If Id Ip Io Ia Icap].
    constructor; sset; auto.
    + intros h. rewrite cnt_app. simpl. rewrite Ic. lia.
    + intros p H0. apply in_app_or in H0 as [H0|[<-|[]]]; [exact (Ia _ H0) | exact Logic.I].
  - (* select starts *) open_thread H s t Hn. injection H as <-.
    apply (inv_thread_move _ _ _ _ _ I Hn); simpl; auto.
  - (* one load of an availability read *) open_thread H s t Hn.
    destruct (read_next c s h obs cur) as [p|] eqn:Er; [|discriminate]. injection H as <-.
    destruct (read_next_selecting _ _ _ _ _ _ Er) as (obs' & cur' & ->).
    apply (inv_thread_move _ _ _ _ _ I Hn); simpl; auto.
  - (* select returns *) open_thread H s t Hn. destruct cur; [discriminate|].
    destruct (pol obs ho); [|discriminate]. injection H as <-.
    pose proof (inv_thread_move _ _ _ _ (Selected ho) I Hn) as I'.
    destruct I' as [Ic If Id Ip Io Ia Icap]; simpl; auto. constructor; sset; auto.
  - (* acquireConn: load *) open_thread H s t Hn. injection H as <-.
    apply (inv_thread_move _ _ _ _ _ I Hn); simpl; auto.
    + intros h0. destruct (full c s h); reflexivity.
    + destruct (full c s h) eqn:F; simpl; [exact Logic.I|]. exact (full_false_lt _ _ _ F).
  - (* acquireConn: compare-and-swap *) open_thread H s t Hn. destruct (conns s h =? n) eqn:E.
    + injection H as <-. apply Z.eqb_eq in E. destruct I as [Ic If Id Ip Io Ia Icap].
      pose proof (Ia _ (nth_error_In _ _ Hn)) as Hok. simpl in Hok.
      constructor; sset; auto.
      * intros h0. rewrite (cnt_set_nth _ _ _ _ _ Hn). rewrite bump_spec, Ic. simpl. unfold b2z.
        destruct (Nat.eqb h0 h); lia.
      * intros p H0. apply in_set_nth in H0 as [->|H0]; [exact Logic.I | exact (Ia _ H0)].
      * intros Hm h0. rewrite bump_spec. destruct (Nat.eqb h0 h) eqn:E0; [|specialize (Icap Hm h0); lia].
        apply Nat.eqb_eq in E0. subst h0. specialize (Hok Hm). lia.
    + injection H as <-. apply (inv_thread_move _ _ _ _ _ I Hn); simpl; auto.
  - (* no host *) open_thread H s t Hn. injection H as <-.
    apply (inv_thread_move _ _ _ _ _ I Hn); simpl; auto; destruct again; simpl; auto.
  - (* finish *) open_thread H s t Hn. injection H as <-. destruct I as [Ic If Id Ip Io Ia Icap].
    constructor; sset; auto.
    + intros h0. rewrite (cnt_set_nth _ _ _ _ _ Hn). rewrite bump_spec, Ic. simpl. unfold b2z.
      destruct o; simpl; destruct (Nat.eqb h0 h); lia.
    + intros p H0. apply in_set_nth in H0 as [->|H0]; [destruct o; exact Logic.I | exact (Ia _ H0)].
    + intros Hm h0. rewrite bump_spec. specialize (Icap Hm h0). destruct (Nat.eqb h0 h); lia.
  - (* record *) open_thread H s t Hn. destruct (0 <? c_fail_timeout c) eqn:Hft.
    + injection H as <-. apply Z.ltb_lt in Hft. destruct I as [Ic If Id Ip Io Ia Icap].
      constructor; sset; auto.
      * intros h0. rewrite (cnt_set_nth _ _ _ _ _ Hn). rewrite Ic. simpl. destruct again; simpl; lia.
      * intros h0. unfold pending in *. sset. rewrite cnt_app, bump_spec, If. simpl. unfold on_host, asleep. simpl.
        destruct (Nat.eqb h0 h); simpl; lia.
      * intros f w Hf Hw. apply in_app_or in Hf as [Hf|[<-|[]]]; [exact (Id _ _ Hf Hw) | discriminate Hw].
      * intros f Hf. apply in_app_or in Hf as [Hf|[<-|[]]]; [exact (Ip _ Hf) | simpl; lia].
      * intros Hoff. lia.
      * intros p H0. apply in_set_nth in H0 as [->|H0]; [destruct again; exact Logic.I | exact (Ia _ H0)].
    + injection H as <-. apply (inv_thread_move _ _ _ _ _ I Hn); simpl; auto; destruct again; simpl; auto.
  - (* an expiry goroutine runs *) unfold step in H.
    destruct (nth_error (flog s) k) as [f|] eqn:Hn; [|discriminate].
    destruct (asleep f && (f_at f + c_fail_timeout c <=? now s)) eqn:G; [|discriminate].
    injection H as <-. apply andb_true_iff in G as [Ga Gd]. apply Z.leb_le in Gd.
    destruct I as [Ic If Id Ip Io Ia Icap]. constructor; sset; auto.
    + intros h0. unfold pending in *. sset. rewrite (cnt_set_nth _ _ _ _ _ Hn). rewrite bump_spec, If.
      unfold on_host, fire, asleep in *. simpl. unfold b2z. rewrite Ga.
      destruct (Nat.eqb h0 (f_host f)); simpl; lia.
    + intros f0 w Hf Hw. apply in_set_nth in Hf as [->|Hf]; [|exact (Id _ _ Hf Hw)].
      simpl in Hw. injection Hw as <-. simpl. lia.
    + intros f0 Hf. apply in_set_nth in Hf as [->|Hf]; [|exact (Ip _ Hf)].
      simpl. exact (Ip _ (nth_error_In _ _ Hn)).
    + intros Hoff. rewrite (Io Hoff) in Hn. destruct k; discriminate.
  - (* tick *) unfold step in H. destruct (0 <=? d) eqn:Hd; [|discriminate]. injection H as <-.
    apply Z.leb_le in Hd. destruct I as [Ic If Id Ip Io Ia Icap]. constructor; sset; auto.
    + intros f w Hf Hw. specialize (Id _ _ Hf Hw). lia.
    + intros f Hf. specialize (Ip _ Hf). lia.
  - (* health-check verdict *) unfold step in H. injection H as <-.
    destruct I as [Ic If Id Ip Io Ia Icap]. constructor; sset; auto.
  - (* the client goes away: nothing moves *) open_thread H s t Hn; injection H as <-; exact I.
Qed.

Lemma run_inv c pol ls : forall s s', Inv c s -> run c pol s ls = Some s' -> Inv c s'.
Proof.
  induction ls as [|l ls IH]; intros s s' HI H; simpl in H.
  - injection H as <-. exact HI.
  - destruct (step c pol s l) as [s1|] eqn:E; [|discriminate].
    apply (IH s1 s'); [exact (step_inv _ _ _ _ _ HI E) | exact H].
Qed.

Lemma reachable_inv c pol s : reachable c pol s -> Inv c s.
Proof. intros (r & u & ls & H). exact (run_inv _ _ _ _ _ (inv_init c r u) H). Qed.

Lemma run_app c pol l1 : forall l2 s s1 s2,
  run c pol s l1 = Some s1 -> run c pol s1 l2 = Some s2 -> run c pol s (l1 ++ l2) = Some s2.
Proof.
  induction l1 as [|l l1 IH]; intros l2 s s1 s2 H1 H2; simpl in *.
  - injection H1 as ->. exact H2.
  - destruct (step c pol s l) as [s'|]; [|discriminate]. exact (IH _ _ _ _ H1 H2).
Qed.

Lemma run_app_inv c pol l1 : forall l2 s s2,
  run c pol s (l1 ++ l2) = Some s2 -> exists s1, run c pol s l1 = Some s1 /\ run c pol s1 l2 = Some s2.
Proof.
  induction l1 as [|l l1 IH]; intros l2 s s2 H; simpl in *.
  - exists s. split; [reflexivity | exact H].
  - destruct (step c pol s l) as [s'|]; [|discriminate]. exact (IH _ _ _ H).
Qed.

Lemma reachable_run c pol s ls s' : reachable c pol s -> run c pol s ls = Some s' -> reachable c pol s'.
Proof. intros (r & u & l0 & H0) H. exists r, u, (l0 ++ ls). exact (run_app _ _ _ _ _ _ _ H0 H). Qed.

(* ---------- in-flight accounting ---------- *)
Lemma conns_counts_forwarding c pol s h :
  reachable c pol s -> conns s h = cnt (is_fwd h) (threads s).
Proof. intros R. apply (inv_conns _ _ (reachable_inv _ _ _ R)). Qed.

Lemma conns_bounds c pol s h :
  reachable c pol s -> 0 <= conns s h <= Z.of_nat (length (threads s)).
Proof.
  intros R. rewrite (conns_counts_forwarding _ _ _ h R).
  split; [apply cnt_nonneg | apply cnt_le_length].
Qed.

Lemma conns_zero_when_none_forwarding c pol s h :
  reachable c pol s -> (forall p, In p (threads s) -> p <> Forwarding h) -> conns s h = 0.
Proof.
  intros R Hn. rewrite (conns_counts_forwarding _ _ _ h R). apply cnt_zero.
  intros p Hp. destruct p; simpl; try reflexivity.
  destruct (Nat.eqb h h0) eqn:E; [|reflexivity].
  apply Nat.eqb_eq in E. subst h0. exfalso. exact (Hn _ Hp eq_refl).
Qed.

Lemma conns_zero_at_quiescence c pol s :
  reachable c pol s -> forallb is_done (threads s) = true -> forall h, conns s h = 0.
Proof.
  intros R Hd h. apply (conns_zero_when_none_forwarding c pol); [exact R|].
  intros p Hp E. rewrite forallb_forall in Hd. specialize (Hd p Hp). subst p. discriminate.
Qed.

(* a request in its retry loop (not between acquire and release) holds no slot: Conns counts the
   Forwarding program counters and nothing else *)
Lemma acquiring_below_cap c pol s t h n :
  reachable c pol s -> nth_error (threads s) t = Some (Acquiring h n) -> 0 < c_max_conns c -> n < c_max_conns c.
Proof. intros R Hn. exact (inv_acq _ _ (reachable_inv _ _ _ R) _ (nth_error_In _ _ Hn)). Qed.

Lemma conns_le_max c pol s h :
  0 < c_max_conns c -> reachable c pol s -> conns s h <= c_max_conns c.
Proof. intros Hm R. exact (inv_cap _ _ (reachable_inv _ _ _ R) Hm h). Qed.

Lemma forwarding_le_max c pol s h :
  0 < c_max_conns c -> reachable c pol s -> cnt (is_fwd h) (threads s) <= c_max_conns c.
Proof.
  intros Hm R. rewrite <- (conns_counts_forwarding _ _ _ h R). exact (conns_le_max _ _ _ h Hm R).
Qed.

(* ---------- failure accounting: no assumption about when the expiry goroutines run ---------- *)
(* Fails h = number of failures of h whose expiry event has not fired *)
Lemma fails_counts_pending c pol s h : reachable c pol s -> fails s h = pending s h.
Proof. intros R. apply (inv_fails _ _ (reachable_inv _ _ _ R)). Qed.

(* an expiry event fires fail_timeout after its failure or later, never earlier *)
Lemma expiry_not_before_fail_timeout c pol s f w :
  reachable c pol s -> In f (flog s) -> f_fired f = Some w -> f_at f + c_fail_timeout c <= w <= now s.
Proof. intros R. apply (inv_fired _ _ (reachable_inv _ _ _ R)). Qed.

(* so a failure younger than fail_timeout is still counted *)
Lemma young_failure_asleep c pol s f :
  reachable c pol s -> In f (flog s) -> now s < f_at f + c_fail_timeout c -> f_fired f = None.
Proof.
  intros R Hf Hy. destruct (f_fired f) as [w|] eqn:E; [|reflexivity].
  pose proof (expiry_not_before_fail_timeout _ _ _ _ _ R Hf E). lia.
Qed.

Lemma fails_ge_unexpired c pol s h :
  reachable c pol s -> unexpired c s h <= fails s h.
Proof.
  intros R. rewrite (fails_counts_pending _ _ _ h R). unfold unexpired, pending.
  apply cnt_mono. intros f Hf H. apply andb_true_iff in H as [H1 H2]. apply Z.ltb_lt in H2.
  rewrite H1. unfold asleep. rewrite (young_failure_asleep _ _ _ _ R Hf H2). reflexivity.
Qed.

Lemma fails_counts_unexpired c pol s h :
  reachable c pol s -> prompt c s -> fails s h = unexpired c s h.
Proof.
  intros R Pr. rewrite (fails_counts_pending _ _ _ h R). unfold unexpired, pending.
  apply cnt_ext. intros f Hf. destruct (on_host h f); simpl; [|reflexivity].
  unfold asleep. destruct (f_fired f) as [w|] eqn:E.
  - pose proof (expiry_not_before_fail_timeout _ _ _ _ _ R Hf E). symmetry. apply Z.ltb_ge. lia.
  - symmetry. apply Z.ltb_lt. exact (Pr f Hf E).
Qed.

Lemma fails_nonneg c pol s h : reachable c pol s -> 0 <= fails s h.
Proof. intros R. rewrite (fails_counts_pending _ _ _ h R). apply cnt_nonneg. Qed.

Lemma fails_zero_when_all_expired c pol s h :
  reachable c pol s -> prompt c s ->
  (forall f, In f (flog s) -> f_host f = h -> f_at f + c_fail_timeout c <= now s) ->
  fails s h = 0.
Proof.
  intros R Pr Hall. rewrite (fails_counts_unexpired _ _ _ h R Pr). unfold unexpired.
  apply cnt_zero. intros f Hf. unfold on_host.
  destruct (Nat.eqb h (f_host f)) eqn:E; simpl; [|reflexivity].
  apply Nat.eqb_eq in E. apply Z.ltb_ge. apply Hall; [exact Hf | symmetry; exact E].
Qed.

(* once every expiry event of h has fired, Fails h is zero — whenever that happens *)
Lemma fails_zero_when_all_fired c pol s h :
  reachable c pol s -> (forall f, In f (flog s) -> f_host f = h -> f_fired f <> None) -> fails s h = 0.
Proof.
  intros R Hall. rewrite (fails_counts_pending _ _ _ h R). unfold pending. apply cnt_zero.
  intros f Hf. unfold on_host. destruct (Nat.eqb h (f_host f)) eqn:E; simpl; [|reflexivity].
  apply Nat.eqb_eq in E. unfold asleep. destruct (f_fired f) eqn:F; [reflexivity|].
  exfalso. exact (Hall f Hf (eq_sym E) F).
Qed.

Lemma no_counting_when_disabled c pol s h :
  reachable c pol s -> c_fail_timeout c <= 0 -> fails s h = 0.
Proof.
  intros R Hoff. rewrite (fails_counts_pending _ _ _ h R). unfold pending.
  rewrite (inv_off _ _ (reachable_inv _ _ _ R) Hoff). reflexivity.
Qed.

(* down exactly while unhealthy or at least max_fails failures whose expiry has not fired *)
Lemma down_iff_pending c pol s h :
  reachable c pol s ->
  (down c s h = true <-> unhealthy s h = true \/ c_max_fails c <= pending s h).
Proof.
  intros R. unfold down. rewrite (fails_counts_pending _ _ _ h R).
  rewrite orb_true_iff, Z.leb_le. reflexivity.
Qed.

Lemma down_iff_maxfails c pol s h :
  reachable c pol s -> prompt c s ->
  (down c s h = true <-> unhealthy s h = true \/ c_max_fails c <= unexpired c s h).
Proof.
  intros R Pr. unfold down. rewrite (fails_counts_unexpired _ _ _ h R Pr).
  rewrite orb_true_iff, Z.leb_le. reflexivity.
Qed.

Lemma down_while_maxfails_unexpired c pol s h :
  reachable c pol s ->
  unhealthy s h = true \/ c_max_fails c <= unexpired c s h -> down c s h = true.
Proof.
  intros R H. unfold down. apply orb_true_iff. destruct H as [H|H]; [left; exact H|right].
  apply Z.leb_le. pose proof (fails_ge_unexpired _ _ _ h R). lia.
Qed.

Lemma never_down_when_disabled c pol s h :
  reachable c pol s -> c_fail_timeout c <= 0 -> 1 <= c_max_fails c -> down c s h = unhealthy s h.
Proof.
  intros R Hoff Hm. unfold down. rewrite (no_counting_when_disabled _ _ _ h R Hoff).
  assert (E : (c_max_fails c <=? 0) = false) by (apply Z.leb_gt; lia).
  rewrite E, orb_false_r. reflexivity.
Qed.

(* ---- why the three seeded changes are wrong ---- *)
(* a failure is recorded whatever the state of the host: also when it is already down *)
Lemma failure_recorded_in_every_state c pol s t h again s' :
  nth_error (threads s) t = Some (Failed h) -> 0 < c_fail_timeout c ->
  step c pol s (LRecord t again) = Some s' ->
  fails s' h = fails s h + 1 /\
  flog s' = flog s ++ [{| f_host := h; f_at := now s; f_fired := None |}] /\
  now s' = now s /\ nth_error (threads s') t = Some (retry_pc again).
Proof.
  intros Hn Hft H. unfold step in H. rewrite Hn in H.
  assert (E : (0 <? c_fail_timeout c) = true) by (apply Z.ltb_lt; exact Hft). rewrite E in H.
  injection H as <-. sset. repeat split; [apply bump_same | exact (nth_error_set_nth _ _ _ _ Hn)].
Qed.

(* what has been recorded stays in the log (its host and time never change) *)
Definition logged (s : state) (h : nat) (a : Z) : Prop :=
  exists f, In f (flog s) /\ f_host f = h /\ f_at f = a.

Lemma in_set_nth_inv {A} (l : list A) k v x y :
  nth_error l k = Some y -> In x l -> x = y \/ In x (set_nth l k v).
Proof.
  revert k; induction l as [|z l IH]; intros [|k] Hn Hx; simpl in *; try discriminate.
  - injection Hn as ->. destruct Hx as [->|Hx]; [left; reflexivity | right; right; exact Hx].
  - destruct Hx as [->|Hx]; [right; left; reflexivity|].
    destruct (IH k Hn Hx) as [E|E]; [left; exact E | right; right; exact E].
Qed.

Lemma in_set_nth_new {A} (l : list A) k v y : nth_error l k = Some y -> In v (set_nth l k v).
Proof.
  revert k; induction l as [|z l IH]; intros [|k] Hn; simpl in *; try discriminate.
  - left; reflexivity.
  - right. exact (IH k Hn).
Qed.

Lemma step_logged c pol s l s' h a : step c pol s l = Some s' -> logged s h a -> logged s' h a.
Proof.
  intros H (f & Hf & Hh & Ha). destruct l; unfold step in H.
  - injection H as <-. exists f; auto.
  - destruct (nth_error (threads s) t) as [[| | | | | |]|]; try discriminate. injection H as <-. exists f; auto.
  - destruct (nth_error (threads s) t) as [[|obs cur| | | | |]|]; try discriminate.
    match type of H with match ?rn with _ => _ end = _ => destruct rn; [|discriminate] end. injection H as <-. exists f; auto.
  - destruct (nth_error (threads s) t) as [[|obs [?|]| | | | |]|]; try discriminate.
    destruct (pol obs ho); [|discriminate]. injection H as <-. exists f; auto.
  - destruct (nth_error (threads s) t) as [[| |[x|]| | | |]|]; try discriminate. injection H as <-. exists f; auto.
  - destruct (nth_error (threads s) t) as [[| | |x n| | |]|]; try discriminate.
    destruct (conns s x =? n); injection H as <-; exists f; auto.
  - destruct (nth_error (threads s) t) as [[| |[x|]| | | |]|]; try discriminate. injection H as <-. exists f; auto.
  - destruct (nth_error (threads s) t) as [[| | | |x| |]|]; try discriminate. injection H as <-. exists f; auto.
  - destruct (nth_error (threads s) t) as [[| | | | |x|]|]; try discriminate.
    destruct (0 <? c_fail_timeout c); injection H as <-; exists f; sset; auto.
    repeat split; auto. apply in_or_app. left. exact Hf.
  - destruct (nth_error (flog s) k) as [g|] eqn:Hn; [|discriminate].
    destruct (asleep g && (f_at g + c_fail_timeout c <=? now s)); [|discriminate]. injection H as <-. sset.
    destruct (in_set_nth_inv _ k (fire g (now s)) _ _ Hn Hf) as [E|E].
    + subst g. exists (fire f (now s)). repeat split; auto. exact (in_set_nth_new _ _ _ _ Hn).
    + exists f. auto.
  - destruct (0 <=? d); [|discriminate]. injection H as <-. exists f; auto.
  - injection H as <-. exists f; auto.
  - destruct (nth_error (threads s) t) as [[| | | | | |]|]; try discriminate; injection H as <-; exists f; auto.
Qed.

Lemma run_logged c pol ls : forall s s' h a, run c pol s ls = Some s' -> logged s h a -> logged s' h a.
Proof.
  induction ls as [|l ls IH]; intros s s' h a H L; simpl in H.
  - injection H as <-. exact L.
  - destruct (step c pol s l) as [s1|] eqn:E; [|discriminate].
    exact (IH _ _ _ _ H (step_logged _ _ _ _ _ _ _ E L)).
Qed.

(* a recorded failure is counted until fail_timeout has passed since IT was recorded, whatever
   happens in between (older failures expiring, the host being down already, health verdicts ...) *)
Lemma failure_counted_for_fail_timeout c pol s t h again s1 ls s2 :
  reachable c pol s -> nth_error (threads s) t = Some (Failed h) -> 0 < c_fail_timeout c ->
  step c pol s (LRecord t again) = Some s1 -> run c pol s1 ls = Some s2 ->
  now s2 < now s + c_fail_timeout c -> 1 <= fails s2 h.
Proof.
  intros R Hn Hft H1 H2 Hy.
  destruct (failure_recorded_in_every_state _ _ _ _ _ _ _ Hn Hft H1) as (_ & Hl & _ & _).
  assert (L1 : logged s1 h (now s)).
  { exists {| f_host := h; f_at := now s; f_fired := None |}. rewrite Hl. repeat split.
    apply in_or_app. right. left. reflexivity. }
  destruct (run_logged _ _ _ _ _ _ _ H2 L1) as (f & Hf & Hh & Ha).
  assert (R2 : reachable c pol s2).
  { apply (reachable_run _ _ s1 ls); [|exact H2]. apply (reachable_run _ _ s [LRecord t again]); [exact R|].
    simpl. rewrite H1. reflexivity. }
  assert (Hs : f_fired f = None) by (apply (young_failure_asleep _ _ _ _ R2 Hf); lia).
  rewrite (fails_counts_pending _ _ _ h R2). unfold pending.
  assert (P : (on_host h f && asleep f) = true).
  { unfold on_host, asleep. rewrite Hh, Nat.eqb_refl, Hs. reflexivity. }
  clear - Hf P. induction (flog s2) as [|g l IH]; [contradiction|]. simpl.
  pose proof (cnt_nonneg (fun f0 => on_host h f0 && asleep f0) l).
  destruct Hf as [->|Hf]; [rewrite P; lia | specialize (IH Hf); destruct (on_host h g && asleep g); lia].
Qed.

Lemma failure_extends_down_window c pol s t h again s1 ls s2 :
  reachable c pol s -> nth_error (threads s) t = Some (Failed h) -> 0 < c_fail_timeout c ->
  step c pol s (LRecord t again) = Some s1 -> run c pol s1 ls = Some s2 ->
  now s2 < now s + c_fail_timeout c -> c_max_fails c <= 1 -> down c s2 h = true.
Proof.
  intros R Hn Hft H1 H2 Hy Hm.
  pose proof (failure_counted_for_fail_timeout _ _ _ _ _ _ _ _ _ R Hn Hft H1 H2 Hy) as F.
  unfold down. apply orb_true_iff. right. apply Z.leb_le. lia.
Qed.

(* one expiry event undoes exactly its own failure: one decrement of that host, every other
   recorded failure untouched *)
Lemma expiry_clears_only_its_own_failure c pol s k s' :
  step c pol s (LFire k) = Some s' ->
  exists f, nth_error (flog s) k = Some f /\ f_fired f = None /\ f_at f + c_fail_timeout c <= now s /\
            fails s' (f_host f) = fails s (f_host f) - 1 /\
            (forall h, h <> f_host f -> fails s' h = fails s h) /\
            flog s' = set_nth (flog s) k (fire f (now s)) /\
            (forall j, j <> k -> nth_error (flog s') j = nth_error (flog s) j) /\
            conns s' = conns s /\ unhealthy s' = unhealthy s /\ threads s' = threads s.
Proof.
  intros H. unfold step in H. destruct (nth_error (flog s) k) as [f|] eqn:Hn; [|discriminate].
  destruct (asleep f && (f_at f + c_fail_timeout c <=? now s)) eqn:G; [|discriminate].
  injection H as <-. apply andb_true_iff in G as [Ga Gd]. apply Z.leb_le in Gd. sset.
  exists f. repeat split; auto.
  - unfold asleep in Ga. destruct (f_fired f); [discriminate | reflexivity].
  - rewrite bump_same. lia.
  - intros h Hh. rewrite bump_spec. destruct (Nat.eqb h (f_host f)) eqn:E; [|lia].
    apply Nat.eqb_eq in E. contradiction.
  - intros j Hj. apply nth_error_set_nth_other. exact Hj.
Qed.

(* ---------- the counters really do return to zero: time passes, the sleeping goroutines run ---------- *)
Fixpoint maxdl (ft : Z) (l : list frec) : Z :=
  match l with [] => 0 | f :: r => Z.max (f_at f + ft) (maxdl ft r) end.

Lemma maxdl_ge ft l f : In f l -> f_at f + ft <= maxdl ft l.
Proof.
  induction l as [|x l IH]; intros H; [contradiction|]. simpl.
  destruct H as [<-|H]; [lia|]. specialize (IH H). lia.
Qed.

Definition sleepers (s : state) : Z := cnt asleep (flog s).

Lemma fire_all c pol : forall n s,
  sleepers s = Z.of_nat n ->
  (forall f, In f (flog s) -> asleep f = true -> f_at f + c_fail_timeout c <= now s) ->
  exists ls s', run c pol s ls = Some s' /\ (forall f, In f (flog s') -> asleep f = false) /\
             threads s' = threads s /\ conns s' = conns s /\ now s' = now s /\ unhealthy s' = unhealthy s.
Proof.
  induction n as [|n IH]; intros s Hl Hd.
  - exists [], s. simpl. repeat split; auto. intros f Hf. exact (cnt_zero_inv _ _ _ Hl Hf).
  - destruct (cnt_pos_nth asleep (flog s)) as (k & f & Hk & Hf); [unfold sleepers in Hl; lia|].
    assert (Hdue : (asleep f && (f_at f + c_fail_timeout c <=? now s)) = true).
    { rewrite Hf. simpl. apply Z.leb_le. exact (Hd f (nth_error_In _ _ Hk) Hf). }
    set (s1 := set_fails s (bump (fails s) (f_host f) (-1)) (set_nth (flog s) k (fire f (now s)))).
    assert (H1 : step c pol s (LFire k) = Some s1) by (unfold step; rewrite Hk, Hdue; reflexivity).
    destruct (IH s1) as (ls & s' & Hr & Ha & Hth & Hc & Hn & Hu).
    + unfold sleepers, s1. simpl. rewrite (cnt_set_nth _ _ _ _ _ Hk). rewrite Hf. unfold fire, asleep at 2. simpl.
      unfold sleepers in Hl. unfold b2z. lia.
    + unfold s1. simpl. intros g Hg Hs. apply in_set_nth in Hg as [->|Hg]; [discriminate Hs | exact (Hd g Hg Hs)].
    + exists (LFire k :: ls), s'. cbn [run]. rewrite H1. repeat split; auto.
Qed.

Lemma fails_drain c pol s :
  reachable c pol s ->
  exists ls s', run c pol s ls = Some s' /\ reachable c pol s' /\
                (forall h, fails s' h = 0) /\ threads s' = threads s /\ conns s' = conns s.
Proof.
  intros R.
  set (d := Z.max 0 (maxdl (c_fail_timeout c) (flog s) - now s)).
  assert (Hd : (0 <=? d) = true) by (apply Z.leb_le; unfold d; lia).
  set (s1 := set_now s (now s + d)).
  assert (H1 : step c pol s (LTick d) = Some s1) by (unfold step; rewrite Hd; reflexivity).
  pose proof (cnt_nonneg asleep (flog s1)) as Hnn.
  destruct (fire_all c pol (Z.to_nat (sleepers s1)) s1) as (ls & s' & Hr & Ha & Hth & Hc & Hn & Hu).
  { unfold sleepers in *. lia. }
  { unfold s1. simpl. intros f Hf _. pose proof (maxdl_ge (c_fail_timeout c) _ _ Hf). unfold d. lia. }
  exists (LTick d :: ls), s'.
  assert (Hrun : run c pol s (LTick d :: ls) = Some s') by (cbn [run]; rewrite H1; exact Hr).
  pose proof (reachable_run _ _ _ _ _ R Hrun) as R'.
  repeat split; auto.
  intros h. apply (fails_zero_when_all_fired _ _ _ _ R'). intros f Hf _ E.
  specialize (Ha f Hf). unfold asleep in Ha. rewrite E in Ha. discriminate.
Qed.

(* ---------- quiescence is stable: nothing but a new request (or nothing at all) changes the counters ---------- *)
Definition quiescent (s : state) : Prop :=
  forallb is_done (threads s) = true /\ all_fired s = true.

Lemma step_quiescent c pol s l s' :
  quiescent s -> is_spawn l = false -> step c pol s l = Some s' -> quiescent s'.
Proof.
  intros [Qd Qf] Hl H.
  assert (D : forall t p, nth_error (threads s) t = Some p -> is_done p = true).
  { intros t p Hn. rewrite forallb_forall in Qd. exact (Qd _ (nth_error_In _ _ Hn)). }
  destruct l; try discriminate Hl; try (open_thread H s t Hn; specialize (D _ _ Hn); discriminate D).
  - unfold step in H. destruct (nth_error (flog s) k) as [f|] eqn:Hn; [|discriminate].
    destruct (asleep f) eqn:Ha; [|discriminate].
    unfold all_fired in Qf. rewrite forallb_forall in Qf. specialize (Qf _ (nth_error_In _ _ Hn)).
    rewrite Ha in Qf. discriminate.
  - unfold step in H. destruct (0 <=? d); [|discriminate]. injection H as <-. split; assumption.
  - unfold step in H. injection H as <-. split; assumption.
Qed.

Lemma quiescent_zero c pol ls : forall s s',
  reachable c pol s -> quiescent s -> existsb is_spawn ls = false -> run c pol s ls = Some s' ->
  quiescent s' /\ forall h, conns s' h = 0 /\ fails s' h = 0.
Proof.
  induction ls as [|l ls IH]; intros s s' R Q Hl H; simpl in H.
  - injection H as <-. split; [exact Q|]. destruct Q as [Qd Qf]. intros h. split.
    + exact (conns_zero_at_quiescence _ _ _ R Qd h).
    + apply (fails_zero_when_all_fired _ _ _ _ R). intros f Hf _ E.
      unfold all_fired in Qf. rewrite forallb_forall in Qf. specialize (Qf f Hf). unfold asleep in Qf.
      rewrite E in Qf. discriminate.
  - destruct (step c pol s l) as [s1|] eqn:E; [|discriminate].
    simpl in Hl. apply orb_false_iff in Hl as [Hl1 Hl2].
    apply (IH s1 s'); auto.
    + apply (reachable_run _ _ s [l]); [exact R|]. simpl. rewrite E. reflexivity.
    + exact (step_quiescent _ _ _ _ _ Q Hl1 E).
Qed.

(* ---------- leaving the window: acquireConn ---------- *)
Lemma load_refused_or_loaded c pol s t h s' :
  nth_error (threads s) t = Some (Selected (Some h)) -> step c pol s (LLoad t) = Some s' ->
  conns s' = conns s /\ fails s' = fails s /\
  (full c s h = true -> nth_error (threads s') t = Some (Selected None)) /\
  (full c s h = false -> nth_error (threads s') t = Some (Acquiring h (conns s h))).
Proof.
  intros Hn H. unfold step in H. rewrite Hn in H. injection H as <-. sset.
  repeat split; intros F; rewrite F; exact (nth_error_set_nth _ _ _ _ Hn).
Qed.

Lemma cas_won_or_lost c pol s t h n s' :
  nth_error (threads s) t = Some (Acquiring h n) -> step c pol s (LCas t) = Some s' ->
  (conns s h = n -> nth_error (threads s') t = Some (Forwarding h) /\ conns s' h = conns s h + 1 /\
                    forall h', h' <> h -> conns s' h' = conns s h') /\
  (conns s h <> n -> nth_error (threads s') t = Some (Selected (Some h)) /\ conns s' = conns s).
Proof.
  intros Hn H. unfold step in H. rewrite Hn in H. destruct (conns s h =? n) eqn:E.
  - injection H as <-. apply Z.eqb_eq in E. sset. split; [|intros; contradiction]. intros _.
    repeat split; [exact (nth_error_set_nth _ _ _ _ Hn) | apply bump_same |].
    intros h' Hh. rewrite bump_spec. destruct (Nat.eqb h' h) eqn:E'; [apply Nat.eqb_eq in E'; contradiction | lia].
  - injection H as <-. apply Z.eqb_neq in E. sset. split; [intros; contradiction|]. intros _.
    split; [exact (nth_error_set_nth _ _ _ _ Hn) | reflexivity].
Qed.

Lemma begin_forwards_unless_full c pol s t h s' :
  nth_error (threads s) t = Some (Selected (Some h)) -> acquire c pol s t = Some s' ->
  (full c s h = false -> nth_error (threads s') t = Some (Forwarding h) /\ conns s' h = conns s h + 1) /\
  (full c s h = true -> nth_error (threads s') t = Some (Selected None) /\ conns s' = conns s).
Proof.
  intros Hn H. unfold acquire in H. destruct (step c pol s (LLoad t)) as [s1|] eqn:E1; [|discriminate].
  destruct (load_refused_or_loaded _ _ _ _ _ _ Hn E1) as (Hc & _ & Hf & Hl).
  destruct (full c s h) eqn:F.
  - rewrite (Hf eq_refl) in H. injection H as <-. split; [discriminate|]. intros _. split; [exact (Hf eq_refl) | exact Hc].
  - rewrite (Hl eq_refl) in H. split; [|discriminate]. intros _.
    destruct (cas_won_or_lost _ _ _ _ _ _ _ (Hl eq_refl) H) as [Hw _].
    destruct Hw as (A & B & _); [rewrite Hc; reflexivity|]. rewrite Hc in B. split; assumption.
Qed.

(* ---------- Select is a sequence of reads: what its answer guarantees ---------- *)
(* evidence a request inside Select holds about host h: level 1 = Unhealthy was loaded 0, level 2 = and Fails
   below max_fails, level 3 (and every other k) = and Conns below the cap, i.e. Available() answered true *)
Definition evid (k : nat) (h : nat) (p : option pc) : Prop :=
  match p with
  | Some (Selecting obs cur) =>
      In (h, true) obs \/
      match cur with
      | Some (h', st) => h' = h /\ (k = 1%nat \/ (k = 2%nat /\ st = true))
      | None => False
      end
  | _ => False
  end.
(* the fact about the state that a load of that level established *)
Definition fact (c : config) (k : nat) (s : state) (h : nat) : Prop :=
  match k with
  | 1%nat => unhealthy s h = false
  | 2%nat => fails s h < c_max_fails c
  | _ => full c s h = false
  end.

Lemma pc_at_set s t t0 q p :
  nth_error (threads s) t0 = Some q ->
  nth_error (threads (set_threads s (set_nth (threads s) t0 p))) t = if Nat.eqb t t0 then Some p else nth_error (threads s) t.
Proof.
  intros Hn. simpl. destruct (Nat.eqb t t0) eqn:E.
  - apply Nat.eqb_eq in E. subst t0. exact (nth_error_set_nth _ _ _ _ Hn).
  - apply Nat.eqb_neq in E. exact (nth_error_set_nth_other _ _ _ _ E).
Qed.

Lemma read_next_evid c s h0 obs cur p k h :
  read_next c s h0 obs cur = Some p -> evid k h (Some p) ->
  evid k h (Some (Selecting obs cur)) \/ fact c k s h.
Proof.
  unfold read_next. intros H Ev. destruct cur as [[h' st]|].
  - destruct (Nat.eqb h0 h') eqn:E0; [|discriminate]. apply Nat.eqb_eq in E0. subst h'. destruct st.
    + (* the Conns load *) injection H as <-. simpl in Ev. destruct Ev as [[E|Hi]|[]].
      * injection E as -> Hf. apply negb_true_iff in Hf.
        destruct k as [|[|[|k]]]; simpl; [right; exact Hf | left; right; auto | left; right; auto | right; exact Hf].
      * left. left. exact Hi.
    + (* the Fails load *) destruct (c_max_fails c <=? fails s h0) eqn:F; injection H as <-; simpl in Ev.
      * destruct Ev as [[E|Hi]|[]]; [discriminate E | left; left; exact Hi].
      * apply Z.leb_gt in F. destruct Ev as [Hi|[-> [->|[-> _]]]]; [left; left; exact Hi | left; right; auto | right; exact F].
  - (* the Unhealthy load *) destruct (unhealthy s h0) eqn:U; injection H as <-; simpl in Ev.
    + destruct Ev as [[E|Hi]|[]]; [discriminate E | left; left; exact Hi].
    + destruct Ev as [Hi|[-> [->|[_ E]]]]; [left; left; exact Hi | right; exact U | discriminate E].
Qed.

Lemma step_evid c pol s l s' t k h :
  step c pol s l = Some s' -> is_selstart t l = false ->
  evid k h (nth_error (threads s') t) -> evid k h (nth_error (threads s) t) \/ fact c k s h.
Proof.
  intros H Hl Ev.
  (* a thread step that leaves thread t0 at a program counter outside Select *)
  assert (K : forall t0 q p, nth_error (threads s) t0 = Some q ->
              evid k h (nth_error (threads (set_threads s (set_nth (threads s) t0 p))) t) ->
              (forall o cu, p <> Selecting o cu) -> evid k h (nth_error (threads s) t) \/ fact c k s h).
  { intros t0 q p Hn Hi Hp. rewrite (pc_at_set _ _ _ _ _ Hn) in Hi.
    destruct (Nat.eqb t t0); [|left; exact Hi].
    destruct p; simpl in Hi; try contradiction. exfalso. exact (Hp _ _ eq_refl). }
  destruct l.
  - (* spawn *) unfold step in H. injection H as <-. left. simpl in Ev.
    destruct (nth_error (threads s) t) as [p|] eqn:E.
    + rewrite nth_error_app1 in Ev by (apply nth_error_Some; congruence). rewrite E in Ev. exact Ev.
    + apply nth_error_None in E. rewrite nth_error_app2 in Ev by exact E.
      destruct (t - length (threads s))%nat as [|[|j]]; simpl in Ev; contradiction.
  - open_thread H s t0 Hn. injection H as <-. simpl in Hl. rewrite (pc_at_set _ _ _ _ _ Hn) in Ev.
    rewrite Hl in Ev. left. exact Ev.
  - open_thread H s t0 Hn. destruct (read_next c s h0 obs cur) as [p|] eqn:Er; [|discriminate]. injection H as <-.
    rewrite (pc_at_set _ _ _ _ _ Hn) in Ev. destruct (Nat.eqb t t0) eqn:E; [|left; exact Ev].
    apply Nat.eqb_eq in E. subst t0. rewrite Hn. exact (read_next_evid _ _ _ _ _ _ _ _ Er Ev).
  - open_thread H s t0 Hn. destruct cur; [discriminate|]. destruct (pol obs ho); [|discriminate]. injection H as <-.
    change (threads (set_robin (set_threads s (set_nth (threads s) t0 (Selected ho))) r))
      with (threads (set_threads s (set_nth (threads s) t0 (Selected ho)))) in Ev.
    apply (K _ _ _ Hn Ev). intros ? ? E; discriminate E.
  - open_thread H s t0 Hn. injection H as <-. apply (K _ _ _ Hn Ev).
    intros ? ? E. destruct (full c s h0); discriminate E.
  - open_thread H s t0 Hn. destruct (conns s h0 =? n); injection H as <-.
    + change (threads (set_conns (set_threads s (set_nth (threads s) t0 (Forwarding h0))) (bump (conns s) h0 1)))
        with (threads (set_threads s (set_nth (threads s) t0 (Forwarding h0)))) in Ev.
      apply (K _ _ _ Hn Ev). intros ? ? E; discriminate E.
    + apply (K _ _ _ Hn Ev). intros ? ? E; discriminate E.
  - open_thread H s t0 Hn. injection H as <-. apply (K _ _ _ Hn Ev).
    intros ? ? E. destruct again; discriminate E.
  - open_thread H s t0 Hn. injection H as <-.
    change (threads (set_conns (set_threads s (set_nth (threads s) t0 (after_forward o h0))) (bump (conns s) h0 (-1))))
      with (threads (set_threads s (set_nth (threads s) t0 (after_forward o h0)))) in Ev.
    apply (K _ _ _ Hn Ev). intros ? ? E. destruct o; discriminate E.
  - open_thread H s t0 Hn. destruct (0 <? c_fail_timeout c); injection H as <-.
    + change (threads (set_fails (set_threads s (set_nth (threads s) t0 (retry_pc again))) (bump (fails s) h0 1)
                 (flog s ++ [{| f_host := h0; f_at := now s; f_fired := None |}])))
        with (threads (set_threads s (set_nth (threads s) t0 (retry_pc again)))) in Ev.
      apply (K _ _ _ Hn Ev). intros ? ? E. destruct again; discriminate E.
    + apply (K _ _ _ Hn Ev). intros ? ? E. destruct again; discriminate E.
  - unfold step in H. destruct (nth_error (flog s) k0) as [f|]; [|discriminate].
    destruct (asleep f && (f_at f + c_fail_timeout c <=? now s)); [|discriminate]. injection H as <-.
    left. exact Ev.
  - unfold step in H. destruct (0 <=? d); [|discriminate]. injection H as <-. left. exact Ev.
  - unfold step in H. injection H as <-. left. exact Ev.
  - open_thread H s t0 Hn; injection H as <-; left; exact Ev.
Qed.

Lemma run_evid c pol t k h : forall ls s s',
  run c pol s ls = Some s' -> existsb (is_selstart t) ls = false ->
  evid k h (nth_error (threads s') t) ->
  evid k h (nth_error (threads s) t) \/
  exists l1 l2 si, ls = l1 ++ l2 /\ run c pol s l1 = Some si /\ fact c k si h.
Proof.
  induction ls as [|l ls IH]; intros s s' H Hl Ev; simpl in H.
  - injection H as <-. left. exact Ev.
  - destruct (step c pol s l) as [s1|] eqn:E; [|discriminate].
    simpl in Hl. apply orb_false_iff in Hl as [Hl1 Hl2].
    destruct (IH _ _ H Hl2 Ev) as [Hi|(l1 & l2 & si & El & Hr & Ha)].
    + destruct (step_evid _ _ _ _ _ _ _ _ E Hl1 Hi) as [Hi'|Ha]; [left; exact Hi'|].
      right. exists [], (l :: ls), s. repeat split. exact Ha.
    + right. exists (l :: l1), l2, si. repeat split; [simpl; rewrite El; reflexivity | simpl; rewrite E; exact Hr | exact Ha].
Qed.

(* each of the three facts that make the returned host available held in some state between the
   entry and the return of that Select *)
Lemma select_result_fact c pol k s0 t mid h r s1 :
  pol_sound pol -> existsb (is_selstart t) mid = false ->
  run c pol s0 (LSelStart t :: mid ++ [LSelEnd t (Some h) r]) = Some s1 ->
  exists l1 l2 si, mid = l1 ++ l2 /\ run c pol s0 (LSelStart t :: l1) = Some si /\ fact c k si h.
Proof.
  intros Hs Hm H. cbn [run] in H. destruct (step c pol s0 (LSelStart t)) as [sa|] eqn:Ea; [|discriminate].
  destruct (run_app_inv _ _ _ _ _ _ H) as (sb & Hmid & Hend). simpl in Hend.
  destruct (step c pol sb (LSelEnd t (Some h) r)) as [sc|] eqn:Ee; [|discriminate].
  assert (Hin : evid k h (nth_error (threads sb) t)).
  { unfold step in Ee. destruct (nth_error (threads sb) t) as [[|obs [?|]| | | | |]|]; try discriminate.
    destruct (pol obs (Some h)) eqn:P; [|discriminate]. left. exact (Hs _ _ P). }
  assert (Hemp : nth_error (threads sa) t = Some (Selecting [] None)).
  { open_thread Ea s0 t Hn. injection Ea as <-. rewrite (pc_at_set _ _ _ _ _ Hn), Nat.eqb_refl. reflexivity. }
  destruct (run_evid _ _ _ _ _ _ _ _ Hmid Hm Hin) as [Hi|(l1 & l2 & si & El & Hr & Ha)].
  - rewrite Hemp in Hi. simpl in Hi. destruct Hi as [[]|[]].
  - exists l1, l2, si. repeat split; [exact El | cbn [run]; rewrite Ea; exact Hr | exact Ha].
Qed.

Lemma select_result_available_during c pol s0 t mid h r s1 :
  pol_sound pol -> existsb (is_selstart t) mid = false ->
  run c pol s0 (LSelStart t :: mid ++ [LSelEnd t (Some h) r]) = Some s1 ->
  (exists l1 l2 si, mid = l1 ++ l2 /\ run c pol s0 (LSelStart t :: l1) = Some si /\ unhealthy si h = false) /\
  (exists l1 l2 si, mid = l1 ++ l2 /\ run c pol s0 (LSelStart t :: l1) = Some si /\ fails si h < c_max_fails c) /\
  (exists l1 l2 si, mid = l1 ++ l2 /\ run c pol s0 (LSelStart t :: l1) = Some si /\ full c si h = false).
Proof.
  intros Hs Hm H. repeat split.
  - exact (select_result_fact c pol 1 _ _ _ _ _ _ Hs Hm H).
  - exact (select_result_fact c pol 2 _ _ _ _ _ _ Hs Hm H).
  - exact (select_result_fact c pol 3 _ _ _ _ _ _ Hs Hm H).
Qed.

Lemma step_unhealthy_stays c pol s l s' h :
  step c pol s l = Some s' -> is_heal h l = false -> unhealthy s h = true -> unhealthy s' h = true.
Proof.
  intros H Hl U. destruct l; unfold step in H.
  - injection H as <-. exact U.
  - destruct (nth_error (threads s) t) as [[| | | | | |]|]; try discriminate. injection H as <-. exact U.
  - destruct (nth_error (threads s) t) as [[|obs cur| | | | |]|]; try discriminate.
    match type of H with match ?rn with _ => _ end = _ => destruct rn; [|discriminate] end. injection H as <-. exact U.
  - destruct (nth_error (threads s) t) as [[|obs [?|]| | | | |]|]; try discriminate.
    destruct (pol obs ho); [|discriminate]. injection H as <-. exact U.
  - destruct (nth_error (threads s) t) as [[| |[x|]| | | |]|]; try discriminate. injection H as <-. exact U.
  - destruct (nth_error (threads s) t) as [[| | |x n| | |]|]; try discriminate.
    destruct (conns s x =? n); injection H as <-; exact U.
  - destruct (nth_error (threads s) t) as [[| |[x|]| | | |]|]; try discriminate. injection H as <-. exact U.
  - destruct (nth_error (threads s) t) as [[| | | |x| |]|]; try discriminate. injection H as <-. exact U.
  - destruct (nth_error (threads s) t) as [[| | | | |x|]|]; try discriminate.
    destruct (0 <? c_fail_timeout c); injection H as <-; exact U.
  - destruct (nth_error (flog s) k) as [g|]; [|discriminate].
    destruct (asleep g && (f_at g + c_fail_timeout c <=? now s)); [|discriminate]. injection H as <-. exact U.
  - destruct (0 <=? d); [|discriminate]. injection H as <-. exact U.
  - injection H as <-. simpl. rewrite setb_spec. destruct (Nat.eqb h h0) eqn:E; [|exact U].
    simpl in Hl. destruct b; [reflexivity|]. rewrite E in Hl. discriminate.
  - destruct (nth_error (threads s) t) as [[| | | | | |]|]; try discriminate; injection H as <-; exact U.
Qed.

Lemma run_unhealthy_stays c pol h : forall ls s s',
  run c pol s ls = Some s' -> existsb (is_heal h) ls = false -> unhealthy s h = true -> unhealthy s' h = true.
Proof.
  induction ls as [|l ls IH]; intros s s' H Hl U; simpl in H.
  - injection H as <-. exact U.
  - destruct (step c pol s l) as [s1|] eqn:E; [|discriminate].
    simpl in Hl. apply orb_false_iff in Hl as [Hl1 Hl2].
    exact (IH _ _ H Hl2 (step_unhealthy_stays _ _ _ _ _ _ E Hl1 U)).
Qed.

(* a host marked unhealthy before the request enters Select, and not declared healthy while that
   Select runs, is not its answer: no schedule contains such a Select *)
Lemma unhealthy_before_select_never_selected c pol s0 t mid h r :
  pol_sound pol -> unhealthy s0 h = true ->
  existsb (is_selstart t) mid = false -> existsb (is_heal h) mid = false ->
  run c pol s0 (LSelStart t :: mid ++ [LSelEnd t (Some h) r]) = None.
Proof.
  intros Hs U Hm Hh. destruct (run c pol s0 (LSelStart t :: mid ++ [LSelEnd t (Some h) r])) as [s1|] eqn:H; [|reflexivity].
  exfalso. destruct (select_result_fact c pol 1 _ _ _ _ _ _ Hs Hm H) as (l1 & l2 & si & El & Hr & Ha).
  assert (Hh1 : existsb (is_heal h) (LSelStart t :: l1) = false).
  { simpl. rewrite El, existsb_app in Hh. apply orb_false_iff in Hh as [Hh _]. exact Hh. }
  pose proof (run_unhealthy_stays _ _ _ _ _ _ Hr Hh1 U) as Ui.
  simpl in Ha. rewrite Ui in Ha. discriminate.
Qed.

Lemma pol_std_sound n : pol_sound (pol_std n).
Proof.
  intros obs h H. unfold pol_std, obs_has in H. apply existsb_exists in H as ([h' b] & Hin & E).
  simpl in E. apply andb_true_iff in E as [E1 E2]. apply Nat.eqb_eq in E1. subst h'.
  destruct b; [exact Hin | discriminate].
Qed.

(* ---------- the concrete policies, read as functions of a stable state ---------- *)
Lemma pol_first_sound c : psel_sound c (pol_first c).
Proof.
  intros s h r H. unfold pol_first in H. injection H as H _.
  apply find_some in H as [_ H]. exact H.
Qed.

Lemma rr_loop_sound c s n : forall fuel r h r', rr_loop c s n r fuel = (Some h, r') -> available c s h = true.
Proof.
  induction fuel as [|f IH]; intros r h r' H; simpl in H; [discriminate|].
  destruct (available c s (N.to_nat ((r + 1) mod n))) eqn:E.
  - injection H as <- _. exact E.
  - exact (IH _ _ _ H).
Qed.

Lemma pol_rr_sound c : psel_sound c (pol_rr c).
Proof. intros s h r H. exact (rr_loop_sound _ _ _ _ _ _ _ H). Qed.

Lemma psel_of_sound pol c : psel_sound c (psel_of pol c).
Proof. unfold psel_of. destruct (pol =? 0)%N; [apply pol_first_sound | apply pol_rr_sound]. Qed.

(* First answers nil only when no host of the pool is available *)
Lemma pol_first_complete c s r :
  pol_first c s = (None, r) -> forall h, (h < c_hosts c)%nat -> available c s h = false.
Proof.
  intros H h Hh. unfold pol_first in H. injection H as H _.
  apply (find_none _ _ H). apply in_seq. lia.
Qed.

(* the demonstration configuration: one backend, max_conns 1; [sched_window] is the schedule in
   which two requests share the select/increment window *)
Definition cfg_cap1 : config :=
  {| c_hosts := 1; c_max_conns := 1; c_max_fails := 1; c_fail_timeout := 10 |}.
Definition healthy : nat -> bool := fun _ => false.
Definition sel0 (t : nat) : list label :=
  [LSelStart t; LSelRead t 0%nat; LSelRead t 0%nat; LSelRead t 0%nat; LSelEnd t (Some 0%nat) 0%N].
Definition sched_window : list label :=
  [LSpawn; LSpawn] ++ sel0 0 ++ sel0 1 ++ [LLoad 0; LCas 0; LLoad 1].
(* both requests load Conns = 0 before either swaps: the second swap is lost and the request loads again *)
Definition sched_lost_cas : list label :=
  [LSpawn; LSpawn] ++ sel0 0 ++ sel0 1 ++ [LLoad 0; LLoad 1; LCas 0; LCas 1; LLoad 1].
(* two requests in flight, max_fails 1: the first failure takes the host down, the second arrives while it is down *)
Definition cfg_free : config :=
  {| c_hosts := 1; c_max_conns := 0; c_max_fails := 1; c_fail_timeout := 10 |}.
Definition sched_two_failures : list label :=
  [LSpawn; LSpawn] ++ sel0 0 ++ sel0 1 ++
  [LLoad 0; LCas 0; LLoad 1; LCas 1; LFinish 0 OError; LRecord 0 false; LTick 6; LFinish 1 OError].

(* ---------- the states the correspondence check evaluates are reachable states ---------- *)
Lemma repeat_snoc {A} (x : A) n : repeat x n ++ [x] = repeat x (S n).
Proof. induction n as [|n IH]; simpl; [reflexivity|]. rewrite IH. reflexivity. Qed.

Lemma spawn_run c pol r u : forall m k,
  run c pol (init_threads r u k) (repeat LSpawn m) = Some (init_threads r u (k + m)).
Proof.
  induction m as [|m IH]; intros k; simpl.
  - rewrite Nat.add_0_r. reflexivity.
  - unfold step, set_threads, init_threads at 1. simpl. rewrite repeat_snoc.
    change (run c pol (init_threads r u (S k)) (repeat LSpawn m) = Some (init_threads r u (k + S m))).
    rewrite (IH (S k)). rewrite Nat.add_succ_r. reflexivity.
Qed.

Lemma init_threads_reachable c pol r u n : reachable c pol (init_threads r u n).
Proof. exists r, u, (repeat LSpawn n). exact (spawn_run c pol r u n 0%nat). Qed.

Definition notick (l : label) : bool := match l with LTick _ => false | _ => true end.

Lemma run_one c pol s l s' : step c pol s l = Some s' -> run c pol s [l] = Some s'.
Proof. intros H. simpl. rewrite H. reflexivity. Qed.

(* a composite of the harness is a run of atomic steps in which no time passes *)
Definition quick_run c pol s s' : Prop := exists ls, run c pol s ls = Some s' /\ forallb notick ls = true.

Lemma quick_refl c pol s : quick_run c pol s s.
Proof. exists []. split; reflexivity. Qed.

Lemma quick_step c pol s l s' : step c pol s l = Some s' -> notick l = true -> quick_run c pol s s'.
Proof. intros H Hl. exists [l]. split; [exact (run_one _ _ _ _ _ H) | simpl; rewrite Hl; reflexivity]. Qed.

Lemma quick_trans c pol s1 s2 s3 : quick_run c pol s1 s2 -> quick_run c pol s2 s3 -> quick_run c pol s1 s3.
Proof.
  intros (l1 & H1 & N1) (l2 & H2 & N2). exists (l1 ++ l2). split; [exact (run_app _ _ _ _ _ _ _ H1 H2)|].
  rewrite forallb_app, N1, N2. reflexivity.
Qed.

Definition is_read (t : nat) (l : label) : bool := match l with LSelRead t' _ => Nat.eqb t t' | _ => false end.

Lemma avail_labels_reads c s0 t hs : forallb (is_read t) (flat_map (avail_labels c s0 t) hs) = true.
Proof.
  induction hs as [|h hs IH]; simpl; [reflexivity|]. rewrite forallb_app, IH, andb_true_r.
  unfold avail_labels. generalize (if unhealthy s0 h then 1%nat else if c_max_fails c <=? fails s0 h then 2%nat else 3%nat).
  intros n. induction n as [|n IHn]; simpl; [reflexivity|]. rewrite Nat.eqb_refl, IHn. reflexivity.
Qed.

Lemma reads_notick t ls : forallb (is_read t) ls = true -> forallb notick ls = true.
Proof.
  induction ls as [|l ls IH]; simpl; [reflexivity|]. intros H. apply andb_true_iff in H as [H1 H2].
  rewrite (IH H2). destruct l; try discriminate H1. reflexivity.
Qed.

Lemma quick_reads c pol s0 t hs : forall s s',
  run c pol s (flat_map (avail_labels c s0 t) hs) = Some s' -> quick_run c pol s s'.
Proof.
  intros s s' H. exists (flat_map (avail_labels c s0 t) hs). split; [exact H|].
  exact (reads_notick _ _ (avail_labels_reads c s0 t hs)).
Qed.

Lemma sel_scan_quick c pol s t s' : sel_scan c pol s t = Some s' -> quick_run c pol s s'.
Proof.
  intros H. unfold sel_scan in H. destruct (step c pol s (LSelStart t)) as [s1|] eqn:E1; [|discriminate].
  apply (quick_trans _ _ _ s1); [exact (quick_step _ _ _ _ _ E1 eq_refl)|].
  destruct (c_hosts c) as [|[|n]].
  - destruct (run c pol s1 (flat_map (avail_labels c s t) (scan_reads c s (seq 0 0)))) as [s2|] eqn:E2; [|discriminate].
    apply (quick_trans _ _ _ s2); [exact (quick_reads _ _ _ _ _ _ _ E2)|].
    destruct (existsb (available c s) (seq 0 0)); [injection H as <-; apply quick_refl|].
    exact (quick_step _ _ _ _ _ H eq_refl).
  - destruct (run c pol s1 (avail_labels c s t 0%nat)) as [s2|] eqn:E2; [|discriminate].
    apply (quick_trans _ _ _ s2).
    { apply (quick_reads c pol s t [0%nat]). simpl. rewrite app_nil_r. exact E2. }
    exact (quick_step _ _ _ _ _ H eq_refl).
  - destruct (run c pol s1 (flat_map (avail_labels c s t) (scan_reads c s (seq 0 (S (S n)))))) as [s2|] eqn:E2; [|discriminate].
    apply (quick_trans _ _ _ s2); [exact (quick_reads _ _ _ _ _ _ _ E2)|].
    destruct (existsb (available c s) (seq 0 (S (S n)))); [injection H as <-; apply quick_refl|].
    exact (quick_step _ _ _ _ _ H eq_refl).
Qed.

Lemma sel_policy_quick c pol ps s t s' : sel_policy c pol ps s t = Some s' -> quick_run c pol s s'.
Proof.
  intros H. unfold sel_policy in H.
  destruct (nth_error (threads s) t) as [[| | | | | |]|]; try discriminate.
  destruct (ps s) as [ho r].
  destruct (run c pol s (flat_map (avail_labels c s t) (seq 0 (c_hosts c)))) as [s1|] eqn:E1; [|discriminate].
  apply (quick_trans _ _ _ s1); [exact (quick_reads _ _ _ _ _ _ _ E1)|].
  exact (quick_step _ _ _ _ _ H eq_refl).
Qed.

Lemma acquire_quick c pol s t s' : acquire c pol s t = Some s' -> quick_run c pol s s'.
Proof.
  intros H. unfold acquire in H. destruct (step c pol s (LLoad t)) as [s1|] eqn:E1; [|discriminate].
  apply (quick_trans _ _ _ s1); [exact (quick_step _ _ _ _ _ E1 eq_refl)|].
  destruct (nth_error (threads s1) t) as [[| | | | | |]|]; try (injection H as <-; apply quick_refl).
  exact (quick_step _ _ _ _ _ H eq_refl).
Qed.

Lemma fire_due_run c pol : forall fuel s s', fire_due c pol s fuel = Some s' -> exists ls, run c pol s ls = Some s'.
Proof.
  induction fuel as [|f IH]; intros s s' H; simpl in H.
  - injection H as <-. exists []. reflexivity.
  - destruct (first_due (c_fail_timeout c) (flog s) (now s) 0) as [k|].
    + destruct (step c pol s (LFire k)) as [s1|] eqn:E; [|discriminate].
      destruct (IH _ _ H) as (ls & Hl). exists (LFire k :: ls). simpl. rewrite E. exact Hl.
    + injection H as <-. exists []. reflexivity.
Qed.

(* every harness step except the wait is a quick run *)
Lemma hexec_quick c pol ps s h s' e :
  (forall d, h <> HWait d) -> hexec c pol ps s h = Some (s', e) -> quick_run c pol s s'.
Proof.
  intros Hw H. destruct h; cbn [hexec] in H.
  - destruct (sel_scan c pol s t) as [s1|] eqn:E1; [|discriminate].
    pose proof (sel_scan_quick _ _ _ _ _ E1) as Q1.
    destruct (nth_error (threads s1) t) as [[| | | | | |]|]; try (injection H as <- _; exact Q1).
    destruct (sel_policy c pol ps s1 t) as [s2|] eqn:E2; [|discriminate]. injection H as <- _.
    exact (quick_trans _ _ _ _ _ Q1 (sel_policy_quick _ _ _ _ _ _ E2)).
  - destruct (sel_scan c pol s t) as [s1|] eqn:E1; [|discriminate]. injection H as <- _.
    exact (sel_scan_quick _ _ _ _ _ E1).
  - destruct (sel_policy c pol ps s t) as [s1|] eqn:E1; [|discriminate]. injection H as <- _.
    exact (sel_policy_quick _ _ _ _ _ _ E1).
  - destruct (nth_error (threads s) t) as [[| |[x|]| | | |]|]; try discriminate.
    + destruct (acquire c pol s t) as [s1|] eqn:E1; [|discriminate].
      pose proof (acquire_quick _ _ _ _ _ E1) as Q1.
      destruct (nth_error (threads s1) t) as [[| |[y|]| | | |]|]; try (injection H as <- _; exact Q1).
      destruct (step c pol s1 (LNoHost t again)) as [s2|] eqn:E2; [|discriminate]. injection H as <- _.
      exact (quick_trans _ _ _ _ _ Q1 (quick_step _ _ _ _ _ E2 eq_refl)).
    + destruct (step c pol s (LNoHost t again)) as [s1|] eqn:E; [|discriminate]. injection H as <- _.
      exact (quick_step _ _ _ _ _ E eq_refl).
  - destruct (nth_error (threads s) t) as [[| | | | | |]|]; try discriminate. injection H as <- _. apply quick_refl.
  - destruct (step c pol s (LFinish t o)) as [s1|] eqn:E; [|discriminate].
    pose proof (quick_step _ _ _ _ _ E eq_refl) as Q1.
    destruct o; try (injection H as <- _; exact Q1).
    destruct (step c pol s1 (LRecord t again)) as [s2|] eqn:E2; [|discriminate]. injection H as <- _.
    exact (quick_trans _ _ _ _ _ Q1 (quick_step _ _ _ _ _ E2 eq_refl)).
  - exfalso. exact (Hw d eq_refl).
  - destruct (step c pol s (LHealth h b)) as [s1|] eqn:E; [|discriminate]. injection H as <- _.
    exact (quick_step _ _ _ _ _ E eq_refl).
  - destruct (step c pol s (LCancel t)) as [s1|] eqn:E; [|discriminate]. injection H as <- _.
    exact (quick_step _ _ _ _ _ E eq_refl).
Qed.

Lemma hexec_run c pol ps s h s' e : hexec c pol ps s h = Some (s', e) -> exists ls, run c pol s ls = Some s'.
Proof.
  intros H. destruct h as [t|t|t|t again|t|t o again|d|h b|t]; try (match type of H with hexec _ _ _ _ ?hh = _ => assert (Hw : forall d0, hh <> HWait d0) by (intros ?; discriminate) end;
       destruct (hexec_quick _ _ _ _ _ _ _ Hw H) as (ls & Hl & _); exists ls; exact Hl).
  cbn [hexec] in H. destruct (step c pol s (LTick d)) as [s1|] eqn:E; [|discriminate].
  destruct (fire_due c pol s1 (length (flog s1))) as [s2|] eqn:E2; [|discriminate]. injection H as <- _.
  destruct (fire_due_run _ _ _ _ _ E2) as (ls & Hl). exists (LTick d :: ls). simpl. rewrite E. exact Hl.
Qed.

Lemma hexec_reachable c pol ps s h s' e :
  reachable c pol s -> hexec c pol ps s h = Some (s', e) -> reachable c pol s'.
Proof. intros R H. destruct (hexec_run _ _ _ _ _ _ _ H) as (ls & Hl). exact (reachable_run _ _ _ _ _ R Hl). Qed.

(* every step except the passing of time keeps the expiry goroutines on time *)
Lemma step_prompt c pol s l s' :
  notick l = true -> prompt c s -> step c pol s l = Some s' -> prompt c s'.
Proof.
  intros Hl Pr H. destruct l; try discriminate Hl; unfold step in H.
  - injection H as <-. exact Pr.
  - destruct (nth_error (threads s) t) as [[| | | | | |]|]; try discriminate. injection H as <-. exact Pr.
  - destruct (nth_error (threads s) t) as [[|obs cur| | | | |]|]; try discriminate.
    match type of H with match ?rn with _ => _ end = _ => destruct rn; [|discriminate] end. injection H as <-. exact Pr.
  - destruct (nth_error (threads s) t) as [[|obs [?|]| | | | |]|]; try discriminate.
    destruct (pol obs ho); [|discriminate]. injection H as <-. exact Pr.
  - destruct (nth_error (threads s) t) as [[| |[x|]| | | |]|]; try discriminate. injection H as <-. exact Pr.
  - destruct (nth_error (threads s) t) as [[| | |x n| | |]|]; try discriminate.
    destruct (conns s x =? n); injection H as <-; exact Pr.
  - destruct (nth_error (threads s) t) as [[| |[x|]| | | |]|]; try discriminate. injection H as <-. exact Pr.
  - destruct (nth_error (threads s) t) as [[| | | |x| |]|]; try discriminate. injection H as <-. exact Pr.
  - destruct (nth_error (threads s) t) as [[| | | | |x|]|]; try discriminate.
    destruct (0 <? c_fail_timeout c) eqn:Hft; injection H as <-; [|exact Pr].
    intros f Hf Hs. sset. apply in_app_or in Hf as [Hf|[<-|[]]]; [exact (Pr f Hf Hs)|].
    simpl. apply Z.ltb_lt in Hft. lia.
  - destruct (nth_error (flog s) k) as [g|] eqn:Hn; [|discriminate].
    destruct (asleep g && (f_at g + c_fail_timeout c <=? now s)); [|discriminate]. injection H as <-.
    intros f Hf Hs. sset. apply in_set_nth in Hf as [->|Hf]; [discriminate Hs | exact (Pr f Hf Hs)].
  - injection H as <-. exact Pr.
  - destruct (nth_error (threads s) t) as [[| | | | | |]|]; try discriminate; injection H as <-; exact Pr.
Qed.

Lemma quick_prompt c pol s s' : quick_run c pol s s' -> prompt c s -> prompt c s'.
Proof.
  intros (ls & H & N). revert s H N. induction ls as [|l ls IH]; intros s H N Pr; simpl in H.
  - injection H as <-. exact Pr.
  - destruct (step c pol s l) as [s1|] eqn:E; [|discriminate].
    simpl in N. apply andb_true_iff in N as [N1 N2].
    exact (IH _ H N2 (step_prompt _ _ _ _ _ N1 Pr E)).
Qed.

(* after a wait the model state is prompt: every due expiry goroutine has run *)
Lemma first_due_none ft fl nw k :
  first_due ft fl nw k = None -> forall f, In f fl -> f_fired f = None -> nw < f_at f + ft.
Proof.
  revert k; induction fl as [|g r IH]; intros k H f Hf Hs; [contradiction|]. simpl in H.
  destruct (asleep g && (f_at g + ft <=? nw)) eqn:E; [discriminate|].
  destruct Hf as [<-|Hf]; [|exact (IH _ H f Hf Hs)].
  unfold asleep in E. rewrite Hs in E. simpl in E. apply Z.leb_gt in E. exact E.
Qed.

Lemma fire_due_prompt c pol : forall fuel s s',
  sleepers s <= Z.of_nat fuel -> fire_due c pol s fuel = Some s' -> prompt c s'.
Proof.
  induction fuel as [|f IH]; intros s s' Hl H; simpl in H.
  - injection H as <-. intros g Hg Hs. exfalso.
    pose proof (cnt_nonneg asleep (flog s)) as Hnn.
    assert (Z0 : cnt asleep (flog s) = 0) by (unfold sleepers in Hl; lia).
    pose proof (cnt_zero_inv _ _ _ Z0 Hg) as Ha. unfold asleep in Ha. rewrite Hs in Ha. discriminate.
  - destruct (first_due (c_fail_timeout c) (flog s) (now s) 0) as [k|] eqn:F.
    + destruct (step c pol s (LFire k)) as [s1|] eqn:E; [|discriminate].
      apply (IH s1 s'); [|exact H].
      unfold step in E. destruct (nth_error (flog s) k) as [g|] eqn:Hn; [|discriminate].
      destruct (asleep g && (f_at g + c_fail_timeout c <=? now s)) eqn:G; [|discriminate]. injection E as <-.
      apply andb_true_iff in G as [Ga _].
      unfold sleepers in *. simpl. rewrite (cnt_set_nth _ _ _ _ _ Hn). rewrite Ga. unfold fire, asleep at 2. simpl.
      unfold b2z. lia.
    + injection H as <-. exact (first_due_none _ _ _ _ F).
Qed.

Lemma hexec_prompt c pol ps s h s' e : prompt c s -> hexec c pol ps s h = Some (s', e) -> prompt c s'.
Proof.
  intros Pr H. destruct h as [t|t|t|t again|t|t o again|d|h b|t]; try (match type of H with hexec _ _ _ _ ?hh = _ => assert (Hw : forall d0, hh <> HWait d0) by (intros ?; discriminate) end;
       exact (quick_prompt _ _ _ _ (hexec_quick _ _ _ _ _ _ _ Hw H) Pr)).
  cbn [hexec] in H. destruct (step c pol s (LTick d)) as [s1|] eqn:E; [|discriminate].
  destruct (fire_due c pol s1 (length (flog s1))) as [s2|] eqn:E2; [|discriminate]. injection H as <- _.
  apply (fire_due_prompt _ _ _ _ _ (cnt_le_length _ _) E2).
Qed.

Lemma init_threads_prompt c r u n : prompt c (init_threads r u n).
Proof. intros f Hf. simpl in Hf. contradiction. Qed.

Lemma harness_states_reachable c pol r u n : reachable c pol (init_threads r u n) /\ prompt c (init_threads r u n).
Proof. split; [apply init_threads_reachable | apply init_threads_prompt]. Qed.

Lemma harness_steps_reachable c pol ps s h s' e :
  reachable c pol s -> prompt c s -> hexec c pol ps s h = Some (s', e) -> reachable c pol s' /\ prompt c s'.
Proof.
  intros R P H. split; [exact (hexec_reachable _ _ _ _ _ _ _ R H) | exact (hexec_prompt _ _ _ _ _ _ _ P H)].
Qed.

(* a whole Select that runs while nothing else moves answers a host that is available in that state *)
Lemma reads_keep c pol t : forall ls s s',
  forallb (is_read t) ls = true -> run c pol s ls = Some s' ->
  conns s' = conns s /\ fails s' = fails s /\ unhealthy s' = unhealthy s /\ robin s' = robin s /\
  ((exists obs cur, nth_error (threads s) t = Some (Selecting obs cur)) ->
   (exists obs cur, nth_error (threads s') t = Some (Selecting obs cur))).
Proof.
  induction ls as [|l ls IH]; intros s s' Hr H; simpl in H.
  - injection H as <-. repeat split; auto.
  - destruct (step c pol s l) as [s1|] eqn:E; [|discriminate].
    simpl in Hr. apply andb_true_iff in Hr as [Hr1 Hr2].
    destruct (IH _ _ Hr2 H) as (A & B & C & D & F).
    destruct l; try discriminate Hr1. simpl in Hr1. apply Nat.eqb_eq in Hr1. subst t0.
    open_thread E s t Hn. destruct (read_next c s h obs cur) as [p|] eqn:Er; [|discriminate]. injection E as <-.
    destruct (read_next_selecting _ _ _ _ _ _ Er) as (obs' & cur' & ->). sset. repeat split; auto.
    intros _. apply F. eexists. eexists. exact (nth_error_set_nth _ _ _ _ Hn).
Qed.

Lemma available_ext c s s' h :
  conns s' = conns s -> fails s' = fails s -> unhealthy s' = unhealthy s -> available c s' h = available c s h.
Proof. intros A B C. unfold available, down, full. rewrite A, B, C. reflexivity. Qed.

Lemma select_atomic_available c pol ps s t s' h :
  psel_sound c ps -> hexec c pol ps s (HSelect t) = Some (s', EvSel (Some h)) -> available c s h = true.
Proof.
  intros Hs H. cbn [hexec] in H. destruct (sel_scan c pol s t) as [s1|] eqn:E1; [|discriminate].
  unfold sel_scan in E1. destruct (step c pol s (LSelStart t)) as [sa|] eqn:Ea; [|discriminate].
  assert (Ka : conns sa = conns s /\ fails sa = fails s /\ unhealthy sa = unhealthy s /\
               exists obs cur, nth_error (threads sa) t = Some (Selecting obs cur)).
  { open_thread Ea s t Hn. injection Ea as <-. sset. repeat split; auto. eexists. eexists. exact (nth_error_set_nth _ _ _ _ Hn). }
  destruct Ka as (Ka1 & Ka2 & Ka3 & Ka4).
  (* the policy phase, whenever it is reached from a state with the same counters *)
  assert (P : forall s1, conns s1 = conns s -> fails s1 = fails s -> unhealthy s1 = unhealthy s ->
              forall s2, sel_policy c pol ps s1 t = Some s2 ->
              pc_ev (nth_error (threads s2) t) = EvSel (Some h) -> available c s h = true).
  { intros s1' A B C s2 E2 Ev. unfold sel_policy in E2.
    destruct (nth_error (threads s1') t) as [[|obs1 cur1| | | | |]|] eqn:Hn1; try discriminate.
    destruct (ps s1') as [ho r] eqn:Eps.
    destruct (run c pol s1' (flat_map (avail_labels c s1' t) (seq 0 (c_hosts c)))) as [sb|] eqn:Eb; [|discriminate].
    open_thread E2 sb t Hnb. destruct cur; [discriminate|]. destruct (pol obs ho); [|discriminate]. injection E2 as <-. sset.
    rewrite (nth_error_set_nth _ _ _ _ Hnb) in Ev. simpl in Ev. injection Ev as ->.
    rewrite <- (available_ext c s s1' h A B C). exact (Hs _ _ _ Eps). }
  (* the end of a Select by the scan itself *)
  assert (Q : forall sb ho r s2, step c pol sb (LSelEnd t ho r) = Some s2 ->
              nth_error (threads s2) t = Some (Selected ho)).
  { intros sb ho r s2 E. open_thread E sb t Hnb. destruct cur; [discriminate|]. destruct (pol obs ho); [|discriminate]. injection E as <-. sset.
    exact (nth_error_set_nth _ _ _ _ Hnb). }
  destruct (c_hosts c) as [|[|n]].
  - destruct (run c pol sa (flat_map (avail_labels c s t) (scan_reads c s (seq 0 0)))) as [sb|] eqn:Eb; [|discriminate].
    simpl in E1. rewrite (Q _ _ _ _ E1) in H. simpl in H. discriminate.
  - destruct (run c pol sa (avail_labels c s t 0%nat)) as [sb|] eqn:Eb; [|discriminate].
    rewrite (Q _ _ _ _ E1) in H. simpl in H. injection H as _ H.
    destruct (available c s 0%nat) eqn:Av; [injection H as <-; exact Av | discriminate].
  - destruct (run c pol sa (flat_map (avail_labels c s t) (scan_reads c s (seq 0 (S (S n)))))) as [sb|] eqn:Eb; [|discriminate].
    destruct (reads_keep _ _ _ _ _ _ (avail_labels_reads c s t _) Eb) as (A & B & C & _ & F).
    destruct (existsb (available c s) (seq 0 (S (S n)))).
    + injection E1 as <-. destruct (F Ka4) as (obs & cur & Hn). rewrite Hn in H.
      destruct (sel_policy c pol ps sb t) as [s2|] eqn:E2; [|discriminate]. injection H as <- Ev.
      exact (P sb ltac:(congruence) ltac:(congruence) ltac:(congruence) s2 E2 Ev).
    + rewrite (Q _ _ _ _ E1) in H. simpl in H. discriminate.
Qed.

(* ---------- parsing of max_fails ---------- *)
Lemma wrap_int32_id n : -2147483648 <= n < 2147483648 -> wrap_int32 n = n.
Proof.
  intros H. unfold wrap_int32.
  destruct (Z_lt_le_dec n 0) as [Hn|Hn].
  - assert (E : n mod 4294967296 = n + 4294967296).
    { symmetry. apply (Z.mod_unique n 4294967296 (-1) (n + 4294967296)); lia. }
    rewrite E. destruct (n + 4294967296 <? 2147483648) eqn:L; [apply Z.ltb_lt in L; lia | lia].
  - rewrite Z.mod_small by lia. destruct (n <? 2147483648) eqn:L; [reflexivity | apply Z.ltb_ge in L; lia].
Qed.

(* an accepted max_fails is stored unchanged: the threshold in force is the configured one *)
Lemma max_fails_stored n m : parse_max_fails n = Some m -> m = n /\ 1 <= m.
Proof.
  unfold parse_max_fails, fits_int32. intros H.
  destruct ((-2147483648 <=? n) && (n <? 2147483648)) eqn:F; [|discriminate].
  destruct (n <? 1) eqn:L; [discriminate|]. injection H as <-.
  apply andb_true_iff in F as [F1 F2]. apply Z.leb_le in F1. apply Z.ltb_lt in F2. apply Z.ltb_ge in L.
  rewrite wrap_int32_id by lia. lia.
Qed.

Lemma max_fails_accepted_iff n : (exists m, parse_max_fails n = Some m) <-> 1 <= n < 2147483648.
Proof.
  unfold parse_max_fails, fits_int32. split.
  - intros [m H]. destruct ((-2147483648 <=? n) && (n <? 2147483648)) eqn:F; [|discriminate].
    destruct (n <? 1) eqn:L; [discriminate|].
    apply andb_true_iff in F as [_ F2]. apply Z.ltb_lt in F2. apply Z.ltb_ge in L. lia.
  - intros [H1 H2]. exists (wrap_int32 n).
    assert (F : (-2147483648 <=? n) && (n <? 2147483648) = true)
      by (apply andb_true_iff; split; [apply Z.leb_le | apply Z.ltb_lt]; lia).
    rewrite F. assert (L : (n <? 1) = false) by (apply Z.ltb_ge; lia). rewrite L. reflexivity.
Qed.

Lemma fails_counts_sleeping c pol s h :
  reachable c pol s -> fails s h = cnt (on_host h) (filter asleep (flog s)).
Proof.
  intros R. rewrite (fails_counts_pending c pol s h R). unfold pending.
  induction (flog s) as [|f l IH]; simpl; [reflexivity|].
  destruct (asleep f); simpl; rewrite IH; [rewrite andb_true_r | rewrite andb_false_r]; reflexivity.
Qed.

(* the availability read is a snapshot: marked unhealthy right after the load of Unhealthy — in the middle of
   host.Available() — the host is still answered and forwarded to *)
Lemma selected_host_healthy_refuted :
  exists c s h, reachable c (pol_std (c_hosts c)) s /\
                nth_error (threads s) 0 = Some (Forwarding h) /\ unhealthy s h = true /\
                exists s', reachable c (pol_std (c_hosts c)) s' /\
                           nth_error (threads s') 0 = Some (Selected (Some h)) /\ down c s' h = true.
Proof.
  exists cfg_cap1, (set_conns (set_unhealthy (set_threads (init 0 healthy) [Forwarding 0]) (setb healthy 0 true))
                              (bump (fun _ => 0) 0 1)), 0%nat.
  split; [|split; [reflexivity | split; [reflexivity|]]].
  - exists 0%N, healthy, [LSpawn; LSelStart 0; LSelRead 0 0; LHealth 0 true; LSelRead 0 0; LSelRead 0 0; LSelEnd 0 (Some 0%nat) 0%N; LLoad 0; LCas 0].
    reflexivity.
  - exists (set_robin (set_unhealthy (set_threads (init 0 healthy) [Selected (Some 0%nat)]) (setb healthy 0 true)) 0).
    split; [|split; reflexivity].
    exists 0%N, healthy, [LSpawn; LSelStart 0; LSelRead 0 0; LHealth 0 true; LSelRead 0 0; LSelRead 0 0; LSelEnd 0 (Some 0%nat) 0%N]. reflexivity.
Qed.

(* timers that may be late, but by less than delta: Fails lies between the failures younger than
   fail_timeout and the failures younger than fail_timeout + delta (delta = 0 is [prompt]) *)
Definition late_by (c : config) (delta : Z) (s : state) : Prop :=
  forall f, In f (flog s) -> f_fired f = None -> now s < f_at f + c_fail_timeout c + delta.

Lemma fails_bounds_under_late_timers c pol s h delta :
  reachable c pol s -> late_by c delta s ->
  unexpired c s h <= fails s h <=
  cnt (fun f => on_host h f && (now s <? f_at f + c_fail_timeout c + delta)) (flog s).
Proof.
  intros R L. split; [exact (fails_ge_unexpired _ _ _ h R)|].
  rewrite (fails_counts_pending _ _ _ h R). unfold pending. apply cnt_mono.
  intros f Hf H. apply andb_true_iff in H as [H1 H2]. rewrite H1. simpl. apply Z.ltb_lt.
  apply (L f Hf). unfold asleep in H2. destruct (f_fired f); [discriminate | reflexivity].
Qed.

Lemma prompt_is_late_by_zero c s : prompt c s <-> late_by c 0 s.
Proof.
  unfold prompt, late_by. split; intros H f Hf Hs; specialize (H f Hf Hs); lia.
Qed.

(* ---------- the client goes away (context cancelled) at any point of a request's life ---------- *)
Definition is_cancel (l : label) : bool := match l with LCancel _ => true | _ => false end.

(* the disconnect itself moves no counter and no request *)
Lemma cancel_moves_nothing c pol s t s' : step c pol s (LCancel t) = Some s' -> s' = s.
Proof.
  intros H. unfold step in H.
  destruct (nth_error (threads s) t) as [[| | | | | |]|]; try discriminate; injection H as <-; reflexivity.
Qed.

(* it can happen wherever a request that has not returned is *)
Lemma cancel_enabled_while_alive c pol s t p :
  nth_error (threads s) t = Some p -> is_done p = false -> step c pol s (LCancel t) = Some s.
Proof. intros Hn Hd. unfold step. rewrite Hn. destruct p; try reflexivity. discriminate Hd. Qed.

(* erasing the disconnects from ANY schedule gives a schedule with the same result: whether and when
   clients go away changes no counter, no failure record and no request's path *)
Lemma run_without_cancels c pol ls : forall s s',
  run c pol s ls = Some s' -> run c pol s (filter (fun l => negb (is_cancel l)) ls) = Some s'.
Proof.
  induction ls as [|l ls IH]; intros s s' H; simpl in H; [exact H|].
  destruct (step c pol s l) as [s1|] eqn:E; [|discriminate].
  destruct l; cbn [filter is_cancel negb run]; try (rewrite E; exact (IH _ _ H)).
  rewrite (cancel_moves_nothing _ _ _ _ _ E) in H. exact (IH _ _ H).
Qed.

(* a request whose client is already gone when its attempt begins (it holds a host that is not full)
   still takes the slot and enters the forward call; when that call comes back with context.Canceled
   the slot is given back, the request ends with 499 and no failure is recorded *)
Lemma gone_request_holds_and_releases c pol s t h s1 s2 s3 :
  nth_error (threads s) t = Some (Selected (Some h)) -> full c s h = false ->
  step c pol s (LCancel t) = Some s1 -> acquire c pol s1 t = Some s2 ->
  step c pol s2 (LFinish t OCancel) = Some s3 ->
  nth_error (threads s2) t = Some (Forwarding h) /\ conns s2 h = conns s h + 1 /\
  nth_error (threads s3) t = Some (Done 499) /\ conns s3 h = conns s h /\
  fails s3 = fails s2 /\ flog s3 = flog s2.
Proof.
  intros Hn F Hc Ha Hf. rewrite (cancel_moves_nothing _ _ _ _ _ Hc) in Ha.
  destruct (begin_forwards_unless_full _ _ _ _ _ _ Hn Ha) as [Hfw _].
  destruct (Hfw F) as [Hn2 Hc2]. unfold step in Hf. rewrite Hn2 in Hf. injection Hf as <-. sset.
  repeat split; auto.
  - exact (nth_error_set_nth _ _ _ _ Hn2).
  - rewrite bump_same. lia.
Qed.

(* the schedule of C14-m7: request 0 holds the only slot, request 1 finds the host full and waits in
   the retry loop, its client goes away, request 0 finishes, request 1 selects the host, takes the
   slot, is forwarded, comes back cancelled *)
Definition sel_nil (t : nat) : list label :=
  [LSelStart t; LSelRead t 0%nat; LSelRead t 0%nat; LSelRead t 0%nat; LSelEnd t None 0%N].
Definition sched_gone_waiter : list label :=
  [LSpawn; LSpawn] ++ sel0 0 ++ [LLoad 0; LCas 0] ++ sel_nil 1 ++ [LNoHost 1 true; LCancel 1; LFinish 0 OSuccess] ++
  sel0 1 ++ [LLoad 1; LCas 1].
