(* C14 — proofs about the interleaving model of C14_Model.v. *)
Require Import V.Lib V.C14_Model.
From Coq Require Import ZifyBool.
Open Scope Z_scope.

Definition b2z (b : bool) : Z := if b then 1 else 0.

(* ---------- counting ---------- *)
Lemma cnt_app {A} (P : A -> bool) l1 l2 : cnt P (l1 ++ l2) = cnt P l1 + cnt P l2.
Proof. induction l1 as [|x l1 IH]; simpl; [reflexivity|]. rewrite IH. lia. Qed.

Lemma cnt_nonneg {A} (P : A -> bool) l : 0 <= cnt P l.
Proof. induction l as [|x l IH]; simpl; [lia|]. destruct (P x); lia. Qed.

Lemma cnt_le_length {A} (P : A -> bool) l : cnt P l <= Z.of_nat (length l).
Proof. induction l as [|x l IH]; simpl length; simpl cnt; [lia|]. destruct (P x); lia. Qed.

Lemma cnt_set_nth {A} (P : A -> bool) l t q p :
  nth_error l t = Some q -> cnt P (set_nth l t p) = cnt P l - b2z (P q) + b2z (P p).
Proof.
  revert t; induction l as [|x l IH]; intros [|t] H; simpl in H; try discriminate.
  - injection H as ->. simpl. unfold b2z. destruct (P q), (P p); lia.
  - simpl. rewrite (IH t H). lia.
Qed.

Lemma cnt_remove_nth {A} (P : A -> bool) l k x :
  nth_error l k = Some x -> cnt P (remove_nth l k) = cnt P l - b2z (P x).
Proof.
  revert k; induction l as [|y l IH]; intros [|k] H; simpl in H; try discriminate.
  - injection H as ->. simpl. unfold b2z. destruct (P x); lia.
  - simpl. rewrite (IH k H). lia.
Qed.

Lemma cnt_map {A B} (f : A -> B) (P : B -> bool) l : cnt P (map f l) = cnt (fun x => P (f x)) l.
Proof. induction l as [|x l IH]; simpl; [reflexivity|]. rewrite IH. reflexivity. Qed.

Lemma cnt_ext {A} (P Q : A -> bool) l : (forall x, In x l -> P x = Q x) -> cnt P l = cnt Q l.
Proof.
  induction l as [|x l IH]; intros H; simpl; [reflexivity|].
  rewrite (H x (or_introl eq_refl)). rewrite IH; [reflexivity|]. intros y Hy. apply H. right. exact Hy.
Qed.

Lemma cnt_zero {A} (P : A -> bool) l : (forall x, In x l -> P x = false) -> cnt P l = 0.
Proof.
  induction l as [|x l IH]; intros H; simpl; [reflexivity|].
  rewrite (H x (or_introl eq_refl)). rewrite IH; [reflexivity|]. intros y Hy. apply H. right. exact Hy.
Qed.

Lemma cnt_mono {A} (P Q : A -> bool) l : (forall x, In x l -> P x = true -> Q x = true) -> cnt P l <= cnt Q l.
Proof.
  induction l as [|x l IH]; intros H; simpl; [lia|].
  assert (IH' : cnt P l <= cnt Q l) by (apply IH; intros y Hy; apply H; right; exact Hy).
  destruct (P x) eqn:E.
  - rewrite (H x (or_introl eq_refl) E). lia.
  - destruct (Q x); lia.
Qed.

Lemma in_set_nth {A} (l : list A) t v x : In x (set_nth l t v) -> x = v \/ In x l.
Proof.
  revert t; induction l as [|y l IH]; intros [|t] H; simpl in H; try contradiction.
  - destruct H as [H|H]; [left; symmetry; exact H | right; right; exact H].
  - destruct H as [H|H]; [right; left; exact H |].
    destruct (IH t H) as [E|E]; [left; exact E | right; right; exact E].
Qed.

Lemma in_remove_nth {A} (l : list A) k x : In x (remove_nth l k) -> In x l.
Proof.
  revert k; induction l as [|y l IH]; intros [|k] H; simpl in H; try contradiction.
  - right; exact H.
  - destruct H as [H|H]; [left; exact H | right; exact (IH k H)].
Qed.

Lemma length_set_nth {A} (l : list A) t v : length (set_nth l t v) = length l.
Proof. revert t; induction l as [|y l IH]; intros [|t]; simpl; try reflexivity. rewrite IH. reflexivity. Qed.

Lemma bump_same f h d : bump f h d h = f h + d.
Proof. unfold bump. rewrite Nat.eqb_refl. reflexivity. Qed.

Lemma bump_spec f h d x : bump f h d x = f x + (if Nat.eqb x h then d else 0).
Proof. unfold bump. destruct (Nat.eqb x h); lia. Qed.

(* ---------- the invariant ---------- *)
Definition deadline (c : config) (e : nat * Z) : nat * Z := (fst e, snd e + c_fail_timeout c).

Record Inv (c : config) (s : state) : Prop := {
  inv_conns : forall h, conns s h = cnt (is_fwd h) (threads s);
  inv_fails : forall h, fails s h = cnt (for_host h) (timers s);
  inv_log : forall P, cnt P (map (deadline c) (flog s)) = cnt P (timers s) + cnt P (fired s);
  inv_fired : forall e, In e (fired s) -> snd e <= now s;
  inv_past : forall e, In e (flog s) -> snd e <= now s;
  inv_off : c_fail_timeout c <= 0 -> timers s = []
}.

Lemma inv_init c r : Inv c (init r).
Proof. constructor; simpl; intros; try reflexivity; try contradiction. Qed.

Arguments step : simpl never.
Tactic Notation "inv_spawn" hyp(H) := unfold step in H; injection H as <-.
Tactic Notation "inv_select" hyp(H) constr(sel) constr(s) constr(t) ident(o) ident(r) ident(Hn) ident(Hsel) :=
  unfold step in H; destruct (nth_error (threads s) t) as [[|?|?|?|?]|] eqn:Hn; try discriminate H;
  destruct (sel s) as [o r] eqn:Hsel; injection H as <-.
Tactic Notation "inv_begin" hyp(H) constr(c) constr(s) constr(t) ident(h) ident(Hn) ident(F) :=
  unfold step in H; destruct (nth_error (threads s) t) as [[|[h|]|?|?|?]|] eqn:Hn; try discriminate H;
  destruct (full c s h) eqn:F; injection H as <-.
Tactic Notation "inv_nohost" hyp(H) constr(s) constr(t) ident(Hn) :=
  unfold step in H; destruct (nth_error (threads s) t) as [[|[?|]|?|?|?]|] eqn:Hn; try discriminate H;
  injection H as <-.
Tactic Notation "inv_finish" hyp(H) constr(s) constr(t) ident(h) ident(Hn) :=
  unfold step in H; destruct (nth_error (threads s) t) as [[|?|h|?|?]|] eqn:Hn; try discriminate H;
  injection H as <-.
Tactic Notation "inv_record" hyp(H) constr(c) constr(s) constr(t) ident(h) ident(Hn) ident(Hft) :=
  unfold step in H; destruct (nth_error (threads s) t) as [[|?|?|h|?]|] eqn:Hn; try discriminate H;
  destruct (0 <? c_fail_timeout c) eqn:Hft; injection H as <-.
Tactic Notation "inv_fire" hyp(H) constr(s) constr(k) ident(h) ident(d) ident(Hn) ident(Hdue) :=
  unfold step in H; destruct (nth_error (timers s) k) as [[h d]|] eqn:Hn; try discriminate H;
  destruct (d <=? now s) eqn:Hdue; try discriminate H; injection H as <-.
Tactic Notation "inv_tick" hyp(H) constr(d) ident(Hd) :=
  unfold step in H; destruct (0 <=? d) eqn:Hd; try discriminate H; injection H as <-.

Lemma step_inv c sel s l s' : Inv c s -> step c sel s l = Some s' -> Inv c s'.
Proof.
  intros [Ic If Il Id Ip Io] H. destruct l.
  - (* spawn *) inv_spawn H. constructor; simpl; auto.
    intros h. rewrite cnt_app. simpl. rewrite Ic. lia.
  - (* select *) inv_select H sel s t o r Hn Hsel. constructor; simpl; auto.
    intros h. rewrite (cnt_set_nth _ _ _ _ _ Hn). rewrite Ic. simpl. lia.
  - (* begin *) inv_begin H c s t h Hn F.
    + (* the host is full: the request is not counted *) constructor; simpl; auto.
      intros h0. rewrite (cnt_set_nth _ _ _ _ _ Hn). rewrite Ic. simpl. lia.
    + constructor; simpl; auto.
      intros h0. rewrite (cnt_set_nth _ _ _ _ _ Hn). rewrite bump_spec, Ic. simpl. unfold b2z.
      destruct (Nat.eqb h0 h); lia.
  - (* no host *) inv_nohost H s t Hn. constructor; simpl; auto.
    intros h. rewrite (cnt_set_nth _ _ _ _ _ Hn). rewrite Ic. simpl. destruct again; simpl; lia.
  - (* finish *) inv_finish H s t h Hn. constructor; simpl; auto.
    intros h0. rewrite (cnt_set_nth _ _ _ _ _ Hn). rewrite bump_spec, Ic. simpl. unfold b2z.
    destruct o; simpl; destruct (Nat.eqb h0 h); lia.
  - (* record *) inv_record H c s t h Hn Hft.
    + constructor; simpl; auto.
      * intros h0. rewrite (cnt_set_nth _ _ _ _ _ Hn). rewrite Ic. simpl. destruct again; simpl; lia.
      * intros h0. rewrite cnt_app, bump_spec, If. simpl. unfold for_host. simpl.
        destruct (Nat.eqb h0 h); lia.
      * intros P. rewrite map_app, !cnt_app, Il. simpl. unfold deadline. simpl. lia.
      * intros e He. apply in_app_or in He as [He|He]; [apply Ip; exact He|].
        destruct He as [<-|[]]. simpl. lia.
      * intros Hoff. apply Z.ltb_lt in Hft. lia.
    + constructor; simpl; auto.
      intros h0. rewrite (cnt_set_nth _ _ _ _ _ Hn). rewrite Ic. simpl. destruct again; simpl; lia.
  - (* fire *) inv_fire H s k h d Hn Hdue. constructor; simpl; auto.
    + intros h0. rewrite (cnt_remove_nth _ _ _ _ Hn). rewrite bump_spec, If. unfold for_host, b2z. simpl.
      destruct (Nat.eqb h0 h); lia.
    + intros P. rewrite (cnt_remove_nth _ _ _ _ Hn). rewrite Il. unfold b2z. destruct (P (h, d)); lia.
    + intros e [<-|He]; [simpl; apply Z.leb_le; exact Hdue | apply Id; exact He].
    + intros Hoff. rewrite (Io Hoff) in Hn. destruct k; discriminate.
  - (* tick *) inv_tick H d Hd. apply Z.leb_le in Hd. constructor; simpl; auto.
    + intros e He. specialize (Id e He). lia.
    + intros e He. specialize (Ip e He). lia.
Qed.

Lemma run_inv c sel ls : forall s s', Inv c s -> run c sel s ls = Some s' -> Inv c s'.
Proof.
  induction ls as [|l ls IH]; intros s s' HI H; simpl in H.
  - injection H as <-. exact HI.
  - destruct (step c sel s l) as [s1|] eqn:E; [|discriminate].
    apply (IH s1 s'); [exact (step_inv _ _ _ _ _ HI E) | exact H].
Qed.

Lemma reachable_inv c sel s : reachable c sel s -> Inv c s.
Proof. intros (r & ls & H). exact (run_inv _ _ _ _ _ (inv_init c r) H). Qed.

Lemma run_app c sel l1 : forall l2 s s1 s2,
  run c sel s l1 = Some s1 -> run c sel s1 l2 = Some s2 -> run c sel s (l1 ++ l2) = Some s2.
Proof.
  induction l1 as [|l l1 IH]; intros l2 s s1 s2 H1 H2; simpl in *.
  - injection H1 as ->. exact H2.
  - destruct (step c sel s l) as [s'|]; [|discriminate]. exact (IH _ _ _ _ H1 H2).
Qed.

Lemma reachable_run c sel s ls s' : reachable c sel s -> run c sel s ls = Some s' -> reachable c sel s'.
Proof. intros (r & l0 & H0) H. exists r, (l0 ++ ls). exact (run_app _ _ _ _ _ _ _ H0 H). Qed.

(* ---------- in-flight accounting ---------- *)
Lemma conns_counts_forwarding c sel s h :
  reachable c sel s -> conns s h = cnt (is_fwd h) (threads s).
Proof. intros R. apply (inv_conns _ _ (reachable_inv _ _ _ R)). Qed.

Lemma conns_bounds c sel s h :
  reachable c sel s -> 0 <= conns s h <= Z.of_nat (length (threads s)).
Proof.
  intros R. rewrite (conns_counts_forwarding _ _ _ h R).
  split; [apply cnt_nonneg | apply cnt_le_length].
Qed.

Lemma conns_zero_when_none_forwarding c sel s h :
  reachable c sel s -> (forall p, In p (threads s) -> p <> Forwarding h) -> conns s h = 0.
Proof.
  intros R Hn. rewrite (conns_counts_forwarding _ _ _ h R). apply cnt_zero.
  intros p Hp. destruct p; simpl; try reflexivity.
  destruct (Nat.eqb h h0) eqn:E; [|reflexivity].
  apply Nat.eqb_eq in E. subst h0. exfalso. exact (Hn _ Hp eq_refl).
Qed.

Lemma conns_zero_at_quiescence c sel s :
  reachable c sel s -> forallb is_done (threads s) = true -> forall h, conns s h = 0.
Proof.
  intros R Hd h. apply (conns_zero_when_none_forwarding c sel); [exact R|].
  intros p Hp E. rewrite forallb_forall in Hd. specialize (Hd p Hp). subst p. discriminate.
Qed.

(* ---------- failure accounting ---------- *)
Lemma fails_counts_timers c sel s h :
  reachable c sel s -> fails s h = cnt (for_host h) (timers s).
Proof. intros R. apply (inv_fails _ _ (reachable_inv _ _ _ R)). Qed.

Lemma unexpired_as_timers c s h :
  Inv c s ->
  unexpired c s h = cnt (fun e => Nat.eqb h (fst e) && (now s <? snd e)) (timers s).
Proof.
  intros I. unfold unexpired.
  pose proof (inv_log _ _ I (fun e => Nat.eqb h (fst e) && (now s <? snd e))) as L.
  rewrite cnt_map in L. simpl in L. rewrite L.
  rewrite (cnt_zero _ (fired s)); [lia|].
  intros e He. pose proof (inv_fired _ _ I e He) as Hd.
  destruct (Nat.eqb h (fst e)); simpl; [|reflexivity]. apply Z.ltb_ge. exact Hd.
Qed.

Lemma fails_ge_unexpired c sel s h :
  reachable c sel s -> unexpired c s h <= fails s h.
Proof.
  intros R. pose proof (reachable_inv _ _ _ R) as I.
  rewrite (unexpired_as_timers _ _ _ I), (inv_fails _ _ I).
  apply cnt_mono. intros e _ H. unfold for_host. apply andb_true_iff in H as [H _]. exact H.
Qed.

Lemma fails_counts_unexpired c sel s h :
  reachable c sel s -> prompt s -> fails s h = unexpired c s h.
Proof.
  intros R Pr. pose proof (reachable_inv _ _ _ R) as I.
  rewrite (unexpired_as_timers _ _ _ I), (inv_fails _ _ I).
  apply cnt_ext. intros e He. unfold for_host.
  assert (E : (now s <? snd e) = true) by (apply Z.ltb_lt; exact (Pr e He)).
  rewrite E, andb_true_r. reflexivity.
Qed.

Lemma fails_nonneg c sel s h : reachable c sel s -> 0 <= fails s h.
Proof. intros R. rewrite (fails_counts_timers _ _ _ h R). apply cnt_nonneg. Qed.

Lemma fails_zero_when_all_expired c sel s h :
  reachable c sel s -> prompt s ->
  (forall e, In e (flog s) -> fst e = h -> snd e + c_fail_timeout c <= now s) ->
  fails s h = 0.
Proof.
  intros R Pr Hall. rewrite (fails_counts_unexpired _ _ _ h R Pr). unfold unexpired.
  apply cnt_zero. intros e He.
  destruct (Nat.eqb h (fst e)) eqn:E; simpl; [|reflexivity].
  apply Nat.eqb_eq in E. apply Z.ltb_ge. apply Hall; [exact He | symmetry; exact E].
Qed.

Lemma fails_zero_without_timers c sel s h :
  reachable c sel s -> timers s = [] -> fails s h = 0.
Proof. intros R E. rewrite (fails_counts_timers _ _ _ h R), E. reflexivity. Qed.

Lemma no_counting_when_disabled c sel s h :
  reachable c sel s -> c_fail_timeout c <= 0 -> fails s h = 0.
Proof.
  intros R Hoff. apply (fails_zero_without_timers c sel); [exact R|].
  exact (inv_off _ _ (reachable_inv _ _ _ R) Hoff).
Qed.

Lemma down_iff_maxfails c sel s h :
  reachable c sel s -> prompt s ->
  (down c s h = true <-> c_unhealthy c h = true \/ c_max_fails c <= unexpired c s h).
Proof.
  intros R Pr. unfold down. rewrite (fails_counts_unexpired _ _ _ h R Pr).
  rewrite orb_true_iff, Z.leb_le. reflexivity.
Qed.

Lemma down_while_maxfails_unexpired c sel s h :
  reachable c sel s ->
  c_unhealthy c h = true \/ c_max_fails c <= unexpired c s h -> down c s h = true.
Proof.
  intros R H. unfold down. apply orb_true_iff. destruct H as [H|H]; [left; exact H|right].
  apply Z.leb_le. pose proof (fails_ge_unexpired _ _ _ h R). lia.
Qed.

Lemma never_down_when_disabled c sel s h :
  reachable c sel s -> c_fail_timeout c <= 0 -> 1 <= c_max_fails c -> down c s h = c_unhealthy c h.
Proof.
  intros R Hoff Hm. unfold down. rewrite (no_counting_when_disabled _ _ _ h R Hoff).
  assert (E : (c_max_fails c <=? 0) = false) by (apply Z.leb_gt; lia).
  rewrite E, orb_false_r. reflexivity.
Qed.

(* ---------- the counters really do return to zero: time passes, the sleeping goroutines run ---------- *)
Fixpoint maxdl (l : list (nat * Z)) : Z :=
  match l with [] => 0 | e :: r => Z.max (snd e) (maxdl r) end.

Lemma maxdl_ge l e : In e l -> snd e <= maxdl l.
Proof.
  induction l as [|x l IH]; intros H; [contradiction|]. simpl.
  destruct H as [<-|H]; [lia|]. specialize (IH H). lia.
Qed.

Lemma fire_all c sel : forall n s,
  length (timers s) = n -> (forall e, In e (timers s) -> snd e <= now s) ->
  exists s', run c sel s (repeat (LFire 0) n) = Some s' /\ timers s' = [] /\
             threads s' = threads s /\ conns s' = conns s /\ now s' = now s.
Proof.
  induction n as [|n IH]; intros s Hl Hd.
  - exists s. simpl. destruct (timers s); [auto | discriminate].
  - destruct (timers s) as [|[h d] r] eqn:E; [discriminate|].
    assert (Hdue : (d <=? now s) = true) by (apply Z.leb_le; apply (Hd (h, d)); left; reflexivity).
    set (s1 := {| conns := conns s; fails := bump (fails s) h (-1); timers := r; fired := (h, d) :: fired s;
                  flog := flog s; now := now s; threads := threads s; robin := robin s |}).
    assert (H1 : step c sel s (LFire 0) = Some s1)
      by (unfold step; rewrite E; simpl; rewrite Hdue; reflexivity).
    destruct (IH s1) as (s' & Hr & Ht & Hth & Hc & Hn).
    + simpl. simpl in Hl. lia.
    + simpl. intros e He. apply Hd. right. exact He.
    + exists s'. change (repeat (LFire 0) (S n)) with (LFire 0 :: repeat (LFire 0) n).
      cbn [run]. rewrite H1. simpl in *. auto.
Qed.

Lemma fails_drain c sel s :
  reachable c sel s ->
  exists ls s', run c sel s ls = Some s' /\ reachable c sel s' /\
                (forall h, fails s' h = 0) /\ threads s' = threads s /\ conns s' = conns s.
Proof.
  intros R.
  set (d := Z.max 0 (maxdl (timers s) - now s)).
  assert (Hd : (0 <=? d) = true) by (apply Z.leb_le; unfold d; lia).
  set (s1 := {| conns := conns s; fails := fails s; timers := timers s; fired := fired s; flog := flog s;
                now := now s + d; threads := threads s; robin := robin s |}).
  assert (H1 : step c sel s (LTick d) = Some s1) by (unfold step; rewrite Hd; reflexivity).
  destruct (fire_all c sel (length (timers s1)) s1 eq_refl) as (s' & Hr & Ht & Hth & Hc & Hn).
  { simpl. intros e He. pose proof (maxdl_ge _ _ He). unfold d. lia. }
  exists (LTick d :: repeat (LFire 0) (length (timers s1))), s'.
  assert (Hrun : run c sel s (LTick d :: repeat (LFire 0) (length (timers s1))) = Some s')
    by (cbn [run]; rewrite H1; exact Hr).
  pose proof (reachable_run _ _ _ _ _ R Hrun) as R'.
  repeat split; auto.
  intros h. exact (fails_zero_without_timers _ _ _ h R' Ht).
Qed.

(* ---------- the cap ---------- *)
Lemma sel_first_sound c : sel_sound c (sel_first c).
Proof.
  intros s h r H. unfold sel_first in H. injection H as H _.
  apply find_some in H as [_ H]. exact H.
Qed.

Lemma rr_loop_sound c s n : forall fuel r h r', rr_loop c s n r fuel = (Some h, r') -> available c s h = true.
Proof.
  induction fuel as [|f IH]; intros r h r' H; simpl in H; [discriminate|].
  destruct (available c s (N.to_nat (((r + 1) mod U32) mod n))) eqn:E.
  - injection H as <- _. exact E.
  - exact (IH _ _ _ H).
Qed.

Lemma sel_rr_sound c : sel_sound c (sel_rr c).
Proof.
  intros s h r H. unfold sel_rr in H.
  destruct (c_hosts c) as [|[|n]].
  - discriminate.
  - destruct (available c s 0%nat) eqn:E; [|discriminate]. injection H as <- _. exact E.
  - destruct (existsb (available c s) (seq 0 (S (S n)))); [|discriminate].
    exact (rr_loop_sound _ _ _ _ _ _ _ H).
Qed.

Lemma sel_of_sound pol c : sel_sound c (sel_of pol c).
Proof. unfold sel_of. destruct (pol =? 0)%N; [apply sel_first_sound | apply sel_rr_sound]. Qed.

(* the demonstration configuration: one backend, max_conns 1; [sched_window] is the schedule in
   which two requests share the select/increment window *)
Definition cfg_cap1 : config :=
  {| c_hosts := 1; c_max_conns := 1; c_max_fails := 1; c_fail_timeout := 10; c_unhealthy := fun _ => false |}.
Definition sched_window : list label := [LSpawn; LSpawn; LSelect 0; LSelect 1; LBegin 0; LBegin 1].

(* the cap holds in every reachable state: the increment happens only in the atomic step that
   also sees the host not full *)
Lemma step_cap c sel s l s' :
  0 < c_max_conns c -> (forall h, conns s h <= c_max_conns c) -> step c sel s l = Some s' ->
  forall h, conns s' h <= c_max_conns c.
Proof.
  intros Hm HC H. destruct l.
  - inv_spawn H. exact HC.
  - inv_select H sel s t o r Hn Hsel. exact HC.
  - inv_begin H c s t h Hn F; [exact HC|].
    intros h0. simpl. rewrite bump_spec. destruct (Nat.eqb h0 h) eqn:E; [|specialize (HC h0); lia].
    apply Nat.eqb_eq in E. subst h0. unfold full in F. apply andb_false_iff in F as [F|F].
    + apply Z.ltb_ge in F. lia.
    + apply Z.leb_gt in F. lia.
  - inv_nohost H s t Hn. exact HC.
  - inv_finish H s t h Hn. intros h0. simpl. rewrite bump_spec. specialize (HC h0). destruct (Nat.eqb h0 h); lia.
  - inv_record H c s t h Hn Hft; exact HC.
  - inv_fire H s k h d Hn Hdue. exact HC.
  - inv_tick H d Hd. exact HC.
Qed.

Lemma run_cap c sel ls : forall s s',
  0 < c_max_conns c -> (forall h, conns s h <= c_max_conns c) -> run c sel s ls = Some s' ->
  forall h, conns s' h <= c_max_conns c.
Proof.
  induction ls as [|l ls IH]; intros s s' Hm HC H; simpl in H.
  - injection H as <-. exact HC.
  - destruct (step c sel s l) as [s1|] eqn:E; [|discriminate].
    exact (IH _ _ Hm (step_cap _ _ _ _ _ Hm HC E) H).
Qed.

Lemma conns_le_max c sel s h :
  0 < c_max_conns c -> reachable c sel s -> conns s h <= c_max_conns c.
Proof.
  intros Hm (r & ls & H). apply (run_cap c sel ls (init r) s Hm); [|exact H].
  intros h0. simpl. lia.
Qed.

Lemma forwarding_le_max c sel s h :
  0 < c_max_conns c -> reachable c sel s -> cnt (is_fwd h) (threads s) <= c_max_conns c.
Proof.
  intros Hm R. rewrite <- (conns_counts_forwarding _ _ _ h R). exact (conns_le_max _ _ _ h Hm R).
Qed.

(* leaving the window: the request is forwarded to the host it holds exactly when that host is
   not full at that instant; otherwise it is not counted and takes the no-host path *)
Lemma nth_error_set_nth {A} (l : list A) t v q : nth_error l t = Some q -> nth_error (set_nth l t v) t = Some v.
Proof.
  revert t; induction l as [|x l IH]; intros [|t] H; simpl in *; try discriminate; auto.
Qed.

Lemma begin_forwards_unless_full c sel s t h s' :
  nth_error (threads s) t = Some (Selected (Some h)) -> step c sel s (LBegin t) = Some s' ->
  (full c s h = false -> nth_error (threads s') t = Some (Forwarding h) /\ conns s' h = conns s h + 1) /\
  (full c s h = true -> nth_error (threads s') t = Some (Selected None) /\ conns s' = conns s).
Proof.
  intros Hn H. unfold step in H. rewrite Hn in H.
  destruct (full c s h) eqn:F; injection H as <-; simpl; split; intros E; try discriminate E.
  - split; [exact (nth_error_set_nth _ _ _ _ Hn) | reflexivity].
  - split; [exact (nth_error_set_nth _ _ _ _ Hn) | apply bump_same].
Qed.

(* a sound selector never hands out a host while it is observed full or down *)
Lemma select_not_full c sel s t s' h :
  sel_sound c sel -> step c sel s (LSelect t) = Some s' ->
  nth_error (threads s') t = Some (Selected (Some h)) -> available c s h = true.
Proof.
  intros Hs H Hn. inv_select H sel s t o r Hn0 Hsel. simpl in Hn.
  rewrite (nth_error_set_nth _ _ _ _ Hn0) in Hn. injection Hn as ->. exact (Hs _ _ _ Hsel).
Qed.

(* ---------- the states the correspondence check evaluates are reachable states ---------- *)
Lemma repeat_snoc {A} (x : A) n : repeat x n ++ [x] = repeat x (S n).
Proof. induction n as [|n IH]; simpl; [reflexivity|]. rewrite IH. reflexivity. Qed.

Lemma spawn_run c sel r : forall m k,
  run c sel {| conns := fun _ => 0; fails := fun _ => 0; timers := []; fired := []; flog := []; now := 0;
               threads := repeat Idle k; robin := r |} (repeat LSpawn m) = Some (init_threads r (k + m)).
Proof.
  induction m as [|m IH]; intros k; simpl.
  - rewrite Nat.add_0_r. reflexivity.
  - rewrite repeat_snoc. rewrite (IH (S k)). rewrite Nat.add_succ_r. reflexivity.
Qed.

Lemma init_threads_reachable c sel r n : reachable c sel (init_threads r n).
Proof. exists r, (repeat LSpawn n). exact (spawn_run c sel r n 0%nat). Qed.

Lemma fire_due_run c sel : forall fuel s s', fire_due c sel s fuel = Some s' -> exists ls, run c sel s ls = Some s'.
Proof.
  induction fuel as [|f IH]; intros s s' H; simpl in H.
  - injection H as <-. exists []. reflexivity.
  - destruct (first_due (timers s) (now s) 0) as [k|].
    + destruct (step c sel s (LFire k)) as [s1|] eqn:E; [|discriminate].
      destruct (IH _ _ H) as (ls & Hl). exists (LFire k :: ls). simpl. rewrite E. exact Hl.
    + injection H as <-. exists []. reflexivity.
Qed.

Lemma hexec_run c sel s h s' e : hexec c sel s h = Some (s', e) -> exists ls, run c sel s ls = Some s'.
Proof.
  intros H. destruct h; simpl in H.
  - destruct (step c sel s (LSelect t)) as [s1|] eqn:E; [|discriminate]. injection H as <- _.
    exists [LSelect t]. simpl. rewrite E. reflexivity.
  - destruct (nth_error (threads s) t) as [[|[x|]| | |]|]; try discriminate.
    + destruct (step c sel s (LBegin t)) as [s1|] eqn:E; [|discriminate].
      destruct (nth_error (threads s1) t) as [[|[y|]| | |]|];
        try (injection H as <- _; exists [LBegin t]; simpl; rewrite E; reflexivity).
      destruct (step c sel s1 (LNoHost t again)) as [s2|] eqn:E2; [|discriminate]. injection H as <- _.
      exists [LBegin t; LNoHost t again]. simpl. rewrite E, E2. reflexivity.
    + destruct (step c sel s (LNoHost t again)) as [s1|] eqn:E; [|discriminate]. injection H as <- _.
      exists [LNoHost t again]. simpl. rewrite E. reflexivity.
  - destruct (nth_error (threads s) t) as [[| | | |]|]; try discriminate. injection H as <- _.
    exists []. reflexivity.
  - destruct (step c sel s (LFinish t o)) as [s1|] eqn:E; [|discriminate].
    destruct o.
    2:{ destruct (step c sel s1 (LRecord t again)) as [s2|] eqn:E2; [|discriminate]. injection H as <- _.
        exists [LFinish t OError; LRecord t again]. simpl. rewrite E, E2. reflexivity. }
    all: injection H as <- _; eexists [LFinish t _]; simpl; rewrite E; reflexivity.
  - destruct (step c sel s (LTick d)) as [s1|] eqn:E; [|discriminate].
    destruct (fire_due c sel s1 (length (timers s1))) as [s2|] eqn:E2; [|discriminate]. injection H as <- _.
    destruct (fire_due_run _ _ _ _ _ E2) as (ls & Hl). exists (LTick d :: ls). simpl. rewrite E. exact Hl.
Qed.

Lemma hexec_reachable c sel s h s' e :
  reachable c sel s -> hexec c sel s h = Some (s', e) -> reachable c sel s'.
Proof. intros R H. destruct (hexec_run _ _ _ _ _ _ H) as (ls & Hl). exact (reachable_run _ _ _ _ _ R Hl). Qed.

(* after a wait the model state is prompt: every due expiry goroutine has run *)
Lemma first_due_none ts nw k : first_due ts nw k = None -> forall e, In e ts -> nw < snd e.
Proof.
  revert k; induction ts as [|[h d] r IH]; intros k H e He; [contradiction|]. simpl in H.
  destruct (d <=? nw) eqn:E; [discriminate|]. apply Z.leb_gt in E.
  destruct He as [<-|He]; [simpl; lia | exact (IH _ H e He)].
Qed.

Lemma fire_due_prompt c sel : forall fuel s s',
  (length (timers s) <= fuel)%nat -> fire_due c sel s fuel = Some s' -> prompt s'.
Proof.
  induction fuel as [|f IH]; intros s s' Hl H; simpl in H.
  - injection H as <-. intros e He. destruct (timers s); [contradiction | simpl in Hl; lia].
  - destruct (first_due (timers s) (now s) 0) as [k|] eqn:F.
    + destruct (step c sel s (LFire k)) as [s1|] eqn:E; [|discriminate].
      apply (IH s1 s'); [|exact H].
      inv_fire E s k h d Heqo Hdue. simpl.
      assert (L : forall (l : list (nat * Z)) k x, nth_error l k = Some x -> S (length (remove_nth l k)) = length l).
      { clear. induction l as [|y l IHl]; intros [|k] x Hx; simpl in *; try discriminate; auto.
        rewrite (IHl _ _ Hx). reflexivity. }
      pose proof (L _ _ _ Heqo). lia.
    + injection H as <-. intros e He. exact (first_due_none _ _ _ F e He).
Qed.

(* ---------- parsing of max_fails ---------- *)
Lemma wrap_int32_id n : -2147483648 <= n < 2147483648 -> wrap_int32 n = n.
Proof.
  intros H. unfold wrap_int32.
  destruct (Z_lt_le_dec n 0) as [Hn|Hn].
  - assert (E : n mod 4294967296 = n + 4294967296).
    { symmetry. apply (Z.mod_unique n 4294967296 (-1) (n + 4294967296)); lia. }
    rewrite E. destruct (n + 4294967296 <? 2147483648) eqn:L; [apply Z.ltb_lt in L; lia | lia].
  - rewrite Z.mod_small by lia. destruct (n <? 2147483648) eqn:L; [reflexivity | apply Z.ltb_ge in L; lia].
Qed.

(* an accepted max_fails is stored unchanged: the threshold in force is the configured one *)
Lemma max_fails_stored n m : parse_max_fails n = Some m -> m = n /\ 1 <= m.
Proof.
  unfold parse_max_fails, fits_int32. intros H.
  destruct ((-2147483648 <=? n) && (n <? 2147483648)) eqn:F; [|discriminate].
  destruct (n <? 1) eqn:L; [discriminate|]. injection H as <-.
  apply andb_true_iff in F as [F1 F2]. apply Z.leb_le in F1. apply Z.ltb_lt in F2. apply Z.ltb_ge in L.
  rewrite wrap_int32_id by lia. lia.
Qed.

Lemma max_fails_accepted_iff n : (exists m, parse_max_fails n = Some m) <-> 1 <= n < 2147483648.
Proof.
  unfold parse_max_fails, fits_int32. split.
  - intros [m H]. destruct ((-2147483648 <=? n) && (n <? 2147483648)) eqn:F; [|discriminate].
    destruct (n <? 1) eqn:L; [discriminate|].
    apply andb_true_iff in F as [_ F2]. apply Z.ltb_lt in F2. apply Z.ltb_ge in L. lia.
  - intros [H1 H2]. exists (wrap_int32 n).
    assert (F : (-2147483648 <=? n) && (n <? 2147483648) = true)
      by (apply andb_true_iff; split; [apply Z.leb_le | apply Z.ltb_lt]; lia).
    rewrite F. assert (L : (n <? 1) = false) by (apply Z.ltb_ge; lia). rewrite L. reflexivity.
Qed.

(* every step except the passing of time keeps the expiry goroutines on time *)
Lemma step_prompt c sel s l s' :
  (forall d, l <> LTick d) -> prompt s -> step c sel s l = Some s' -> prompt s'.
Proof.
  intros Hl Pr H. destruct l.
  - inv_spawn H. exact Pr.
  - inv_select H sel s t o r Hn Hsel. exact Pr.
  - inv_begin H c s t h Hn F; exact Pr.
  - inv_nohost H s t Hn. exact Pr.
  - inv_finish H s t h Hn. exact Pr.
  - inv_record H c s t h Hn Hft; [|exact Pr].
    intros e He. simpl in *. apply in_app_or in He as [He|[<-|[]]]; [exact (Pr e He)|].
    simpl. apply Z.ltb_lt in Hft. lia.
  - inv_fire H s k h d Hn Hdue. intros e He. simpl in *. exact (Pr e (in_remove_nth _ _ _ He)).
  - exfalso. exact (Hl d eq_refl).
Qed.

Lemma hexec_prompt c sel s h s' e : prompt s -> hexec c sel s h = Some (s', e) -> prompt s'.
Proof.
  intros Pr H. destruct h; cbn [hexec] in H.
  - destruct (step c sel s (LSelect t)) as [s1|] eqn:E; [|discriminate]. injection H as <- _.
    eapply step_prompt; [|exact Pr|exact E]; intros ?; discriminate.
  - destruct (nth_error (threads s) t) as [[|[x|]| | |]|]; try discriminate.
    + destruct (step c sel s (LBegin t)) as [s1|] eqn:E; [|discriminate].
      assert (P1 : prompt s1) by (eapply step_prompt; [|exact Pr|exact E]; intros ?; discriminate).
      destruct (nth_error (threads s1) t) as [[|[y|]| | |]|]; try (injection H as <- _; exact P1).
      destruct (step c sel s1 (LNoHost t again)) as [s2|] eqn:E2; [|discriminate]. injection H as <- _.
      eapply step_prompt; [|exact P1|exact E2]; intros ?; discriminate.
    + destruct (step c sel s (LNoHost t again)) as [s1|] eqn:E; [|discriminate]. injection H as <- _.
      eapply step_prompt; [|exact Pr|exact E]; intros ?; discriminate.
  - destruct (nth_error (threads s) t) as [[| | | |]|]; try discriminate. injection H as <- _. exact Pr.
  - destruct (step c sel s (LFinish t o)) as [s1|] eqn:E; [|discriminate].
    assert (P1 : prompt s1) by (eapply step_prompt; [|exact Pr|exact E]; intros ?; discriminate).
    destruct o.
    2:{ destruct (step c sel s1 (LRecord t again)) as [s2|] eqn:E2; [|discriminate]. injection H as <- _.
        eapply step_prompt; [|exact P1|exact E2]; intros ?; discriminate. }
    all: injection H as <- _; exact P1.
  - destruct (step c sel s (LTick d)) as [s1|] eqn:E; [|discriminate].
    destruct (fire_due c sel s1 (length (timers s1))) as [s2|] eqn:E2; [|discriminate]. injection H as <- _.
    exact (fire_due_prompt _ _ _ _ _ (le_n _) E2).
Qed.

Lemma init_threads_prompt r n : prompt (init_threads r n).
Proof. intros e He. simpl in He. contradiction. Qed.

Lemma harness_states_reachable c sel r n : reachable c sel (init_threads r n) /\ prompt (init_threads r n).
Proof. split; [apply init_threads_reachable | apply init_threads_prompt]. Qed.

Lemma harness_steps_reachable c sel s h s' e :
  reachable c sel s -> prompt s -> hexec c sel s h = Some (s', e) -> reachable c sel s' /\ prompt s'.
Proof.
  intros R P H. split; [exact (hexec_reachable _ _ _ _ _ _ R H) | exact (hexec_prompt _ _ _ _ _ _ P H)].
Qed.
