(* C04 heap model: proofs (ownership invariant over ALL interleavings, every attempt sends the
   client's bytes, every relay delivers its source's bytes; the pooled-body variant refuted). *)
Require Import V.Lib V.C04_HeapModel.
From Coq Require Import List NArith Arith Bool Lia.
Import ListNotations.
Local Open Scope nat_scope.

Lemma upd_same {A} (f : nat -> A) i v : upd f i v i = v.
Proof. unfold upd. rewrite Nat.eqb_refl. reflexivity. Qed.
Lemma upd_other {A} (f : nat -> A) i j v : j <> i -> upd f i v j = f j.
Proof. intros H. unfold upd. apply Nat.eqb_neq in H. rewrite H. reflexivity. Qed.

Lemma firstn_len_firstn {A} (l : list A) k : firstn (List.length (firstn k l)) l = firstn k l.
Proof.
  revert k. induction l as [|x t IH]; intros k; destruct k; simpl; try reflexivity.
  rewrite IH. reflexivity.
Qed.

Lemma firstn_chunk {A} (l : list A) a k :
  firstn a l ++ firstn k (skipn a l) = firstn (a + List.length (firstn k (skipn a l))) l.
Proof.
  revert l. induction a as [|a IH]; intros l.
  - simpl. symmetry. apply firstn_len_firstn.
  - destruct l as [|x t].
    + simpl. destruct k; simpl; reflexivity.
    + simpl. rewrite IH. reflexivity.
Qed.

Lemma overwrite_firstn old chunk : firstn (List.length chunk) (overwrite old chunk) = chunk.
Proof.
  unfold overwrite. rewrite firstn_app, Nat.sub_diag, firstn_all. simpl. apply app_nil_r.
Qed.

(* ---- frames: a request / a copy loop is untouched by a step that leaves its record and the
   cells it owns alone ---- *)
Lemma req_ok_frame s s' r :
  s_req s' r = s_req s r -> s_next s <= s_next s' ->
  (forall a, a < s_next s -> c_owner (s_heap s a) = OwnBody r -> s_heap s' a = s_heap s a) ->
  req_ok s r -> req_ok s' r.
Proof.
  intros Hq Hn Hh (H1 & H2 & H3 & H4). unfold req_ok. rewrite Hq.
  split; [exact H1|]. split; [exact H2|]. split; [exact H3|].
  destruct (rq_buf (s_req s r)) as [a|]; [|exact I].
  destruct H4 as (Ha & Ho & Hd & Hl). rewrite (Hh a Ha Ho).
  split; [lia|]. split; [exact Ho|]. split; [exact Hd|exact Hl].
Qed.

Lemma cpy_ok_frame s s' c :
  s_cp s' c = s_cp s c -> s_next s <= s_next s' ->
  (forall a, a < s_next s -> c_owner (s_heap s a) = OwnCopy c -> s_heap s' a = s_heap s a) ->
  cpy_ok s c -> cpy_ok s' c.
Proof.
  intros Hq Hn Hh H. unfold cpy_ok in *. rewrite Hq.
  destruct (cp_buf (s_cp s c)) as [a|]; [|exact H].
  destruct H as (Ha & Ho & Hd). rewrite (Hh a Ha Ho).
  split; [lia|]. split; [exact Ho|exact Hd].
Qed.

Lemma inv_st0 : Inv st0.
Proof.
  split; intros x; unfold req_ok, cpy_ok; simpl.
  - split; [reflexivity|]. split; [discriminate|]. split; [intros ? ? []|exact I].
  - split; reflexivity.
Qed.

Ltac other_req r r' :=
  destruct (Nat.eq_dec r' r) as [->|Hne].

Lemma step_inv cap s l s' : Inv s -> step false cap s l = Some s' -> Inv s'.
Proof.
  intros [HR HC] Hs. destruct l as [r body ao|r|r k|r|c src ao|c k|c|c]; simpl in Hs.
  - (* LNewBody *)
    destruct (rq_buf (s_req s r)) eqn:Eb; [discriminate|]. injection Hs as <-.
    split.
    + intros r'. other_req r r'.
      * unfold req_ok. simpl. rewrite !upd_same. simpl.
        split; [reflexivity|]. split; [discriminate|]. split; [intros ? ? []|].
        rewrite upd_same. simpl. repeat split; lia.
      * apply (req_ok_frame s); simpl; [apply upd_other; exact Hne|lia| |apply HR].
        intros a Ha _. apply upd_other. lia.
    + intros c. apply (cpy_ok_frame s); simpl; [reflexivity|lia| |apply HC].
      intros a Ha _. apply upd_other. lia.
  - (* LBegin *)
    destruct (rq_buf (s_req s r)) as [a|] eqn:Eb; [|discriminate].
    destruct (rq_active (s_req s r)) eqn:Ea; [discriminate|]. injection Hs as <-.
    split.
    + intros r'. other_req r r'.
      * pose proof (HR r) as (H1 & H2 & H3 & H4). rewrite Eb in H4.
        unfold req_ok. simpl. rewrite !upd_same. simpl.
        split; [discriminate|]. split; [reflexivity|]. split; [exact H3|exact H4].
      * apply (req_ok_frame s); simpl; [apply upd_other; exact Hne|lia| |apply HR]. reflexivity.
    + intros c. apply (cpy_ok_frame s); simpl; [reflexivity|lia| |apply HC]. reflexivity.
  - (* LRead *)
    destruct (rq_buf (s_req s r)) as [a|] eqn:Eb; [|discriminate].
    destruct (rq_active (s_req s r)) eqn:Ea; [|discriminate]. injection Hs as <-.
    split.
    + intros r'. other_req r r'.
      * pose proof (HR r) as (H1 & H2 & H3 & H4). rewrite Eb in H4.
        destruct H4 as (Ha & Ho & Hd & Hl).
        unfold req_ok. simpl. rewrite !upd_same. simpl.
        split; [discriminate|]. split.
        { intros _. rewrite Hd, Hl, firstn_all, (H2 Ea). apply firstn_chunk. }
        split; [exact H3|]. repeat split; assumption.
      * apply (req_ok_frame s); simpl; [apply upd_other; exact Hne|lia| |apply HR]. reflexivity.
    + intros c. apply (cpy_ok_frame s); simpl; [reflexivity|lia| |apply HC]. reflexivity.
  - (* LEnd *)
    destruct (rq_buf (s_req s r)) as [a|] eqn:Eb; [|discriminate].
    destruct (rq_active (s_req s r)) eqn:Ea; [|discriminate]. injection Hs as <-.
    split.
    + intros r'. other_req r r'.
      * pose proof (HR r) as (H1 & H2 & H3 & H4). rewrite Eb in H4.
        destruct H4 as (Ha & Ho & Hd & Hl).
        unfold req_ok. simpl. rewrite !upd_same. simpl.
        split; [reflexivity|]. split; [discriminate|]. split.
        { intros att fl Hin. apply in_app_or in Hin. destruct Hin as [Hin|[Hin|[]]]; [exact (H3 att fl Hin)|].
          injection Hin as <- <-. rewrite (H2 Ea). split.
          - symmetry. apply firstn_len_firstn.
          - intros Hf. apply Nat.eqb_eq in Hf. rewrite Hf, Hl. apply firstn_all. }
        repeat split; assumption.
      * apply (req_ok_frame s); simpl; [apply upd_other; exact Hne|lia| |apply HR]. reflexivity.
    + intros c. apply (cpy_ok_frame s); simpl; [reflexivity|lia| |apply HC]. reflexivity.
  - (* LGet *)
    destruct (cp_buf (s_cp s c)) eqn:Eb; [discriminate|].
    destruct ao as [a|].
    + destruct ((a <? s_next s) && is_pool (s_heap s a)) eqn:Ec; [|discriminate]. injection Hs as <-.
      apply andb_true_iff in Ec. destruct Ec as [Ea Ep]. apply Nat.ltb_lt in Ea.
      unfold is_pool in Ep. destruct (c_owner (s_heap s a)) eqn:Eo; try discriminate.
      split.
      * intros r. apply (req_ok_frame s); simpl; [reflexivity|lia| |apply HR].
        intros a' _ Ho. apply upd_other. intros ->. congruence.
      * intros c'. other_req c c'.
        { unfold cpy_ok. simpl. rewrite !upd_same. simpl. rewrite upd_same. simpl.
          split; [exact Ea|]. split; reflexivity. }
        { apply (cpy_ok_frame s); simpl; [apply upd_other; exact Hne|lia| |apply HC].
          intros a' _ Ho. apply upd_other. intros ->. congruence. }
    + injection Hs as <-. split.
      * intros r. apply (req_ok_frame s); simpl; [reflexivity|lia| |apply HR].
        intros a' Ha _. apply upd_other. lia.
      * intros c'. other_req c c'.
        { unfold cpy_ok. simpl. rewrite !upd_same. simpl. rewrite upd_same. simpl.
          split; [lia|]. split; reflexivity. }
        { apply (cpy_ok_frame s); simpl; [apply upd_other; exact Hne|lia| |apply HC].
          intros a' Ha _. apply upd_other. lia. }
  - (* LFill *)
    destruct (cp_buf (s_cp s c)) as [a|] eqn:Eb; [|discriminate].
    destruct (cp_n (s_cp s c)) eqn:En; [|discriminate]. injection Hs as <-.
    pose proof (HC c) as H. unfold cpy_ok in H. rewrite Eb, En in H. destruct H as (Ha & Ho & Hd).
    simpl in Hd. rewrite app_nil_r in Hd.
    split.
    + intros r. apply (req_ok_frame s); simpl; [reflexivity|lia| |apply HR].
      intros a' _ Ho'. apply upd_other. intros ->. congruence.
    + intros c'. other_req c c'.
      * unfold cpy_ok. simpl. rewrite !upd_same. simpl. rewrite upd_same. simpl.
        split; [exact Ha|]. split; [exact Ho|].
        rewrite overwrite_firstn, Hd. apply firstn_chunk.
      * apply (cpy_ok_frame s); simpl; [apply upd_other; exact Hne|lia| |apply HC].
        intros a' _ Ho'. apply upd_other. intros ->. rewrite Ho in Ho'. injection Ho' as E. exact (Hne (eq_sym E)).
  - (* LWrite *)
    destruct (cp_buf (s_cp s c)) as [a|] eqn:Eb; [|discriminate]. injection Hs as <-.
    pose proof (HC c) as H. unfold cpy_ok in H. rewrite Eb in H. destruct H as (Ha & Ho & Hd).
    split.
    + intros r. apply (req_ok_frame s); simpl; [reflexivity|lia| |apply HR]. reflexivity.
    + intros c'. other_req c c'.
      * unfold cpy_ok. simpl. rewrite !upd_same. simpl.
        split; [exact Ha|]. split; [exact Ho|]. rewrite app_nil_r. exact Hd.
      * apply (cpy_ok_frame s); simpl; [apply upd_other; exact Hne|lia| |apply HC]. reflexivity.
  - (* LPut *)
    destruct (cp_buf (s_cp s c)) as [a|] eqn:Eb; [|discriminate].
    destruct (cp_n (s_cp s c)) eqn:En; [|discriminate]. injection Hs as <-.
    pose proof (HC c) as H. unfold cpy_ok in H. rewrite Eb, En in H. destruct H as (Ha & Ho & Hd).
    simpl in Hd. rewrite app_nil_r in Hd.
    split.
    + intros r. apply (req_ok_frame s); simpl; [reflexivity|lia| |apply HR].
      intros a' _ Ho'. apply upd_other. intros ->. congruence.
    + intros c'. other_req c c'.
      * unfold cpy_ok. simpl. rewrite !upd_same. simpl. split; [reflexivity|exact Hd].
      * apply (cpy_ok_frame s); simpl; [apply upd_other; exact Hne|lia| |apply HC].
        intros a' _ Ho'. apply upd_other. intros ->. rewrite Ho in Ho'. injection Ho' as E. exact (Hne (eq_sym E)).
Qed.

Lemma run_inv cap tr : forall s s', Inv s -> run false cap s tr = Some s' -> Inv s'.
Proof.
  induction tr as [|l t IH]; intros s s' Hi Hr; simpl in Hr.
  - injection Hr as <-. exact Hi.
  - destruct (step false cap s l) as [s1|] eqn:E; [|discriminate].
    exact (IH s1 s' (step_inv cap s l s1 Hi E) Hr).
Qed.

Lemma reachable_inv cap tr s : run false cap st0 tr = Some s -> Inv s.
Proof. exact (run_inv cap tr st0 s inv_st0). Qed.

(* ---- consequences ---- *)

(* a buffer that is in the pool is read by nobody; no buffer has two holders *)
Lemma heap_ownership cap tr s :
  run false cap st0 tr = Some s ->
  (forall a, c_owner (s_heap s a) = InPool ->
     (forall r, rq_buf (s_req s r) <> Some a) /\ (forall c, cp_buf (s_cp s c) <> Some a)) /\
  (forall a r c, rq_buf (s_req s r) = Some a -> cp_buf (s_cp s c) <> Some a) /\
  (forall a r r', rq_buf (s_req s r) = Some a -> rq_buf (s_req s r') = Some a -> r = r') /\
  (forall a c c', cp_buf (s_cp s c) = Some a -> cp_buf (s_cp s c') = Some a -> c = c').
Proof.
  intros Hr. destruct (reachable_inv cap tr s Hr) as [HR HC].
  assert (RB : forall r a, rq_buf (s_req s r) = Some a -> c_owner (s_heap s a) = OwnBody r).
  { intros r a E. pose proof (HR r) as (_ & _ & _ & H). rewrite E in H. tauto. }
  assert (CB : forall c a, cp_buf (s_cp s c) = Some a -> c_owner (s_heap s a) = OwnCopy c).
  { intros c a E. pose proof (HC c) as H. unfold cpy_ok in H. rewrite E in H. tauto. }
  split; [|split; [|split]].
  - intros a Hp. split; intros x E.
    + apply RB in E. congruence.
    + apply CB in E. congruence.
  - intros a r c E1 E2. apply RB in E1. apply CB in E2. congruence.
  - intros a r r' E1 E2. apply RB in E1. apply RB in E2. congruence.
  - intros a c c' E1 E2. apply CB in E1. apply CB in E2. congruence.
Qed.

(* every attempt of every request sends the client's bytes, whatever ran in between *)
Lemma heap_attempts cap tr s r :
  run false cap st0 tr = Some s ->
  (forall att fl, In (att, fl) (rq_done (s_req s r)) ->
     att = firstn (List.length att) (rq_orig (s_req s r)) /\ (fl = true -> att = rq_orig (s_req s r))) /\
  (rq_active (s_req s r) = true -> rq_cur (s_req s r) = firstn (rq_off (s_req s r)) (rq_orig (s_req s r))) /\
  (forall a, rq_buf (s_req s r) = Some a -> c_data (s_heap s a) = rq_orig (s_req s r)).
Proof.
  intros Hr. destruct (reachable_inv cap tr s Hr) as [HR _].
  pose proof (HR r) as (_ & H2 & H3 & H4).
  split; [exact H3|]. split; [exact H2|].
  intros a E. rewrite E in H4. tauto.
Qed.

(* every run of pooledIoCopy delivers a prefix of its source - exactly what it has Read *)
Lemma heap_relay cap tr s c :
  run false cap st0 tr = Some s ->
  cp_n (s_cp s c) = 0 -> cp_out (s_cp s c) = firstn (cp_pos (s_cp s c)) (cp_src (s_cp s c)).
Proof.
  intros Hr Hn. destruct (reachable_inv cap tr s Hr) as [_ HC].
  pose proof (HC c) as H. unfold cpy_ok in H. destruct (cp_buf (s_cp s c)).
  - destruct H as (_ & _ & H). rewrite Hn in H. simpl in H. rewrite app_nil_r in H. exact H.
  - tauto.
Qed.

(* non-vacuity: a reachable state with a retried body and a relay sharing the pool *)
Definition wit_ok_trace : list lbl :=
  [LGet 0 [120; 121; 122]%N None; LFill 0 2; LWrite 0; LPut 0;
   LNewBody 0 [65; 66]%N None; LBegin 0; LRead 0 1;
   LGet 1 [120; 121]%N (Some 0); LFill 1 5; LEnd 0;
   LBegin 0; LRead 0 7; LWrite 1; LEnd 0; LPut 1].
Lemma wit_ok_runs :
  done_of (run false 2 st0 wit_ok_trace) 0 = [([65]%N, false); ([65; 66]%N, true)] /\
  (match run false 2 st0 wit_ok_trace with Some s => cp_out (s_cp s 1) | None => [] end) = [120; 121]%N.
Proof. vm_compute. split; reflexivity. Qed.

(* the pooled-body variant (seeded C04-m3): an attempt sends another exchange's bytes *)
Lemma pooled_body_refuted :
  exists cap tr s r att,
    run true cap st0 tr = Some s /\ In (att, true) (rq_done (s_req s r)) /\ att <> rq_orig (s_req s r).
Proof.
  exists 4, wit_alias_trace.
  destruct (run true 4 st0 wit_alias_trace) as [s|] eqn:E; [|vm_compute in E; discriminate].
  exists s, 0, [120; 121]%N.
  split; [reflexivity|].
  assert (D : done_of (run true 4 st0 wit_alias_trace) 0 = [([120; 121]%N, true)]) by (vm_compute; reflexivity).
  assert (O : match run true 4 st0 wit_alias_trace with Some s => rq_orig (s_req s 0) | None => [] end = [65; 66]%N)
    by (vm_compute; reflexivity).
  rewrite E in D, O. simpl in D. rewrite D, O. split; [left; reflexivity|discriminate].
Qed.
