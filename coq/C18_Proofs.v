Require Import V.Lib V.GoPath V.C18_Model.
