(* C18 — proofs. *)
Require Import V.Lib V.GoPath V.Gen_C18 V.C18_Model.
Open Scope N_scope.
Local Open Scope string_scope.

(* ------------------------------------------------------------------------------------------ *)
(* header map *)

Lemma beq_false_neq a b : beq a b = false <-> a <> b.
Proof.
  split.
  - intros H E. apply beq_eq in E. congruence.
  - intros H. destruct (beq a b) eqn:E; [apply beq_eq in E; contradiction | reflexivity].
Qed.

Lemma beq_sym a b : beq a b = beq b a.
Proof.
  destruct (beq a b) eqn:E.
  - apply beq_eq in E. subst b. symmetry. apply beq_refl.
  - symmetry. apply beq_false_neq. apply beq_false_neq in E. congruence.
Qed.

Lemma hvals_hdel_same h k : hvals (hdel h k) k = [].
Proof.
  induction h as [|[k' vs] h IH]; simpl; [reflexivity|].
  destruct (beq k k') eqn:E; simpl; [exact IH|]. rewrite E. exact IH.
Qed.

Lemma hvals_hdel_other h k k' : beq k k' = false -> hvals (hdel h k) k' = hvals h k'.
Proof.
  intros Hne. induction h as [|[k2 vs] h IH]; simpl; [reflexivity|].
  destruct (beq k k2) eqn:E; simpl.
  - apply beq_eq in E. subst k2. rewrite beq_sym, Hne. exact IH.
  - destruct (beq k' k2); [reflexivity | exact IH].
Qed.

Lemma hvals_hset_same h k v : hvals (hset h k v) k = [v].
Proof. unfold hset. simpl. rewrite beq_refl. reflexivity. Qed.

Lemma hvals_hset_other h k v k' : beq k k' = false -> hvals (hset h k v) k' = hvals h k'.
Proof. intros H. unfold hset. simpl. rewrite beq_sym, H. apply hvals_hdel_other, H. Qed.

Lemma hvals_hadd_same h k v : hvals (hadd h k v) k = hvals h k ++ [v].
Proof. unfold hadd. simpl. rewrite beq_refl. reflexivity. Qed.

Lemma hvals_hadd_other h k v k' : beq k k' = false -> hvals (hadd h k v) k' = hvals h k'.
Proof. intros H. unfold hadd. simpl. rewrite beq_sym, H. apply hvals_hdel_other, H. Qed.

Lemma hget_hvals h k : hget h k = match hvals h k with v :: _ => v | [] => [] end.
Proof. reflexivity. Qed.

(* the keys are pairwise distinct (closed computations) *)
Lemma ce_ne_vary : beq K_CE K_VARY = false. Proof. reflexivity. Qed.
Lemma ce_ne_etag : beq K_CE K_ETAG = false. Proof. reflexivity. Qed.
Lemma ce_ne_cl : beq K_CE K_CL = false. Proof. reflexivity. Qed.
Lemma cl_ne_ce : beq K_CL K_CE = false. Proof. reflexivity. Qed.
Lemma cl_ne_vary : beq K_CL K_VARY = false. Proof. reflexivity. Qed.
Lemma cl_ne_etag : beq K_CL K_ETAG = false. Proof. reflexivity. Qed.
Lemma vary_ne_ce : beq K_VARY K_CE = false. Proof. reflexivity. Qed.
Lemma vary_ne_cl : beq K_VARY K_CL = false. Proof. reflexivity. Qed.
Lemma vary_ne_etag : beq K_VARY K_ETAG = false. Proof. reflexivity. Qed.
Lemma etag_ne_ce : beq K_ETAG K_CE = false. Proof. reflexivity. Qed.
Lemma etag_ne_cl : beq K_ETAG K_CL = false. Proof. reflexivity. Qed.
Lemma etag_ne_vary : beq K_ETAG K_VARY = false. Proof. reflexivity. Qed.

(* what gzipResponseWriter.WriteHeader leaves in the header map *)
Lemma gz_hdr_ce h : hvals (gz_hdr h) K_CE = [GZIP].
Proof.
  unfold gz_hdr.
  set (h1 := hset (hdel h K_CL) K_CE GZIP).
  set (h2 := if existsb (beq V_AE) (hvals h1 K_VARY) then h1 else hadd h1 K_VARY V_AE).
  assert (H2 : hvals h2 K_CE = [GZIP]).
  { unfold h2. destruct (existsb (beq V_AE) (hvals h1 K_VARY)).
    - apply hvals_hset_same.
    - rewrite hvals_hadd_other by exact vary_ne_ce. apply hvals_hset_same. }
  destruct (negb (beq (hget h2 K_ETAG) []) && negb (has_prefix (hget h2 K_ETAG) WEAK)).
  - rewrite hvals_hset_other by exact etag_ne_ce. exact H2.
  - exact H2.
Qed.

Lemma gz_hdr_cl h : hvals (gz_hdr h) K_CL = [].
Proof.
  unfold gz_hdr.
  set (h1 := hset (hdel h K_CL) K_CE GZIP).
  assert (H1 : hvals h1 K_CL = []).
  { unfold h1. rewrite hvals_hset_other by exact ce_ne_cl. apply hvals_hdel_same. }
  set (h2 := if existsb (beq V_AE) (hvals h1 K_VARY) then h1 else hadd h1 K_VARY V_AE).
  assert (H2 : hvals h2 K_CL = []).
  { unfold h2. destruct (existsb (beq V_AE) (hvals h1 K_VARY)); [exact H1|].
    rewrite hvals_hadd_other by exact vary_ne_cl. exact H1. }
  destruct (negb (beq (hget h2 K_ETAG) []) && negb (has_prefix (hget h2 K_ETAG) WEAK)).
  - rewrite hvals_hset_other by exact etag_ne_cl. exact H2.
  - exact H2.
Qed.

Lemma existsb_beq_In x l : existsb (beq x) l = true <-> In x l.
Proof.
  rewrite existsb_exists. split.
  - intros (y & Hy & E). apply beq_eq in E. subst y. exact Hy.
  - intros H. exists x. split; [exact H | apply beq_refl].
Qed.

Lemma gz_hdr_vary h : In V_AE (hvals (gz_hdr h) K_VARY).
Proof.
  unfold gz_hdr.
  set (h1 := hset (hdel h K_CL) K_CE GZIP).
  set (h2 := if existsb (beq V_AE) (hvals h1 K_VARY) then h1 else hadd h1 K_VARY V_AE).
  assert (H2 : In V_AE (hvals h2 K_VARY)).
  { unfold h2. destruct (existsb (beq V_AE) (hvals h1 K_VARY)) eqn:E.
    - apply existsb_beq_In. exact E.
    - rewrite hvals_hadd_same. apply in_or_app. right. left. reflexivity. }
  destruct (negb (beq (hget h2 K_ETAG) []) && negb (has_prefix (hget h2 K_ETAG) WEAK)).
  - rewrite hvals_hset_other by exact etag_ne_vary. exact H2.
  - exact H2.
Qed.

Lemma gz_hdr_etag h : hget (gz_hdr h) K_ETAG = weak_of (hget h K_ETAG).
Proof.
  unfold gz_hdr.
  set (h1 := hset (hdel h K_CL) K_CE GZIP).
  set (h2 := if existsb (beq V_AE) (hvals h1 K_VARY) then h1 else hadd h1 K_VARY V_AE).
  assert (H2 : hget h2 K_ETAG = hget h K_ETAG).
  { unfold hget. replace (hvals h2 K_ETAG) with (hvals h K_ETAG); [reflexivity|].
    unfold h2. destruct (existsb (beq V_AE) (hvals h1 K_VARY)).
    - unfold h1. rewrite hvals_hset_other by exact ce_ne_etag.
      rewrite hvals_hdel_other by exact cl_ne_etag. reflexivity.
    - rewrite hvals_hadd_other by exact vary_ne_etag.
      unfold h1. rewrite hvals_hset_other by exact ce_ne_etag.
      rewrite hvals_hdel_other by exact cl_ne_etag. reflexivity. }
  unfold weak_of. rewrite <- H2.
  destruct (negb (beq (hget h2 K_ETAG) []) && negb (has_prefix (hget h2 K_ETAG) WEAK)).
  - unfold hget at 1. rewrite hvals_hset_same. reflexivity.
  - reflexivity.
Qed.

(* ------------------------------------------------------------------------------------------ *)
(* runs of handler scripts (ANY sequence of header operations, WriteHeader, Write, Flush) *)

Definition apply_hdrs (hs : list op) (h : headers) : headers :=
  fold_left (fun h o => hdr_fun o h) hs h.
(* the header map below a compressing gzip layer: a repeated WriteHeader rewrites it again (after
   the commit, so without effect on the response) *)
Definition apply_hdrs_gz (r : list op) (h : headers) : headers :=
  fold_left (fun h o => match o with OWriteHeader _ => gz_hdr h | _ => hdr_fun o h end) r h.

Lemma uw_eta u : {| u_hdr := u_hdr u; u_commit := u_commit u; u_body := u_body u |} = u.
Proof. destruct u; reflexivity. Qed.

Lemma pstep_hdr o u : is_hdr o = true -> pstep u o = uw_sethdr (hdr_fun o) u.
Proof. destruct o; simpl; intros H; try discriminate; reflexivity. Qed.

Lemma plain_hdrs hs u : forallb is_hdr hs = true ->
  fold_left pstep hs u = uw_sethdr (apply_hdrs hs) u.
Proof.
  revert u. induction hs as [|o hs IH]; intros u H; simpl.
  - unfold uw_sethdr, apply_hdrs. simpl. symmetry. apply uw_eta.
  - simpl in H. apply andb_true_iff in H as [Ho Hr].
    rewrite pstep_hdr by exact Ho. rewrite IH by exact Hr.
    unfold uw_sethdr, apply_hdrs. simpl. reflexivity.
Qed.

Lemma uw_commit_committed c u x : u_commit u = Some x -> uw_commit c u = u.
Proof. unfold uw_commit. intros ->. reflexivity. Qed.

(* once the response has started, whatever the handler does only appends writes *)
Lemma plain_tail r : forall u x, u_commit u = Some x ->
  fold_left pstep r u =
  {| u_hdr := apply_hdrs r (u_hdr u); u_commit := Some x; u_body := rev (map SP (writes r)) ++ u_body u |}.
Proof.
  induction r as [|o r IH]; intros u x Hc.
  - simpl. rewrite <- Hc. symmetry. apply uw_eta.
  - destruct o; cbn [fold_left pstep].
    + rewrite (IH _ x) by exact Hc. reflexivity.
    + rewrite (IH _ x) by exact Hc. reflexivity.
    + rewrite (IH _ x) by exact Hc. reflexivity.
    + rewrite (uw_commit_committed _ _ _ Hc). rewrite (IH _ x Hc). reflexivity.
    + unfold uw_write. rewrite (uw_commit_committed _ _ _ Hc).
      rewrite (IH _ x) by exact Hc. simpl. rewrite <- app_assoc. reflexivity.
    + rewrite (uw_commit_committed _ _ _ Hc). rewrite (IH _ x Hc). reflexivity.
Qed.

(* every script: header operations, then nothing or one of WriteHeader / Write / Flush starting
   the response, then an arbitrary tail [r] *)
Inductive shape : list op -> headers -> headers -> option Z -> list bytes -> list op -> Prop :=
| shape_nil hs : forallb is_hdr hs = true ->
    shape hs (apply_hdrs hs []) (apply_hdrs hs []) None [] []
| shape_wh hs c r : forallb is_hdr hs = true ->
    shape (hs ++ OWriteHeader c :: r) (apply_hdrs hs []) (apply_hdrs r (apply_hdrs hs [])) (Some c) (writes r) r
| shape_w hs b r : forallb is_hdr hs = true ->
    shape (hs ++ OWrite b :: r) (apply_hdrs hs []) (apply_hdrs r (apply_hdrs hs [])) (Some 200%Z) (b :: writes r) r
| shape_f hs r : forallb is_hdr hs = true ->
    shape (hs ++ OFlush :: r) (apply_hdrs hs []) (apply_hdrs r (apply_hdrs hs [])) (Some 200%Z) (writes r) r.

Lemma shape_of s : exists H H' oc wr r, shape s H H' oc wr r.
Proof.
  assert (G : exists hs bs, s = hs ++ bs /\ forallb is_hdr hs = true /\
            (bs = [] \/ exists o r, bs = o :: r /\ is_hdr o = false)).
  { induction s as [|o s IH].
    - exists [], []. repeat split; auto.
    - destruct (is_hdr o) eqn:Ho.
      + destruct IH as (hs & bs & -> & Hhs & Hbs).
        exists (o :: hs), bs. simpl. rewrite Ho, Hhs. repeat split; auto.
      + exists [], (o :: s). repeat split; auto. right. exists o, s. split; auto. }
  destruct G as (hs & bs & -> & Hhs & [-> | (o & r & -> & Ho)]).
  - rewrite app_nil_r. do 5 eexists. apply shape_nil. exact Hhs.
  - destruct o; simpl in Ho; try discriminate.
    + do 5 eexists. apply shape_wh. exact Hhs.
    + do 5 eexists. apply shape_w. exact Hhs.
    + do 5 eexists. apply shape_f. exact Hhs.
Qed.

Definition closed_plain (H' H : headers) (oc : option Z) (wr : list bytes) : uw :=
  {| u_hdr := H'; u_commit := option_map (fun c => (c, H)) oc; u_body := rev (map SP wr) |}.

Lemma plain_of_shape s H H' oc wr r : shape s H H' oc wr r -> run_plain s = closed_plain H' H oc wr.
Proof.
  intros Hs. unfold run_plain, closed_plain. destruct Hs as [hs Hhs | hs c r Hhs | hs b r Hhs | hs r Hhs].
  - rewrite plain_hdrs by exact Hhs. reflexivity.
  - rewrite fold_left_app. rewrite (plain_hdrs hs) by exact Hhs. cbn [fold_left pstep].
    rewrite (plain_tail r _ (c, apply_hdrs hs [])) by reflexivity. simpl.
    rewrite app_nil_r. reflexivity.
  - rewrite fold_left_app. rewrite (plain_hdrs hs) by exact Hhs. cbn [fold_left pstep].
    rewrite (plain_tail r _ (200%Z, apply_hdrs hs [])) by reflexivity. simpl.
    reflexivity.
  - rewrite fold_left_app. rewrite (plain_hdrs hs) by exact Hhs. cbn [fold_left pstep].
    rewrite (plain_tail r _ (200%Z, apply_hdrs hs [])) by reflexivity. simpl.
    rewrite app_nil_r. reflexivity.
Qed.

Section WithTables.
Variable dexts : list bytes.

Lemma gstep_hdr c o g : is_hdr o = true -> gstep c g o = g_with_u (uw_sethdr (hdr_fun o)) g.
Proof. destruct o; simpl; intros H; try discriminate; reflexivity. Qed.

Lemma gz_hdrs c hs g : forallb is_hdr hs = true ->
  fold_left (gstep c) hs g = g_with_u (uw_sethdr (apply_hdrs hs)) g.
Proof.
  revert g. induction hs as [|o hs IH]; intros g H; simpl.
  - destruct g as [[h cm b] r s z a w]; reflexivity.
  - simpl in H. apply andb_true_iff in H as [Ho Hr].
    rewrite gstep_hdr by exact Ho. rewrite IH by exact Hr.
    unfold g_with_u, uw_sethdr, apply_hdrs. simpl. reflexivity.
Qed.

Lemma rf_flush_written c g : g_rfw g = true -> rf_flush c g = g_with_u (uw_commit 200) g.
Proof. unfold rf_flush. intros ->. reflexivity. Qed.

(* after the header, when the filters said "do not compress": the layer is transparent plumbing,
   whatever the handler goes on to do (repeated WriteHeader included) *)
Lemma gz_tail_plain c r : forall g, g_rfw g = true -> g_should g = false ->
  fold_left (gstep c) r g = g_with_u (fun u => fold_left pstep r u) g.
Proof.
  induction r as [|o r IH]; intros g Hr Hs.
  - destruct g as [[h cm b] rr s z a w]; reflexivity.
  - destruct g as [u rr s z a w]. simpl in Hr, Hs. subst rr s.
    destruct o; cbn [fold_left gstep].
    + unfold g_with_u at 2. cbn [g_rfw g_should g_u g_gzw g_active g_ws].
      rewrite IH by reflexivity. reflexivity.
    + unfold g_with_u at 2. cbn [g_rfw g_should g_u g_gzw g_active g_ws].
      rewrite IH by reflexivity. reflexivity.
    + unfold g_with_u at 2. cbn [g_rfw g_should g_u g_gzw g_active g_ws].
      rewrite IH by reflexivity. reflexivity.
    + unfold rf_write_header. cbn [g_rfw g_should g_u g_gzw g_active g_ws].
      rewrite IH by reflexivity. reflexivity.
    + unfold rf_write. cbn [g_rfw g_should g_u g_gzw g_active g_ws].
      rewrite IH by reflexivity. reflexivity.
    + rewrite rf_flush_written by reflexivity.
      unfold g_with_u at 2. cbn [g_rfw g_should g_u g_gzw g_active g_ws].
      rewrite IH by reflexivity. reflexivity.
Qed.

(* after the header, when compressing: writes go to the gzip.Writer; flushes, repeated
   WriteHeaders and late header operations change nothing that is sent *)
Lemma gz_tail_comp c r : forall g x,
  g_rfw g = true -> g_should g = true -> g_gzw g = true -> g_active g = true -> u_commit (g_u g) = Some x ->
  fold_left (gstep c) r g =
  {| g_u := {| u_hdr := apply_hdrs_gz r (u_hdr (g_u g)); u_commit := Some x; u_body := u_body (g_u g) |};
     g_rfw := true; g_should := true; g_gzw := true; g_active := true;
     g_ws := rev (writes r) ++ g_ws g |}.
Proof.
  induction r as [|o r IH]; intros g x Hr Hs Hz Ha Hc.
  - destruct g as [[h cm b] rr s z a w]. simpl in *. subst rr s z a cm. reflexivity.
  - destruct g as [u rr s z a w]. simpl in Hr, Hs, Hz, Ha, Hc. subst rr s z a.
    destruct o; cbn [fold_left gstep].
    + unfold g_with_u. cbn [g_rfw g_should g_u g_gzw g_active g_ws].
      rewrite (IH _ x) by (try reflexivity; exact Hc). reflexivity.
    + unfold g_with_u. cbn [g_rfw g_should g_u g_gzw g_active g_ws].
      rewrite (IH _ x) by (try reflexivity; exact Hc). reflexivity.
    + unfold g_with_u. cbn [g_rfw g_should g_u g_gzw g_active g_ws].
      rewrite (IH _ x) by (try reflexivity; exact Hc). reflexivity.
    + unfold rf_write_header, gz_write_header. cbn [g_rfw g_should g_u g_gzw g_active g_ws].
      rewrite (uw_commit_committed code (uw_sethdr gz_hdr u) x) by exact Hc.
      rewrite (IH _ x) by (try reflexivity; exact Hc). reflexivity.
    + unfold rf_write. cbn [g_rfw g_should g_u g_gzw g_active g_ws].
      rewrite (IH _ x) by (try reflexivity; exact Hc).
      cbn [g_rfw g_should g_u g_gzw g_active g_ws writes flat_map]. simpl rev.
      rewrite <- app_assoc. reflexivity.
    + rewrite rf_flush_written by reflexivity.
      unfold g_with_u. cbn [g_rfw g_should g_u g_gzw g_active g_ws].
      rewrite (uw_commit_committed _ _ _ Hc).
      rewrite (IH _ x) by (try reflexivity; exact Hc). reflexivity.
Qed.

Definition closed_gz (H' H : headers) (code : Z) (wr : list bytes) : uw :=
  {| u_hdr := H'; u_commit := Some (code, gz_hdr H); u_body := [SG wr] |}.

(* state after the header phase of a fresh request *)
Definition gH (H : headers) : gst :=
  {| g_u := {| u_hdr := H; u_commit := None; u_body := [] |};
     g_rfw := false; g_should := false; g_gzw := false; g_active := false; g_ws := [] |}.

Lemma after_hdrs c hs : forallb is_hdr hs = true ->
  fold_left (gstep c) hs (g0) = gH (apply_hdrs hs []).
Proof. intros H. rewrite gz_hdrs by exact H. reflexivity. Qed.

Lemma rfwh_true c H code : resp_ok c H = true ->
  rf_write_header c code (gH H) =
  {| g_u := {| u_hdr := gz_hdr H; u_commit := Some (code, gz_hdr H); u_body := [] |};
     g_rfw := true; g_should := true; g_gzw := true; g_active := true; g_ws := [] |}.
Proof. intros Hok. unfold rf_write_header, gH. cbn [g_rfw g_u u_hdr]. rewrite Hok. reflexivity. Qed.

Lemma rfwh_false c H code : resp_ok c H = false ->
  rf_write_header c code (gH H) =
  {| g_u := {| u_hdr := H; u_commit := Some (code, H); u_body := [] |};
     g_rfw := true; g_should := false; g_gzw := false; g_active := false; g_ws := [] |}.
Proof. intros Hok. unfold rf_write_header, gH. cbn [g_rfw g_u u_hdr]. rewrite Hok. reflexivity. Qed.

Lemma gz_of_shape c s H H' oc wr r : shape s H H' oc wr r ->
  run_gz c s =
  match oc with
  | None => run_plain s
  | Some code => if resp_ok c H then closed_gz (apply_hdrs_gz r (gz_hdr H)) H code wr else run_plain s
  end.
Proof.
  intros Hs. pose proof (plain_of_shape _ _ _ _ _ _ Hs) as Hp.
  destruct Hs as [hs Hhs | hs code r Hhs | hs b r Hhs | hs r Hhs].
  - rewrite Hp. unfold run_gz. rewrite after_hdrs by exact Hhs. reflexivity.
  - unfold run_gz. rewrite fold_left_app. rewrite (after_hdrs c hs) by exact Hhs.
    cbn [fold_left gstep].
    destruct (resp_ok c (apply_hdrs hs [])) eqn:Hok.
    + rewrite rfwh_true by exact Hok.
      erewrite gz_tail_comp; try reflexivity.
      unfold g_finish, closed_gz. cbn. rewrite app_nil_r, rev_involutive. reflexivity.
    + rewrite Hp. rewrite rfwh_false by exact Hok.
      rewrite gz_tail_plain by reflexivity.
      unfold g_finish, g_with_u. cbn [g_active g_u].
      rewrite (plain_tail r _ (code, apply_hdrs hs [])) by reflexivity.
      unfold closed_plain. cbn. rewrite app_nil_r. reflexivity.
  - unfold run_gz. rewrite fold_left_app. rewrite (after_hdrs c hs) by exact Hhs.
    cbn [fold_left gstep]. unfold rf_write at 1. cbn [g_rfw gH].
    destruct (resp_ok c (apply_hdrs hs [])) eqn:Hok.
    + fold (gH (apply_hdrs hs [])). rewrite rfwh_true by exact Hok.
      cbn [g_rfw g_should g_u g_gzw g_active g_ws].
      erewrite gz_tail_comp; try reflexivity.
      unfold g_finish, closed_gz. cbn. rewrite rev_app_distr, rev_involutive. reflexivity.
    + rewrite Hp. fold (gH (apply_hdrs hs [])). rewrite rfwh_false by exact Hok.
      cbn [g_rfw g_should g_u g_gzw g_active g_ws].
      rewrite gz_tail_plain by reflexivity.
      unfold g_finish, g_with_u. cbn [g_active g_u].
      unfold uw_write at 1. unfold uw_commit at 1 2 3. cbn [u_commit u_hdr u_body].
      rewrite (plain_tail r _ (200%Z, apply_hdrs hs [])) by reflexivity.
      unfold closed_plain. cbn. reflexivity.
  - unfold run_gz. rewrite fold_left_app. rewrite (after_hdrs c hs) by exact Hhs.
    cbn [fold_left gstep]. unfold rf_flush at 1. cbn [g_rfw gH].
    fold (gH (apply_hdrs hs [])).
    destruct (resp_ok c (apply_hdrs hs [])) eqn:Hok.
    + rewrite rfwh_true by exact Hok. unfold g_with_u at 1, uw_commit at 1.
      cbn [g_rfw g_should g_u g_gzw g_active g_ws u_commit].
      erewrite gz_tail_comp; try reflexivity.
      unfold g_finish, closed_gz. cbn. rewrite app_nil_r, rev_involutive. reflexivity.
    + rewrite Hp. rewrite rfwh_false by exact Hok. unfold g_with_u at 1, uw_commit at 1.
      cbn [g_rfw g_should g_u g_gzw g_active g_ws u_commit].
      rewrite gz_tail_plain by reflexivity.
      unfold g_finish, g_with_u. cbn [g_active g_u].
      rewrite (plain_tail r _ (200%Z, apply_hdrs hs [])) by reflexivity.
      unfold closed_plain. cbn. rewrite app_nil_r. reflexivity.
Qed.

End WithTables.

(* ------------------------------------------------------------------------------------------ *)
(* closed forms: observables *)

Lemma concat_render_SP gz wr : concat (map (render gz) (map SP wr)) = concat wr.
Proof. induction wr as [|w wr IH]; simpl; [reflexivity | rewrite IH; reflexivity]. Qed.

Lemma has_gz_plain H' H oc wr : has_gz (closed_plain H' H oc wr) = false.
Proof.
  unfold has_gz, closed_plain. simpl.
  destruct (existsb _ _) eqn:E; [|reflexivity].
  apply existsb_exists in E as (x & Hin & Hx). apply in_rev in Hin. apply in_map_iff in Hin as (w & <- & _).
  discriminate.
Qed.

Lemma status_plain H' H code wr : r_status (closed_plain H' H (Some code) wr) = code. Proof. reflexivity. Qed.
Lemma status_gz H' H code wr : r_status (closed_gz H' H code wr) = code. Proof. reflexivity. Qed.
Lemma hdr_plain H' H code wr : r_hdr (closed_plain H' H (Some code) wr) = H. Proof. reflexivity. Qed.
Lemma hdr_gz H' H code wr : r_hdr (closed_gz H' H code wr) = gz_hdr H. Proof. reflexivity. Qed.

(* the headers the identity run sends *)
Lemma hdr_of_shape s H H' oc wr r : shape s H H' oc wr r -> r_hdr (run_plain s) = H.
Proof.
  intros Hs. rewrite (plain_of_shape _ _ _ _ _ _ Hs).
  destruct Hs; reflexivity.
Qed.

Lemma wire_plain gz head H' H code wr :
  wire gz head (closed_plain H' H (Some code) wr) = if bodyless head code then [] else concat wr.
Proof.
  unfold wire. rewrite status_plain. destruct (bodyless head code); [reflexivity|].
  unfold r_segs, closed_plain. simpl u_body. rewrite rev_involutive. apply concat_render_SP.
Qed.

Lemma wire_gz gz head H' H code wr :
  wire gz head (closed_gz H' H code wr) = if bodyless head code then [] else gz wr.
Proof.
  unfold wire. rewrite status_gz. destruct (bodyless head code); [reflexivity|].
  unfold r_segs, closed_gz. simpl. apply app_nil_r.
Qed.

Lemma all_plain_SP wr : all_plain (map SP wr) = Some (concat wr).
Proof. unfold all_plain. induction wr as [|w wr IH]; simpl; [reflexivity|]. rewrite IH. reflexivity. Qed.

Section Serve.
Variable dexts : list bytes.

(* every run of the gzip middleware, on ANY handler script, is the identity run, or the
   "compressed" closed form reached through a config that accepted request and response *)
Lemma serve_cases cs cfgs path ae s :
  gzip_serve dexts cs cfgs path ae s = run_plain s \/
  exists c H H1 H2 code wr,
    accepts_gzip ae = true /\ find (req_ok dexts cs path) cfgs = Some c /\ resp_ok c H = true /\
    run_plain s = closed_plain H1 H (Some code) wr /\
    gzip_serve dexts cs cfgs path ae s = closed_gz H2 H code wr.
Proof.
  unfold gzip_serve.
  destruct (accepts_gzip ae) eqn:Hae; simpl; [|left; reflexivity].
  destruct (find (req_ok dexts cs path) cfgs) as [c|] eqn:Hf; [|left; reflexivity].
  destruct (shape_of s) as (H & H' & oc & wr & r & Hs).
  rewrite (gz_of_shape c s H H' oc wr r Hs).
  destruct oc as [code|]; [|left; reflexivity].
  destruct (resp_ok c H) eqn:Hok; [|left; reflexivity].
  right. exists c, H, H', (apply_hdrs_gz r (gz_hdr H)), code, wr. repeat split; auto.
  apply (plain_of_shape _ _ _ _ _ _ Hs).
Qed.

Lemma skip_ok_no_coding vals : skip_ok vals = no_coding vals.
Proof.
  unfold skip_ok, no_coding, is_identity. induction vals as [|v vals IH]; simpl; [reflexivity|].
  rewrite IH. destruct (beq v []), (beq v IDENTITY); reflexivity.
Qed.

Lemma resp_ok_no_coding c H : resp_ok c H = true -> no_coding (hvals H K_CE) = true.
Proof.
  unfold resp_ok. intros Hok. apply andb_true_iff in Hok as [Hs _].
  rewrite skip_ok_no_coding in Hs. exact Hs.
Qed.

Lemma no_coding_codings vals : no_coding vals = true -> codings vals = [].
Proof.
  unfold no_coding, codings. induction vals as [|v vals IH]; simpl; [reflexivity|].
  intros H. apply andb_true_iff in H as [Hv Hr]. rewrite Hv. simpl. exact (IH Hr).
Qed.

(* ---- transparency ---- *)
Lemma gzip_transparent gz gunzip :
  (forall ws, gunzip (gz ws) = Some (concat ws)) ->
  forall cs cfgs path ae head s,
  transparent gz gunzip head (gzip_serve dexts cs cfgs path ae s) (run_plain s).
Proof.
  intros Hrt cs cfgs path ae head s.
  destruct (serve_cases cs cfgs path ae s) as [-> | (c & H & H1 & H2 & code & wr & _ & _ & Hok & Hp & ->)].
  - split; [reflexivity|]. left. split; reflexivity.
  - rewrite Hp in *. split; [reflexivity|].
    right. unfold r_ce. rewrite hdr_plain, hdr_gz, gz_hdr_ce.
    split; [exact (resp_ok_no_coding c H Hok)|]. split; [reflexivity|].
    rewrite status_gz, wire_gz, wire_plain.
    destruct (bodyless head code); [left; reflexivity | right; apply Hrt].
Qed.

Lemma client_view gz gunzip :
  (forall ws, gunzip (gz ws) = Some (concat ws)) ->
  forall cs cfgs path ae head s,
  no_coding (r_ce (run_plain s)) = true ->
  client_body gz gunzip head (gzip_serve dexts cs cfgs path ae s) = Some (wire gz head (run_plain s)).
Proof.
  intros Hrt cs cfgs path ae head s Hce.
  destruct (serve_cases cs cfgs path ae s) as [-> | (c & H & H1 & H2 & code & wr & _ & _ & Hok & Hp & ->)].
  - unfold client_body. rewrite (no_coding_codings _ Hce). unfold wire.
    destruct (bodyless head (r_status (run_plain s))); reflexivity.
  - rewrite Hp. unfold client_body. rewrite status_gz, wire_gz, wire_plain.
    unfold r_ce. rewrite hdr_gz, gz_hdr_ce.
    destruct (bodyless head code); [reflexivity|].
    change (codings [GZIP]) with [GZIP]. cbv iota. rewrite beq_refl. apply Hrt.
Qed.

(* ---- one representation: all plain, or one gzip stream; never a mixture ---- *)
Lemma one_representation cs cfgs path ae s :
  let out := gzip_serve dexts cs cfgs path ae s in
  (applied out = [] /\ all_plain (r_segs out) = all_plain (r_segs (run_plain s)) /\
   exists b, all_plain (r_segs out) = Some b) \/
  (applied out = [GZIP] /\ exists ws, r_segs out = [SG ws] /\ all_plain (r_segs (run_plain s)) = Some (concat ws)).
Proof.
  intros out. unfold out.
  destruct (shape_of s) as (H0 & H0' & oc0 & wr0 & r0 & Hs0).
  pose proof (plain_of_shape _ _ _ _ _ _ Hs0) as Hp0.
  destruct (serve_cases cs cfgs path ae s) as [-> | (c & H & H1 & H2 & code & wr & _ & _ & Hok & Hp & ->)].
  - left. unfold applied. rewrite Hp0, has_gz_plain. repeat split.
    exists (concat wr0). unfold r_segs, closed_plain. cbn [u_body]. rewrite rev_involutive. apply all_plain_SP.
  - right. split; [reflexivity|]. exists wr. split; [reflexivity|].
    rewrite Hp. unfold r_segs, closed_plain. cbn [u_body]. rewrite rev_involutive. apply all_plain_SP.
Qed.

(* ---- Content-Encoding names exactly what was applied ---- *)
Lemma ce_exact cs cfgs path ae s :
  let out := gzip_serve dexts cs cfgs path ae s in
  (applied out = [] -> r_ce out = r_ce (run_plain s)) /\
  codings (r_ce out) = codings (r_ce (run_plain s)) ++ applied out.
Proof.
  intros out. unfold out.
  destruct (shape_of s) as (H0 & H0' & oc0 & wr0 & r0 & Hs0).
  pose proof (plain_of_shape _ _ _ _ _ _ Hs0) as Hp0.
  destruct (serve_cases cs cfgs path ae s) as [-> | (c & H & H1 & H2 & code & wr & _ & _ & Hok & Hp & ->)].
  - unfold applied. rewrite Hp0, has_gz_plain, app_nil_r. split; reflexivity.
  - rewrite Hp. split; [intros Happ; discriminate Happ|].
    unfold r_ce. rewrite hdr_plain, hdr_gz, gz_hdr_ce.
    rewrite (no_coding_codings _ (resp_ok_no_coding c H Hok)). reflexivity.
Qed.

(* ---- already encoded (any Content-Encoding value other than "" / identity) => not touched at all ---- *)
Lemma not_double_encoded cs cfgs path ae s :
  no_coding (r_ce (run_plain s)) = false ->
  gzip_serve dexts cs cfgs path ae s = run_plain s.
Proof.
  intros Hx.
  destruct (serve_cases cs cfgs path ae s) as [-> | (c & H & H1 & H2 & code & wr & _ & _ & Hok & Hp & ->)]; [reflexivity|].
  rewrite Hp in Hx. unfold r_ce in Hx. rewrite hdr_plain in Hx.
  rewrite (resp_ok_no_coding c H Hok) in Hx. discriminate.
Qed.

(* ---- Content-Length absent or correct ---- *)
Lemma content_length_ok gz cs cfgs path ae head s :
  cl_correct gz head (run_plain s) ->
  cl_correct gz head (gzip_serve dexts cs cfgs path ae s).
Proof.
  intros Hcl.
  destruct (serve_cases cs cfgs path ae s) as [-> | (c & H & H1 & H2 & code & wr & _ & _ & Hok & Hp & ->)]; [exact Hcl|].
  left. unfold r_cl. rewrite hdr_gz. apply gz_hdr_cl.
Qed.

(* ---- gzip not offered in Accept-Encoding => identity ---- *)
Lemma identity_when_not_accepted cs cfgs path ae s :
  accepts_gzip ae = false -> gzip_serve dexts cs cfgs path ae s = run_plain s.
Proof. intros H. unfold gzip_serve. rewrite H. reflexivity. Qed.

(* the code's reading of Accept-Encoding (acceptsGzip) is at least as strict as RFC 7231's
   ([offers_gzip], the executable spec's): whenever the code sees gzip offered, so does the RFC *)
Lemma lower_inv k c : (k <? 97) || (122 <? k) = true -> lower_byte c = k -> c = k.
Proof.
  unfold lower_byte. intros Hk.
  destruct ((65 <=? c) && (c <=? 90)) eqn:E; [|auto].
  apply andb_true_iff in E as [E1 E2]. apply N.leb_le in E1, E2.
  intros <-. apply orb_true_iff in Hk as [Hk | Hk]; apply N.ltb_lt in Hk; lia.
Qed.

Lemma is_ows_lower c : is_ows (lower_byte c) = is_ows c.
Proof.
  unfold is_ows, lower_byte. destruct ((65 <=? c) && (c <=? 90)) eqn:E; [|reflexivity].
  apply andb_true_iff in E as [E1 E2]. apply N.leb_le in E1, E2.
  assert (H1 : c + 32 =? 32 = false) by (apply N.eqb_neq; lia).
  assert (H2 : c + 32 =? 9 = false) by (apply N.eqb_neq; lia).
  assert (H3 : c =? 32 = false) by (apply N.eqb_neq; lia).
  assert (H4 : c =? 9 = false) by (apply N.eqb_neq; lia).
  rewrite H1, H2, H3, H4. reflexivity.
Qed.

Lemma ltrim_lower v : ltrim (to_lower v) = to_lower (ltrim v).
Proof.
  unfold to_lower. induction v as [|c v IH]; simpl; [reflexivity|].
  rewrite is_ows_lower. destruct (is_ows c); [exact IH | reflexivity].
Qed.

Lemma trim_lower v : trim (to_lower v) = to_lower (trim v).
Proof.
  unfold trim. rewrite ltrim_lower. unfold to_lower at 1. rewrite <- map_rev.
  fold (to_lower (rev (ltrim v))). rewrite ltrim_lower. unfold to_lower. rewrite <- map_rev. reflexivity.
Qed.

Lemma forallb_zero_lower r : forallb (N.eqb 48) (to_lower r) = true -> forallb (N.eqb 48) r = true.
Proof.
  unfold to_lower. induction r as [|c r IH]; cbn [map forallb]; [auto|].
  intros H. apply andb_true_iff in H as [Hc Hr]. apply N.eqb_eq in Hc. symmetry in Hc.
  apply lower_inv in Hc; [|reflexivity]. subst c. rewrite N.eqb_refl. exact (IH Hr).
Qed.

Lemma zero_q_lower w : is_zero_q (to_lower w) = true -> zero_qvalue w = true.
Proof.
  unfold is_zero_q, zero_qvalue. change (bs "0") with [48]. change (bs "0.") with [48; 46].
  intros H. apply orb_true_iff in H as [H | H]; apply orb_true_iff.
  - left. apply beq_eq in H. destruct w as [|a [|b w]]; cbn [to_lower map] in H; try discriminate.
    injection H as H. apply lower_inv in H; [|reflexivity]. subst a. reflexivity.
  - right. apply andb_true_iff in H as [Hp Hz].
    destruct w as [|a [|b w]]; cbn [to_lower map has_prefix] in Hp.
    + discriminate.
    + apply andb_true_iff in Hp as [_ Hp]. discriminate.
    + apply andb_true_iff in Hp as [Ha Hb]. apply andb_true_iff in Hb as [Hb _].
      apply N.eqb_eq in Ha, Hb.
      apply lower_inv in Ha; [|reflexivity]. apply lower_inv in Hb; [|reflexivity]. subst a b.
      cbn [to_lower map skipn] in Hz. fold (to_lower w) in Hz.
      cbn [has_prefix skipn]. rewrite !N.eqb_refl. cbn [andb].
      replace (has_prefix w []) with true by (destruct w; reflexivity). cbn [andb].
      apply forallb_zero_lower. exact Hz.
Qed.

Lemma spec_zero_refuses p :
  (let p' := to_lower (trim p) in has_prefix p' (bs "q=") && is_zero_q (trim (skipn 2 p'))) = true ->
  q_refuses p = true.
Proof.
  unfold q_refuses. cbv zeta. destruct (trim p) as [|c1 [|c2 v]]; simpl; try discriminate.
  - intros H. apply andb_true_iff in H as [H _]. apply andb_true_iff in H as [_ H]. discriminate.
  - intros H. apply andb_true_iff in H as [Hp Hz].
    apply andb_true_iff in Hp as [H1 H2]. apply andb_true_iff in H2 as [H2 _].
    apply N.eqb_eq in H1, H2.
    fold (to_lower v) in Hz. rewrite trim_lower in Hz. apply zero_q_lower in Hz. rewrite Hz.
    apply lower_inv in H2; [|reflexivity]. subst c2. rewrite N.eqb_refl.
    unfold lower_byte in H1. destruct ((65 <=? c1) && (c1 <=? 90)) eqn:E.
    + assert (c1 = 81) by lia. subst c1. reflexivity.
    + subst c1. reflexivity.
Qed.

Lemma accepts_offers ae : accepts_gzip ae = true -> offers_gzip ae = true.
Proof.
  unfold accepts_gzip, offers_gzip, offers. intros H.
  apply existsb_exists in H as (e & Hin & He).
  unfold coding_offers_gzip in He. cbv zeta in He. apply andb_true_iff in He as [Hname Hq].
  set (entry := fun e : bytes => let parts := split 59 e in (to_lower (trim (hd [] parts)), qzero (tl parts))).
  assert (Hent : In (entry e) (ae_entries ae)) by (unfold ae_entries; apply in_map; exact Hin).
  assert (Hn : existsb (beq (fst (entry e))) [GZIP; bs "x-gzip"] = true).
  { unfold entry. cbn [fst]. apply orb_true_iff in Hname as [Hn | Hn]; apply beq_eq in Hn; rewrite Hn; reflexivity. }
  assert (Hz : snd (entry e) = false).
  { unfold entry. cbn [snd]. unfold qzero.
    match goal with |- ?x = false => destruct x eqn:E end; [|reflexivity].
    apply existsb_exists in E as (p & Hp & Hpz). apply spec_zero_refuses in Hpz.
    apply negb_true_iff in Hq.
    assert (existsb q_refuses (tl (split 59 e)) = true) by (apply existsb_exists; exists p; split; assumption).
    congruence. }
  assert (Hf : In (entry e) (filter (fun x => existsb (beq (fst x)) [GZIP; bs "x-gzip"]) (ae_entries ae)))
    by (apply filter_In; split; assumption).
  destruct (filter _ (ae_entries ae)) as [|x ex] eqn:Ef; [destruct Hf|].
  apply existsb_exists. exists (entry e). split; [exact Hf | rewrite Hz; reflexivity].
Qed.

Lemma identity_when_not_offered cs cfgs path ae s :
  offers_gzip ae = false -> gzip_serve dexts cs cfgs path ae s = run_plain s.
Proof.
  intros H. apply identity_when_not_accepted.
  destruct (accepts_gzip ae) eqn:E; [|reflexivity].
  apply accepts_offers in E. congruence.
Qed.

(* ---- request filters ---- *)
Lemma find_none_all {A} (f : A -> bool) l : (forall x, In x l -> f x = false) -> find f l = None.
Proof.
  induction l as [|a l IH]; intros H; simpl; [reflexivity|].
  rewrite (H a (or_introl eq_refl)). apply IH. intros x Hx. apply H. right. exact Hx.
Qed.

Lemma excluded_identity cs cfgs path ae s :
  (forall c, In c cfgs -> req_ok dexts cs path c = false) ->
  gzip_serve dexts cs cfgs path ae s = run_plain s.
Proof.
  intros H. unfold gzip_serve. rewrite (find_none_all _ _ H).
  destruct (negb (accepts_gzip ae)); reflexivity.
Qed.

(* ---- min_length ---- *)
Lemma min_length_respected cs cfgs path ae s c :
  find (req_ok dexts cs path) cfgs = Some c -> c_min c <> 0%Z ->
  (r_cl (run_plain s) = [] \/
   exists v r, r_cl (run_plain s) = v :: r /\ forall n, parse_int v = Some n -> (n < c_min c)%Z) ->
  gzip_serve dexts cs cfgs path ae s = run_plain s.
Proof.
  intros Hf Hmin Hcl.
  destruct (serve_cases cs cfgs path ae s) as [-> | (c' & H & H1 & H2 & code & wr & _ & Hf' & Hok & Hp & ->)]; [reflexivity|].
  rewrite Hf in Hf'. injection Hf' as <-.
  exfalso. rewrite Hp in Hcl. unfold r_cl in Hcl. rewrite hdr_plain in Hcl.
  unfold resp_ok in Hok. apply andb_true_iff in Hok as [_ Hl].
  destruct (c_min c =? 0)%Z eqn:E; [apply Z.eqb_eq in E; contradiction|].
  unfold length_ok, hget in Hl.
  destruct Hcl as [Hnil | (v & r & Hv & Hn)].
  - rewrite Hnil in Hl. simpl in Hl. discriminate.
  - rewrite Hv in Hl. destruct (parse_int v) as [n|] eqn:Hp'; [|discriminate].
    specialize (Hn n eq_refl).
    apply andb_true_iff in Hl as [_ Hle]. apply Z.leb_le in Hle. lia.
Qed.

(* ---- headers of a compressed response ---- *)
Lemma compressed_headers cs cfgs path ae s :
  let out := gzip_serve dexts cs cfgs path ae s in
  applied out = [GZIP] ->
  r_ce out = [GZIP] /\ r_cl out = [] /\ In V_AE (hvals (r_hdr out) K_VARY) /\
  hget (r_hdr out) K_ETAG = weak_of (hget (r_hdr (run_plain s)) K_ETAG).
Proof.
  intros out Happ. unfold out in *.
  destruct (shape_of s) as (H0 & H0' & oc0 & wr0 & r0 & Hs0).
  pose proof (plain_of_shape _ _ _ _ _ _ Hs0) as Hp0.
  destruct (serve_cases cs cfgs path ae s) as [E | (c & H & H1 & H2 & code & wr & _ & _ & Hok & Hp & E)]; rewrite E in *.
  - unfold applied in Happ. rewrite Hp0, has_gz_plain in Happ. discriminate.
  - rewrite Hp. unfold r_ce, r_cl. rewrite hdr_gz, hdr_plain.
    repeat split; [apply gz_hdr_ce | apply gz_hdr_cl | apply gz_hdr_vary | apply gz_hdr_etag].
Qed.

(* ---- and it does compress when everything says so ---- *)
Lemma compresses_when_eligible cs cfgs path ae s c :
  forallb is_hdr s = false ->
  accepts_gzip ae = true -> find (req_ok dexts cs path) cfgs = Some c ->
  resp_ok c (r_hdr (run_plain s)) = true ->
  applied (gzip_serve dexts cs cfgs path ae s) = [GZIP].
Proof.
  intros Hnh Hae Hf Hok. unfold gzip_serve. rewrite Hae, Hf. simpl.
  destruct (shape_of s) as (H & H' & oc & wr & r & Hs).
  rewrite (gz_of_shape c s H H' oc wr r Hs).
  rewrite (hdr_of_shape _ _ _ _ _ _ Hs) in Hok.
  destruct Hs as [hs Hhs | hs code r Hhs | hs b r Hhs | hs r Hhs].
  - congruence.
  - rewrite Hok. reflexivity.
  - rewrite Hok. reflexivity.
  - rewrite Hok. reflexivity.
Qed.

End Serve.

(* ------------------------------------------------------------------------------------------ *)
(* static files: sibling choice *)

Lemma find_first {A} (f : A -> bool) l x : find f l = Some x ->
  exists l1 l2, l = l1 ++ x :: l2 /\ f x = true /\ forall y, In y l1 -> f y = false.
Proof.
  induction l as [|a l IH]; simpl; [discriminate|].
  destruct (f a) eqn:Fa.
  - intros E. injection E as <-. exists [], l. repeat split; auto. intros y [].
  - intros E. destruct (IH E) as (l1 & l2 & -> & Fx & Hl1).
    exists (a :: l1), l2. repeat split; auto.
    intros y [<- | Hy]; auto.
Qed.

Lemma find_none_forall {A} (f : A -> bool) l : find f l = None -> forall x, In x l -> f x = false.
Proof. intros H x Hx. exact (find_none f l H x Hx). Qed.

Lemma select_sibling_sound prio ae avail name ext :
  select_sibling prio ae avail = Some (name, ext) ->
  accepted ae name = true /\ avail ext = true /\
  exists l1 l2, prio = l1 ++ (name, ext) :: l2 /\
    forall n e, In (n, e) l1 -> accepted ae n = false \/ avail e = false.
Proof.
  unfold select_sibling. intros H. apply find_first in H as (l1 & l2 & -> & Hx & Hl1).
  simpl in Hx. apply andb_true_iff in Hx as [Ha Hv]. repeat split; auto.
  exists l1, l2. split; [reflexivity|]. intros n e Hin. specialize (Hl1 (n, e) Hin). simpl in Hl1.
  apply andb_false_iff in Hl1. exact Hl1.
Qed.

Lemma select_sibling_none prio ae avail :
  select_sibling prio ae avail = None ->
  forall n e, In (n, e) prio -> accepted ae n = false \/ avail e = false.
Proof.
  unfold select_sibling. intros H n e Hin. pose proof (find_none _ _ H (n, e) Hin) as Hf.
  simpl in Hf. apply andb_false_iff in Hf. exact Hf.
Qed.

Lemma accepted_listed ae name : accepted ae name = true <-> exists e, In e (split 44 ae) /\ trim e = name.
Proof.
  unfold accepted. rewrite existsb_exists. split; intros (e & Hin & He); exists e; split; auto.
  - apply beq_eq. exact He.
  - apply beq_eq. exact He.
Qed.

Definition static_tail (prio : list (bytes * bytes)) (head : bool) (ae data : bytes) (sibs : list (bytes * bytes)) : list op :=
  if head then [] else [OWrite (snd (static_hdrs prio ae data sibs))].

Lemma static_shape prio head ae data sibs :
  shape (static_script prio head ae data sibs)
        (apply_hdrs (fst (static_hdrs prio ae data sibs)) [])
        (apply_hdrs (static_tail prio head ae data sibs) (apply_hdrs (fst (static_hdrs prio ae data sibs)) []))
        (Some 200%Z)
        (writes (static_tail prio head ae data sibs)) (static_tail prio head ae data sibs).
Proof.
  unfold static_script. apply (shape_wh _ 200%Z (static_tail prio head ae data sibs)).
  unfold static_hdrs. destruct (select_sibling prio ae _) as [[name ext]|]; reflexivity.
Qed.

Lemma static_ce prio head ae data sibs :
  r_ce (run_plain (static_script prio head ae data sibs)) =
  match select_sibling prio ae (fun ext => match sib_data sibs ext with Some _ => true | None => false end) with
  | Some (name, _) => [name]
  | None => []
  end.
Proof.
  rewrite (plain_of_shape _ _ _ _ _ _ (static_shape prio head ae data sibs)).
  unfold r_ce. rewrite hdr_plain. unfold static_hdrs.
  destruct (select_sibling prio ae _) as [[name ext]|]; unfold apply_hdrs; cbn [fst fold_left hdr_fun].
  - rewrite hvals_hset_other by exact etag_ne_ce. rewrite hvals_hset_other by exact cl_ne_ce.
    apply hvals_hset_same.
  - rewrite hvals_hset_other by exact cl_ne_ce. rewrite hvals_hset_other by exact etag_ne_ce. reflexivity.
Qed.

Lemma static_sibling_not_reencoded dexts prio cs cfgs path ae head data sibs name ext :
  select_sibling prio ae (fun e => match sib_data sibs e with Some _ => true | None => false end) = Some (name, ext) ->
  is_identity name = false ->
  gzip_serve dexts cs cfgs path ae (static_script prio head ae data sibs) =
  run_plain (static_script prio head ae data sibs).
Proof.
  intros Hsel Hid. apply (not_double_encoded dexts cs cfgs path ae _).
  rewrite static_ce, Hsel. unfold no_coding. simpl. rewrite Hid. reflexivity.
Qed.

(* every name on the file server's priority list (current sources, Gen_C18.v) is a real coding *)
Lemma prio_names_codings n : In n (map fst gen_c18_static_priority) -> is_identity n = false.
Proof.
  assert (H : forallb (fun n => negb (is_identity n)) (map fst gen_c18_static_priority) = true)
    by (vm_compute; reflexivity).
  intros Hin. apply negb_true_iff. exact (proj1 (forallb_forall _ _) H n Hin).
Qed.

Lemma static_sibling_not_reencoded_full dexts cs cfgs path ae head data sibs name ext :
  select_sibling gen_c18_static_priority ae
    (fun e => match sib_data sibs e with Some _ => true | None => false end) = Some (name, ext) ->
  gzip_serve dexts cs cfgs path ae (static_script gen_c18_static_priority head ae data sibs) =
  run_plain (static_script gen_c18_static_priority head ae data sibs).
Proof.
  intros Hsel. apply (static_sibling_not_reencoded _ _ _ _ _ _ _ _ _ name ext Hsel).
  apply prio_names_codings. destruct (select_sibling_sound _ _ _ _ _ Hsel) as (_ & _ & l1 & l2 & E & _).
  rewrite E, map_app. apply in_or_app. right. left. reflexivity.
Qed.

Lemma static_plain_transparent dexts prio gz gunzip :
  (forall ws, gunzip (gz ws) = Some (concat ws)) ->
  forall cs cfgs path ae head data sibs,
  select_sibling prio ae (fun e => match sib_data sibs e with Some _ => true | None => false end) = None ->
  client_body gz gunzip head (gzip_serve dexts cs cfgs path ae (static_script prio head ae data sibs))
  = Some (if bodyless head 200 then [] else data).
Proof.
  intros Hrt cs cfgs path ae head data sibs Hsel.
  rewrite (client_view dexts gz gunzip Hrt); [| rewrite static_ce, Hsel; reflexivity].
  f_equal. rewrite (plain_of_shape _ _ _ _ _ _ (static_shape prio head ae data sibs)).
  rewrite wire_plain. unfold static_tail, static_hdrs. rewrite Hsel. cbn [snd].
  destruct head; simpl; [reflexivity | apply app_nil_r].
Qed.

(* ------------------------------------------------------------------------------------------ *)
(* tables used by the examples *)

Definition bare : gcfg := {| c_exts := []; c_not := []; c_min := 0 |}.
Definition dexts_min : list bytes := [[]; bs ".txt"].

(* Content-Length of static responses: FormatInt of the number of bytes sent, or dropped *)
Lemma static_cl_plain prio ae data sibs :
  r_cl (run_plain (static_script prio false ae data sibs)) =
  [decimal (N.of_nat (length (snd (static_hdrs prio ae data sibs))))].
Proof.
  rewrite (plain_of_shape _ _ _ _ _ _ (static_shape prio false ae data sibs)).
  unfold r_cl. rewrite hdr_plain. unfold static_hdrs.
  destruct (select_sibling prio ae _) as [[name ext]|]; unfold apply_hdrs; cbn [fst snd fold_left hdr_fun].
  - rewrite hvals_hset_other by exact etag_ne_cl. apply hvals_hset_same.
  - apply hvals_hset_same.
Qed.

Lemma static_wire_plain gz prio ae data sibs :
  wire gz false (run_plain (static_script prio false ae data sibs)) = snd (static_hdrs prio ae data sibs).
Proof.
  rewrite (plain_of_shape _ _ _ _ _ _ (static_shape prio false ae data sibs)).
  rewrite wire_plain. simpl. apply app_nil_r.
Qed.

Lemma static_content_length dexts prio gz cs cfgs path ae data sibs :
  let out := gzip_serve dexts cs cfgs path ae (static_script prio false ae data sibs) in
  r_cl out = [] \/ r_cl out = [decimal (N.of_nat (length (wire gz false out)))].
Proof.
  intros out. unfold out.
  destruct (serve_cases dexts cs cfgs path ae (static_script prio false ae data sibs))
    as [-> | (c & H & H1 & H2 & code & wr & _ & _ & Hok & Hp & ->)].
  - right. rewrite static_cl_plain, static_wire_plain. reflexivity.
  - left. unfold r_cl. rewrite hdr_gz. apply gz_hdr_cl.
Qed.

(* ====== the pooled writers: linearity invariant ====== *)
Lemma upd_same {A} (f : nat -> A) k v : upd f k v k = v.
Proof. unfold upd. rewrite Nat.eqb_refl. reflexivity. Qed.
Lemma upd_other {A} (f : nat -> A) k v x : x <> k -> upd f k v x = f x.
Proof. unfold upd. intros H. destruct (Nat.eqb_spec x k); [contradiction | reflexivity]. Qed.

Lemma in_remove_nth {A} (k : nat) (l : list A) x : In x (remove_nth k l) -> In x l.
Proof.
  unfold remove_nth. intros H. apply in_app_or in H as [H | H].
  - rewrite <- (firstn_skipn k l). apply in_or_app. left. exact H.
  - rewrite <- (firstn_skipn (S k) l). apply in_or_app. right. exact H.
Qed.

Lemma nodup_remove_nth {A} (k : nat) (l : list A) : NoDup l -> NoDup (remove_nth k l).
Proof.
  unfold remove_nth. revert k. induction l as [|a l IH]; intros k H.
  - destruct k; simpl; constructor.
  - destruct k; simpl.
    + inversion H; assumption.
    + inversion H as [|? ? Hn Hd]; subst. constructor.
      * intros Hin. apply Hn. apply (in_remove_nth k l). exact Hin.
      * apply IH. exact Hd.
Qed.

Lemma nth_removed_notin {A} (k : nat) (l : list A) w :
  NoDup l -> nth_error l k = Some w -> ~ In w (remove_nth k l).
Proof.
  unfold remove_nth. revert k. induction l as [|a l IH]; intros k Hd Hn.
  - destruct k; discriminate.
  - inversion Hd as [|? ? Hna Hd']; subst. destruct k; simpl in *.
    + injection Hn as <-. exact Hna.
    + intros [-> | Hin].
      * apply Hna. eapply nth_error_In. exact Hn.
      * exact (IH k Hd' Hn Hin).
Qed.

Record pinv (s : pst) : Prop := mkInv {
  i_nodup : NoDup (p_pool s);
  i_pool_free : forall r w, p_held s r = Some w -> ~ In w (p_pool s);
  i_excl : forall r1 r2 w, p_held s r1 = Some w -> p_held s r2 = Some w -> r1 = r2;
  i_lt_pool : forall w, In w (p_pool s) -> (w < p_next s)%nat;
  i_lt_held : forall r w, p_held s r = Some w -> (w < p_next s)%nat;
  i_held : forall r w, p_held s r = Some w ->
      p_dst s w = r /\ p_closed s w = false /\ p_buf s w = p_log s r /\ p_out s r = [] /\
      p_done s r = false /\ p_got s r = true;
  i_done : forall r, p_done s r = true ->
      p_held s r = None /\ p_out s r = (if p_got s r then [rev (p_log s r)] else []);
  i_idle : forall r, p_done s r = false -> p_held s r = None ->
      p_out s r = [] /\ p_log s r = [] /\ p_got s r = false }.

Lemma pinv_p0 : pinv p0.
Proof.
  constructor; cbn; try discriminate; try (intros; contradiction); auto.
  constructor.
Qed.

Ltac updc :=
  repeat match goal with
  | H : context [upd _ ?k _ ?x] |- _ =>
      destruct (Nat.eq_dec x k) as [?E | ?E];
      [ try subst x; rewrite ?upd_same in * | rewrite (upd_other _ k _ x E) in * ]
  | |- context [upd _ ?k _ ?x] =>
      destruct (Nat.eq_dec x k) as [?E | ?E];
      [ try subst x; rewrite ?upd_same in * | rewrite (upd_other _ k _ x E) in * ]
  end.

Lemma pinv_get_pool s r k w :
  pinv s -> p_done s r = false -> p_held s r = None -> nth_error (p_pool s) k = Some w ->
  pinv (mkP (remove_nth k (p_pool s)) (upd (p_held s) r (Some w)) (p_done s) (upd (p_got s) r true)
            (upd (p_dst s) w r) (upd (p_buf s) w []) (upd (p_closed s) w false) (p_out s) (p_log s) (p_next s)).
Proof.
  intros I Hd Hh Hn.
  assert (Hin : In w (p_pool s)) by (eapply nth_error_In; exact Hn).
  assert (Hfree : forall r0, p_held s r0 <> Some w) by (intros r0 H0; exact (i_pool_free s I r0 w H0 Hin)).
  destruct (i_idle s I r Hd Hh) as (Ho & Hl & Hg).
  constructor; cbn [p_pool p_held p_done p_got p_dst p_buf p_closed p_out p_log p_next].
  - apply nodup_remove_nth. exact (i_nodup s I).
  - intros r0 w0 H0. destruct (Nat.eq_dec r0 r) as [->|E].
    + rewrite upd_same in H0. injection H0 as <-. apply nth_removed_notin; [exact (i_nodup s I) | exact Hn].
    + rewrite upd_other in H0 by exact E. intros Hc. apply in_remove_nth in Hc. exact (i_pool_free s I r0 w0 H0 Hc).
  - intros r1 r2 w0 H1 H2.
    destruct (Nat.eq_dec r1 r) as [->|E1]; destruct (Nat.eq_dec r2 r) as [->|E2].
    + reflexivity.
    + rewrite upd_same in H1. injection H1 as <-. rewrite upd_other in H2 by exact E2. exfalso; exact (Hfree r2 H2).
    + rewrite upd_same in H2. injection H2 as <-. rewrite upd_other in H1 by exact E1. exfalso; exact (Hfree r1 H1).
    + rewrite upd_other in H1, H2 by assumption. exact (i_excl s I r1 r2 w0 H1 H2).
  - intros w0 Hc. apply in_remove_nth in Hc. exact (i_lt_pool s I w0 Hc).
  - intros r0 w0 H0. destruct (Nat.eq_dec r0 r) as [->|E].
    + rewrite upd_same in H0. injection H0 as <-. exact (i_lt_pool s I w Hin).
    + rewrite upd_other in H0 by exact E. exact (i_lt_held s I r0 w0 H0).
  - intros r0 w0 H0. destruct (Nat.eq_dec r0 r) as [->|E].
    + rewrite upd_same in H0. injection H0 as <-. rewrite !upd_same. rewrite Hl, Ho, Hd. repeat split; reflexivity.
    + rewrite upd_other in H0 by exact E.
      assert (Ew : w0 <> w) by (intros ->; exact (Hfree r0 H0)).
      rewrite !(upd_other _ w _ w0 Ew). rewrite (upd_other _ r _ r0 E). exact (i_held s I r0 w0 H0).
  - intros r0 H0. assert (E : r0 <> r) by (intros ->; congruence).
    rewrite !(upd_other _ r _ r0 E). exact (i_done s I r0 H0).
  - intros r0 H0 H1. destruct (Nat.eq_dec r0 r) as [->|E]; [rewrite upd_same in H1; discriminate|].
    rewrite (upd_other _ r _ r0 E) in H1. rewrite (upd_other _ r _ r0 E). exact (i_idle s I r0 H0 H1).
Qed.

Lemma pinv_get_new s r :
  pinv s -> p_done s r = false -> p_held s r = None ->
  pinv (mkP (p_pool s) (upd (p_held s) r (Some (p_next s))) (p_done s) (upd (p_got s) r true)
            (upd (p_dst s) (p_next s) r) (upd (p_buf s) (p_next s) []) (upd (p_closed s) (p_next s) false)
            (p_out s) (p_log s) (S (p_next s))).
Proof.
  intros I Hd Hh. set (w := p_next s).
  assert (Hfree : forall r0, p_held s r0 <> Some w)
    by (intros r0 H0; pose proof (i_lt_held s I r0 w H0); unfold w in *; lia).
  assert (Hnin : ~ In w (p_pool s)) by (intros Hc; pose proof (i_lt_pool s I w Hc); unfold w in *; lia).
  destruct (i_idle s I r Hd Hh) as (Ho & Hl & Hg).
  constructor; cbn [p_pool p_held p_done p_got p_dst p_buf p_closed p_out p_log p_next].
  - exact (i_nodup s I).
  - intros r0 w0 H0. destruct (Nat.eq_dec r0 r) as [->|E].
    + rewrite upd_same in H0. injection H0 as <-. exact Hnin.
    + rewrite upd_other in H0 by exact E. exact (i_pool_free s I r0 w0 H0).
  - intros r1 r2 w0 H1 H2.
    destruct (Nat.eq_dec r1 r) as [->|E1]; destruct (Nat.eq_dec r2 r) as [->|E2].
    + reflexivity.
    + rewrite upd_same in H1. injection H1 as <-. rewrite upd_other in H2 by exact E2. exfalso; exact (Hfree r2 H2).
    + rewrite upd_same in H2. injection H2 as <-. rewrite upd_other in H1 by exact E1. exfalso; exact (Hfree r1 H1).
    + rewrite upd_other in H1, H2 by assumption. exact (i_excl s I r1 r2 w0 H1 H2).
  - intros w0 Hc. pose proof (i_lt_pool s I w0 Hc). lia.
  - intros r0 w0 H0. destruct (Nat.eq_dec r0 r) as [->|E].
    + rewrite upd_same in H0. injection H0 as <-. unfold w. lia.
    + rewrite upd_other in H0 by exact E. pose proof (i_lt_held s I r0 w0 H0). lia.
  - intros r0 w0 H0. destruct (Nat.eq_dec r0 r) as [->|E].
    + rewrite upd_same in H0. injection H0 as <-. rewrite !upd_same. rewrite Hl, Ho, Hd. repeat split; reflexivity.
    + rewrite upd_other in H0 by exact E.
      assert (Ew : w0 <> w) by (intros ->; exact (Hfree r0 H0)).
      rewrite !(upd_other _ w _ w0 Ew). rewrite (upd_other _ r _ r0 E). exact (i_held s I r0 w0 H0).
  - intros r0 H0. assert (E : r0 <> r) by (intros ->; congruence).
    rewrite !(upd_other _ r _ r0 E). exact (i_done s I r0 H0).
  - intros r0 H0 H1. destruct (Nat.eq_dec r0 r) as [->|E]; [rewrite upd_same in H1; discriminate|].
    rewrite (upd_other _ r _ r0 E) in H1. rewrite (upd_other _ r _ r0 E). exact (i_idle s I r0 H0 H1).
Qed.

Lemma pinv_write s r w b :
  pinv s -> p_held s r = Some w ->
  pinv (mkP (p_pool s) (p_held s) (p_done s) (p_got s) (p_dst s) (upd (p_buf s) w (b :: p_buf s w))
            (p_closed s) (p_out s) (upd (p_log s) r (b :: p_log s r)) (p_next s)).
Proof.
  intros I Hh. destruct (i_held s I r w Hh) as (Hdst & Hcl & Hbuf & Ho & Hd & Hg).
  constructor; cbn [p_pool p_held p_done p_got p_dst p_buf p_closed p_out p_log p_next];
    try (destruct I; assumption).
  - intros r0 w0 H0. destruct (i_held s I r0 w0 H0) as (A & B & C & D & E & F).
    destruct (Nat.eq_dec r0 r) as [->|Er].
    + assert (w0 = w) by congruence. subst w0. rewrite !upd_same. rewrite Hbuf. auto 6.
    + assert (Ew : w0 <> w) by (intros ->; apply Er; exact (i_excl s I r0 r w H0 Hh)).
      rewrite (upd_other _ w _ w0 Ew), (upd_other _ r _ r0 Er). auto 6.
  - intros r0 H0. assert (E : r0 <> r) by (intros ->; congruence).
    rewrite (upd_other _ r _ r0 E). exact (i_done s I r0 H0).
  - intros r0 H0 H1. assert (E : r0 <> r) by (intros ->; congruence).
    rewrite (upd_other _ r _ r0 E). exact (i_idle s I r0 H0 H1).
Qed.

Lemma pinv_finish_held s r w :
  pinv s -> p_held s r = Some w ->
  pinv (mkP (w :: p_pool s) (upd (p_held s) r None) (upd (p_done s) r true) (p_got s) (p_dst s) (p_buf s)
            (upd (p_closed s) w true) (upd (p_out s) r (p_out s r ++ [rev (p_buf s w)])) (p_log s) (p_next s)).
Proof.
  intros I Hh. destruct (i_held s I r w Hh) as (Hdst & Hcl & Hbuf & Ho & Hd & Hg).
  assert (Hother : forall r0 w0, r0 <> r -> p_held s r0 = Some w0 -> w0 <> w)
    by (intros r0 w0 E H0 ->; apply E; exact (i_excl s I r0 r w H0 Hh)).
  constructor; cbn [p_pool p_held p_done p_got p_dst p_buf p_closed p_out p_log p_next].
  - constructor; [exact (i_pool_free s I r w Hh) | exact (i_nodup s I)].
  - intros r0 w0 H0. destruct (Nat.eq_dec r0 r) as [->|E]; [rewrite upd_same in H0; discriminate|].
    rewrite upd_other in H0 by exact E. intros [Hc | Hc].
    + exact (Hother r0 w0 E H0 (eq_sym Hc)).
    + exact (i_pool_free s I r0 w0 H0 Hc).
  - intros r1 r2 w0 H1 H2.
    destruct (Nat.eq_dec r1 r) as [->|E1]; [rewrite upd_same in H1; discriminate|].
    destruct (Nat.eq_dec r2 r) as [->|E2]; [rewrite upd_same in H2; discriminate|].
    rewrite upd_other in H1, H2 by assumption. exact (i_excl s I r1 r2 w0 H1 H2).
  - intros w0 [<- | Hc]; [exact (i_lt_held s I r w Hh) | exact (i_lt_pool s I w0 Hc)].
  - intros r0 w0 H0. destruct (Nat.eq_dec r0 r) as [->|E]; [rewrite upd_same in H0; discriminate|].
    rewrite upd_other in H0 by exact E. exact (i_lt_held s I r0 w0 H0).
  - intros r0 w0 H0. destruct (Nat.eq_dec r0 r) as [->|E]; [rewrite upd_same in H0; discriminate|].
    rewrite upd_other in H0 by exact E. pose proof (Hother r0 w0 E H0) as Ew.
    rewrite (upd_other _ w _ w0 Ew), !(upd_other _ r _ r0 E). exact (i_held s I r0 w0 H0).
  - intros r0 H0. destruct (Nat.eq_dec r0 r) as [->|E].
    + rewrite !upd_same. rewrite Hg, Ho, Hbuf. split; reflexivity.
    + rewrite !(upd_other _ r _ r0 E) in *. exact (i_done s I r0 H0).
  - intros r0 H0 H1. destruct (Nat.eq_dec r0 r) as [->|E]; [rewrite upd_same in H0; discriminate|].
    rewrite !(upd_other _ r _ r0 E) in *. exact (i_idle s I r0 H0 H1).
Qed.

Lemma pinv_finish_idle s r :
  pinv s -> p_done s r = false -> p_held s r = None ->
  pinv (mkP (p_pool s) (upd (p_held s) r None) (upd (p_done s) r true) (p_got s) (p_dst s) (p_buf s)
            (p_closed s) (p_out s) (p_log s) (p_next s)).
Proof.
  intros I Hd Hh. destruct (i_idle s I r Hd Hh) as (Ho & Hl & Hg).
  constructor; cbn [p_pool p_held p_done p_got p_dst p_buf p_closed p_out p_log p_next];
    try (destruct I; assumption).
  - intros r0 w0 H0. destruct (Nat.eq_dec r0 r) as [->|E]; [rewrite upd_same in H0; discriminate|].
    rewrite upd_other in H0 by exact E. exact (i_pool_free s I r0 w0 H0).
  - intros r1 r2 w0 H1 H2.
    destruct (Nat.eq_dec r1 r) as [->|E1]; [rewrite upd_same in H1; discriminate|].
    destruct (Nat.eq_dec r2 r) as [->|E2]; [rewrite upd_same in H2; discriminate|].
    rewrite upd_other in H1, H2 by assumption. exact (i_excl s I r1 r2 w0 H1 H2).
  - intros r0 w0 H0. destruct (Nat.eq_dec r0 r) as [->|E]; [rewrite upd_same in H0; discriminate|].
    rewrite upd_other in H0 by exact E. exact (i_lt_held s I r0 w0 H0).
  - intros r0 w0 H0. destruct (Nat.eq_dec r0 r) as [->|E]; [rewrite upd_same in H0; discriminate|].
    rewrite upd_other in H0 by exact E. rewrite (upd_other _ r _ r0 E). exact (i_held s I r0 w0 H0).
  - intros r0 H0. destruct (Nat.eq_dec r0 r) as [->|E].
    + rewrite upd_same. rewrite Hg, Ho. split; reflexivity.
    + rewrite !(upd_other _ r _ r0 E) in *. exact (i_done s I r0 H0).
  - intros r0 H0 H1. destruct (Nat.eq_dec r0 r) as [->|E]; [rewrite upd_same in H0; discriminate|].
    rewrite !(upd_other _ r _ r0 E) in *. exact (i_idle s I r0 H0 H1).
Qed.

Lemma pinv_drop s k :
  pinv s ->
  pinv (mkP (remove_nth k (p_pool s)) (p_held s) (p_done s) (p_got s) (p_dst s) (p_buf s) (p_closed s)
            (p_out s) (p_log s) (p_next s)).
Proof.
  intros I. constructor; cbn [p_pool p_held p_done p_got p_dst p_buf p_closed p_out p_log p_next];
    try (destruct I; assumption).
  - apply nodup_remove_nth. exact (i_nodup s I).
  - intros r w H Hc. apply in_remove_nth in Hc. exact (i_pool_free s I r w H Hc).
  - intros w Hc. apply in_remove_nth in Hc. exact (i_lt_pool s I w Hc).
Qed.

Lemma pinv_step s e : pinv s -> pinv (pool_step nput_code s e).
Proof.
  intros I. destruct e as [r k | r b | r err | k]; unfold pool_step.
  - destruct (p_done s r) eqn:Hd; [exact I|]. destruct (p_held s r) as [w0|] eqn:Hh; [exact I|].
    destruct (nth_error (p_pool s) k) as [w|] eqn:Hn.
    + apply pinv_get_pool; assumption.
    + apply pinv_get_new; assumption.
  - destruct (p_held s r) as [w|] eqn:Hh; [|exact I].
    destruct (i_held s I r w Hh) as (_ & Hcl & _). rewrite Hcl. apply pinv_write; assumption.
  - destruct (p_done s r) eqn:Hd; [exact I|]. destruct (p_held s r) as [w|] eqn:Hh.
    + destruct (i_held s I r w Hh) as (Hdst & Hcl & _).
      unfold nput_code. cbn [put_n]. unfold put_w, close_w. rewrite Hcl.
      cbn [p_pool p_held p_done p_got p_dst p_buf p_closed p_out p_log p_next]. rewrite Hdst.
      apply pinv_finish_held; assumption.
    + apply pinv_finish_idle; assumption.
  - apply pinv_drop. exact I.
Qed.

Lemma pinv_run_from t : forall s, pinv s -> pinv (fold_left (pool_step nput_code) t s).
Proof. induction t as [|e t IH]; intros s I; cbn [fold_left]; [exact I | apply IH, pinv_step, I]. Qed.

Lemma pinv_run t : pinv (prun nput_code t).
Proof. apply pinv_run_from, pinv_p0. Qed.

(* no writer is owned by two requests at once, nor owned and pooled, nor pooled twice — in every
   state of every interleaving *)
Lemma pool_writers_not_shared t :
  let s := prun nput_code t in
  (forall r1 r2 w, p_held s r1 = Some w -> p_held s r2 = Some w -> r1 = r2) /\
  (forall r w, p_held s r = Some w -> ~ In w (p_pool s)) /\
  NoDup (p_pool s).
Proof. cbv zeta. pose proof (pinv_run t) as I. split; [|split]; destruct I; assumption. Qed.

(* what a request's response received from the gzip layer: nothing while it runs, and once it has
   finished exactly one stream holding exactly its own writes, in order *)
Lemma pool_response_own_writes t r :
  let s := prun nput_code t in
  (p_done s r = false -> p_out s r = []) /\
  (p_done s r = true -> p_out s r = if p_got s r then [rev (p_log s r)] else []).
Proof.
  cbv zeta. pose proof (pinv_run t) as I. split; intros H.
  - destruct (p_held (prun nput_code t) r) as [w|] eqn:Hh.
    + destruct (i_held _ I r w Hh) as (_ & _ & _ & Ho & _). exact Ho.
    + destruct (i_idle _ I r H Hh) as (Ho & _). exact Ho.
  - destruct (i_done _ I r H) as (_ & Ho). exact Ho.
Qed.

(* the writer a request holds is bound to that request's response, open, and holds its writes only *)
Lemma pool_held_writer_own t r w :
  let s := prun nput_code t in
  p_held s r = Some w -> p_dst s w = r /\ p_closed s w = false /\ p_buf s w = p_log s r.
Proof.
  cbv zeta. intros H. destruct (i_held _ (pinv_run t) r w H) as (A & B & C & _). auto.
Qed.

(* ====== a second put on the error path: the linearity invariant breaks ====== *)
Definition double_put_trace : list pev :=
  [PGet 0 0; PWrite 0 [1]; PFinish 0 true;              (* a handler that wrote, then returned >= 400 *)
   PGet 1 0; PWrite 1 [2]; PGet 2 0; PWrite 2 [3];      (* two later requests overlap *)
   PWrite 1 [4]; PFinish 1 false; PFinish 2 false].

Lemma double_put_shares :
  (let mid := prun nput_twice_on_error (firstn 7 double_put_trace) in
   p_held mid 1%nat = Some 0%nat /\ p_held mid 2%nat = Some 0%nat) /\
  (let s := prun nput_twice_on_error double_put_trace in
   p_out s 1%nat = [] /\ p_out s 2%nat = [[[3]; [4]]]) /\
  (let s := prun nput_code double_put_trace in
   p_out s 1%nat = [[[2]; [4]]] /\ p_out s 2%nat = [[[3]]]).
Proof. vm_compute. repeat split; reflexivity. Qed.

(* ====== precompressed siblings are served only in a coding the request offers ====== *)
Lemma ltrim_keeps c s : is_ows c = false -> In c s -> In c (ltrim s).
Proof.
  intros Hc. induction s as [|a s IH]; simpl; [auto|].
  intros [<- | Hin].
  - rewrite Hc. left. reflexivity.
  - destruct (is_ows a); [exact (IH Hin) | right; exact Hin].
Qed.

Lemma trim_keeps c s : is_ows c = false -> In c s -> In c (trim s).
Proof.
  intros Hc Hin. unfold trim. apply -> in_rev. apply ltrim_keeps; [exact Hc|].
  apply -> in_rev. apply ltrim_keeps; [exact Hc | exact Hin].
Qed.

Lemma split_on_nosep sep s : forall cur, ~ In sep s -> split_on sep s cur = [rev cur ++ s].
Proof.
  induction s as [|c s IH]; intros cur Hn; simpl.
  - rewrite app_nil_r. reflexivity.
  - destruct (N.eqb_spec c sep) as [->|Hne]; [exfalso; apply Hn; left; reflexivity|].
    rewrite IH by (intros H; apply Hn; right; exact H). simpl. rewrite <- app_assoc. reflexivity.
Qed.

(* an element of the comma list that is the coding name itself (blanks around it apart, no
   parameter) makes the RFC reading see the coding offered *)
Lemma offers_of_plain_element names ae e name :
  In e (split 44 ae) -> trim e = name -> ~ In 59 name -> to_lower name = name ->
  existsb (beq name) names = true -> offers names ae = true.
Proof.
  intros Hin Ht Hsemi Hlow Hnames.
  assert (Hno : ~ In 59 e) by (intros H; apply Hsemi; rewrite <- Ht; apply trim_keeps; [reflexivity | exact H]).
  assert (Hsp : split 59 e = [e]) by (unfold split; rewrite split_on_nosep by exact Hno; reflexivity).
  unfold offers.
  set (entry := fun e : bytes => let parts := split 59 e in (to_lower (trim (hd [] parts)), qzero (tl parts))).
  assert (Hent : In (entry e) (ae_entries ae)) by (unfold ae_entries; apply in_map; exact Hin).
  assert (He : entry e = (name, false)).
  { unfold entry. cbv zeta. rewrite Hsp. cbn [hd tl]. rewrite Ht, Hlow. reflexivity. }
  rewrite He in Hent.
  assert (Hf : In (name, false) (filter (fun x => existsb (beq (fst x)) names) (ae_entries ae)))
    by (apply filter_In; split; [exact Hent | exact Hnames]).
  destruct (filter _ (ae_entries ae)) as [|x ex] eqn:Ef; [destruct Hf|].
  apply existsb_exists. exists (name, false). split; [exact Hf | reflexivity].
Qed.

Lemma offers_coding_of_plain_element ae e name :
  In e (split 44 ae) -> trim e = name -> ~ In 59 name -> to_lower name = name ->
  offers_coding ae name = true.
Proof.
  intros Hin Ht Hsemi Hlow. unfold offers_coding, offers_gzip.
  destruct (beq name GZIP || beq name (bs "x-gzip")) eqn:E.
  - apply (offers_of_plain_element _ ae e name); auto.
    cbn [existsb]. rewrite orb_false_r. exact E.
  - apply (offers_of_plain_element _ ae e name); auto.
    cbn [existsb]. rewrite Hlow, beq_refl. reflexivity.
Qed.

(* every Accept-Encoding byte string: the file server strips SP / HTAB only (what RFC 7230 allows
   around a list element), exactly as the RFC reading does, so no condition on the header is needed *)
Lemma sibling_only_if_offered prio ae avail name ext :
  select_sibling prio ae avail = Some (name, ext) ->
  ~ In 59 name -> to_lower name = name ->
  avail ext = true /\ offers_coding ae name = true.
Proof.
  intros Hsel Hsemi Hlow.
  destruct (select_sibling_sound _ _ _ _ _ Hsel) as (Ha & Hv & _).
  split; [exact Hv|].
  apply accepted_listed in Ha as (e & Hin & He).
  exact (offers_coding_of_plain_element ae e name Hin He Hsemi Hlow).
Qed.

(* the names of the table in the sources are such tokens *)
Lemma prio_names_tokens :
  forallb (fun ne => negb (existsb (N.eqb 59) (fst ne)) && beq (to_lower (fst ne)) (fst ne)) gen_c18_static_priority = true.
Proof. vm_compute. reflexivity. Qed.

Lemma existsb_eqb_in c l : existsb (N.eqb c) l = false -> ~ In c l.
Proof.
  intros H Hin. assert (existsb (N.eqb c) l = true) by (apply existsb_exists; exists c; split; [exact Hin | apply N.eqb_refl]).
  congruence.
Qed.

Lemma sibling_only_if_offered_table ae avail name ext :
  select_sibling gen_c18_static_priority ae avail = Some (name, ext) ->
  avail ext = true /\ offers_coding ae name = true.
Proof.
  intros Hsel.
  destruct (select_sibling_sound _ _ _ _ _ Hsel) as (_ & _ & l1 & l2 & E & _).
  pose proof prio_names_tokens as Ht. rewrite forallb_forall in Ht.
  assert (Hin : In (name, ext) gen_c18_static_priority) by (rewrite E; apply in_or_app; right; left; reflexivity).
  specialize (Ht _ Hin). cbn [fst] in Ht. apply andb_true_iff in Ht as [H1 H2].
  apply negb_true_iff in H1. apply existsb_eqb_in in H1. apply beq_eq in H2.
  exact (sibling_only_if_offered _ _ _ _ _ Hsel H1 H2).
Qed.

(* Unicode white space (and any other byte) around a coding's name is part of the element: with
   every sibling on disk such a request gets the identity file (U+00A0, U+0085, U+2003, U+3000 in
   UTF-8, before / after the name; VT, FF, CR, LF, NUL likewise), while SP / HTAB are stripped *)
Lemma sibling_unicode_space_refused :
  forallb (fun c =>
    forallb (fun ws =>
      match select_sibling gen_c18_static_priority (fst c ++ ws) (fun _ => true),
            select_sibling gen_c18_static_priority (ws ++ fst c) (fun _ => true),
            select_sibling gen_c18_static_priority (bs "identity," ++ ws ++ fst c ++ ws ++ bs ",x") (fun _ => true) with
      | None, None, None => true | _, _, _ => false end)
      [[194; 160]; [194; 133]; [226; 128; 131]; [227; 128; 128]; [11]; [12]; [13]; [10]; [0]; [32; 194; 160]; [194; 160; 9]])
    gen_c18_static_priority = true /\
  forallb (fun c =>
    forallb (fun ws =>
      match select_sibling gen_c18_static_priority (bs "identity," ++ ws ++ fst c ++ ws ++ bs ",x") (fun _ => true) with
      | Some ne => beq (fst ne) (fst c) | None => false end)
      [[]; [32]; [9]; [32; 9; 32]])
    gen_c18_static_priority = true.
Proof. vm_compute. split; reflexivity. Qed.

(* q-value spellings: a coding that carries any parameter is not taken for offered by the file
   server (q=0 refuses; q=1 is not understood either: the identity file is served) *)
Lemma sibling_param_spellings_refused :
  forallb (fun c =>
    forallb (fun suffix =>
      match select_sibling gen_c18_static_priority (fst c ++ suffix) (fun _ => true) with None => true | Some _ => false end)
      [bs ";q=0"; bs "; q=0"; bs ";q=0.0"; bs " ;q=0.000"; bs ";Q=0"; bs ";q=0, identity"; bs ";q=1"; bs ";q=0.5"])
    gen_c18_static_priority = true.
Proof. vm_compute. reflexivity. Qed.


(* ---------- informational responses: the faithful model and the final-status model ---------- *)
Lemma commit_i_final code u : is_info code = false -> commit_i code u = uw_commit code u.
Proof. intros H. unfold commit_i. rewrite H. reflexivity. Qed.

Lemma pstep_i_same u o : is_info_op o = false -> pstep_i u o = pstep u o.
Proof. destruct o; simpl; intros H; try reflexivity. apply commit_i_final. exact H. Qed.

Lemma gstep_i_same c g o : is_info_op o = false -> gstep_i c g o = gstep c g o.
Proof.
  destruct o; simpl; intros H; try reflexivity.
  unfold rf_write_header_i, rf_write_header, gz_write_header_i, gz_write_header.
  cbn [g_u g_rfw g_should g_gzw g_active g_ws].
  rewrite !(commit_i_final _ _ H). reflexivity.
Qed.

Lemma fold_same {S} (f1 f2 : S -> op -> S) (s : list op) :
  (forall x o, is_info_op o = false -> f1 x o = f2 x o) ->
  info_free s = true -> forall x, fold_left f1 s x = fold_left f2 s x.
Proof.
  intros Hf. unfold info_free. induction s as [|o s IH]; simpl; intros Hs x; [reflexivity|].
  apply andb_true_iff in Hs as [Ho Hs]. apply negb_true_iff in Ho.
  rewrite (Hf x o Ho). apply IH. exact Hs.
Qed.

Lemma run_plain_i_same s : info_free s = true -> run_plain_i s = run_plain s.
Proof. intros H. unfold run_plain_i, run_plain. apply fold_same; [apply pstep_i_same | exact H]. Qed.

Lemma gzip_serve_i_same dexts cs cfgs path ae s :
  info_free s = true -> gzip_serve_i dexts cs cfgs path ae s = gzip_serve dexts cs cfgs path ae s.
Proof.
  intros H. unfold gzip_serve_i, gzip_serve. rewrite (run_plain_i_same s H).
  destruct (negb (accepts_gzip ae)); [reflexivity|].
  destruct (find (req_ok dexts cs path) cfgs) as [c|]; [|reflexivity].
  unfold run_gz_i, run_gz. f_equal. apply fold_same; [intros x o; apply gstep_i_same | exact H].
Qed.

(* ---- labelled iff encoded, for every status and every script ---- *)
Lemma labelled_iff_encoded dexts cs cfgs path ae s :
  let out := gzip_serve dexts cs cfgs path ae s in
  (applied out = [] /\ out = run_plain s) \/
  (applied out = [GZIP] /\ r_ce out = [GZIP] /\ r_cl out = [] /\
   r_status out = r_status (run_plain s) /\ no_coding (r_ce (run_plain s)) = true /\
   exists ws, r_segs out = [SG ws] /\ all_plain (r_segs (run_plain s)) = Some (concat ws)).
Proof.
  intros out. unfold out.
  destruct (shape_of s) as (H0 & H0' & oc0 & wr0 & r0 & Hs0).
  pose proof (plain_of_shape _ _ _ _ _ _ Hs0) as Hp0.
  destruct (serve_cases dexts cs cfgs path ae s) as [E | (c & H & H1 & H2 & code & wr & _ & _ & Hok & Hp & E)]; rewrite E.
  - left. split; [|reflexivity]. unfold applied. rewrite Hp0, has_gz_plain. reflexivity.
  - right. rewrite Hp. unfold r_ce, r_cl. rewrite hdr_gz, hdr_plain, status_gz, status_plain.
    repeat split; [apply gz_hdr_ce | apply gz_hdr_cl | apply (resp_ok_no_coding _ _ Hok) |].
    exists wr. split; [reflexivity|].
    unfold r_segs, closed_plain. simpl u_body. rewrite rev_involutive. apply all_plain_SP.
Qed.

Lemma not_double_encoded_i dexts cs cfgs path ae s :
  info_free s = true ->
  no_coding (r_ce (run_plain_i s)) = false ->
  gzip_serve_i dexts cs cfgs path ae s = run_plain_i s.
Proof.
  intros Hi. rewrite (gzip_serve_i_same dexts cs cfgs path ae s Hi), (run_plain_i_same s Hi).
  apply not_double_encoded.
Qed.

Lemma gzip_transparent_i gz gunzip :
  (forall ws, gunzip (gz ws) = Some (concat ws)) ->
  forall dexts cs cfgs path ae head s,
  info_free s = true ->
  transparent gz gunzip head (gzip_serve_i dexts cs cfgs path ae s) (run_plain_i s).
Proof.
  intros Hrt dexts cs cfgs path ae head s Hi.
  rewrite (gzip_serve_i_same dexts cs cfgs path ae s Hi), (run_plain_i_same s Hi).
  apply gzip_transparent. exact Hrt.
Qed.

Lemma labelled_iff_encoded_i dexts cs cfgs path ae s :
  info_free s = true ->
  let out := gzip_serve_i dexts cs cfgs path ae s in
  (applied out = [] /\ out = run_plain_i s) \/
  (applied out = [GZIP] /\ r_ce out = [GZIP] /\ r_cl out = [] /\
   r_status out = r_status (run_plain_i s) /\ no_coding (r_ce (run_plain_i s)) = true /\
   exists ws, r_segs out = [SG ws] /\ all_plain (r_segs (run_plain_i s)) = Some (concat ws)).
Proof.
  intros Hi. rewrite (gzip_serve_i_same dexts cs cfgs path ae s Hi), (run_plain_i_same s Hi).
  apply labelled_iff_encoded.
Qed.

(* a sibling IS served when one of the table's codings is listed plainly and its file exists *)
Lemma sibling_served_when_offered prio ae avail n e :
  In (n, e) prio -> accepted ae n = true -> avail e = true ->
  exists n' e', select_sibling prio ae avail = Some (n', e').
Proof.
  intros Hin Ha Hv. destruct (select_sibling prio ae avail) as [[n' e']|] eqn:E; [exists n', e'; reflexivity|].
  destruct (select_sibling_none _ _ _ E n e Hin) as [H | H]; congruence.
Qed.
