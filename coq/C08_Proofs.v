Require Import V.Lib V.C08_Model.
Open Scope N_scope.
Lemma stub : g_htlock g0 = false. Proof. reflexivity. Qed.
