(* C08 — proofs about the model of C08_Model.v. *)
Require Import V.Lib V.C08_Model.
Open Scope N_scope.

(* ------------------------------------------------------------------ records and setters *)
Lemma gstate_eq (a b : gstate) :
  g_insts a = g_insts b -> g_hooks a = g_hooks b -> g_htcache a = g_htcache b ->
  g_htlock a = g_htlock b -> g_rollers a = g_rollers b -> g_socks a = g_socks b ->
  g_next a = g_next b -> g_probers a = g_probers b -> a = b.
Proof.
  destruct a, b; simpl; intros H1 H2 H3 H4 H5 H6 H7 H8.
  rewrite H1, H2, H3, H4, H5, H6, H7, H8. reflexivity.
Qed.

(* the SIGUSR1 handler as a function: asking the loader first and leaving at once when it fails is the same
   as going through purge / failing Restart / restore (a Casketfile that cannot be loaded does not parse) *)
Lemma do_sigusr1_unfold step e c g :
  do_sigusr1 step e c g =
  match g_insts g with
  | [] => (RErr, g)
  | _ => let saved := g_hooks g in
         let '(r, g') := do_reload step e c (set_hooks g []) in
         match r with ROk => (ROk, g') | x => (x, set_hooks g' saved) end
  end.
Proof.
  unfold do_sigusr1, do_sigusr1_gen. destruct (g_insts g) as [|old rest] eqn:GI; [reflexivity|].
  unfold loader_fails. destruct (c_parse c) eqn:P; try reflexivity.
  unfold do_reload. cbn [set_hooks g_insts]. rewrite GI.
  unfold start_with, start_body, parse_ok. rewrite P. cbn.
  destruct g; reflexivity.
Qed.

(* g' differs from g at most in the registries that directive set-up writes to *)
Record ext (step : N) (g g' : gstate) : Prop := {
  x_insts : g_insts g' = g_insts g;
  x_socks : g_socks g' = g_socks g;
  x_next : g_next g' = g_next g;
  x_rollers : g_rollers g' = g_rollers g;
  x_lock : g_htlock g' = g_htlock g;
  x_hooks : exists k, g_hooks g' = g_hooks g ++ repeat step k;
  x_probers : exists k, g_probers g' = g_probers g ++ repeat step k
}.

Lemma ext_refl step g : ext step g g.
Proof.
  constructor; try reflexivity; exists O; simpl; symmetry; apply app_nil_r.
Qed.

Lemma ext_trans step a b c : ext step a b -> ext step b c -> ext step a c.
Proof.
  intros [A1 A2 A3 A4 A5 [ka A6] [pa A7]] [B1 B2 B3 B4 B5 [kb B6] [pb B7]].
  constructor; try congruence.
  - exists (ka + kb)%nat. rewrite B6, A6, <- app_assoc, repeat_app. reflexivity.
  - exists (pa + pb)%nat. rewrite B7, A7, <- app_assoc, repeat_app. reflexivity.
Qed.

(* ------------------------------------------------------------------ GetHtpasswdMatcher *)
Lemma users_eqb_eq a : forall b, users_eqb a b = true -> a = b.
Proof.
  unfold users_eqb. induction a as [|[x1 x2] a IH]; intros [|[y1 y2] b]; simpl; intros H; try discriminate.
  - reflexivity.
  - apply andb_true_iff in H as [H1 H2]. apply andb_true_iff in H1 as [E1 E2].
    apply N.eqb_eq in E1. apply N.eqb_eq in E2. subst. f_equal. apply IH. exact H2.
Qed.

Lemma htfile_eqb_eq a b : htfile_eqb a b = true -> a = b.
Proof.
  unfold htfile_eqb. intros H. apply andb_true_iff in H as [H H4]. apply andb_true_iff in H as [H H3].
  apply andb_true_iff in H as [H1 H2].
  apply Bool.eqb_prop in H1. apply Bool.eqb_prop in H3. apply users_eqb_eq in H2. apply users_eqb_eq in H4.
  destruct a, b; simpl in *. subst. reflexivity.
Qed.

(* the matcher only ever writes to the cache (and takes and releases the mutex) *)
Record cext (g g' : gstate) : Prop := {
  c_insts : g_insts g' = g_insts g;
  c_hooks : g_hooks g' = g_hooks g;
  c_socks : g_socks g' = g_socks g;
  c_next : g_next g' = g_next g;
  c_rollers : g_rollers g' = g_rollers g;
  c_lock : g_htlock g' = g_htlock g;
  c_probers : g_probers g' = g_probers g
}.

Lemma cext_refl g : cext g g.
Proof. constructor; reflexivity. Qed.

Lemma cext_ext step g g' : cext g g' -> ext step g g'.
Proof.
  intros [A1 A2 A3 A4 A5 A6 A7]. constructor; auto.
  - exists O. rewrite A2. simpl. symmetry. apply app_nil_r.
  - exists O. rewrite A7. simpl. symmetry. apply app_nil_r.
Qed.

(* the cache is transparent: with a cache that holds parsed files only, the answer of the matcher is the
   answer the file gives now; only the cache is written, and it still holds parsed files only *)
Definition cache_okl (c : list (N * htfile)) : Prop :=
  forall f h, assoc f c = Some h -> h_present h = true /\ h_bad h = false.

Lemma cache_okl_cons c f h : cache_okl c -> h_present h = true -> h_bad h = false -> cache_okl ((f, h) :: c).
Proof.
  intros C P B f' h' H. simpl in H. destruct (f' =? f).
  - injection H as <-. split; assumption.
  - apply C in H. exact H.
Qed.

Lemma lock_false_eta g c : g_htlock g = false -> set_htcache g c = set_htlock (set_htcache g c) false.
Proof. destruct g; simpl; intros ->; reflexivity. Qed.

Lemma lock_false_self g : g_htlock g = false -> g = set_htlock (set_htcache g (g_htcache g)) false.
Proof. destruct g; simpl; intros ->; reflexivity. Qed.

Lemma get_matcher_spec e g f u r g' o :
  g_htlock g = false -> cache_okl (g_htcache g) -> get_matcher e g f u = (r, g', o) ->
  (r, o) = lookup_now e f u /\ cext g g' /\ cache_okl (g_htcache g') /\
  exists c', g' = set_htlock (set_htcache g c') false.
Proof.
  unfold get_matcher, get_matcher_gen, lookup_now. intros L C H. rewrite L in H.
  assert (FAIL : cext g (set_htlock g (negb true))).
  { constructor; simpl; try reflexivity. symmetry. exact L. }
  pose proof (lock_false_self g L) as SELF.
  assert (FAILS : set_htlock g (negb true) = set_htlock (set_htcache g (g_htcache g)) false) by reflexivity.
  destruct (h_present (env_get e f)) eqn:P; cbn [negb] in *.
  2:{ injection H as <- <- <-. split; [reflexivity|]. split; [exact FAIL|]. split; [exact C|]. eexists. exact FAILS. }
  assert (INS : forall g1, g1 = set_htcache g ((f, env_get e f) :: g_htcache g) -> h_bad (env_get e f) = false ->
                cext g g1 /\ cache_okl (g_htcache g1) /\ exists c', g1 = set_htlock (set_htcache g c') false).
  { intros g1 -> B. split; [constructor; reflexivity|]. split; [apply cache_okl_cons; assumption|].
    eexists. apply lock_false_eta. exact L. }
  destruct (assoc f (g_htcache g)) as [h'|] eqn:A.
  - destruct (htfile_eqb h' (env_get e f)) eqn:E.
    + apply htfile_eqb_eq in E. subst h'. destruct (C _ _ A) as [_ B]. rewrite B.
      destruct (assoc u (h_users (env_get e f))); injection H as <- <- <-;
        (split; [reflexivity|]; split; [apply cext_refl|]; split; [exact C|]; eexists; exact SELF).
    + destruct (h_bad (env_get e f)) eqn:B.
      * injection H as <- <- <-. split; [reflexivity|]. split; [exact FAIL|]. split; [exact C|]. eexists. exact FAILS.
      * destruct (assoc u (h_users (env_get e f))); injection H as <- <- <-;
          (split; [reflexivity|]; apply INS; reflexivity).
  - destruct (h_bad (env_get e f)) eqn:B.
    + injection H as <- <- <-. split; [reflexivity|]. split; [exact FAIL|]. split; [exact C|]. eexists. exact FAILS.
    + destruct (assoc u (h_users (env_get e f))); injection H as <- <- <-;
        (split; [reflexivity|]; apply INS; reflexivity).
Qed.

(* without any assumption on the cache: only the cache is written *)
Lemma get_matcher_cext e g f u r g' o :
  get_matcher e g f u = (r, g', o) -> cext g g'.
Proof.
  unfold get_matcher, get_matcher_gen. intros H.
  destruct (g_htlock g) eqn:L.
  { injection H as <- <- <-. apply cext_refl. }
  assert (FAIL : cext g (set_htlock g (negb true))).
  { constructor; simpl; try reflexivity. symmetry. exact L. }
  assert (INS : cext g (set_htcache g ((f, env_get e f) :: g_htcache g))) by (constructor; reflexivity).
  destruct (negb (h_present (env_get e f))); [injection H as <- <- <-; exact FAIL|].
  destruct (assoc f (g_htcache g)) as [h'|].
  - destruct (htfile_eqb h' (env_get e f)).
    + destruct (assoc u (h_users h')); injection H as <- <- <-; apply cext_refl.
    + destruct (h_bad (env_get e f)); [injection H as <- <- <-; exact FAIL|].
      destruct (assoc u (h_users (env_get e f))); injection H as <- <- <-; exact INS.
  - destruct (h_bad (env_get e f)); [injection H as <- <- <-; exact FAIL|].
    destruct (assoc u (h_users (env_get e f))); injection H as <- <- <-; exact INS.
Qed.

Lemma get_matcher_ext step e g f u r g' o :
  get_matcher e g f u = (r, g', o) -> ext step g g'.
Proof. intros H. apply cext_ext. eapply get_matcher_cext; eauto. Qed.

Lemma get_matcher_no_hang e g f u r g' o :
  g_htlock g = false -> get_matcher e g f u = (r, g', o) -> r <> RHang.
Proof.
  unfold get_matcher, get_matcher_gen. intros L H. rewrite L in H.
  destruct (negb (h_present (env_get e f))); [injection H as <- <- <-; discriminate|].
  destruct (assoc f (g_htcache g)) as [h'|].
  - destruct (htfile_eqb h' (env_get e f)).
    + destruct (assoc u (h_users h')); injection H as <- <- <-; discriminate.
    + destruct (h_bad (env_get e f)); [injection H as <- <- <-; discriminate|].
      destruct (assoc u (h_users (env_get e f))); injection H as <- <- <-; discriminate.
  - destruct (h_bad (env_get e f)); [injection H as <- <- <-; discriminate|].
    destruct (assoc u (h_users (env_get e f))); injection H as <- <- <-; discriminate.
Qed.

Lemma get_matcher_ok_some e g f u g' o :
  get_matcher e g f u = (ROk, g', o) -> exists pw, o = Some pw.
Proof.
  unfold get_matcher, get_matcher_gen. intros H.
  destruct (g_htlock g); [discriminate|].
  destruct (negb (h_present (env_get e f))); [discriminate|].
  destruct (assoc f (g_htcache g)) as [h'|].
  - destruct (htfile_eqb h' (env_get e f)).
    + destruct (assoc u (h_users h')); [|discriminate]. injection H as <- <-. eauto.
    + destruct (h_bad (env_get e f)); [discriminate|].
      destruct (assoc u (h_users (env_get e f))); [|discriminate]. injection H as <- <-. eauto.
  - destruct (h_bad (env_get e f)); [discriminate|].
    destruct (assoc u (h_users (env_get e f))); [|discriminate]. injection H as <- <-. eauto.
Qed.

(* ------------------------------------------------------------------ executeDirectives *)
Lemma exec_effs_ext step e effs : forall g l r g' l',
  exec_effs step e effs g l = (r, g', l') -> ext step g g'.
Proof.
  induction effs as [|x effs IH]; intros g l r g' l' H; simpl in H.
  - injection H as <- <- <-. apply ext_refl.
  - destruct x as [|n|f size ok|f u|].
    + injection H as <- <- <-. apply ext_refl.
    + apply IH in H. eapply ext_trans; [|exact H].
      constructor; simpl; try reflexivity; auto.
      * exists n. reflexivity.
      * exists O. simpl. symmetry. apply app_nil_r.
    + apply IH in H. exact H.
    + destruct (get_matcher e g f u) as [[r1 g1] o1] eqn:M.
      pose proof (get_matcher_ext step _ _ _ _ _ _ _ M) as X.
      destruct r1.
      * destruct o1 as [pw|].
        -- apply IH in H. eapply ext_trans; eauto.
        -- injection H as <- <- <-. exact X.
      * injection H as <- <- <-. exact X.
      * injection H as <- <- <-. exact X.
    + apply IH in H. exact H.
Qed.

Lemma exec_effs_no_hang step e effs : forall g l r g' l',
  g_htlock g = false -> exec_effs step e effs g l = (r, g', l') -> r <> RHang.
Proof.
  induction effs as [|x effs IH]; intros g l r g' l' L H; simpl in H.
  - injection H as <- <- <-. discriminate.
  - destruct x as [|n|f size ok|f u|].
    + injection H as <- <- <-. discriminate.
    + eapply IH; [|exact H]. exact L.
    + eapply IH; [|exact H]. exact L.
    + destruct (get_matcher e g f u) as [[r1 g1] o1] eqn:M.
      pose proof (get_matcher_no_hang _ _ _ _ _ _ _ L M) as NH.
      pose proof (get_matcher_ext step _ _ _ _ _ _ _ M) as X.
      destruct r1.
      * destruct o1 as [pw|].
        -- eapply IH; [|exact H]. rewrite (x_lock _ _ _ X). exact L.
        -- injection H as <- <- <-. discriminate.
      * injection H as <- <- <-. discriminate.
      * congruence.
    + eapply IH; [|exact H]. exact L.
Qed.

(* the cache holds parsed files only, whatever is executed *)
Lemma get_matcher_cache_ok e g f u r g' o :
  cache_okl (g_htcache g) -> get_matcher e g f u = (r, g', o) -> cache_okl (g_htcache g').
Proof.
  intros C H. destruct (g_htlock g) eqn:L.
  - unfold get_matcher, get_matcher_gen in H. rewrite L in H. injection H as <- <- <-. exact C.
  - destruct (get_matcher_spec _ _ _ _ _ _ _ L C H) as (_ & _ & C1 & _). exact C1.
Qed.

Lemma exec_effs_cache_ok step e effs : forall g l r g' l',
  cache_okl (g_htcache g) -> exec_effs step e effs g l = (r, g', l') -> cache_okl (g_htcache g').
Proof.
  induction effs as [|x effs IH]; intros g l r g' l' C H; simpl in H.
  - injection H as <- <- <-. exact C.
  - destruct x as [|n|f size ok|f u|].
    + injection H as <- <- <-. exact C.
    + eapply IH; [|exact H]; assumption.
    + eapply IH; [|exact H]; assumption.
    + destruct (get_matcher e g f u) as [[r1 g1] o1] eqn:M.
      pose proof (get_matcher_cache_ok _ _ _ _ _ _ _ C M) as C1.
      destruct r1.
      * destruct o1 as [pw|].
        -- eapply IH; [|exact H]; exact C1.
        -- injection H as <- <- <-. exact C1.
      * injection H as <- <- <-. exact C1.
      * injection H as <- <- <-. exact C1.
    + eapply IH; [|exact H]; assumption.
Qed.

Lemma exec_effs_no_log_startups step e effs : forall g l r g' l',
  no_log effs = true -> exec_effs step e effs g l = (r, g', l') -> l_startups l' = l_startups l.
Proof.
  induction effs as [|x effs IH]; intros g l r g' l' N H; simpl in H.
  - injection H as <- <- <-. reflexivity.
  - simpl in N. apply andb_true_iff in N as [N1 N2].
    destruct x as [|n|f size ok|f u|]; try discriminate.
    + injection H as <- <- <-. reflexivity.
    + apply IH in H; [|exact N2]. exact H.
    + destruct (get_matcher e g f u) as [[r1 g1] o1].
      destruct r1.
      * destruct o1 as [pw|].
        -- apply IH in H; [|exact N2]. exact H.
        -- injection H as <- <- <-. reflexivity.
      * injection H as <- <- <-. reflexivity.
      * injection H as <- <- <-. reflexivity.
    + apply IH in H; [|exact N2]. exact H.
Qed.

(* ------------------------------------------------------------------ ValidateAndExecuteDirectives *)
Lemma ext_set_hooks_back step g g1 : ext step g g1 -> ext step g (set_hooks g1 (g_hooks g)).
Proof.
  intros [A1 A2 A3 A4 A5 A6 A7]. constructor; simpl; auto.
  exists O. simpl. symmetry. apply app_nil_r.
Qed.

Lemma do_validate_ext step e c g r g' :
  do_validate step e c g = (r, g') ->
  ext step g g' /\ (r <> ROk -> g_hooks g' = g_hooks g) /\ (g_htlock g = false -> r <> RHang) /\
  (cache_okl (g_htcache g) -> cache_okl (g_htcache g')).
Proof.
  unfold do_validate. intros H.
  destruct (negb (parse_ok c)).
  { injection H as <- <-. split; [apply ext_refl|]. split; [reflexivity|]. split; [discriminate|auto]. }
  destruct (exec_effs step e (c_effs c) g l0) as [[r1 g1] l] eqn:E1.
  pose proof (exec_effs_ext _ _ _ _ _ _ _ _ E1) as X.
  assert (NH : g_htlock g = false -> r1 <> RHang) by (intros L; eapply exec_effs_no_hang; eauto).
  assert (CK : cache_okl (g_htcache g) -> cache_okl (g_htcache g1))
    by (intros C; eapply exec_effs_cache_ok; eauto).
  destruct r1; injection H as <- <-.
  - split; [exact X|]. split; [congruence|]. split; assumption.
  - split; [apply ext_set_hooks_back; exact X|]. split; [reflexivity|]. split; assumption.
  - split; [apply ext_set_hooks_back; exact X|]. split; [reflexivity|]. split; assumption.
Qed.

(* ------------------------------------------------------------------ startup callbacks *)
(* g' differs from g at most by additional rollers *)
Record rext (g g' : gstate) : Prop := {
  r_insts : g_insts g' = g_insts g;
  r_hooks : g_hooks g' = g_hooks g;
  r_cache : g_htcache g' = g_htcache g;
  r_lock : g_htlock g' = g_htlock g;
  r_socks : g_socks g' = g_socks g;
  r_next : g_next g' = g_next g;
  r_probers : g_probers g' = g_probers g;
  r_rollers : forall f x, assoc f (g_rollers g) = Some x -> assoc f (g_rollers g') = Some x
}.

Lemma rext_refl g : rext g g.
Proof. constructor; auto. Qed.

Lemma add_roller_rext g f size : rext g (add_roller g f size).
Proof.
  unfold add_roller. destruct (assoc f (g_rollers g)) eqn:A; [apply rext_refl|].
  constructor; simpl; try reflexivity.
  intros f' x Hx. destruct (f' =? f) eqn:E; [|exact Hx].
  apply N.eqb_eq in E. subst f'. congruence.
Qed.

Lemma run_startups_rext cbs : forall g r g', run_startups cbs g = (r, g') -> rext g g' /\ r <> RHang.
Proof.
  induction cbs as [|[[f size] ok] cbs IH]; intros g r g' H; simpl in H.
  - injection H as <- <-. split; [apply rext_refl|discriminate].
  - destruct ok.
    + apply IH in H as [H NH]. split; [|exact NH].
      pose proof (add_roller_rext g f size) as A.
      destruct A, H. constructor; try congruence. auto.
    + injection H as <- <-. split; [apply rext_refl|discriminate].
Qed.

Lemma run_startups_nil_same g r g' : run_startups [] g = (r, g') -> g' = g /\ r = ROk.
Proof. simpl. intros H. injection H as <- <-. split; reflexivity. Qed.

(* ------------------------------------------------------------------ startServers *)

Lemma socks_le_refl a : socks_le a a.
Proof. intros s Hs. exists s. repeat split; auto. Qed.

Lemma socks_le_trans a b c : socks_le a b -> socks_le b c -> socks_le a c.
Proof.
  intros AB BC s Hs. destruct (AB s Hs) as (s1 & I1 & E1 & A1 & F1).
  destruct (BC s1 I1) as (s2 & I2 & E2 & A2 & F2).
  exists s2. repeat split; try congruence. lia.
Qed.

(* what startServers may touch: the socket table only *)
Record sext (g g' : gstate) : Prop := {
  s_insts : g_insts g' = g_insts g;
  s_hooks : g_hooks g' = g_hooks g;
  s_cache : g_htcache g' = g_htcache g;
  s_lock : g_htlock g' = g_htlock g;
  s_rollers : g_rollers g' = g_rollers g;
  s_probers : g_probers g' = g_probers g
}.

Lemma sext_refl g : sext g g.
Proof. constructor; auto. Qed.

Lemma sext_trans a b c : sext a b -> sext b c -> sext a c.
Proof.
  intros [A1 A2 A3 A4 A5 A6] [B1 B2 B3 B4 B5 B6]. constructor; congruence.
Qed.

Lemma dup_fd_le g sid : socks_le (g_socks g) (g_socks (dup_fd g sid)).
Proof.
  simpl. intros s Hs.
  exists (if s_id s =? sid then {| s_id := s_id s; s_addr := s_addr s; s_fds := S (s_fds s) |} else s).
  split.
  - apply (in_map (fun s => if s_id s =? sid then {| s_id := s_id s; s_addr := s_addr s; s_fds := S (s_fds s) |} else s)) in Hs.
    exact Hs.
  - destruct (s_id s =? sid); simpl; repeat split; lia.
Qed.

Lemma new_sock_le g a : socks_le (g_socks g) (g_socks (new_sock g a)).
Proof.
  simpl. intros s Hs. exists s. repeat split; auto. apply in_or_app. left. exact Hs.
Qed.

Lemma start_servers_sext old addrs : forall g acc r g' srv,
  start_servers old addrs g acc = (r, g', srv) -> sext g g' /\ r <> RHang.
Proof.
  induction addrs as [|a addrs IH]; intros g acc r g' srv H; simpl in H.
  - injection H as <- <- <-. split; [apply sext_refl|discriminate].
  - destruct (inherited a old) as [sid|].
    + apply IH in H as [H NH]. split; [|exact NH].
      eapply sext_trans; [|exact H]. constructor; reflexivity.
    + destruct a as [n|].
      * apply IH in H as [H NH]. split; [|exact NH].
        eapply sext_trans; [|exact H]. constructor; reflexivity.
      * injection H as <- <- <-. split; [constructor; reflexivity|discriminate].
Qed.

Lemma start_servers_no_busy old addrs : forall g acc r g' srv,
  existsb is_busy addrs = false -> start_servers old addrs g acc = (r, g', srv) -> r = ROk.
Proof.
  induction addrs as [|a addrs IH]; intros g acc r g' srv NB H; simpl in H.
  - injection H as <- <- <-. reflexivity.
  - simpl in NB. apply orb_false_iff in NB as [NB1 NB2].
    destruct (inherited a old) as [sid|].
    + eapply IH; eauto.
    + destruct a as [n|]; [eapply IH; eauto|discriminate].
Qed.

(* --- closing what was opened gives the socket table back (in a well-formed table) --- *)
Definition closed_again (acc : list (addr * N)) (socks : list sock) : list sock :=
  fold_right (fun p socks => close_fd socks (snd p)) socks acc.

Definition table_ok (socks : list sock) (next : N) : Prop :=
  forall s, In s socks -> (1 <= s_fds s)%nat /\ s_id s < next.

Lemma close_fd_dup socks sid next :
  table_ok socks next ->
  close_fd (map (fun s => if s_id s =? sid then {| s_id := s_id s; s_addr := s_addr s; s_fds := S (s_fds s) |} else s) socks) sid = socks.
Proof.
  induction socks as [|s socks IH]; intros T; [reflexivity|].
  assert (Hs : (1 <= s_fds s)%nat) by (apply T; left; reflexivity).
  assert (IH' := IH (fun x Hx => T x (or_intror Hx))).
  unfold close_fd in *. cbn [map].
  destruct (s_id s =? sid) eqn:E; cbn [s_id s_fds s_addr].
  - rewrite E. cbn [filter s_fds pred Nat.eqb negb]. destruct s as [i a f]. cbn [s_id s_addr s_fds] in *.
    destruct f as [|f]; [lia|]. cbn [Nat.eqb negb]. f_equal. exact IH'.
  - rewrite E. cbn [filter]. destruct (s_fds s) as [|f] eqn:F; [lia|]. cbn [Nat.eqb negb]. f_equal. exact IH'.
Qed.

Lemma close_fd_new socks next a :
  table_ok socks next ->
  close_fd (socks ++ [{| s_id := next; s_addr := a; s_fds := 1 |}]) next = socks.
Proof.
  induction socks as [|s socks IH]; intros T.
  - unfold close_fd. cbn [app map s_id]. rewrite N.eqb_refl. reflexivity.
  - assert (Hs : (1 <= s_fds s)%nat /\ s_id s < next) by (apply T; left; reflexivity).
    assert (IH' := IH (fun x Hx => T x (or_intror Hx))).
    unfold close_fd in *. cbn [app map].
    destruct (s_id s =? next) eqn:E; [apply N.eqb_eq in E; lia|].
    cbn [filter]. destruct (s_fds s) as [|f] eqn:F; [lia|]. cbn [Nat.eqb negb]. f_equal. exact IH'.
Qed.

Lemma close_fd_ok socks sid next : table_ok socks next -> table_ok (close_fd socks sid) next.
Proof.
  intros T s Hs. unfold close_fd in Hs. apply filter_In in Hs as [Hs NZ].
  apply in_map_iff in Hs as (s0 & E & Hs0). destruct (T s0 Hs0) as [F I].
  destruct (s_id s0 =? sid); subst s; simpl in *.
  - split; [|exact I]. destruct (s_fds s0) as [|[|f]]; simpl in *; try discriminate; lia.
  - split; assumption.
Qed.

Lemma closed_again_ok acc socks next : table_ok socks next -> table_ok (closed_again acc socks) next.
Proof.
  induction acc as [|p acc IH]; intros T; simpl; [exact T|]. apply close_fd_ok. apply IH. exact T.
Qed.

Lemma table_ok_mono socks n m : n <= m -> table_ok socks n -> table_ok socks m.
Proof. intros L T s Hs. destruct (T s Hs). split; [assumption|lia]. Qed.

Lemma dup_fd_ok g sid : socks_ok g -> socks_ok (dup_fd g sid).
Proof.
  intros T s Hs. simpl in Hs. apply in_map_iff in Hs as (s0 & E & Hs0). destruct (T s0 Hs0) as [F I].
  simpl. destruct (s_id s0 =? sid); subst s; simpl; split; auto.
Qed.

Lemma new_sock_ok g a : socks_ok g -> socks_ok (new_sock g a).
Proof.
  intros T s Hs. simpl in Hs. apply in_app_or in Hs as [Hs|[Hs|[]]]; simpl.
  - destruct (T s Hs). split; [assumption|lia].
  - subst s. simpl. split; [auto|lia].
Qed.

Lemma closed_again_app acc p socks :
  closed_again (acc ++ [p]) socks = closed_again acc (close_fd socks (snd p)).
Proof. unfold closed_again. rewrite fold_right_app. reflexivity. Qed.

(* a failing startServers leaves the socket table as it found it; a succeeding one closes nothing *)
Lemma start_servers_socks old addrs : forall g acc r g' srv,
  socks_ok g -> start_servers old addrs g acc = (r, g', srv) ->
  socks_ok g' /\ g_next g <= g_next g' /\
  (r = ROk -> socks_le (g_socks g) (g_socks g')) /\
  (r <> ROk -> g_socks g' = closed_again acc (g_socks g)).
Proof.
  induction addrs as [|a addrs IH]; intros g acc r g' srv T H; simpl in H.
  - injection H as <- <- <-. split; [exact T|]. split; [lia|]. split; [intros _; apply socks_le_refl|congruence].
  - destruct (inherited a old) as [sid|].
    + destruct (IH _ _ _ _ _ (dup_fd_ok g sid T) H) as (T' & N' & OK & KO).
      split; [exact T'|]. split; [exact N'|]. split.
      * intros E. eapply socks_le_trans; [apply dup_fd_le|apply OK; exact E].
      * intros E. rewrite (KO E), closed_again_app. simpl.
        rewrite (close_fd_dup _ _ _ T). reflexivity.
    + destruct a as [n|].
      * destruct (IH _ _ _ _ _ (new_sock_ok g (AEph n) T) H) as (T' & N' & OK & KO).
        simpl in N'. split; [exact T'|]. split; [lia|]. split.
        -- intros E. eapply socks_le_trans; [apply new_sock_le|apply OK; exact E].
        -- intros E. rewrite (KO E), closed_again_app. simpl.
           rewrite (close_fd_new _ _ _ T). reflexivity.
      * injection H as <- <- <-. split; [|split; [simpl; lia|split; [discriminate|reflexivity]]].
        intros s Hs. exact (closed_again_ok acc _ _ T s Hs).
Qed.

(* ------------------------------------------------------------------ nothing is ever lost *)
(* what ANY call of startWithListenerFds may do to the registries: they only grow, the instance list and
   the mutex are as before (the socket table is treated separately: it needs a well-formed table) *)
Record grow (step : N) (g g' : gstate) : Prop := {
  w_insts : g_insts g' = g_insts g;
  w_lock : g_htlock g' = g_htlock g;
  w_hooks : exists k, g_hooks g' = g_hooks g ++ repeat step k;
  w_rollers : forall f x, assoc f (g_rollers g) = Some x -> assoc f (g_rollers g') = Some x;
  w_probers : exists k, g_probers g' = g_probers g ++ repeat step k
}.

Lemma grow_refl step g : grow step g g.
Proof.
  constructor; auto; exists O; simpl; symmetry; apply app_nil_r.
Qed.

Lemma grow_trans step a b c : grow step a b -> grow step b c -> grow step a c.
Proof.
  intros [A1 A2 [ka A3] A5 [pa A6]] [B1 B2 [kb B3] B5 [pb B6]]. constructor; try congruence; auto.
  - exists (ka + kb)%nat. rewrite B3, A3, <- app_assoc, repeat_app. reflexivity.
  - exists (pa + pb)%nat. rewrite B6, A6, <- app_assoc, repeat_app. reflexivity.
Qed.

Lemma ext_grow step g g' : ext step g g' -> grow step g g'.
Proof.
  intros [A1 A2 A3 A4 A5 A6 A7]. constructor; auto.
  intros f x. rewrite A4. auto.
Qed.

Lemma rext_grow step g g' : rext g g' -> grow step g g'.
Proof.
  intros [A1 A2 A3 A4 A5 A6 A8 A7]. constructor; auto.
  - exists O. rewrite A2. simpl. symmetry. apply app_nil_r.
  - exists O. rewrite A8. simpl. symmetry. apply app_nil_r.
Qed.

Lemma sext_grow step g g' : sext g g' -> grow step g g'.
Proof.
  intros [A1 A2 A3 A4 A5 A6]. constructor; auto.
  - exists O. rewrite A2. simpl. symmetry. apply app_nil_r.
  - intros f x. rewrite A5. auto.
  - exists O. rewrite A6. simpl. symmetry. apply app_nil_r.
Qed.

Lemma grow_set_socks step g g' x n : grow step g g' -> grow step g (set_socks g' x n).
Proof. intros [A1 A2 A3 A5 A6]. constructor; auto. Qed.

Lemma probes_of_repeat step effs : exists k, probes_of step effs = repeat step k.
Proof.
  induction effs as [|x effs [k IH]]; [exists O; reflexivity|].
  destruct x; simpl; try (exists k; exact IH). exists (S k). simpl. rewrite IH. reflexivity.
Qed.

(* the workers of a configuration are started by its startup callbacks *)
Lemma grow_add_probers step effs g g' :
  grow step g g' -> grow step g (add_probers step effs g').
Proof.
  intros [A1 A2 A3 A5 [p A6]]. destruct (probes_of_repeat step effs) as [k K].
  constructor; simpl; auto. exists (p + k)%nat. rewrite A6, K, <- app_assoc, repeat_app. reflexivity.
Qed.

Lemma start_body_grow step e c old g r g' oi :
  start_body step e c old g = (r, g', oi) -> grow step g g'.
Proof.
  unfold start_body. intros H.
  destruct (negb (parse_ok c)); [injection H as <- <- <-; apply grow_refl|].
  destruct (exec_effs step e (c_effs c) g l0) as [[r1 g1] l] eqn:E1.
  pose proof (ext_grow _ _ _ (exec_effs_ext _ _ _ _ _ _ _ _ E1)) as G1.
  destruct r1; try (injection H as <- <- <-; exact G1).
  destruct (run_startups (l_startups l) g1) as [r2 g2] eqn:E2.
  pose proof (rext_grow step _ _ (proj1 (run_startups_rext _ _ _ _ E2))) as G2.
  destruct r2; try (injection H as <- <- <-; eapply grow_trans; eauto).
  destruct (start_servers old (c_addrs c) g2 []) as [[r3 g3] srv] eqn:E3.
  pose proof (sext_grow step _ _ (proj1 (start_servers_sext _ _ _ _ _ _ _ E3))) as G3.
  assert (G : grow step g g3) by (eapply grow_trans; eauto; eapply grow_trans; eauto).
  destruct r3; injection H as <- <- <-;
    apply grow_add_probers; [exact G|apply grow_set_socks; exact G|apply grow_set_socks; exact G].
Qed.

Lemma start_with_grow step e c old g r g' oi :
  start_with step e c old g = (r, g', oi) -> grow step g g'.
Proof.
  unfold start_with. intros H.
  destruct (start_body step e c old g) as [[r1 g1] oi1] eqn:B.
  pose proof (start_body_grow _ _ _ _ _ _ _ _ B) as [A1 A2 A3 A5].
  destruct r1; injection H as <- <- <-; constructor; simpl; auto;
    exists O; simpl; symmetry; apply app_nil_r.
Qed.

(* a failing start puts the hook registry back exactly *)
Lemma start_with_hooks step e c old g r g' oi :
  start_with step e c old g = (r, g', oi) -> r <> ROk -> g_hooks g' = g_hooks g.
Proof.
  unfold start_with. intros H NR.
  destruct (start_body step e c old g) as [[r1 g1] oi1].
  destruct r1; injection H as <- <- <-; [congruence|reflexivity|reflexivity].
Qed.

(* the socket table: a failing start gives it back as it was, a succeeding one closes nothing *)
Lemma start_body_socks step e c old g r g' oi :
  socks_ok g -> start_body step e c old g = (r, g', oi) ->
  socks_ok g' /\ (r = ROk -> socks_le (g_socks g) (g_socks g')) /\
  (r <> ROk -> g_socks g' = g_socks g /\ g_next g' = g_next g).
Proof.
  unfold start_body. intros T H.
  assert (SAME : forall ga, g_socks ga = g_socks g -> g_next ga = g_next g ->
                 socks_ok ga /\ (RErr = ROk -> socks_le (g_socks g) (g_socks ga)) /\
                 (g_socks ga = g_socks g /\ g_next ga = g_next g)).
  { intros ga S1 S2. split; [|split; [discriminate|split; assumption]].
    intros s Hs. rewrite S1 in Hs. rewrite S2. apply T. exact Hs. }
  destruct (negb (parse_ok c)).
  { injection H as <- <- <-. destruct (SAME g eq_refl eq_refl) as (A & _ & B).
    split; [exact A|]. split; [discriminate|intros _; exact B]. }
  destruct (exec_effs step e (c_effs c) g l0) as [[r1 g1] l] eqn:E1.
  pose proof (exec_effs_ext _ _ _ _ _ _ _ _ E1) as X1.
  pose proof (x_socks _ _ _ X1) as S1. pose proof (x_next _ _ _ X1) as N1.
  destruct r1;
    try (injection H as <- <- <-; destruct (SAME g1 S1 N1) as (A & _ & B);
         split; [exact A|]; split; [discriminate|intros _; exact B]).
  destruct (run_startups (l_startups l) g1) as [r2 g2] eqn:E2.
  pose proof (proj1 (run_startups_rext _ _ _ _ E2)) as X2.
  assert (S2 : g_socks g2 = g_socks g) by (rewrite (r_socks _ _ X2); exact S1).
  assert (N2 : g_next g2 = g_next g) by (rewrite (r_next _ _ X2); exact N1).
  destruct r2;
    try (injection H as <- <- <-; destruct (SAME g2 S2 N2) as (A & _ & B);
         split; [exact A|]; split; [discriminate|intros _; exact B]).
  destruct (start_servers old (c_addrs c) g2 []) as [[r3 g3] srv] eqn:E3.
  assert (T2 : socks_ok g2) by (destruct (SAME g2 S2 N2) as (A & _); exact A).
  destruct (start_servers_socks _ _ _ _ _ _ _ T2 E3) as (T3 & N3 & OK & KO).
  destruct r3; injection H as <- <- <-.
  - split; [exact T3|]. split; [intros _; rewrite <- S2; apply OK; reflexivity|congruence].
  - assert (S3 : g_socks g3 = g_socks g) by (rewrite KO; [exact S2|discriminate]).
    destruct (SAME (set_socks g3 (g_socks g3) (g_next g2)) S3 N2) as (A & _ & B).
    split; [exact A|]. split; [discriminate|intros _; exact B].
  - assert (S3 : g_socks g3 = g_socks g) by (rewrite KO; [exact S2|discriminate]).
    destruct (SAME (set_socks g3 (g_socks g3) (g_next g2)) S3 N2) as (A & _ & B).
    split; [exact A|]. split; [discriminate|intros _; exact B].
Qed.

Lemma start_with_socks step e c old g r g' oi :
  socks_ok g -> start_with step e c old g = (r, g', oi) ->
  socks_ok g' /\ (r = ROk -> socks_le (g_socks g) (g_socks g')) /\
  (r <> ROk -> g_socks g' = g_socks g /\ g_next g' = g_next g).
Proof.
  unfold start_with. intros T H.
  destruct (start_body step e c old g) as [[r1 g1] oi1] eqn:B.
  pose proof (start_body_socks _ _ _ _ _ _ _ _ T B) as S.
  destruct r1; injection H as <- <- <-; exact S.
Qed.

Lemma start_body_no_hang step e c old g r g' oi :
  g_htlock g = false -> start_body step e c old g = (r, g', oi) -> r <> RHang.
Proof.
  unfold start_body. intros L H.
  destruct (negb (parse_ok c)); [injection H as <- <- <-; discriminate|].
  destruct (exec_effs step e (c_effs c) g l0) as [[r1 g1] l] eqn:E1.
  pose proof (exec_effs_no_hang _ _ _ _ _ _ _ _ L E1) as N1.
  destruct r1; try (injection H as <- <- <-; congruence).
  destruct (run_startups (l_startups l) g1) as [r2 g2] eqn:E2.
  pose proof (proj2 (run_startups_rext _ _ _ _ E2)) as N2.
  destruct r2; try (injection H as <- <- <-; congruence).
  destruct (start_servers old (c_addrs c) g2 []) as [[r3 g3] srv] eqn:E3.
  pose proof (proj2 (start_servers_sext _ _ _ _ _ _ _ E3)) as N3.
  destruct r3; injection H as <- <- <-; congruence.
Qed.

Lemma start_with_no_hang step e c old g r g' oi :
  g_htlock g = false -> start_with step e c old g = (r, g', oi) -> r <> RHang.
Proof.
  unfold start_with. intros L H.
  destruct (start_body step e c old g) as [[r1 g1] oi1] eqn:B.
  pose proof (start_body_no_hang _ _ _ _ _ _ _ _ L B) as NH.
  destruct r1; injection H as <- <- <-; exact NH.
Qed.

Lemma start_body_ok_some step e c old g g' oi :
  start_body step e c old g = (ROk, g', oi) -> exists ni, oi = Some ni.
Proof.
  unfold start_body. intros H.
  destruct (negb (parse_ok c)); [discriminate|].
  destruct (exec_effs step e (c_effs c) g l0) as [[r1 g1] l].
  destruct r1; try discriminate.
  destruct (run_startups (l_startups l) g1) as [r2 g2].
  destruct r2; try discriminate.
  destruct (start_servers old (c_addrs c) g2 []) as [[r3 g3] srv].
  destruct r3; try discriminate. injection H as <- <-. eauto.
Qed.

Lemma start_with_ok_some step e c old g g' oi :
  start_with step e c old g = (ROk, g', oi) -> exists ni, oi = Some ni.
Proof.
  unfold start_with. intros H.
  destruct (start_body step e c old g) as [[r1 g1] oi1] eqn:B.
  destruct r1; try discriminate. injection H as <- <-. eapply start_body_ok_some; eauto.
Qed.

(* every attempt leaves the mutex as it found it *)
Lemma stop_inst_lock g i : g_htlock (stop_inst g i) = g_htlock g.
Proof. reflexivity. Qed.

Lemma attempt_lock m step e c g r g' :
  attempt m step e c g = (r, g') -> g_htlock g' = g_htlock g.
Proof.
  assert (RL : forall g r g', do_reload step e c g = (r, g') -> g_htlock g' = g_htlock g).
  { clear. intros g r g' H. unfold do_reload in H. destruct (g_insts g) as [|old rest]; [injection H as <- <-; reflexivity|].
    destruct (start_with step e c (i_servers old) g) as [[r1 g1] oi] eqn:S.
    pose proof (w_lock _ _ _ (start_with_grow _ _ _ _ _ _ _ _ S)) as L.
    destruct r1; [destruct oi|..]; injection H as <- <-; simpl; exact L. }
  destruct m; simpl; intros H.
  - unfold do_load in H. destruct (start_with step e c [] g) as [[r1 g1] oi] eqn:S.
    pose proof (w_lock _ _ _ (start_with_grow _ _ _ _ _ _ _ _ S)) as L.
    destruct r1; [destruct oi|..]; injection H as <- <-; simpl; exact L.
  - exact (x_lock _ _ _ (proj1 (do_validate_ext _ _ _ _ _ _ H))).
  - eapply RL; eauto.
  - rewrite do_sigusr1_unfold in H. destruct (g_insts g) as [|old rest] eqn:GI; [injection H as <- <-; reflexivity|].
    destruct (do_reload step e c (set_hooks g [])) as [r1 g1] eqn:R.
    apply RL in R. simpl in R.
    destruct r1; injection H as <- <-; simpl; exact R.
  - exact (x_lock _ _ _ (proj1 (do_validate_ext _ _ _ _ _ _ H))).
Qed.

Lemma attempt_no_hang m step e c g r g' :
  g_htlock g = false -> attempt m step e c g = (r, g') -> r <> RHang.
Proof.
  intros L.
  assert (RL : forall g r g', g_htlock g = false -> do_reload step e c g = (r, g') -> r <> RHang).
  { clear. intros g r g' L H. unfold do_reload in H. destruct (g_insts g) as [|old rest]; [injection H as <- <-; discriminate|].
    destruct (start_with step e c (i_servers old) g) as [[r1 g1] oi] eqn:S.
    pose proof (start_with_no_hang _ _ _ _ _ _ _ _ L S) as NH.
    destruct r1; [destruct oi|..]; injection H as <- <-; congruence. }
  destruct m; simpl; intros H.
  - unfold do_load in H. destruct (start_with step e c [] g) as [[r1 g1] oi] eqn:S.
    pose proof (start_with_no_hang _ _ _ _ _ _ _ _ L S) as NH.
    destruct r1; [destruct oi|..]; injection H as <- <-; congruence.
  - destruct (do_validate_ext _ _ _ _ _ _ H) as (_ & _ & NH & _). auto.
  - eapply RL; eauto.
  - rewrite do_sigusr1_unfold in H. destruct (g_insts g) as [|old rest] eqn:GI; [injection H as <- <-; discriminate|].
    destruct (do_reload step e c (set_hooks g [])) as [r1 g1] eqn:R.
    apply RL in R; [|exact L].
    destruct r1; injection H as <- <-; congruence.
  - destruct (do_validate_ext _ _ _ _ _ _ H) as (_ & _ & NH & _). auto.
Qed.

(* ------------------------------------------------------------------ a failed attempt loses nothing *)
Lemma failed_reload_grow step e c g r g' :
  do_reload step e c g = (r, g') -> r <> ROk -> grow step g g'.
Proof.
  unfold do_reload. intros H NR. destruct (g_insts g) as [|old rest]; [injection H as <- <-; apply grow_refl|].
  destruct (start_with step e c (i_servers old) g) as [[r1 g1] oi] eqn:S.
  pose proof (start_with_grow _ _ _ _ _ _ _ _ S) as G.
  destruct r1; [destruct oi|..]; injection H as <- <-; try exact G. congruence.
Qed.

Lemma failed_attempt_grow m step e c g r g' :
  attempt m step e c g = (r, g') -> r <> ROk -> grow step g g'.
Proof.
  destruct m; simpl; intros H NR.
  - unfold do_load in H. destruct (start_with step e c [] g) as [[r1 g1] oi] eqn:S.
    pose proof (start_with_grow _ _ _ _ _ _ _ _ S) as G.
    destruct r1; [destruct oi|..]; injection H as <- <-; try exact G. congruence.
  - apply ext_grow. exact (proj1 (do_validate_ext _ _ _ _ _ _ H)).
  - eapply failed_reload_grow; eauto.
  - rewrite do_sigusr1_unfold in H. destruct (g_insts g) as [|old rest] eqn:GI; [injection H as <- <-; apply grow_refl|].
    destruct (do_reload step e c (set_hooks g [])) as [r1 g1] eqn:R.
    destruct r1; injection H as <- <-; try congruence.
    + apply failed_reload_grow in R; [|discriminate]. destruct R as [R1 R2 R3 R5].
      constructor; simpl in *; auto. exists O. simpl. symmetry. apply app_nil_r.
    + apply failed_reload_grow in R; [|discriminate]. destruct R as [R1 R2 R3 R5].
      constructor; simpl in *; auto. exists O. simpl. symmetry. apply app_nil_r.
  - apply ext_grow. exact (proj1 (do_validate_ext _ _ _ _ _ _ H)).
Qed.

(* every failing attempt puts the hook registry back exactly (the SIGUSR1 path does so twice: the failing
   Restart restores the purged registry it found, the signal handler then restores the saved one) *)
Lemma failed_sigusr1_hooks step e c g r g' :
  do_sigusr1 step e c g = (r, g') -> r <> ROk -> g_hooks g' = g_hooks g.
Proof.
  rewrite do_sigusr1_unfold. intros H NR. destruct (g_insts g) as [|old rest]; [injection H as <- <-; reflexivity|].
  destruct (do_reload step e c (set_hooks g [])) as [r1 g1].
  destruct r1; injection H as <- <-; try congruence; reflexivity.
Qed.

Lemma failed_attempt_hooks m step e c g r g' :
  attempt m step e c g = (r, g') -> r <> ROk -> g_hooks g' = g_hooks g.
Proof.
  destruct m; simpl; intros H NR.
  - unfold do_load in H. destruct (start_with step e c [] g) as [[r1 g1] oi] eqn:S.
    destruct r1; [destruct (start_with_ok_some _ _ _ _ _ _ _ S) as [ni ->]; injection H as <- <-; congruence|..];
      injection H as <- <-; eapply start_with_hooks; eauto.
  - destruct (do_validate_ext _ _ _ _ _ _ H) as (_ & HK & _). auto.
  - unfold do_reload in H. destruct (g_insts g) as [|old rest]; [injection H as <- <-; reflexivity|].
    destruct (start_with step e c (i_servers old) g) as [[r1 g1] oi] eqn:S.
    destruct r1; [destruct (start_with_ok_some _ _ _ _ _ _ _ S) as [ni ->]; injection H as <- <-; congruence|..];
      injection H as <- <-; eapply start_with_hooks; eauto.
  - eapply failed_sigusr1_hooks; eauto.
  - destruct (do_validate_ext _ _ _ _ _ _ H) as (_ & HK & _). auto.
Qed.

(* ------------------------------------------------------------------ well-formed states *)

Lemma addr_eqb_eq a b : addr_eqb a b = true -> a = b.
Proof.
  destruct a, b; simpl; intros H; try discriminate; try reflexivity.
  apply N.eqb_eq in H. congruence.
Qed.

Lemma inherited_in a old sid : inherited a old = Some sid -> In (a, sid) old.
Proof.
  induction old as [|[a' s'] old IH]; simpl; [discriminate|].
  destruct (addr_eqb a a') eqn:E.
  - intros H. injection H as <-. left. apply addr_eqb_eq in E. congruence.
  - intros H. right. auto.
Qed.

Lemma start_servers_wf old addrs : forall g acc r g' srv,
  srv_wf old -> srv_wf acc -> start_servers old addrs g acc = (r, g', srv) -> srv_wf srv.
Proof.
  induction addrs as [|a addrs IH]; intros g acc r g' srv WO WA H; simpl in H.
  - injection H as <- <- <-. exact WA.
  - destruct (inherited a old) as [sid|] eqn:I.
    + eapply IH; [exact WO| |exact H].
      intros a' s' Hin. apply in_app_or in Hin as [Hin|[Hin|[]]]; [eapply WA; eauto|].
      injection Hin as <- <-. apply inherited_in in I. eapply WO; eauto.
    + destruct a as [n|].
      * eapply IH; [exact WO| |exact H].
        intros a' s' Hin. apply in_app_or in Hin as [Hin|[Hin|[]]]; [eapply WA; eauto|].
        injection Hin as <- <-. discriminate.
      * injection H as <- <- <-. intros a' s' [].
Qed.

Lemma start_body_inst_wf step e c old g g' ni :
  srv_wf old -> start_body step e c old g = (ROk, g', Some ni) -> srv_wf (i_servers ni).
Proof.
  unfold start_body. intros WO H.
  destruct (negb (parse_ok c)); [discriminate|].
  destruct (exec_effs step e (c_effs c) g l0) as [[r1 g1] l].
  destruct r1; try discriminate.
  destruct (run_startups (l_startups l) g1) as [r2 g2].
  destruct r2; try discriminate.
  destruct (start_servers old (c_addrs c) g2 []) as [[r3 g3] srv] eqn:E3.
  destruct r3; try discriminate. injection H as <- <-. simpl.
  eapply start_servers_wf; [exact WO| |exact E3]. intros a sid [].
Qed.

Lemma start_with_inst_wf step e c old g g' ni :
  srv_wf old -> start_with step e c old g = (ROk, g', Some ni) -> srv_wf (i_servers ni).
Proof.
  unfold start_with. intros WO H.
  destruct (start_body step e c old g) as [[r1 g1] oi1] eqn:B.
  destruct r1; try discriminate. injection H as E1 E2. subst g1 oi1. eapply start_body_inst_wf; eauto.
Qed.

Lemma fold_close_ok l : forall socks next, table_ok socks next -> table_ok (fold_left close_fd l socks) next.
Proof.
  induction l as [|sid l IH]; intros socks next T; simpl; [exact T|].
  apply IH. apply close_fd_ok. exact T.
Qed.

Lemma stop_inst_ok g i : socks_ok g -> socks_ok (stop_inst g i).
Proof. intros T. unfold socks_ok, stop_inst. simpl. apply fold_close_ok. exact T. Qed.

Lemma start_with_cache_ok step e c old g r g' oi :
  cache_ok g -> start_with step e c old g = (r, g', oi) -> cache_ok g'.
Proof.
  unfold start_with, cache_ok. intros C H.
  destruct (start_body step e c old g) as [[r0 gb] oi0] eqn:B.
  assert (CB : cache_okl (g_htcache gb)).
  { revert B. unfold start_body.
    destruct (negb (parse_ok c)); [intros B; injection B as <- <- <-; exact C|].
    destruct (exec_effs step e (c_effs c) g l0) as [[r1 g1] l] eqn:E1.
    pose proof (exec_effs_cache_ok _ _ _ _ _ _ _ _ C E1) as C1.
    destruct r1; try (intros B; injection B as <- <- <-; exact C1).
    destruct (run_startups (l_startups l) g1) as [r2 g2] eqn:E2.
    pose proof (r_cache _ _ (proj1 (run_startups_rext _ _ _ _ E2))) as C2.
    destruct r2; try (intros B; injection B as <- <- <-; rewrite C2; exact C1).
    destruct (start_servers old (c_addrs c) g2 []) as [[r3 g3] srv] eqn:E3.
    pose proof (s_cache _ _ (proj1 (start_servers_sext _ _ _ _ _ _ _ E3))) as C3.
    destruct r3; intros B; injection B as <- <- <-; simpl; rewrite C3, C2; exact C1. }
  destruct r0; injection H as <- <- <-; exact CB.
Qed.

Lemma reload_wf step e c g r g' : wf g -> do_reload step e c g = (r, g') -> wf g'.
Proof.
  unfold do_reload. intros (W & T & C) H.
  destruct (g_insts g) as [|old rest] eqn:GI; [injection H as <- <-; split; [rewrite GI|split]; assumption|].
  destruct (start_with step e c (i_servers old) g) as [[r1 g1] oi] eqn:S.
  pose proof (w_insts _ _ _ (start_with_grow _ _ _ _ _ _ _ _ S)) as GI1.
  destruct (start_with_socks _ _ _ _ _ _ _ _ T S) as (T1 & _).
  pose proof (start_with_cache_ok _ _ _ _ _ _ _ _ C S) as C1.
  assert (W1 : wf g1) by (split; [rewrite GI1, GI; exact W|split; [exact T1|exact C1]]).
  destruct r1; [destruct oi as [ni|]|..]; injection H as <- <-; try exact W1.
  split; [|split; [apply stop_inst_ok; exact T1|exact C1]].
  intros i Hi. simpl in Hi. apply in_app_or in Hi as [Hi|[Hi|[]]].
  - apply W. right. exact Hi.
  - subst i. eapply start_with_inst_wf; [|exact S]. apply W. left. reflexivity.
Qed.

Lemma attempt_wf m step e c g r g' : wf g -> attempt m step e c g = (r, g') -> wf g'.
Proof.
  assert (VL : forall g r g', wf g -> do_validate step e c g = (r, g') -> wf g').
  { clear. intros g r g' (W & T & C) H. destruct (do_validate_ext _ _ _ _ _ _ H) as (X & _ & _ & CK).
    split; [|split].
    - rewrite (x_insts _ _ _ X). exact W.
    - intros s Hs. rewrite (x_socks _ _ _ X) in Hs. rewrite (x_next _ _ _ X). apply T. exact Hs.
    - apply CK. exact C. }
  destruct m; simpl; intros W H.
  - unfold do_load in H. destruct (start_with step e c [] g) as [[r1 g1] oi] eqn:S.
    pose proof (w_insts _ _ _ (start_with_grow _ _ _ _ _ _ _ _ S)) as GI1.
    destruct W as (W & T & C).
    destruct (start_with_socks _ _ _ _ _ _ _ _ T S) as (T1 & _).
    pose proof (start_with_cache_ok _ _ _ _ _ _ _ _ C S) as C1.
    assert (W1 : wf g1) by (split; [rewrite GI1; exact W|split; [exact T1|exact C1]]).
    destruct r1; [destruct oi as [ni|]|..]; injection H as <- <-; try exact W1.
    split; [|split; [exact T1|exact C1]].
    intros i Hi. simpl in Hi. apply in_app_or in Hi as [Hi|[Hi|[]]].
    + rewrite GI1 in Hi. apply W. exact Hi.
    + subst i. eapply start_with_inst_wf; [|exact S]. intros a sid [].
  - eapply VL; eauto.
  - eapply reload_wf; eauto.
  - rewrite do_sigusr1_unfold in H. destruct (g_insts g) as [|old rest] eqn:GI; [injection H as <- <-; exact W|].
    destruct (do_reload step e c (set_hooks g [])) as [r1 g1] eqn:R.
    apply reload_wf in R; [|exact W].
    destruct r1; injection H as <- <-; exact R.
  - eapply VL; eauto.
Qed.

(* a failed attempt gives the socket table back exactly *)
Lemma failed_attempt_socks m step e c g r g' :
  socks_ok g -> attempt m step e c g = (r, g') -> r <> ROk ->
  g_socks g' = g_socks g /\ g_next g' = g_next g.
Proof.
  assert (VL : forall g r g', do_validate step e c g = (r, g') -> g_socks g' = g_socks g /\ g_next g' = g_next g).
  { clear. intros g r g' H. pose proof (proj1 (do_validate_ext _ _ _ _ _ _ H)) as X.
    split; [exact (x_socks _ _ _ X)|exact (x_next _ _ _ X)]. }
  assert (RL : forall g r g', socks_ok g -> do_reload step e c g = (r, g') -> r <> ROk ->
               g_socks g' = g_socks g /\ g_next g' = g_next g).
  { clear. intros g r g' T H NR. unfold do_reload in H.
    destruct (g_insts g) as [|old rest]; [injection H as <- <-; split; reflexivity|].
    destruct (start_with step e c (i_servers old) g) as [[r1 g1] oi] eqn:S.
    destruct (start_with_socks _ _ _ _ _ _ _ _ T S) as (_ & _ & KO).
    destruct r1; [destruct (start_with_ok_some _ _ _ _ _ _ _ S) as [ni ->]; injection H as <- <-; congruence|..];
      injection H as <- <-; apply KO; discriminate. }
  destruct m; simpl; intros T H NR.
  - unfold do_load in H. destruct (start_with step e c [] g) as [[r1 g1] oi] eqn:S.
    destruct (start_with_socks _ _ _ _ _ _ _ _ T S) as (_ & _ & KO).
    destruct r1; [destruct (start_with_ok_some _ _ _ _ _ _ _ S) as [ni ->]; injection H as <- <-; congruence|..];
      injection H as <- <-; apply KO; discriminate.
  - eapply VL; eauto.
  - eapply RL; eauto.
  - rewrite do_sigusr1_unfold in H. destruct (g_insts g) as [|old rest] eqn:GI; [injection H as <- <-; split; reflexivity|].
    destruct (do_reload step e c (set_hooks g [])) as [r1 g1] eqn:R.
    assert (r1 <> ROk) as NR1 by (destruct r1; injection H as <- <-; congruence).
    assert (T' : socks_ok (set_hooks g [])) by exact T.
    destruct (RL _ _ _ T' R NR1) as [A B]. simpl in A, B.
    destruct r1; injection H as <- <-; try congruence; simpl; split; assumption.
  - eapply VL; eauto.
Qed.

(* ------------------------------------------------------------------ harmless failures change the cache at most *)

Lemma start_with_no_log_rollers step e c old g r g' oi :
  no_log (c_effs c) = true -> start_with step e c old g = (r, g', oi) -> g_rollers g' = g_rollers g.
Proof.
  unfold start_with. intros NL H.
  destruct (start_body step e c old g) as [[r0 gb] oi0] eqn:B.
  assert (RB : g_rollers gb = g_rollers g).
  { revert B. unfold start_body.
    destruct (negb (parse_ok c)); [intros B; injection B as <- <- <-; reflexivity|].
    destruct (exec_effs step e (c_effs c) g l0) as [[r1 g1] l] eqn:E1.
    pose proof (x_rollers _ _ _ (exec_effs_ext _ _ _ _ _ _ _ _ E1)) as R1.
    pose proof (exec_effs_no_log_startups _ _ _ _ _ _ _ _ NL E1) as SU. simpl in SU.
    destruct r1; try (intros B; injection B as <- <- <-; exact R1).
    rewrite SU. simpl.
    destruct (start_servers old (c_addrs c) g1 []) as [[r3 g3] srv] eqn:E3.
    pose proof (s_rollers _ _ (proj1 (start_servers_sext _ _ _ _ _ _ _ E3))) as R3.
    destruct r3; intros B; injection B as <- <- <-; simpl; congruence. }
  destruct r0; injection H as <- <- <-; exact RB.
Qed.

(* ... and no health-check worker is started by the directives, nor by a start that fails (they are started
   by the startup callbacks and stopped again when the start then fails) *)
Lemma exec_effs_probers step e effs : forall g l r g' l',
  exec_effs step e effs g l = (r, g', l') -> g_probers g' = g_probers g.
Proof.
  induction effs as [|x effs IH]; intros g l r g' l' H; simpl in H.
  - injection H as <- <- <-. reflexivity.
  - destruct x as [|n|f size ok|f u|].
    + injection H as <- <- <-. reflexivity.
    + apply IH in H. exact H.
    + apply IH in H. exact H.
    + destruct (get_matcher e g f u) as [[r1 g1] o1] eqn:M.
      pose proof (c_probers _ _ (get_matcher_cext _ _ _ _ _ _ _ M)) as P1.
      destruct r1.
      * destruct o1 as [pw|].
        -- apply IH in H. congruence.
        -- injection H as <- <- <-. exact P1.
      * injection H as <- <- <-. exact P1.
      * injection H as <- <- <-. exact P1.
    + apply IH in H. exact H.
Qed.

Lemma probes_of_no_proxy step effs : no_proxy effs = true -> probes_of step effs = [].
Proof.
  induction effs as [|x effs IH]; [reflexivity|]. simpl. intros N. apply andb_true_iff in N as [N1 N2].
  destruct x; try discriminate; apply IH; exact N2.
Qed.

(* the workers are started by the startup callbacks of `proxy`, the last ones to run: a start that fails leaves
   workers behind only if it got as far as startServers, i.e. only if a listener of a configuration with a
   proxy health check fails to bind *)
Definition no_probe_leak (c : cfg) : bool := no_proxy (c_effs c) || negb (existsb is_busy (c_addrs c)).

Lemma start_with_failed_probers step e c old g r g' oi :
  no_probe_leak c = true ->
  start_with step e c old g = (r, g', oi) -> r <> ROk -> g_probers g' = g_probers g.
Proof.
  unfold start_with. intros NL H NR.
  destruct (start_body step e c old g) as [[r0 gb] oi0] eqn:B.
  assert (RB : r0 <> ROk -> g_probers gb = g_probers g).
  { revert B. unfold start_body.
    destruct (negb (parse_ok c)); [intros B; injection B as <- <- <-; reflexivity|].
    destruct (exec_effs step e (c_effs c) g l0) as [[r1 g1] l] eqn:E1.
    pose proof (exec_effs_probers _ _ _ _ _ _ _ _ E1) as R1.
    destruct r1; try (intros B; injection B as <- <- <-; intros _; exact R1).
    destruct (run_startups (l_startups l) g1) as [r2 g2] eqn:E2.
    pose proof (r_probers _ _ (proj1 (run_startups_rext _ _ _ _ E2))) as R2.
    destruct r2; try (intros B; injection B as <- <- <-; intros _; congruence).
    destruct (start_servers old (c_addrs c) g2 []) as [[r3 g3] srv] eqn:E3.
    pose proof (s_probers _ _ (proj1 (start_servers_sext _ _ _ _ _ _ _ E3))) as R3.
    assert (LK : r3 <> ROk -> probes_of step (c_effs c) = []).
    { intros N3. unfold no_probe_leak in NL. apply orb_true_iff in NL as [NP|NB].
      - apply probes_of_no_proxy. exact NP.
      - apply negb_true_iff in NB. pose proof (start_servers_no_busy _ _ _ _ _ _ _ NB E3). congruence. }
    destruct r3; intros B; injection B as <- <- <-; intros NR0; [congruence|..];
      cbn [add_probers set_probers set_socks g_probers]; rewrite LK by discriminate;
      rewrite app_nil_r; congruence. }
  destruct r0; injection H as <- <- <-; [congruence|apply RB; discriminate|apply RB; discriminate].
Qed.

(* a validation (and an API-driven execution of the directives) starts nothing, whatever its outcome *)
Lemma do_validate_probers step e c g r g' :
  do_validate step e c g = (r, g') -> g_probers g' = g_probers g.
Proof.
  unfold do_validate. intros H.
  destruct (negb (parse_ok c)); [injection H as <- <-; reflexivity|].
  destruct (exec_effs step e (c_effs c) g l0) as [[r1 g1] l] eqn:E1.
  pose proof (exec_effs_probers _ _ _ _ _ _ _ _ E1) as R1.
  destruct r1; injection H as <- <-; exact R1.
Qed.

Lemma start_with_harmless step e c old g r g' oi :
  socks_ok g -> no_log (c_effs c) = true -> no_probe_leak c = true ->
  start_with step e c old g = (r, g', oi) -> r <> ROk -> same_but_cache g g'.
Proof.
  intros T NL NPL H NR.
  pose proof (start_with_failed_probers _ _ _ _ _ _ _ _ NPL H NR) as PB.
  pose proof (start_with_grow _ _ _ _ _ _ _ _ H) as G.
  destruct (start_with_socks _ _ _ _ _ _ _ _ T H) as (_ & _ & KO). destruct (KO NR) as [KS KN].
  pose proof (start_with_hooks _ _ _ _ _ _ _ _ H NR) as HK.
  pose proof (start_with_no_log_rollers _ _ _ _ _ _ _ _ NL H) as RL.
  destruct G. repeat split; assumption.
Qed.

Lemma same_but_cache_refl g : same_but_cache g g.
Proof. repeat split; reflexivity. Qed.

Lemma same_but_cache_trans a b c : same_but_cache a b -> same_but_cache b c -> same_but_cache a c.
Proof.
  intros (A1 & A2 & A3 & A4 & A5 & A6 & A7) (B1 & B2 & B3 & B4 & B5 & B6 & B7). repeat split; congruence.
Qed.

Theorem failed_harmless0_identity m step e c g r g' :
  wf g -> harmless0 m c = true -> attempt m step e c g = (r, g') -> r <> ROk -> same_but_cache g g'.
Proof.
  intros (W & T & C) HM H NR. unfold harmless0 in HM.
  assert (VL : forall g r g', do_validate step e c g = (r, g') -> r <> ROk -> same_but_cache g g').
  { clear. intros g r g' H NR.
    pose proof (do_validate_probers _ _ _ _ _ _ H) as PB.
    destruct (do_validate_ext _ _ _ _ _ _ H) as (X & HK & _). destruct X.
    repeat split; auto. }
  assert (RL : forall g r g', socks_ok g -> no_log (c_effs c) = true -> no_probe_leak c = true ->
            do_reload step e c g = (r, g') -> r <> ROk -> same_but_cache g g').
  { clear. intros g r g' T NL NPL H NR. unfold do_reload in H.
    destruct (g_insts g) as [|old rest] eqn:GI; [injection H as <- <-; apply same_but_cache_refl|].
    destruct (start_with step e c (i_servers old) g) as [[r1 g1] oi] eqn:S.
    assert (NR1 : r1 <> ROk).
    { intros ->. destruct (start_with_ok_some _ _ _ _ _ _ _ S) as [ni ->]. injection H as <- <-. congruence. }
    pose proof (start_with_harmless _ _ _ _ _ _ _ _ T NL NPL S NR1) as F.
    destruct r1; [congruence|..]; injection H as <- <-; exact F. }
  assert (HM2 : match m with Validate | Execute => True
                | _ => no_log (c_effs c) = true /\ no_probe_leak c = true end).
  { destruct m; try exact I; apply andb_true_iff in HM; exact HM. }
  destruct m; simpl in H.
  - destruct HM2 as [HL HP].
    unfold do_load in H. destruct (start_with step e c [] g) as [[r1 g1] oi] eqn:S.
    assert (NR1 : r1 <> ROk).
    { intros ->. destruct (start_with_ok_some _ _ _ _ _ _ _ S) as [ni ->]. injection H as <- <-. congruence. }
    pose proof (start_with_harmless step e c [] g r1 g1 oi T HL HP S NR1) as F.
    destruct r1; [congruence|..]; injection H as <- <-; exact F.
  - eapply VL; eauto.
  - destruct HM2 as [HL HP]. eapply RL; eauto.
  - rewrite do_sigusr1_unfold in H. destruct (g_insts g) as [|old rest] eqn:GI; [injection H as <- <-; apply same_but_cache_refl|].
    destruct (do_reload step e c (set_hooks g [])) as [r1 g1] eqn:R.
    assert (r1 <> ROk) as NR1 by (destruct r1; injection H as <- <-; congruence).
    assert (T' : socks_ok (set_hooks g [])) by exact T.
    destruct HM2 as [HL HP].
    destruct (RL _ _ _ T' HL HP R NR1) as (A1 & A2 & A3 & A4 & A5 & A6 & A7). simpl in *.
    destruct r1; injection H as <- <-; try congruence; repeat split; simpl; auto.
  - eapply VL; eauto.
Qed.

(* an attempt does what it does on the part of the configuration it reaches *)
Lemma exec_cut step e effs : forall pre g l l2,
  cut_bad effs = (pre, true) ->
  exists r g' la lb, exec_effs step e effs g l = (r, g', la) /\
                     exec_effs step e (filter not_log pre ++ [EBad]) g l2 = (r, g', lb) /\ r <> ROk.
Proof.
  induction effs as [|x effs IH]; intros pre g l l2 CB; simpl in CB.
  - discriminate.
  - destruct x as [|n|f size ok|f u|].
    + injection CB as <-. simpl. exists RErr, g, l, l2. repeat split; discriminate.
    + destruct (cut_bad effs) as [p b] eqn:C. injection CB as <- ->. simpl. apply IH. reflexivity.
    + destruct (cut_bad effs) as [p b] eqn:C. injection CB as <- ->. simpl. apply IH. reflexivity.
    + destruct (cut_bad effs) as [p b] eqn:C. injection CB as <- ->. simpl.
      destruct (get_matcher e g f u) as [[r1 g1] o1].
      destruct r1.
      * destruct o1 as [pw|]; [apply IH; reflexivity|].
        exists RErr, g1, l, l2. repeat split; discriminate.
      * exists RErr, g1, l, l2. repeat split; discriminate.
      * exists RHang, g1, l, l2. repeat split; discriminate.
    + destruct (cut_bad effs) as [p b] eqn:C. injection CB as <- ->. simpl. apply IH. reflexivity.
Qed.

Lemma parse_ok_reached c : negb (parse_ok c) = true ->
  parse_ok {| c_id := c_id c; c_parse := c_parse c; c_effs := []; c_addrs := [] |} = parse_ok c.
Proof. reflexivity. Qed.

Lemma start_body_reached step e c old g :
  start_body step e c old g = start_body step e (reached c) old g.
Proof.
  unfold reached. destruct (negb (parse_ok c)) eqn:P.
  - unfold start_body. rewrite P. unfold parse_ok in *. simpl. rewrite P. reflexivity.
  - destruct (cut_bad (c_effs c)) as [pre bad] eqn:CB. destruct bad; [|reflexivity].
    unfold start_body. rewrite P. simpl.
    destruct (exec_cut step e (c_effs c) pre g l0 l0 CB) as (r & g' & la & lb & E1 & E2 & NR).
    rewrite E1, E2. destruct r; [congruence|reflexivity|reflexivity].
Qed.

Lemma start_with_reached step e c old g :
  start_with step e c old g = start_with step e (reached c) old g.
Proof. unfold start_with. rewrite start_body_reached. reflexivity. Qed.

Lemma do_validate_reached step e c g :
  do_validate step e c g = do_validate step e (reached c) g.
Proof.
  unfold reached. destruct (negb (parse_ok c)) eqn:P.
  - unfold do_validate. rewrite P. unfold parse_ok in *. simpl. rewrite P. reflexivity.
  - destruct (cut_bad (c_effs c)) as [pre bad] eqn:CB. destruct bad; [|reflexivity].
    unfold do_validate. rewrite P. simpl.
    destruct (exec_cut step e (c_effs c) pre g l0 l0 CB) as (r & g' & la & lb & E1 & E2 & NR).
    rewrite E1, E2. reflexivity.
Qed.

Lemma do_reload_reached step e c g :
  do_reload step e c g = do_reload step e (reached c) g.
Proof.
  unfold do_reload. destruct (g_insts g) as [|old rest]; [reflexivity|].
  rewrite start_with_reached. reflexivity.
Qed.

Lemma attempt_reached m step e c g :
  attempt m step e c g = attempt m step e (reached c) g.
Proof.
  destruct m; simpl.
  - unfold do_load. rewrite start_with_reached. reflexivity.
  - apply do_validate_reached.
  - apply do_reload_reached.
  - rewrite !do_sigusr1_unfold. destruct (g_insts g); [reflexivity|]. rewrite do_reload_reached. reflexivity.
  - apply do_validate_reached.
Qed.

Theorem failed_harmless_identity m step e c g r g' :
  wf g -> harmless m c = true -> attempt m step e c g = (r, g') -> r <> ROk -> same_but_cache g g'.
Proof.
  intros W HM H NR. rewrite attempt_reached in H.
  eapply failed_harmless0_identity; eauto.
Qed.

(* ------------------------------------------------------------------ the htpasswd cache is transparent *)
(* whatever an attempt does from a state, it does from the state with ANY other cache of parsed files: same
   outcome, same resulting state up to what the cache holds *)
Lemma get_matcher_any_cache e g f u r g' o :
  cache_okl (g_htcache g) -> get_matcher e g f u = (r, g', o) ->
  forall C, cache_okl C -> exists C', cache_okl C' /\ get_matcher e (set_htcache g C) f u = (r, set_htcache g' C', o).
Proof.
  intros CK H C CC. destruct (g_htlock g) eqn:L.
  - unfold get_matcher, get_matcher_gen in *. simpl. rewrite L in *. injection H as <- <- <-.
    exists C. split; [exact CC|reflexivity].
  - destruct (get_matcher_spec _ _ _ _ _ _ _ L CK H) as (V & _ & _ & c' & ->).
    destruct (get_matcher e (set_htcache g C) f u) as [[r2 g2] o2] eqn:M2.
    assert (L2 : g_htlock (set_htcache g C) = false) by exact L.
    destruct (get_matcher_spec _ _ _ _ _ _ _ L2 CC M2) as (V2 & _ & C2 & c2 & ->).
    rewrite <- V in V2. injection V2 as -> ->.
    exists c2. split; [exact C2|reflexivity].
Qed.

Lemma exec_effs_any_cache step e effs : forall g l r g' l',
  cache_okl (g_htcache g) -> exec_effs step e effs g l = (r, g', l') ->
  forall C, cache_okl C ->
  exists C', cache_okl C' /\ exec_effs step e effs (set_htcache g C) l = (r, set_htcache g' C', l').
Proof.
  induction effs as [|x effs IH]; intros g l r g' l' CK H C CC; simpl in H |- *.
  - injection H as <- <- <-. exists C. split; [exact CC|reflexivity].
  - destruct x as [|n|f size ok|f u|].
    + injection H as <- <- <-. exists C. split; [exact CC|reflexivity].
    + exact (IH (set_hooks g (g_hooks g ++ repeat step n)) _ _ _ _ CK H C CC).
    + exact (IH _ _ _ _ _ CK H C CC).
    + destruct (get_matcher e g f u) as [[r1 g1] o1] eqn:M.
      pose proof (get_matcher_cache_ok _ _ _ _ _ _ _ CK M) as CK1.
      destruct (get_matcher_any_cache _ _ _ _ _ _ _ CK M C CC) as (C1 & CC1 & M2). rewrite M2.
      destruct r1.
      * destruct o1 as [pw|].
        -- exact (IH _ _ _ _ _ CK1 H C1 CC1).
        -- injection H as <- <- <-. exists C1. split; [exact CC1|reflexivity].
      * injection H as <- <- <-. exists C1. split; [exact CC1|reflexivity].
      * injection H as <- <- <-. exists C1. split; [exact CC1|reflexivity].
    + exact (IH g _ _ _ _ CK H C CC).
Qed.

Lemma add_roller_any_cache g f size C : add_roller (set_htcache g C) f size = set_htcache (add_roller g f size) C.
Proof. unfold add_roller. simpl. destruct (assoc f (g_rollers g)); reflexivity. Qed.

Lemma run_startups_any_cache cbs : forall g r g' C,
  run_startups cbs g = (r, g') -> run_startups cbs (set_htcache g C) = (r, set_htcache g' C).
Proof.
  induction cbs as [|[[f size] ok] cbs IH]; intros g r g' C H; simpl in H |- *.
  - injection H as <- <-. reflexivity.
  - destruct ok.
    + rewrite add_roller_any_cache. apply IH. exact H.
    + injection H as <- <-. reflexivity.
Qed.

Lemma start_servers_any_cache old addrs : forall g acc r g' srv C,
  start_servers old addrs g acc = (r, g', srv) ->
  start_servers old addrs (set_htcache g C) acc = (r, set_htcache g' C, srv).
Proof.
  induction addrs as [|a addrs IH]; intros g acc r g' srv C H; simpl in H |- *.
  - injection H as <- <- <-. reflexivity.
  - destruct (inherited a old) as [sid|].
    + exact (IH _ _ _ _ _ C H).
    + destruct a as [n|].
      * exact (IH _ _ _ _ _ C H).
      * injection H as <- <- <-. reflexivity.
Qed.

Lemma start_with_any_cache step e c old g r g' oi :
  cache_okl (g_htcache g) -> start_with step e c old g = (r, g', oi) ->
  forall C, cache_okl C ->
  exists C', cache_okl C' /\ start_with step e c old (set_htcache g C) = (r, set_htcache g' C', oi).
Proof.
  unfold start_with. intros CK H C CC.
  destruct (start_body step e c old g) as [[r0 gb] oi0] eqn:B.
  assert (BB : exists C', cache_okl C' /\ start_body step e c old (set_htcache g C) = (r0, set_htcache gb C', oi0)).
  { revert B. unfold start_body.
    destruct (negb (parse_ok c)); [intros B; injection B as <- <- <-; exists C; split; [exact CC|reflexivity]|].
    destruct (exec_effs step e (c_effs c) g l0) as [[r1 g1] l] eqn:E1.
    destruct (exec_effs_any_cache _ _ _ _ _ _ _ _ CK E1 C CC) as (C1 & CC1 & E2). rewrite E2.
    destruct r1; try (intros B; injection B as <- <- <-; exists C1; split; [exact CC1|reflexivity]).
    destruct (run_startups (l_startups l) g1) as [r2 g2] eqn:S1.
    rewrite (run_startups_any_cache _ _ _ _ C1 S1).
    destruct r2; try (intros B; injection B as <- <- <-; exists C1; split; [exact CC1|reflexivity]).
    destruct (start_servers old (c_addrs c) g2 []) as [[r3 g3] srv] eqn:S2.
    rewrite (start_servers_any_cache _ _ _ _ _ _ _ C1 S2).
    destruct r3; intros B; injection B as <- <- <-; exists C1; split; try exact CC1; reflexivity. }
  destruct BB as (C1 & CC1 & B2). rewrite B2.
  destruct r0; injection H as <- <- <-; exists C1; split; try exact CC1; reflexivity.
Qed.

Lemma do_validate_any_cache step e c g r g' :
  cache_okl (g_htcache g) -> do_validate step e c g = (r, g') ->
  forall C, cache_okl C ->
  exists C', cache_okl C' /\ do_validate step e c (set_htcache g C) = (r, set_htcache g' C').
Proof.
  unfold do_validate. intros CK H C CC.
  destruct (negb (parse_ok c)); [injection H as <- <-; exists C; split; [exact CC|reflexivity]|].
  destruct (exec_effs step e (c_effs c) g l0) as [[r1 g1] l] eqn:E1.
  destruct (exec_effs_any_cache _ _ _ _ _ _ _ _ CK E1 C CC) as (C1 & CC1 & E2). rewrite E2.
  destruct r1; injection H as <- <-; exists C1; split; try exact CC1; reflexivity.
Qed.

Lemma do_reload_any_cache step e c g r g' :
  cache_okl (g_htcache g) -> do_reload step e c g = (r, g') ->
  forall C, cache_okl C ->
  exists C', cache_okl C' /\ do_reload step e c (set_htcache g C) = (r, set_htcache g' C').
Proof.
  unfold do_reload. intros CK H C CC. simpl.
  destruct (g_insts g) as [|old rest]; [injection H as <- <-; exists C; split; [exact CC|reflexivity]|].
  destruct (start_with step e c (i_servers old) g) as [[r1 g1] oi] eqn:S.
  destruct (start_with_any_cache _ _ _ _ _ _ _ _ CK S C CC) as (C1 & CC1 & S2). rewrite S2.
  destruct r1; [destruct oi|..]; injection H as <- <-; exists C1; split; try exact CC1; reflexivity.
Qed.

Theorem attempt_any_cache m step e c g r g' :
  cache_okl (g_htcache g) -> attempt m step e c g = (r, g') ->
  forall C, cache_okl C ->
  exists C', cache_okl C' /\ attempt m step e c (set_htcache g C) = (r, set_htcache g' C').
Proof.
  destruct m; simpl; intros CK H C CC.
  - unfold do_load in *.
    destruct (start_with step e c [] g) as [[r1 g1] oi] eqn:S.
    destruct (start_with_any_cache _ _ _ _ _ _ _ _ CK S C CC) as (C1 & CC1 & S2). rewrite S2.
    destruct r1; [destruct oi|..]; injection H as <- <-; exists C1; split; try exact CC1; reflexivity.
  - eapply do_validate_any_cache; eauto.
  - eapply do_reload_any_cache; eauto.
  - rewrite do_sigusr1_unfold in *. simpl.
    destruct (g_insts g) as [|old rest]; [injection H as <- <-; exists C; split; [exact CC|reflexivity]|].
    destruct (do_reload step e c (set_hooks g [])) as [r1 g1] eqn:R.
    assert (CK' : cache_okl (g_htcache (set_hooks g []))) by exact CK.
    destruct (do_reload_any_cache _ _ _ _ _ _ CK' R C CC) as (C1 & CC1 & R2).
    change (set_hooks (set_htcache g C) []) with (set_htcache (set_hooks g []) C). rewrite R2.
    destruct r1; injection H as <- <-; exists C1; split; try exact CC1; reflexivity.
  - eapply do_validate_any_cache; eauto.
Qed.

Lemma same_but_cache_set g g2 : same_but_cache g g2 -> g2 = set_htcache g (g_htcache g2).
Proof. intros (A1 & A2 & A3 & A4 & A5 & A6 & A7). apply gstate_eq; simpl; auto. Qed.

Lemma same_but_cache_set_htcache g C : same_but_cache g (set_htcache g C).
Proof. repeat split; reflexivity. Qed.

Theorem attempt_ignores_cache m step e c g1 g2 r g1' :
  cache_ok g1 -> cache_ok g2 -> same_but_cache g1 g2 -> attempt m step e c g1 = (r, g1') ->
  exists g2', attempt m step e c g2 = (r, g2') /\ same_but_cache g1' g2' /\ cache_ok g2'.
Proof.
  intros C1 C2 SB H.
  destruct (attempt_any_cache _ _ _ _ _ _ _ C1 H (g_htcache g2) C2) as (C' & CC' & A).
  rewrite <- (same_but_cache_set _ _ SB) in A.
  eexists. split; [exact A|]. split; [apply same_but_cache_set_htcache|exact CC'].
Qed.

(* ------------------------------------------------------------------ a contained panic *)
(* a panic contained by Restart IS a failed reload: of the configuration followed by a failing directive *)
Lemma attempt_panic_is_attempt sg step e c g :
  attempt_panic sg step e c g = attempt (if sg then Sigusr1 else Reload) step e (with_panic c) g.
Proof. destruct sg; reflexivity. Qed.

Lemma exec_effs_bad_tail step e effs : forall g l r g' l',
  exec_effs step e (effs ++ [EBad]) g l = (r, g', l') -> r <> ROk.
Proof.
  induction effs as [|x effs IH]; intros g l r g' l' H; simpl in H.
  - injection H as <- <- <-. discriminate.
  - destruct x as [|n|f size ok|f u|].
    + injection H as <- <- <-. discriminate.
    + eapply IH; exact H.
    + eapply IH; exact H.
    + destruct (get_matcher e g f u) as [[r1 g1] o1].
      destruct r1.
      * destruct o1 as [pw|]; [eapply IH; exact H|injection H as <- <- <-; discriminate].
      * injection H as <- <- <-. discriminate.
      * injection H as <- <- <-. discriminate.
    + eapply IH; exact H.
Qed.

Lemma start_with_panic_fails step e c old g r g' oi :
  start_with step e (with_panic c) old g = (r, g', oi) -> r <> ROk.
Proof.
  unfold start_with, start_body. intros H.
  destruct (negb (parse_ok (with_panic c))); [injection H as <- <- <-; discriminate|].
  cbn [with_panic c_effs] in H.
  destruct (exec_effs step e (c_effs c ++ [EBad]) g l0) as [[r1 g1] l] eqn:E1.
  pose proof (exec_effs_bad_tail _ _ _ _ _ _ _ _ E1) as NR.
  destruct r1; [congruence|injection H as <- <- <-; discriminate|injection H as <- <- <-; discriminate].
Qed.

Lemma do_reload_panic_fails step e c g r g' :
  do_reload step e (with_panic c) g = (r, g') -> r <> ROk.
Proof.
  unfold do_reload. intros H.
  destruct (g_insts g) as [|old rest]; [injection H as <- <-; discriminate|].
  destruct (start_with step e (with_panic c) (i_servers old) g) as [[r1 g1] oi] eqn:S.
  pose proof (start_with_panic_fails _ _ _ _ _ _ _ _ S) as NR.
  destruct r1; [congruence|injection H as <- <-; discriminate|injection H as <- <-; discriminate].
Qed.

(* it never reports success *)
Lemma attempt_panic_fails sg step e c g r g' :
  attempt_panic sg step e c g = (r, g') -> r <> ROk.
Proof.
  destruct sg; simpl; intros H.
  - rewrite do_sigusr1_unfold in H. destruct (g_insts g) as [|old rest]; [injection H as <- <-; discriminate|].
    destruct (do_reload step e (with_panic c) (set_hooks g [])) as [r1 g1] eqn:R.
    pose proof (do_reload_panic_fails _ _ _ _ _ _ R) as NR.
    destruct r1; [congruence|injection H as <- <-; discriminate|injection H as <- <-; discriminate].
  - eapply do_reload_panic_fails; eauto.
Qed.

Lemma attempt_panic_lock sg step e c g r g' :
  attempt_panic sg step e c g = (r, g') ->
  g_htlock g' = g_htlock g /\ (g_htlock g = false -> r <> RHang).
Proof.
  rewrite attempt_panic_is_attempt. intros H. split; [exact (attempt_lock _ _ _ _ _ _ _ H)|].
  intros L. exact (attempt_no_hang _ _ _ _ _ _ _ L H).
Qed.

Lemma attempt_panic_wf sg step e c g r g' :
  wf g -> attempt_panic sg step e c g = (r, g') -> wf g'.
Proof. rewrite attempt_panic_is_attempt. intros W H. exact (attempt_wf _ _ _ _ _ _ _ W H). Qed.

(* ------------------------------------------------------------------ histories *)

(* over all histories of failed attempts and file rewrites: nothing but the (transparent) cache has changed,
   so every later attempt has the outcome and the effect it has without the failures *)
Theorem run_harmless_failures_identity h : forall step e g rs e' g',
  wf g -> forallb harmless_op h = true -> run step h (e, g) = (rs, (e', g')) ->
  attempts_failed h rs -> same_but_cache g g' /\ wf g' /\ e' = writes h e.
Proof.
  induction h as [|o h IH]; intros step e g rs e' g' W HH R AF; simpl in R.
  - injection R as <- <- <-. split; [apply same_but_cache_refl|]. split; [exact W|reflexivity].
  - simpl in HH. apply andb_true_iff in HH as [HO HH].
    destruct (step_op step o (e, g)) as [x [e1 g1]] eqn:S.
    destruct (run (step + 1) h (e1, g1)) as [xs [e2 g2]] eqn:R2.
    injection R as <- <- <-.
    destruct o as [m c|f hf|sg c]; simpl in S.
    + destruct (attempt m step e c g) as [r ga] eqn:A. injection S as <- <- <-.
      simpl in AF. destruct AF as [NR AF].
      pose proof (failed_harmless_identity _ _ _ _ _ _ _ W HO A NR) as SB.
      pose proof (attempt_wf _ _ _ _ _ _ _ W A) as Wa.
      destruct (IH _ _ _ _ _ _ Wa HH R2 AF) as (SB2 & W2 & E2).
      split; [eapply same_but_cache_trans; eauto|]. split; [exact W2|exact E2].
    + injection S as <- <- <-. simpl in AF. simpl. eapply IH; eauto.
    + destruct (attempt_panic sg step e c g) as [r ga] eqn:A. injection S as <- <- <-.
      simpl in AF. destruct AF as [NR AF].
      pose proof (attempt_panic_wf _ _ _ _ _ _ _ W A) as Wa.
      rewrite attempt_panic_is_attempt in A.
      pose proof (failed_harmless_identity _ _ _ _ _ _ _ W HO A NR) as SB.
      destruct (IH _ _ _ _ _ _ Wa HH R2 AF) as (SB2 & W2 & E2).
      split; [eapply same_but_cache_trans; eauto|]. split; [exact W2|exact E2].
Qed.

Theorem valid_after_harmless_failures h step0 e g rs e' g' :
  wf g -> forallb harmless_op h = true ->
  run step0 h (e, g) = (rs, (e', g')) -> attempts_failed h rs ->
  same_but_cache g g' /\ e' = writes h e /\
  forall m step v r ga, attempt m step (writes h e) v g = (r, ga) ->
  exists gb, attempt m step e' v g' = (r, gb) /\ same_but_cache ga gb.
Proof.
  intros W HH R AF.
  destruct (run_harmless_failures_identity h step0 e g rs e' g' W HH R AF) as (SB & W' & ->).
  split; [exact SB|]. split; [reflexivity|].
  intros m step v r ga A.
  destruct W as (_ & _ & C). destruct W' as (_ & _ & C').
  destruct (attempt_ignores_cache m step (writes h e) v g g' r ga C C' SB A) as (gb & A' & SB' & _).
  exists gb. split; assumption.
Qed.

Theorem matcher_answers_from_the_file e g f u r g' o :
  g_htlock g = false -> cache_ok g -> get_matcher e g f u = (r, g', o) ->
  (r, o) = lookup_now e f u /\ same_but_cache g g' /\ cache_ok g'.
Proof.
  intros L C H.
  destruct (get_matcher_spec e g f u r g' o L C H) as (A & X & C1 & _).
  split; [exact A|]. split; [|exact C1]. destruct X. repeat split; assumption.
Qed.

(* the mutex is free after every history, and no attempt of any history ever blocks *)
Theorem run_never_hangs h : forall step e g rs e' g',
  g_htlock g = false -> run step h (e, g) = (rs, (e', g')) ->
  g_htlock g' = false /\ ~ In RHang rs.
Proof.
  induction h as [|o h IH]; intros step e g rs e' g' L R; simpl in R.
  - injection R as <- <- <-. split; [exact L|intros []].
  - destruct (step_op step o (e, g)) as [x [e1 g1]] eqn:S.
    destruct (run (step + 1) h (e1, g1)) as [xs [e2 g2]] eqn:R2.
    injection R as <- <- <-.
    destruct o as [m c|f hf|sg c]; simpl in S.
    + destruct (attempt m step e c g) as [r ga] eqn:A. injection S as <- <- <-.
      pose proof (attempt_lock _ _ _ _ _ _ _ A) as L1. rewrite L in L1.
      pose proof (attempt_no_hang _ _ _ _ _ _ _ L A) as NH.
      destruct (IH _ _ _ _ _ _ L1 R2) as [L2 NI]. split; [exact L2|].
      intros [E|I]; [congruence|auto].
    + injection S as <- <- <-.
      destruct (IH _ _ _ _ _ _ L R2) as [L2 NI]. split; [exact L2|].
      intros [E|I]; [discriminate|auto].
    + destruct (attempt_panic sg step e c g) as [r ga] eqn:A. injection S as <- <- <-.
      destruct (attempt_panic_lock _ _ _ _ _ _ _ A) as [L1 NH]. rewrite L in L1.
      destruct (IH _ _ _ _ _ _ L1 R2) as [L2 NI]. split; [exact L2|].
      intros [E|I]; [apply NH; [exact L|congruence]|auto].
Qed.

Theorem run_wf h : forall step e g rs e' g',
  wf g -> run step h (e, g) = (rs, (e', g')) -> wf g'.
Proof.
  induction h as [|o h IH]; intros step e g rs e' g' W R; simpl in R.
  - injection R as <- <- <-. exact W.
  - destruct (step_op step o (e, g)) as [x [e1 g1]] eqn:S.
    destruct (run (step + 1) h (e1, g1)) as [xs [e2 g2]] eqn:R2.
    injection R as <- <- <-.
    destruct o as [m c|f hf|sg c]; simpl in S.
    + destruct (attempt m step e c g) as [r ga] eqn:A. injection S as <- <- <-.
      eapply IH; [|exact R2]. eapply attempt_wf; eauto.
    + injection S as <- <- <-. eapply IH; eauto.
    + destruct (attempt_panic sg step e c g) as [r ga] eqn:A. injection S as <- <- <-.
      eapply IH; [|exact R2]. eapply attempt_panic_wf; eauto.
Qed.

Lemma wf_g0 : wf g0.
Proof. split; [intros i []|split; [intros s []|intros f h; discriminate]]. Qed.

(* ------------------------------------------------------------------ running sites are untouched *)

Theorem failed_attempt_sites_untouched m step e c g r g' :
  wf g -> attempt m step e c g = (r, g') -> r <> ROk ->
  g_insts g' = g_insts g /\
  (forall i, In i (g_insts g) -> alive g i -> alive g' i) /\
  (forall i x, In i (g_insts g) -> roller_of g i = Some x -> roller_of g' i = Some x).
Proof.
  intros (W & T & C) H NR. destruct (failed_attempt_grow _ _ _ _ _ _ _ H NR) as [G1 G2 G3 G5].
  destruct (failed_attempt_socks _ _ _ _ _ _ _ T H NR) as [S1 _].
  split; [exact G1|]. split.
  - intros i Hi AL a sid Hin. unfold alive in AL. rewrite S1. exact (AL a sid Hin).
  - intros i x Hi. unfold roller_of. destruct (i_log i); [apply G5|discriminate].
Qed.

(* ... and loses nothing *)
Theorem failed_attempt_loses_nothing m step e c g r g' :
  wf g -> attempt m step e c g = (r, g') -> r <> ROk ->
  g_insts g' = g_insts g /\ g_htlock g' = g_htlock g /\
  g_hooks g' = g_hooks g /\
  (forall f x, assoc f (g_rollers g) = Some x -> assoc f (g_rollers g') = Some x) /\
  g_socks g' = g_socks g.
Proof.
  intros (W & T & C) H NR. destruct (failed_attempt_grow _ _ _ _ _ _ _ H NR) as [G1 G2 G3 G5].
  destruct (failed_attempt_socks _ _ _ _ _ _ _ T H NR) as [S1 _].
  pose proof (failed_attempt_hooks _ _ _ _ _ _ _ H NR) as HK. auto 10.
Qed.

(* ------------------------------------------------------------------ valid configurations load *)

Definition all_ok (cbs : list (N * N * bool)) : Prop := forall t, In t cbs -> snd t = true.

Lemma exec_effs_valid step e effs : forall g l,
  g_htlock g = false -> cache_okl (g_htcache g) -> forallb (eff_valid e) effs = true -> all_ok (l_startups l) ->
  exists g' l', exec_effs step e effs g l = (ROk, g', l') /\ all_ok (l_startups l') /\
                l_auth l' = expected_auth e effs (l_auth l).
Proof.
  induction effs as [|x effs IH]; intros g l L CK V AO; simpl.
  - eauto.
  - simpl in V. apply andb_true_iff in V as [V1 V2].
    destruct x as [|n|f size ok|f u|]; simpl in V1.
    + discriminate.
    + apply IH; auto.
    + match goal with |- context [exec_effs step e effs g ?l1] =>
        destruct (IH g l1) as (g' & l' & E & A & B); auto end.
      { simpl. intros t Hin. apply in_app_or in Hin as [Hin|[Hin|[]]]; [auto|]. subst t. simpl. exact V1. }
      exists g', l'. repeat split; auto.
    + apply andb_true_iff in V1 as [V1 V1c]. apply andb_true_iff in V1 as [V1a V1b].
      apply negb_true_iff in V1b.
      destruct (get_matcher e g f u) as [[r1 g1] o1] eqn:M.
      destruct (get_matcher_spec _ _ _ _ _ _ _ L CK M) as (LK & X & CK1 & _).
      unfold lookup_now in LK. rewrite V1a, V1b in LK. cbn [negb] in LK.
      destruct (assoc u (h_users (env_get e f))) as [pw|] eqn:AU; [|discriminate].
      injection LK as -> ->.
      match goal with |- context [exec_effs step e effs g1 ?l1] =>
        destruct (IH g1 l1) as (g' & l' & E & A & B); auto end.
      { rewrite (c_lock _ _ X). exact L. }
      exists g', l'. repeat split; auto.
    + apply IH; auto.
Qed.

Lemma run_startups_all_ok cbs : forall g, all_ok cbs -> exists g', run_startups cbs g = (ROk, g').
Proof.
  induction cbs as [|[[f size] ok] cbs IH]; intros g AO; simpl.
  - eauto.
  - assert (ok = true) as -> by (apply (AO (f, size, ok)); left; reflexivity).
    apply IH. intros t Hin. apply AO. right. exact Hin.
Qed.

Lemma forallb_free_no_busy addrs : forallb addr_free addrs = true -> existsb is_busy addrs = false.
Proof.
  induction addrs as [|a addrs IH]; simpl; [reflexivity|].
  intros H. apply andb_true_iff in H as [H1 H2]. rewrite (IH H2).
  destruct a; simpl in *; [reflexivity|discriminate].
Qed.

Lemma start_body_valid step e c old g :
  g_htlock g = false -> cache_ok g -> cfg_valid e c = true ->
  exists g' ni, start_body step e c old g = (ROk, g', Some ni) /\ i_cfg ni = c_id c /\
                i_auth ni = expected_auth e (c_effs c) None.
Proof.
  intros L CK V. unfold cfg_valid in V.
  apply andb_true_iff in V as [V V4]. apply andb_true_iff in V as [V V3]. apply andb_true_iff in V as [V1 V2].
  unfold start_body. rewrite V1. simpl.
  destruct (exec_effs_valid step e (c_effs c) g l0 L CK V2) as (g1 & l1 & E1 & AO & AU); [intros t []|].
  rewrite E1.
  destruct (run_startups_all_ok (l_startups l1) g1 AO) as (g2 & E2). rewrite E2.
  destruct (start_servers old (c_addrs c) g2 []) as [[r3 g3] srv] eqn:E3.
  pose proof (start_servers_no_busy _ _ _ _ _ _ _ (forallb_free_no_busy _ V3) E3) as ->.
  eexists. eexists. split; [reflexivity|]. split; [reflexivity|exact AU].
Qed.

Lemma start_with_valid step e c old g :
  g_htlock g = false -> cache_ok g -> cfg_valid e c = true ->
  exists g' ni, start_with step e c old g = (ROk, g', Some ni) /\ i_cfg ni = c_id c /\
                i_auth ni = expected_auth e (c_effs c) None.
Proof.
  intros L CK V. destruct (start_body_valid step e c old g L CK V) as (g1 & ni & B & I).
  unfold start_with. rewrite B. eauto.
Qed.

Theorem valid_load_succeeds step e c g :
  g_htlock g = false -> cache_ok g -> cfg_valid e c = true ->
  exists g' ni, do_load step e c g = (ROk, g') /\ g_insts g' = g_insts g ++ [ni] /\ i_cfg ni = c_id c /\
                i_auth ni = expected_auth e (c_effs c) None.
Proof.
  intros L CK V. destruct (start_with_valid step e c [] g L CK V) as (g1 & ni & S & I).
  unfold do_load. rewrite S. eexists. exists ni. split; [reflexivity|]. split; [|exact I].
  simpl. rewrite (w_insts _ _ _ (start_with_grow _ _ _ _ _ _ _ _ S)). reflexivity.
Qed.

Theorem valid_reload_succeeds step e c g old rest :
  g_htlock g = false -> cache_ok g -> g_insts g = old :: rest -> cfg_valid e c = true ->
  exists g' ni, do_reload step e c g = (ROk, g') /\ g_insts g' = rest ++ [ni] /\ i_cfg ni = c_id c /\
                i_auth ni = expected_auth e (c_effs c) None.
Proof.
  intros L CK GI V. destruct (start_with_valid step e c (i_servers old) g L CK V) as (g1 & ni & S & I).
  unfold do_reload. rewrite GI, S. eexists. exists ni. split; [reflexivity|]. split; [reflexivity|exact I].
Qed.

(* over ALL histories: a valid configuration loads, whatever was attempted before *)
Theorem valid_load_after_any_history h e rs e' g' step v :
  run 1 h (e, g0) = (rs, (e', g')) ->
  cfg_valid e' v = true ->
  exists g'' ni, do_load step e' v g' = (ROk, g'') /\ g_insts g'' = g_insts g' ++ [ni] /\ i_cfg ni = c_id v /\
                 i_auth ni = expected_auth e' (c_effs v) None.
Proof.
  intros R V. destruct (run_never_hangs h 1 e g0 rs e' g' eq_refl R) as [L _].
  destruct (run_wf h 1 e g0 rs e' g' wf_g0 R) as (_ & _ & CK).
  apply valid_load_succeeds; auto.
Qed.

(* ------------------------------------------------------------------ the code before ee9fbaa *)
Lemma prefix_lock_refuted :
  exists e e' f u g1,
    get_matcher_gen false e g0 f u = (RErr, g1, None) /\
    eff_valid e' (EAuth f u) = true /\
    fst (fst (get_matcher_gen false e' g1 f u)) = RHang /\
    fst (fst (get_matcher_gen false e' g0 f u)) = ROk.
Proof.
  exists [], [(2, {| h_present := true; h_users := [(1, 1)]; h_bad := false; h_after := [] |})], 2, 1.
  eexists. vm_compute. repeat split; reflexivity.
Qed.

(* ------------------------------------------------------------------ witnesses against the full frame *)
Definition mkcfg (id : N) (effs : list effect) (addrs : list addr) : cfg :=
  {| c_id := id; c_parse := PNone; c_effs := effs; c_addrs := addrs |}.
Definition users (l : list (N * N)) : htfile := {| h_present := true; h_users := l; h_bad := false; h_after := [] |}.

Lemma frame_refuted :
  (* roller settings of a rejected configuration are registered *)
  exists c g', attempt Load 1 [] c g0 = (RErr, g') /\ g_rollers g' <> g_rollers g0.
Proof.
  exists (mkcfg 1 [ELog 1 1 true] [ABusy]). eexists. split; [vm_compute; reflexivity|discriminate].
Qed.

(* hooks registered by a rejected configuration are taken out again: load, validate, API-driven execute and
   reload, SIGUSR1 *)
Lemma hooks_restored_witness :
  (exists g', attempt Load 1 [] (mkcfg 1 [EOn 1; EBad] [AEph 1]) g0 = (RErr, g') /\ g_hooks g' = []) /\
  (exists g', attempt Validate 1 [] (mkcfg 1 [EOn 1; EAuth 2 1] [AEph 1]) g0 = (RErr, g') /\ g_hooks g' = []) /\
  (exists g', attempt Execute 1 [] (mkcfg 1 [EOn 2; EBad] [AEph 1]) g0 = (RErr, g') /\ g_hooks g' = []) /\
  (exists g', attempt Load 1 [] (mkcfg 1 [EOn 1] [AEph 1; ABusy]) g0 = (RErr, g') /\ g_hooks g' = []) /\
  (exists g1 g2, attempt Load 1 [] (mkcfg 1 [EOn 1] [AEph 1]) g0 = (ROk, g1) /\
                 attempt Reload 2 [] (mkcfg 2 [EOn 2; EBad] [AEph 1]) g1 = (RErr, g2) /\
                 g_hooks g2 = [1] /\ g_hooks g1 = [1]) /\
  (exists g1 g2, attempt Load 1 [] (mkcfg 1 [EOn 1] [AEph 1]) g0 = (ROk, g1) /\
                 attempt Sigusr1 2 [] (mkcfg 2 [EOn 2; EBad] [AEph 1]) g1 = (RErr, g2) /\
                 g_hooks g2 = [1] /\ g_hooks g1 = [1]).
Proof.
  repeat split; try (eexists; vm_compute; split; reflexivity);
    eexists; eexists; vm_compute; repeat split; reflexivity.
Qed.

(* the listeners a failing start opened before the failing one are closed again: the socket table and the
   descriptor counts are exactly as before, on a fresh start and on a reload that inherits a listener *)
Lemma listeners_closed_witness :
  (exists g', attempt Load 1 [] (mkcfg 1 [] [AEph 1; ABusy]) g0 = (RErr, g') /\ g_socks g' = g_socks g0) /\
  (exists g1 g', attempt Load 1 [] (mkcfg 1 [] [AEph 1]) g0 = (ROk, g1) /\
                 attempt Reload 2 [] (mkcfg 2 [] [AEph 1; AEph 2; ABusy]) g1 = (RErr, g') /\
                 g_socks g' = g_socks g1 /\ sum_fds (g_socks g1) = 1%nat).
Proof.
  split.
  - eexists. split; vm_compute; reflexivity.
  - eexists. eexists. split; [vm_compute; reflexivity|]. split; [vm_compute; reflexivity|].
    split; vm_compute; reflexivity.
Qed.

(* the three faces of the stale htpasswd cache are gone: after a failed attempt and a repair / change /
   removal of the file, the next attempt sees the file as it is now *)
Lemma htpasswd_cache_witness :
  (* F-C08-4: the user is added after a failed load: the corrected configuration loads *)
  (exists rs e' g', run 1 [OAttempt Load (mkcfg 1 [EAuth 2 1] [AEph 1]); OWrite 2 (users [(1, 2); (2, 1)])]
                      ([(2, users [(2, 1)])], g0) = (rs, (e', g')) /\ rs = [RErr; ROk] /\
                    fst (do_load 9 e' (mkcfg 2 [EAuth 2 1] [AEph 1]) g') = ROk) /\
  (* F-C08-4b: the password is changed after a failed load: the new one is served *)
  (exists rs e' g' gb, run 1 [OAttempt Load (mkcfg 1 [EAuth 1 1; EBad] [AEph 1]); OWrite 1 (users [(1, 2)])]
                      ([(1, users [(1, 1)])], g0) = (rs, (e', g')) /\ rs = [RErr; ROk] /\
                    do_load 9 e' (mkcfg 2 [EAuth 1 1] [AEph 1]) g' = (ROk, gb) /\
                    map auth_view (g_insts gb) = [[4; 4; 2]]) /\
  (* F-C08-4c: the file is removed after a validation read it: the configuration is rejected *)
  (exists rs e' g', run 1 [OAttempt Validate (mkcfg 1 [EAuth 1 1] [AEph 1]); OWrite 1 ht_missing]
                      ([(1, users [(1, 1)])], g0) = (rs, (e', g')) /\ rs = [ROk; ROk] /\
                    fst (do_load 9 e' (mkcfg 2 [EAuth 1 1] [AEph 1]) g') = RErr).
Proof.
  split; [|split].
  - do 3 eexists. vm_compute. repeat split; reflexivity.
  - do 4 eexists. vm_compute. repeat split; reflexivity.
  - do 3 eexists. vm_compute. repeat split; reflexivity.
Qed.

(* a valid configuration loads after a failed attempt but behaves differently from a fresh process: it
   rotates its log with the settings of the rejected configuration *)
Lemma valid_after_failures_behaviour_refuted :
  exists h v rs e' g' ga gb,
     run 1 h ([], g0) = (rs, (e', g')) /\ attempts_failed h rs /\ cfg_valid e' v = true /\
     do_load 9 e' v g0 = (ROk, ga) /\ do_load 9 e' v g' = (ROk, gb) /\ roll_view ga <> roll_view gb.
Proof.
  exists [OAttempt Load (mkcfg 1 [ELog 1 1 true] [ABusy])], (mkcfg 2 [ELog 1 50 true] [AEph 1]).
  do 5 eexists. split; [vm_compute; reflexivity|].
  split; [simpl; split; [discriminate|exact I]|].
  split; [vm_compute; reflexivity|]. split; [vm_compute; reflexivity|].
  split; [vm_compute; reflexivity|]. vm_compute. discriminate.
Qed.

(* ================================================================== round 2: loader failures, the state without
   the two leaking registries, health-check workers, contained panics *)

(* ------------------------------------------------------------------ a Casketfile that cannot be loaded *)
Lemma set_hooks_self g : set_hooks g (g_hooks g) = g.
Proof. destruct g; reflexivity. Qed.

Lemma loader_fails_parse c : loader_fails c = true -> parse_ok c = false.
Proof. unfold loader_fails, parse_ok. destruct (c_parse c); try discriminate; reflexivity. Qed.

Lemma start_with_unparsed step e c old g :
  parse_ok c = false -> start_with step e c old g = (RErr, g, None).
Proof.
  intros P. unfold start_with, start_body. rewrite P. cbn [negb]. rewrite set_hooks_self. reflexivity.
Qed.

(* the SIGUSR1 handler whose loader fails at signal time: NOTHING is changed, in any state whatsoever (the
   load step comes before the hooks are backed up and purged, and the handler leaves right there) *)
Theorem failed_sigusr1_load_changes_nothing step e c g :
  loader_fails c = true -> attempt Sigusr1 step e c g = (RErr, g).
Proof.
  intros LF. simpl. unfold do_sigusr1, do_sigusr1_gen. rewrite LF. destruct (g_insts g); reflexivity.
Qed.

(* ... and so for every other way of attempting it *)
Theorem unloadable_changes_nothing m step e c g :
  loader_fails c = true -> attempt m step e c g = (RErr, g).
Proof.
  intros LF. pose proof (loader_fails_parse _ LF) as P.
  destruct m; simpl.
  - unfold do_load. rewrite (start_with_unparsed _ _ _ _ _ P). reflexivity.
  - unfold do_validate. rewrite P. reflexivity.
  - unfold do_reload. destruct (g_insts g); [reflexivity|]. rewrite (start_with_unparsed _ _ _ _ _ P). reflexivity.
  - apply failed_sigusr1_load_changes_nothing. exact LF.
  - unfold do_validate. rewrite P. reflexivity.
Qed.

(* the two orders of the handler differ in nothing but that early exit *)
Lemma sigusr1_order_irrelevant_when_loaded step e c g :
  loader_fails c = false -> do_sigusr1_gen true step e c g = do_sigusr1_gen false step e c g.
Proof. intros LF. unfold do_sigusr1_gen. rewrite LF. reflexivity. Qed.

(* "purge, then load": the early exit leaves the registry purged — every hook of the running configuration
   is gone after a reload that did not even read a configuration *)
Lemma sigusr1_purge_before_load_refuted :
  exists h c rs e g g',
    run 1 h ([], g0) = (rs, (e, g)) /\ loader_fails c = true /\
    do_sigusr1_gen true 2 e c g = (RErr, g') /\ g_hooks g = [1; 1] /\ g_hooks g' = [] /\
    do_sigusr1_gen false 2 e c g = (RErr, g).
Proof.
  exists [OAttempt Load (mkcfg 1 [EOn 2] [AEph 1])],
         {| c_id := 2; c_parse := PLoader; c_effs := [EOn 1]; c_addrs := [AEph 1] |}.
  do 4 eexists. split; [vm_compute; reflexivity|]. split; [reflexivity|].
  split; [vm_compute; reflexivity|]. split; [reflexivity|]. split; [reflexivity|]. vm_compute. reflexivity.
Qed.

(* ------------------------------------------------------------------ health-check workers *)
(* a failed attempt leaves the list of running health-check workers exactly as before unless it got as far as
   startServers with a proxy health check set up and a listener that fails to bind: nothing is started while
   directives are parsed, the workers are started by the last startup callbacks *)
Definition probe_safe (m : mode) (c : cfg) : bool :=
  match m with Validate | Execute => true | _ => no_probe_leak c end.

Lemma failed_attempt_probers0 m step e c g r g' :
  probe_safe m c = true -> attempt m step e c g = (r, g') -> r <> ROk -> g_probers g' = g_probers g.
Proof.
  assert (RL : no_probe_leak c = true -> forall g r g', do_reload step e c g = (r, g') -> r <> ROk -> g_probers g' = g_probers g).
  { clear. intros NPL g r g' H NR. unfold do_reload in H.
    destruct (g_insts g) as [|old rest]; [injection H as <- <-; reflexivity|].
    destruct (start_with step e c (i_servers old) g) as [[r1 g1] oi] eqn:S.
    assert (NR1 : r1 <> ROk).
    { intros ->. destruct (start_with_ok_some _ _ _ _ _ _ _ S) as [ni ->]. injection H as <- <-. congruence. }
    pose proof (start_with_failed_probers _ _ _ _ _ _ _ _ NPL S NR1) as PB.
    destruct r1; [congruence|..]; injection H as <- <-; exact PB. }
  destruct m; simpl; intros PS H NR.
  - unfold do_load in H. destruct (start_with step e c [] g) as [[r1 g1] oi] eqn:S.
    assert (NR1 : r1 <> ROk).
    { intros ->. destruct (start_with_ok_some _ _ _ _ _ _ _ S) as [ni ->]. injection H as <- <-. congruence. }
    pose proof (start_with_failed_probers _ _ _ _ _ _ _ _ PS S NR1) as PB.
    destruct r1; [congruence|..]; injection H as <- <-; exact PB.
  - eapply do_validate_probers; eauto.
  - eapply RL; eauto.
  - rewrite do_sigusr1_unfold in H. destruct (g_insts g) as [|old rest]; [injection H as <- <-; reflexivity|].
    destruct (do_reload step e c (set_hooks g [])) as [r1 g1] eqn:R.
    assert (r1 <> ROk) as NR1 by (destruct r1; injection H as <- <-; congruence).
    pose proof (RL PS _ _ _ R NR1) as PB. simpl in PB.
    destruct r1; injection H as <- <-; try congruence; exact PB.
  - eapply do_validate_probers; eauto.
Qed.

(* ... stated on the part of the configuration the attempt reaches: a configuration rejected by a directive
   reaches no listener *)
Theorem failed_attempt_probers m step e c g r g' :
  probe_safe m (reached c) = true -> attempt m step e c g = (r, g') -> r <> ROk -> g_probers g' = g_probers g.
Proof. intros PS H NR. rewrite attempt_reached in H. eapply failed_attempt_probers0; eauto. Qed.

(* a validation and an API-driven execution of the directives start nothing even when they succeed *)
Theorem validate_starts_nothing m step e c g r g' :
  (m = Validate \/ m = Execute) -> attempt m step e c g = (r, g') -> g_probers g' = g_probers g.
Proof. intros [-> | ->] H; simpl in H; eapply do_validate_probers; eauto. Qed.

(* ------------------------------------------------------------------ the state without the leaking registries *)
(* FULL, no side condition: whatever fails, however far it got, the instance list, the hook registry, the mutex,
   the socket table with its descriptor counts and the name supply are exactly as before; the two registries
   that startup callbacks write to only GROW (rollers are added, never changed; workers are added for this step,
   never stopped), and the worker list is untouched unless the attempt got as far as startServers with a proxy
   health check set up and a listener that fails to bind *)
Theorem failed_attempt_frame_without_rollers m step e c g r g' :
  wf g -> attempt m step e c g = (r, g') -> r <> ROk ->
  same_but_leaks g g' /\
  (forall f x, assoc f (g_rollers g) = Some x -> assoc f (g_rollers g') = Some x) /\
  (exists k, g_probers g' = g_probers g ++ repeat step k) /\
  (probe_safe m (reached c) = true -> g_probers g' = g_probers g).
Proof.
  intros (W & T & C) H NR. destruct (failed_attempt_grow _ _ _ _ _ _ _ H NR) as [G1 G2 G3 G5 G6].
  destruct (failed_attempt_socks _ _ _ _ _ _ _ T H NR) as [S1 S2].
  pose proof (failed_attempt_hooks _ _ _ _ _ _ _ H NR) as HK.
  split; [repeat split; assumption|]. split; [exact G5|]. split; [exact G6|].
  intros PS. eapply failed_attempt_probers; eauto.
Qed.

Lemma same_but_leaks_refl g : same_but_leaks g g.
Proof. repeat split; reflexivity. Qed.

Lemma same_but_leaks_trans a b c : same_but_leaks a b -> same_but_leaks b c -> same_but_leaks a c.
Proof.
  intros (A1 & A2 & A3 & A4 & A5) (B1 & B2 & B3 & B4 & B5). repeat split; congruence.
Qed.

(* --- an attempt does not read the roller map (except to extend it) nor the worker list (except to extend it
       and to take out the workers of the instance it stops) --- *)
Definition set_rp (g : gstate) (R : list (N * N)) (P : list N) : gstate := set_probers (set_rollers g R) P.

Lemma get_matcher_any_rp e g f u r g' o :
  get_matcher e g f u = (r, g', o) -> forall R P, get_matcher e (set_rp g R P) f u = (r, set_rp g' R P, o).
Proof.
  unfold get_matcher, get_matcher_gen. intros H R P. cbn [set_rp set_probers set_rollers g_htlock g_htcache].
  destruct (g_htlock g); [injection H as <- <- <-; reflexivity|].
  destruct (negb (h_present (env_get e f))); [injection H as <- <- <-; reflexivity|].
  destruct (assoc f (g_htcache g)) as [h'|].
  - destruct (htfile_eqb h' (env_get e f)).
    + destruct (assoc u (h_users h')); injection H as <- <- <-; reflexivity.
    + destruct (h_bad (env_get e f)); [injection H as <- <- <-; reflexivity|].
      destruct (assoc u (h_users (env_get e f))); injection H as <- <- <-; reflexivity.
  - destruct (h_bad (env_get e f)); [injection H as <- <- <-; reflexivity|].
    destruct (assoc u (h_users (env_get e f))); injection H as <- <- <-; reflexivity.
Qed.

Lemma exec_effs_any_rp step e effs : forall g l r g' l',
  exec_effs step e effs g l = (r, g', l') ->
  forall R P, exists P', exec_effs step e effs (set_rp g R P) l = (r, set_rp g' R P', l').
Proof.
  induction effs as [|x effs IH]; intros g l r g' l' H R P; simpl in H |- *.
  - injection H as <- <- <-. exists P. reflexivity.
  - destruct x as [|n|f size ok|f u|].
    + injection H as <- <- <-. exists P. reflexivity.
    + exact (IH (set_hooks g (g_hooks g ++ repeat step n)) _ _ _ _ H R P).
    + exact (IH _ _ _ _ _ H R P).
    + destruct (get_matcher e g f u) as [[r1 g1] o1] eqn:M.
      rewrite (get_matcher_any_rp _ _ _ _ _ _ _ M R P).
      destruct r1.
      * destruct o1 as [pw|].
        -- exact (IH _ _ _ _ _ H R P).
        -- injection H as <- <- <-. exists P. reflexivity.
      * injection H as <- <- <-. exists P. reflexivity.
      * injection H as <- <- <-. exists P. reflexivity.
    + exact (IH g _ _ _ _ H R P).
Qed.

Lemma run_startups_any_rp cbs : forall g r g' R P,
  run_startups cbs g = (r, g') -> exists R', run_startups cbs (set_rp g R P) = (r, set_rp g' R' P).
Proof.
  induction cbs as [|[[f size] ok] cbs IH]; intros g r g' R P H; simpl in H |- *.
  - injection H as <- <-. exists R. reflexivity.
  - destruct ok.
    + unfold add_roller in *. cbn [set_rp set_probers set_rollers g_rollers].
      destruct (assoc f (g_rollers g)); destruct (assoc f R).
      * exact (IH _ _ _ R P H).
      * exact (IH _ _ _ ((f, size) :: R) P H).
      * exact (IH _ _ _ R P H).
      * exact (IH _ _ _ ((f, size) :: R) P H).
    + injection H as <- <-. exists R. reflexivity.
Qed.

Lemma start_servers_any_rp old addrs : forall g acc r g' srv R P,
  start_servers old addrs g acc = (r, g', srv) ->
  start_servers old addrs (set_rp g R P) acc = (r, set_rp g' R P, srv).
Proof.
  induction addrs as [|a addrs IH]; intros g acc r g' srv R P H; simpl in H |- *.
  - injection H as <- <- <-. reflexivity.
  - destruct (inherited a old) as [sid|].
    + exact (IH _ _ _ _ _ R P H).
    + destruct a as [n|].
      * exact (IH _ _ _ _ _ R P H).
      * injection H as <- <- <-. reflexivity.
Qed.

Lemma start_with_any_rp step e c old g r g' oi :
  start_with step e c old g = (r, g', oi) ->
  forall R P, exists R' P', start_with step e c old (set_rp g R P) = (r, set_rp g' R' P', oi).
Proof.
  unfold start_with. intros H R P.
  destruct (start_body step e c old g) as [[r0 gb] oi0] eqn:B.
  assert (BB : exists R' P', start_body step e c old (set_rp g R P) = (r0, set_rp gb R' P', oi0)).
  { revert B. unfold start_body.
    destruct (negb (parse_ok c)); [intros B; injection B as <- <- <-; exists R, P; reflexivity|].
    destruct (exec_effs step e (c_effs c) g l0) as [[r1 g1] l] eqn:E1.
    destruct (exec_effs_any_rp _ _ _ _ _ _ _ _ E1 R P) as (P1 & E2). rewrite E2.
    destruct r1; try (intros B; injection B as <- <- <-; exists R, P1; reflexivity).
    destruct (run_startups (l_startups l) g1) as [r2 g2] eqn:S1.
    destruct (run_startups_any_rp _ _ _ _ R P1 S1) as (R1 & S1'). rewrite S1'.
    destruct r2; try (intros B; injection B as <- <- <-; exists R1, P1; reflexivity).
    destruct (start_servers old (c_addrs c) g2 []) as [[r3 g3] srv] eqn:S2.
    rewrite (start_servers_any_rp _ _ _ _ _ _ _ R1 P1 S2).
    destruct r3; intros B; injection B as <- <- <-;
      exists R1, (P1 ++ probes_of step (c_effs c)); reflexivity. }
  destruct BB as (R1 & P1 & B2). rewrite B2.
  destruct r0; injection H as <- <- <-; exists R1, P1; reflexivity.
Qed.

Lemma do_validate_any_rp step e c g r g' :
  do_validate step e c g = (r, g') ->
  forall R P, exists R' P', do_validate step e c (set_rp g R P) = (r, set_rp g' R' P').
Proof.
  unfold do_validate. intros H R P.
  destruct (negb (parse_ok c)); [injection H as <- <-; exists R, P; reflexivity|].
  destruct (exec_effs step e (c_effs c) g l0) as [[r1 g1] l] eqn:E1.
  destruct (exec_effs_any_rp _ _ _ _ _ _ _ _ E1 R P) as (P1 & E2). rewrite E2.
  destruct r1; injection H as <- <-; exists R, P1; reflexivity.
Qed.

Lemma do_reload_any_rp step e c g r g' :
  do_reload step e c g = (r, g') ->
  forall R P, exists R' P', do_reload step e c (set_rp g R P) = (r, set_rp g' R' P').
Proof.
  unfold do_reload. intros H R P. cbn [set_rp set_probers set_rollers g_insts].
  destruct (g_insts g) as [|old rest]; [injection H as <- <-; exists R, P; reflexivity|].
  destruct (start_with step e c (i_servers old) g) as [[r1 g1] oi] eqn:S.
  destruct (start_with_any_rp _ _ _ _ _ _ _ _ S R P) as (R1 & P1 & S2).
  rewrite S2.
  destruct r1; [destruct oi|..]; injection H as <- <-.
  - exists R1, (stop_probers (i_probe old) P1). reflexivity.
  - exists R1, P1. reflexivity.
  - exists R1, P1. reflexivity.
  - exists R1, P1. reflexivity.
Qed.

Theorem attempt_any_rp m step e c g r g' :
  attempt m step e c g = (r, g') ->
  forall R P, exists R' P', attempt m step e c (set_rp g R P) = (r, set_rp g' R' P').
Proof.
  destruct m; simpl; intros H R P.
  - unfold do_load in *.
    destruct (start_with step e c [] g) as [[r1 g1] oi] eqn:S.
    destruct (start_with_any_rp _ _ _ _ _ _ _ _ S R P) as (R1 & P1 & S2). rewrite S2.
    destruct r1; [destruct oi|..]; injection H as <- <-; exists R1, P1; reflexivity.
  - eapply do_validate_any_rp; eauto.
  - eapply do_reload_any_rp; eauto.
  - rewrite do_sigusr1_unfold in *. cbn [set_rp set_probers set_rollers g_insts g_hooks].
    destruct (g_insts g) as [|old rest]; [injection H as <- <-; exists R, P; reflexivity|].
    destruct (do_reload step e c (set_hooks g [])) as [r1 g1] eqn:R0.
    destruct (do_reload_any_rp _ _ _ _ _ _ R0 R P) as (R1 & P1 & R2).
    change (set_hooks (set_rp g R P) []) with (set_rp (set_hooks g []) R P). rewrite R2.
    destruct r1; injection H as <- <-; exists R1, P1; reflexivity.
  - eapply do_validate_any_rp; eauto.
Qed.

Lemma same_but_leaks_set g g2 :
  same_but_leaks g g2 -> g2 = set_rp (set_htcache g (g_htcache g2)) (g_rollers g2) (g_probers g2).
Proof. intros (A1 & A2 & A3 & A4 & A5). apply gstate_eq; simpl; auto. Qed.

Lemma same_but_leaks_sets g C R P : same_but_leaks g (set_rp (set_htcache g C) R P).
Proof. repeat split; reflexivity. Qed.

(* whatever an attempt does from a state, it does from any state that differs in the cache of parsed files,
   the roller map and the worker list only: same outcome, same resulting state up to these three *)
Theorem attempt_ignores_leaks m step e c g1 g2 r g1' :
  cache_ok g1 -> cache_ok g2 -> same_but_leaks g1 g2 -> attempt m step e c g1 = (r, g1') ->
  exists g2', attempt m step e c g2 = (r, g2') /\ same_but_leaks g1' g2' /\ cache_ok g2'.
Proof.
  intros C1 C2 SB H.
  destruct (attempt_any_cache _ _ _ _ _ _ _ C1 H (g_htcache g2) C2) as (C' & CC' & A).
  destruct (attempt_any_rp _ _ _ _ _ _ _ A (g_rollers g2) (g_probers g2)) as (R' & P' & A2).
  rewrite <- (same_but_leaks_set _ _ SB) in A2.
  eexists. split; [exact A2|]. split; [apply same_but_leaks_sets|exact CC'].
Qed.

Lemma failed_attempt_same_but_leaks m step e c g r g' :
  wf g -> attempt m step e c g = (r, g') -> r <> ROk -> same_but_leaks g g'.
Proof. intros W H NR. exact (proj1 (failed_attempt_frame_without_rollers _ _ _ _ _ _ _ W H NR)). Qed.

(* a panic contained by Restart: the configuration followed by a failing directive never reaches a startup
   callback, so it is harmless in the sense of [harmless] whatever it contains *)
Lemma cut_bad_bad_tail effs : snd (cut_bad (effs ++ [EBad])) = true.
Proof.
  induction effs as [|x effs IH]; [reflexivity|].
  destruct x; simpl; try reflexivity; destruct (cut_bad (effs ++ [EBad])) as [p b]; exact IH.
Qed.

Lemma no_log_filter_bad pre : no_log (filter not_log pre ++ [EBad]) = true.
Proof.
  induction pre as [|x pre IH]; [reflexivity|]. destruct x; simpl; exact IH.
Qed.

Lemma harmless_with_panic m c : harmless m (with_panic c) = true.
Proof.
  unfold harmless, harmless0, reached.
  destruct (negb (parse_ok (with_panic c))); [destruct m; reflexivity|].
  cbn [with_panic c_effs].
  pose proof (cut_bad_bad_tail (c_effs c)) as CB.
  destruct (cut_bad (c_effs c ++ [EBad])) as [pre bad]. simpl in CB. subst bad.
  cbn [c_effs c_addrs existsb negb]. destruct m; try reflexivity; rewrite no_log_filter_bad, orb_true_r; reflexivity.
Qed.

(* FULL frame for the contained panic: it fails, and the ENTIRE state is as before up to what the transparent
   cache holds — no half-made instance, no hook of the rejected configuration, the hooks of the running one
   restored after SIGUSR1, no listener, no worker, no roller *)
Theorem contained_panic_frame sg step e c g r g' :
  wf g -> attempt_panic sg step e c g = (r, g') -> r <> ROk /\ same_but_cache g g'.
Proof.
  intros W H. pose proof (attempt_panic_fails _ _ _ _ _ _ _ H) as NR. split; [exact NR|].
  rewrite attempt_panic_is_attempt in H.
  exact (failed_harmless_identity _ _ _ _ _ _ _ W (harmless_with_panic _ c) H NR).
Qed.

Lemma same_but_cache_leaks g g' : same_but_cache g g' -> same_but_leaks g g'.
Proof. intros (A1 & A2 & A3 & A4 & A5 & A6 & A7). repeat split; assumption. Qed.

(* over ALL histories of attempts that fail (every mode, every kind of failure at every stage, contained panics
   included) and of file rewrites, without any side condition on the configurations: the state is the state
   before up to the cache, the roller map and the worker list, so every later attempt has the outcome it has
   without the failures, and the same effect on everything but these three *)
Theorem run_failures_same_but_leaks h : forall step e g rs e' g',
  wf g -> run step h (e, g) = (rs, (e', g')) ->
  attempts_failed h rs -> same_but_leaks g g' /\ wf g' /\ e' = writes h e.
Proof.
  induction h as [|o h IH]; intros step e g rs e' g' W R AF; simpl in R.
  - injection R as <- <- <-. split; [apply same_but_leaks_refl|]. split; [exact W|reflexivity].
  - destruct (step_op step o (e, g)) as [x [e1 g1]] eqn:S.
    destruct (run (step + 1) h (e1, g1)) as [xs [e2 g2]] eqn:R2.
    injection R as <- <- <-.
    destruct o as [m c|f hf|sg c]; simpl in S.
    + destruct (attempt m step e c g) as [r ga] eqn:A. injection S as <- <- <-.
      simpl in AF. destruct AF as [NR AF].
      pose proof (failed_attempt_same_but_leaks _ _ _ _ _ _ _ W A NR) as SB.
      pose proof (attempt_wf _ _ _ _ _ _ _ W A) as Wa.
      destruct (IH _ _ _ _ _ _ Wa R2 AF) as (SB2 & W2 & E2).
      split; [eapply same_but_leaks_trans; eauto|]. split; [exact W2|exact E2].
    + injection S as <- <- <-. simpl in AF. simpl. eapply IH; eauto.
    + destruct (attempt_panic sg step e c g) as [r ga] eqn:A. injection S as <- <- <-.
      simpl in AF. destruct AF as [NR AF].
      destruct (contained_panic_frame _ _ _ _ _ _ _ W A) as [_ SC].
      pose proof (attempt_panic_wf _ _ _ _ _ _ _ W A) as Wa.
      destruct (IH _ _ _ _ _ _ Wa R2 AF) as (SB2 & W2 & E2).
      split; [eapply same_but_leaks_trans; [apply same_but_cache_leaks; exact SC|exact SB2]|].
      split; [exact W2|exact E2].
Qed.

Theorem valid_after_failures_without_rollers h step0 e g rs e' g' :
  wf g ->
  run step0 h (e, g) = (rs, (e', g')) -> attempts_failed h rs ->
  same_but_leaks g g' /\ e' = writes h e /\
  forall m step v r ga, attempt m step (writes h e) v g = (r, ga) ->
  exists gb, attempt m step e' v g' = (r, gb) /\ same_but_leaks ga gb.
Proof.
  intros W R AF.
  destruct (run_failures_same_but_leaks h step0 e g rs e' g' W R AF) as (SB & W' & ->).
  split; [exact SB|]. split; [reflexivity|].
  intros m step v r ga A.
  destruct W as (_ & _ & C). destruct W' as (_ & _ & C').
  destruct (attempt_ignores_leaks m step (writes h e) v g g' r ga C C' SB A) as (gb & A' & SB' & _).
  exists gb. split; assumption.
Qed.

(* ------------------------------------------------------------------ health-check workers: the former witnesses *)
(* what the repair of F-C08-5 achieves (nothing is started while directives are parsed, by a validation, or by a
   configuration that a directive rejects) ... *)
Lemma health_checkers_witness :
  (exists g', attempt Validate 1 [] (mkcfg 1 [EProxy; EBad] [AEph 1]) g0 = (RErr, g') /\ g_probers g' = []) /\
  (exists g', attempt Validate 1 [] (mkcfg 1 [EProxy] [AEph 1]) g0 = (ROk, g') /\ g_probers g' = []) /\
  (exists g', attempt Load 1 [] (mkcfg 1 [EProxy; EBad] [AEph 1; ABusy]) g0 = (RErr, g') /\ g_probers g' = []) /\
  (exists g', attempt Load 1 [] (mkcfg 1 [ELog 1 1 false; EProxy] [AEph 1]) g0 = (RErr, g') /\ g_probers g' = []) /\
  (exists g1 g2, attempt Load 1 [] (mkcfg 1 [EProxy] [AEph 1]) g0 = (ROk, g1) /\ g_probers g1 = [1] /\
                 attempt Reload 2 [] (mkcfg 2 [EProxy; EBad] [AEph 1]) g1 = (RErr, g2) /\ g_probers g2 = [1]) /\
  (exists g1 g2, attempt Load 1 [] (mkcfg 1 [EProxy] [AEph 1]) g0 = (ROk, g1) /\ g_probers g1 = [1] /\
                 attempt Sigusr1 2 [] (mkcfg 2 [EProxy; EBad] [AEph 1]) g1 = (RErr, g2) /\ g_probers g2 = [1]) /\
  (* and a reload that succeeds stops the workers of the instance it replaces *)
  (exists g1 g2, attempt Load 1 [] (mkcfg 1 [EProxy] [AEph 1]) g0 = (ROk, g1) /\
                 attempt Reload 2 [] (mkcfg 2 [EProxy] [AEph 1]) g1 = (ROk, g2) /\ g_probers g2 = [2]).
Proof.
  repeat split; try (eexists; vm_compute; split; reflexivity);
    eexists; eexists; vm_compute; repeat split; reflexivity.
Qed.

(* ... and what is left (F-C08-5f): a listener that fails to bind AFTER the startup callbacks ran leaves the
   workers of the rejected configuration running - nothing runs the shutdown callbacks of a discarded instance *)
Lemma health_checkers_refuted :
  (exists g', attempt Load 1 [] (mkcfg 1 [EProxy] [ABusy]) g0 = (RErr, g') /\ g_probers g' = [1]) /\
  (exists g1 g2, attempt Load 1 [] (mkcfg 1 [EProxy] [AEph 1]) g0 = (ROk, g1) /\ g_probers g1 = [1] /\
                 attempt Reload 2 [] (mkcfg 2 [EProxy] [AEph 1; ABusy]) g1 = (RErr, g2) /\ g_probers g2 = [1; 2]) /\
  (exists g1 g2, attempt Load 1 [] (mkcfg 1 [EProxy] [AEph 1]) g0 = (ROk, g1) /\
                 attempt Sigusr1 2 [] (mkcfg 2 [EProxy] [AEph 1; ABusy]) g1 = (RErr, g2) /\ g_probers g2 = [1; 2]).
Proof.
  repeat split; try (eexists; vm_compute; split; reflexivity);
    eexists; eexists; vm_compute; repeat split; reflexivity.
Qed.

(* the former witnesses of the contained panic: nothing is left behind *)
Lemma contained_panic_witness :
  exists g1 g2 g3,
    attempt Load 1 [] (mkcfg 1 [EOn 1] [AEph 1]) g0 = (ROk, g1) /\ g_hooks g1 = [1] /\ length (g_insts g1) = 1%nat /\
    attempt_panic false 2 [] (mkcfg 2 [EOn 1] [AEph 1]) g1 = (RErr, g2) /\
    g_hooks g2 = [1] /\ length (g_insts g2) = 1%nat /\
    attempt_panic true 3 [] (mkcfg 3 [EOn 1] [AEph 1]) g1 = (RErr, g3) /\
    g_hooks g3 = [1] /\ length (g_insts g3) = 1%nat.
Proof. do 3 eexists. vm_compute. repeat split; reflexivity. Qed.

(* ------------------------------------------------------------------ the steps AFTER a refused attempt
   A reload (API or SIGUSR1) of a valid configuration restarts instances[0] and succeeds; the list afterwards is
   the rest of the list followed by the new instance. *)
Lemma valid_restart_succeeds m step e c g old rest :
  needs_instance m = true ->
  g_htlock g = false -> cache_ok g -> g_insts g = old :: rest -> cfg_valid e c = true ->
  exists g' ni, attempt m step e c g = (ROk, g') /\ g_insts g' = rest ++ [ni] /\ i_cfg ni = c_id c.
Proof.
  intros NI L CK GI V. destruct m; try discriminate NI; simpl.
  - destruct (valid_reload_succeeds step e c g old rest L CK GI V) as (g' & ni & R & I & C & _).
    exists g', ni. auto.
  - rewrite do_sigusr1_unfold, GI.
    assert (CK' : cache_ok (set_hooks g [])) by exact CK.
    destruct (valid_reload_succeeds step e c (set_hooks g []) old rest L CK' GI V) as (g' & ni & R & I & C & _).
    cbv zeta. rewrite R. exists g', ni. auto.
Qed.

(* after ANY refused attempt (every mode, every kind of failure at every stage - a failing startup callback
   included) on a process with one running site: the next reload of a valid configuration succeeds and the
   instance list is exactly the new instance; and the reload after that succeeds again and the list is exactly
   ITS instance - the instance that is restarted is never one that a failed start left behind *)
Theorem two_reloads_after_a_refused_attempt m step e c g r g1 old m1 s1 c1 m2 s2 c2 :
  wf g -> g_htlock g = false -> g_insts g = [old] ->
  attempt m step e c g = (r, g1) -> r <> ROk ->
  needs_instance m1 = true -> needs_instance m2 = true ->
  cfg_valid e c1 = true -> cfg_valid e c2 = true ->
  g_insts g1 = [old] /\
  exists g2 n1 g3 n2,
    attempt m1 s1 e c1 g1 = (ROk, g2) /\ g_insts g2 = [n1] /\ i_cfg n1 = c_id c1 /\
    attempt m2 s2 e c2 g2 = (ROk, g3) /\ g_insts g3 = [n2] /\ i_cfg n2 = c_id c2.
Proof.
  intros W L GI A NR N1 N2 V1 V2.
  destruct (failed_attempt_loses_nothing _ _ _ _ _ _ _ W A NR) as (I1 & L1 & _).
  rewrite GI in I1. rewrite L in L1. split; [exact I1|].
  pose proof (attempt_wf _ _ _ _ _ _ _ W A) as W1.
  destruct W1 as (Wa & Wb & CK1).
  destruct (valid_restart_succeeds m1 s1 e c1 g1 old [] N1 L1 CK1 I1 V1) as (g2 & n1 & A1 & I2 & C1).
  pose proof (attempt_wf _ _ _ _ _ _ _ (conj Wa (conj Wb CK1)) A1) as (_ & _ & CK2).
  pose proof (attempt_lock _ _ _ _ _ _ _ A1) as L2. rewrite L1 in L2.
  simpl in I2.
  destruct (valid_restart_succeeds m2 s2 e c2 g2 n1 [] N2 L2 CK2 I2 V2) as (g3 & n2 & A2 & I3 & C2).
  exists g2, n1, g3, n2. simpl in I3. auto 10.
Qed.

Lemma two_reloads_witness :
  exists g1 g2,
    attempt Load 1 [] (mkcfg 1 [] [AEph 1]) g0 = (ROk, g1) /\ wf g1 /\ g_htlock g1 = false /\
    (exists old, g_insts g1 = [old]) /\
    attempt Sigusr1 2 [] (mkcfg 2 [ELog 1 50 true; ELog 3 7 false] [AEph 1]) g1 = (RErr, g2) /\
    cfg_valid [] (mkcfg 3 [] [AEph 1]) = true /\ cfg_valid [] (mkcfg 4 [EOn 1] [AEph 1]) = true.
Proof.
  eexists. eexists. split; [vm_compute; reflexivity|]. split.
  - eapply (run_wf [OAttempt Load (mkcfg 1 [] [AEph 1])] 1 [] g0 _ _ _ wf_g0). vm_compute. reflexivity.
  - split; [reflexivity|]. split; [eexists; reflexivity|]. split; [vm_compute; reflexivity|]. split; reflexivity.
Qed.

(* ---------------------------------------------------------------- a rejected htpasswd file stays rejected *)
(* GetHtpasswdMatcher asked twice with the file untouched answers twice the same; a file with a damaged line is
   rejected and leaves the table exactly as it was (nothing of it is stored, not even the entries in front of
   the damaged line) *)
Lemma rejected_htpasswd_stays_rejected e g f u r g' o :
  g_htlock g = false -> cache_ok g -> get_matcher e g f u = (r, g', o) ->
  (exists g'', get_matcher e g' f u = (r, g'', o) /\ cache_ok g'') /\
  (h_present (env_get e f) = true -> h_bad (env_get e f) = true ->
   r = RErr /\ o = None /\ g_htcache g' = g_htcache g /\ g_htlock g' = false).
Proof.
  intros L C H.
  destruct (matcher_answers_from_the_file e g f u r g' o L C H) as (A & SB & C1).
  split.
  - destruct (get_matcher e g' f u) as [[r2 g2] o2] eqn:H2.
    assert (L1 : g_htlock g' = false) by (destruct SB as (_ & _ & X & _); rewrite X; exact L).
    destruct (matcher_answers_from_the_file e g' f u r2 g2 o2 L1 C1 H2) as (A2 & _ & C2).
    rewrite <- A in A2. injection A2 as -> ->. exists g2. split; [reflexivity|exact C2].
  - intros P B. unfold get_matcher, get_matcher_gen in H. rewrite L, P in H. simpl in H.
    destruct (assoc f (g_htcache g)) as [h'|] eqn:AS.
    + destruct (htfile_eqb h' (env_get e f)) eqn:E.
      * apply htfile_eqb_eq in E. subst h'. destruct (C _ _ AS) as [_ B']. rewrite B in B'. discriminate.
      * rewrite B in H. injection H as <- <- <-. auto.
    + rewrite B in H. injection H as <- <- <-. auto.
Qed.

(* after a rejected attempt every attempt (any mode, any configuration - the SAME one in particular - with the
   files untouched) has exactly the outcome it has without the rejected attempt *)
Lemma retry_after_rejected m step e c g r g' :
  wf g -> attempt m step e c g = (r, g') -> r <> ROk ->
  same_but_leaks g g' /\
  forall m2 step2 v r2 ga, attempt m2 step2 e v g = (r2, ga) ->
  exists gb, attempt m2 step2 e v g' = (r2, gb) /\ same_but_leaks ga gb.
Proof.
  intros W A NR.
  assert (R : run step [OAttempt m c] (e, g) = ([r], (e, g'))) by (simpl; rewrite A; reflexivity).
  assert (F : attempts_failed [OAttempt m c] [r]) by (simpl; auto).
  destruct (valid_after_failures_without_rollers [OAttempt m c] step e g [r] e g' W R F) as (SB & _ & K).
  split; [exact SB|]. intros m2 step2 v r2 ga A2. simpl in K. exact (K m2 step2 v r2 ga A2).
Qed.

(* the variant that stores the table entry before it parses the file is the same function on every file
   without a damaged line ... *)
Lemma early_cache_same_on_wellformed e g f u :
  h_bad (env_get e f) = false -> get_matcher_early e g f u = get_matcher e g f u.
Proof.
  intros B. unfold get_matcher_early, get_matcher, get_matcher_gen, parse_ht. simpl negb.
  destruct (g_htlock g); [reflexivity|].
  destruct (negb (h_present (env_get e f))); [reflexivity|].
  destruct (assoc f (g_htcache g)) as [h'|].
  - destruct (htfile_eqb h' (env_get e f)); [reflexivity|]. rewrite B. reflexivity.
  - rewrite B. reflexivity.
Qed.

Definition ht_damaged (before after : list (N * N)) : htfile :=
  {| h_present := true; h_users := before; h_bad := true; h_after := after |}.

(* ... and on a file with a damaged line it remembers the rejected file: the second attempt on the untouched file
   is ACCEPTED for a user in front of the damaged line (and knows nobody behind it), in a state no history of the
   real function reaches *)
Lemma early_cache_refuted :
  exists e f u u2 g1,
    eff_valid e (EAuth f u) = false /\
    get_matcher_early e g0 f u = (RErr, g1, None) /\
    get_matcher_early e g1 f u = (ROk, g1, Some 1) /\
    get_matcher_early e g1 f u2 = (RErr, g1, None) /\ assoc u2 (h_after (env_get e f)) = Some 1 /\
    ~ cache_ok g1 /\
    (exists g1', get_matcher e g0 f u = (RErr, g1', None) /\ fst (fst (get_matcher e g1' f u)) = RErr /\
                 g_htcache g1' = []).
Proof.
  exists [(2, ht_damaged [(1, 1)] [(2, 1)])], 2, 1, 2. eexists.
  split; [reflexivity|]. split; [vm_compute; reflexivity|]. split; [vm_compute; reflexivity|].
  split; [vm_compute; reflexivity|]. split; [reflexivity|]. split.
  - intros C. destruct (C 2 (ht_damaged [(1, 1)] [(2, 1)]) eq_refl) as [_ B]. discriminate.
  - eexists. split; [vm_compute; reflexivity|]. split; vm_compute; reflexivity.
Qed.

Lemma rejected_stays_rejected_witness :
  let e := [(2, ht_damaged [(1, 1)] [(2, 1)])] in
  let c := mkcfg 1 [EOn 1; EAuth 2 1] [AEph 1] in
  exists g1 g2 g3 g4,
    attempt Load 1 e c g0 = (RErr, g1) /\ attempt Load 2 e c g1 = (RErr, g2) /\
    attempt Validate 3 e c g2 = (RErr, g3) /\ g_htcache g3 = [] /\
    attempt Load 4 e (mkcfg 2 [EAuth 2 2] [AEph 1]) g3 = (RErr, g4) /\ wf g0.
Proof.
  do 4 eexists. split; [vm_compute; reflexivity|]. split; [vm_compute; reflexivity|].
  split; [vm_compute; reflexivity|]. split; [reflexivity|]. split; [vm_compute; reflexivity|exact wf_g0].
Qed.

(* ------------------------------------------------------------------ attempts that overlap in time *)
Lemma ov_remove_comm a b l : ov_remove a (ov_remove b l) = ov_remove b (ov_remove a l).
Proof.
  unfold ov_remove. induction l as [|x r IH]; [reflexivity|]. cbn [filter].
  destruct (x =? b) eqn:Eb, (x =? a) eqn:Ea; cbn [negb filter]; rewrite ?Eb, ?Ea; cbn [negb]; rewrite ?IH; reflexivity.
Qed.

Lemma ov_mem_remove t b l : t <> b -> ov_mem t (ov_remove b l) = ov_mem t l.
Proof.
  intro H. unfold ov_mem, ov_remove. induction l as [|x r IH]; [reflexivity|]. cbn [filter existsb].
  destruct (x =? b) eqn:Eb; cbn [negb existsb].
  - apply N.eqb_eq in Eb. subst x. rewrite IH.
    destruct (t =? b) eqn:E; [apply N.eqb_eq in E; contradiction|reflexivity].
  - rewrite IH. reflexivity.
Qed.

Lemma ov_remove_snoc b l id : id <> b -> ov_remove b (l ++ [id]) = ov_remove b l ++ [id].
Proof.
  intro H. unfold ov_remove. rewrite filter_app. cbn [filter].
  destruct (id =? b) eqn:E; [apply N.eqb_eq in E; contradiction|reflexivity].
Qed.

Lemma ov_remove_fresh b l : ~ In b l -> ov_remove b l = l.
Proof.
  unfold ov_remove. induction l as [|x r IH]; intro H; [reflexivity|]. cbn [filter].
  destruct (x =? b) eqn:E.
  - apply N.eqb_eq in E. subst x. exfalso. apply H. left. reflexivity.
  - cbn [negb]. rewrite IH; [reflexivity|]. intro Hin. apply H. right. exact Hin.
Qed.

Lemma ov_remove_begin b l : ~ In b l -> ov_remove b (ov_begin l b) = l.
Proof.
  intro H. unfold ov_begin, ov_remove. rewrite filter_app. cbn [filter]. rewrite N.eqb_refl. cbn [negb].
  rewrite app_nil_r. exact (ov_remove_fresh b l H).
Qed.

(* an attempt that does not mention B's marker does to the list with B's entry what it does to the list without *)
Lemma ov_step_commutes b l o : ~ In b (ov_names o) ->
  ov_remove b (ov_step l o) = ov_step (ov_remove b l) o.
Proof.
  destruct o as [op res]. unfold ov_names. cbn [fst]. intro H.
  destruct op as [id|t id|t id|t]; destruct res as [|p]; cbn [ov_step]; try reflexivity.
  - apply ov_remove_snoc. intro E. apply H. left. exact E.
  - assert (Ht : t <> b) by (intro E; apply H; left; exact E).
    assert (Hi : id <> b) by (intro E; apply H; right; left; exact E).
    rewrite (ov_mem_remove t b l Ht). destruct (ov_mem t l); [|reflexivity].
    rewrite ov_remove_comm, (ov_remove_snoc b l id Hi). reflexivity.
  - assert (Ht : t <> b) by (intro E; apply H; left; exact E).
    assert (Hi : id <> b) by (intro E; apply H; right; left; exact E).
    rewrite (ov_mem_remove t b l Ht). destruct (ov_mem t l); [|reflexivity].
    rewrite ov_remove_comm, (ov_remove_snoc b l id Hi). reflexivity.
  - apply ov_remove_comm.
Qed.

Lemma ov_steps_commute b : forall os l, (forall o, In o os -> ~ In b (ov_names o)) ->
  ov_remove b (ov_steps l os) = ov_steps (ov_remove b l) os.
Proof.
  induction os as [|o r IH]; intros l H; [reflexivity|].
  unfold ov_steps in *. cbn [fold_left]. rewrite IH.
  - rewrite ov_step_commutes; [reflexivity|]. apply H. left. reflexivity.
  - intros o' Hin. apply H. right. exact Hin.
Qed.

(* FRAME for overlapping attempts: whatever attempts complete while B is held - loads, reloads that shift the list
   in front of B's entry, refused reloads, stops - when B is refused the instance list is exactly what those
   attempts alone make of it: B never happened *)
Lemma overlap_refused_is_frame l b bid inner :
  ~ In bid l -> (forall o, In o inner -> ~ In bid (ov_names o)) ->
  ov_end (ov_steps (ov_begin l bid) inner) b bid false = ov_steps l inner.
Proof.
  intros Hf Hn. unfold ov_end. rewrite (ov_steps_commute bid inner _ Hn), (ov_remove_begin bid l Hf). reflexivity.
Qed.

(* in particular every instance the inner attempts left running is still listed, and B is not *)
Lemma overlap_refused_keeps_running l b bid inner x :
  ~ In bid l -> (forall o, In o inner -> ~ In bid (ov_names o)) ->
  (In x (ov_end (ov_steps (ov_begin l bid) inner) b bid false) <-> In x (ov_steps l inner)) /\
  ~ In bid (ov_end (ov_steps (ov_begin l bid) inner) b bid false).
Proof.
  intros Hf Hn. split.
  - rewrite (overlap_refused_is_frame l b bid inner Hf Hn). reflexivity.
  - unfold ov_end, ov_remove. intro Hin. apply filter_In in Hin as [_ Hc]. rewrite N.eqb_refl in Hc. discriminate.
Qed.

(* the clean-up by remembered position: the same as the search as long as nothing moved in front of B's entry -
   every sequential history - ... *)
Lemma remove_nth_app {A} (l : list A) x r : remove_nth (length l) (l ++ x :: r) = l ++ r.
Proof. induction l as [|y l IH]; [reflexivity|]. cbn [length app remove_nth]. rewrite IH. reflexivity. Qed.

Lemma overlap_slot_same_when_sequential l bid : ~ In bid l ->
  ov_end_slot (ov_begin l bid) (length l) = ov_end (ov_begin l bid) OvBLoad bid false.
Proof.
  intro H. unfold ov_end_slot, ov_begin, ov_end. rewrite remove_nth_app, app_nil_r.
  symmetry. exact (ov_remove_begin bid l H).
Qed.

(* ... and wrong as soon as a reload of a running instance completes while B is held: [A] -> [A;B] -> [B;A'],
   position 1 is A': the RUNNING instance is dropped and the refused B stays listed *)
Lemma overlap_slot_refuted :
  exists l bid inner,
    ~ In bid l /\ (forall o, In o inner -> ~ In bid (ov_names o)) /\
    let l3 := ov_steps (ov_begin l bid) inner in
    ov_steps l inner = [3] /\ ov_end_slot l3 (length l) = [bid] /\
    ov_end l3 OvBLoad bid false = [3].
Proof.
  exists [1], 2, [(OvReload 1 3, 0)]. split; [|split].
  - intros [E|[]]. discriminate.
  - intros o [<-|[]]. cbn. intros [E|[E|[]]]; discriminate.
  - vm_compute. repeat split; reflexivity.
Qed.

(* the event-hook registry along an overlap case *)
Lemma ov_hooks_none_registered : forall (os : list (ovop * N * N)) h,
  (forall o, In o os -> snd o = 0) -> ov_hooks_steps h os = h.
Proof.
  induction os as [|o r IH]; intros h H; [reflexivity|].
  unfold ov_hooks_steps in *. cbn [fold_left].
  assert (Ho : ov_hooks_step h o = h).
  { pose proof (H o (or_introl eq_refl)) as E. destruct o as [[op res] n]. cbn [snd] in E. subst n.
    destruct op, res; cbn [ov_hooks_step]; try reflexivity; apply N.add_0_r. }
  rewrite Ho. apply IH. intros o' Hin. apply H. right. exact Hin.
Qed.

(* a refused B keeps the registered hooks as they were when no attempt completing meanwhile registers one ... *)
Lemma overlap_hooks_partial h inner :
  (forall o, In o inner -> snd o = 0) ->
  ov_hooks_end h (ov_hooks_steps h inner) false = ov_hooks_steps h inner.
Proof. intro H. unfold ov_hooks_end. rewrite (ov_hooks_none_registered inner h H). reflexivity. Qed.

(* ... and loses the hooks of a load that completed while B was held otherwise: B puts back the copy of the
   registry it took when it began *)
Lemma overlap_hooks_refuted :
  exists h inner, ov_hooks_steps h inner = 3 /\ ov_hooks_end h (ov_hooks_steps h inner) false = 1.
Proof. exists 1, [(OvReload 1 3, 0, 2)]. vm_compute. split; reflexivity. Qed.
