(* C08 — proofs about the model of C08_Model.v. *)
Require Import V.Lib V.C08_Model.
Open Scope N_scope.

(* ------------------------------------------------------------------ records and setters *)
Lemma gstate_eq (a b : gstate) :
  g_insts a = g_insts b -> g_hooks a = g_hooks b -> g_htcache a = g_htcache b ->
  g_htlock a = g_htlock b -> g_rollers a = g_rollers b -> g_socks a = g_socks b ->
  g_next a = g_next b -> a = b.
Proof.
  destruct a, b; simpl; intros H1 H2 H3 H4 H5 H6 H7.
  rewrite H1, H2, H3, H4, H5, H6, H7. reflexivity.
Qed.

(* g' differs from g at most in the registries that directive set-up writes to *)
Record ext (step : N) (g g' : gstate) : Prop := {
  x_insts : g_insts g' = g_insts g;
  x_socks : g_socks g' = g_socks g;
  x_next : g_next g' = g_next g;
  x_rollers : g_rollers g' = g_rollers g;
  x_lock : g_htlock g' = g_htlock g;
  x_hooks : exists k, g_hooks g' = g_hooks g ++ repeat step k;
  x_cache : forall f x, assoc f (g_htcache g) = Some x -> assoc f (g_htcache g') = Some x
}.

Lemma ext_refl step g : ext step g g.
Proof.
  constructor; try reflexivity.
  - exists O. simpl. symmetry. apply app_nil_r.
  - auto.
Qed.

Lemma ext_trans step a b c : ext step a b -> ext step b c -> ext step a c.
Proof.
  intros [A1 A2 A3 A4 A5 [ka A6] A7] [B1 B2 B3 B4 B5 [kb B6] B7].
  constructor; try congruence.
  - exists (ka + kb)%nat. rewrite B6, A6, <- app_assoc, repeat_app. reflexivity.
  - auto.
Qed.

(* ------------------------------------------------------------------ GetHtpasswdMatcher *)
Lemma get_matcher_ext step e g f u r g' o :
  get_matcher e g f u = (r, g', o) -> ext step g g'.
Proof.
  unfold get_matcher, get_matcher_gen. intros H.
  destruct (g_htlock g) eqn:L.
  { injection H as <- <- <-. apply ext_refl. }
  destruct (assoc f (g_htcache g)) as [users|] eqn:C.
  { destruct (assoc u users); injection H as <- <- <-; apply ext_refl. }
  assert (Hfail : ext step g (set_htlock g (negb true))).
  { constructor; simpl; try reflexivity.
    - symmetry; exact L.
    - exists O. simpl. symmetry. apply app_nil_r.
    - auto. }
  destruct (negb (h_present (env_get e f))).
  { injection H as <- <- <-. exact Hfail. }
  destruct (h_bad (env_get e f)).
  { injection H as <- <- <-. exact Hfail. }
  assert (Hins : ext step g (set_htcache g ((f, h_users (env_get e f)) :: g_htcache g))).
  { constructor; simpl; try reflexivity.
    - exists O. simpl. symmetry. apply app_nil_r.
    - intros f' x Hx. destruct (f' =? f) eqn:E; [|exact Hx].
      apply N.eqb_eq in E. subst f'. rewrite C in Hx. discriminate. }
  destruct (assoc u (h_users (env_get e f))); injection H as <- <- <-; exact Hins.
Qed.

Lemma get_matcher_no_hang e g f u r g' o :
  g_htlock g = false -> get_matcher e g f u = (r, g', o) -> r <> RHang.
Proof.
  unfold get_matcher, get_matcher_gen. intros L H. rewrite L in H.
  destruct (assoc f (g_htcache g)) as [users|].
  { destruct (assoc u users); injection H as <- <- <-; discriminate. }
  destruct (negb (h_present (env_get e f))); [injection H as <- <- <-; discriminate|].
  destruct (h_bad (env_get e f)); [injection H as <- <- <-; discriminate|].
  destruct (assoc u (h_users (env_get e f))); injection H as <- <- <-; discriminate.
Qed.

Lemma get_matcher_ok_some e g f u g' o :
  get_matcher e g f u = (ROk, g', o) -> exists pw, o = Some pw.
Proof.
  unfold get_matcher, get_matcher_gen. intros H.
  destruct (g_htlock g); [discriminate|].
  destruct (assoc f (g_htcache g)) as [users|].
  { destruct (assoc u users) eqn:E; [|discriminate]. injection H as <- <-. eauto. }
  destruct (negb (h_present (env_get e f))); [discriminate|].
  destruct (h_bad (env_get e f)); [discriminate|].
  destruct (assoc u (h_users (env_get e f))); [|discriminate]. injection H as <- <-. eauto.
Qed.

(* ------------------------------------------------------------------ executeDirectives *)
Lemma exec_effs_ext step e effs : forall g l r g' l',
  exec_effs step e effs g l = (r, g', l') -> ext step g g'.
Proof.
  induction effs as [|x effs IH]; intros g l r g' l' H; simpl in H.
  - injection H as <- <- <-. apply ext_refl.
  - destruct x as [|n|f size ok|f u].
    + injection H as <- <- <-. apply ext_refl.
    + apply IH in H. eapply ext_trans; [|exact H].
      constructor; simpl; try reflexivity; auto. exists n. reflexivity.
    + apply IH in H. exact H.
    + destruct (get_matcher e g f u) as [[r1 g1] o1] eqn:M.
      pose proof (get_matcher_ext step _ _ _ _ _ _ _ M) as X.
      destruct r1.
      * destruct o1 as [pw|].
        -- apply IH in H. eapply ext_trans; eauto.
        -- injection H as <- <- <-. exact X.
      * injection H as <- <- <-. exact X.
      * injection H as <- <- <-. exact X.
Qed.

Lemma exec_effs_no_hang step e effs : forall g l r g' l',
  g_htlock g = false -> exec_effs step e effs g l = (r, g', l') -> r <> RHang.
Proof.
  induction effs as [|x effs IH]; intros g l r g' l' L H; simpl in H.
  - injection H as <- <- <-. discriminate.
  - destruct x as [|n|f size ok|f u].
    + injection H as <- <- <-. discriminate.
    + eapply IH; [|exact H]. exact L.
    + eapply IH; [|exact H]. exact L.
    + destruct (get_matcher e g f u) as [[r1 g1] o1] eqn:M.
      pose proof (get_matcher_no_hang _ _ _ _ _ _ _ L M) as NH.
      pose proof (get_matcher_ext step _ _ _ _ _ _ _ M) as X.
      destruct r1.
      * destruct o1 as [pw|].
        -- eapply IH; [|exact H]. rewrite (x_lock _ _ _ X). exact L.
        -- injection H as <- <- <-. discriminate.
      * injection H as <- <- <-. discriminate.
      * congruence.
Qed.


Lemma exec_effs_hooks_same step e effs : forall g l r g' l',
  no_on effs = true -> exec_effs step e effs g l = (r, g', l') -> g_hooks g' = g_hooks g.
Proof.
  induction effs as [|x effs IH]; intros g l r g' l' N H; simpl in H.
  - injection H as <- <- <-. reflexivity.
  - simpl in N. apply andb_true_iff in N as [N1 N2].
    destruct x as [|n|f size ok|f u].
    + injection H as <- <- <-. reflexivity.
    + destruct n; [|discriminate]. apply IH in H; [|exact N2]. rewrite H. simpl. apply app_nil_r.
    + apply IH in H; [|exact N2]. exact H.
    + destruct (get_matcher e g f u) as [[r1 g1] o1] eqn:M.
      pose proof (get_matcher_ext step _ _ _ _ _ _ _ M) as X.
      assert (HK : g_hooks g1 = g_hooks g).
      { revert M. unfold get_matcher, get_matcher_gen.
        destruct (g_htlock g); [intros M; injection M as <- <- <-; reflexivity|].
        destruct (assoc f (g_htcache g)) as [users|].
        { destruct (assoc u users); intros M; injection M as <- <- <-; reflexivity. }
        destruct (negb (h_present (env_get e f))); [intros M; injection M as <- <- <-; reflexivity|].
        destruct (h_bad (env_get e f)); [intros M; injection M as <- <- <-; reflexivity|].
        destruct (assoc u (h_users (env_get e f))); intros M; injection M as <- <- <-; reflexivity. }
      destruct r1.
      * destruct o1 as [pw|].
        -- apply IH in H; [|exact N2]. congruence.
        -- injection H as <- <- <-. exact HK.
      * injection H as <- <- <-. exact HK.
      * injection H as <- <- <-. exact HK.
Qed.

Lemma exec_effs_no_auth_same step e effs : forall g l r g' l',
  no_auth effs = true -> exec_effs step e effs g l = (r, g', l') ->
  g_htcache g' = g_htcache g /\ g_htlock g' = g_htlock g.
Proof.
  induction effs as [|x effs IH]; intros g l r g' l' N H; simpl in H.
  - injection H as <- <- <-. split; reflexivity.
  - simpl in N. apply andb_true_iff in N as [N1 N2].
    destruct x as [|n|f size ok|f u]; try discriminate.
    + injection H as <- <- <-. split; reflexivity.
    + apply IH in H; [|exact N2]. exact H.
    + apply IH in H; [|exact N2]. exact H.
Qed.

Lemma exec_effs_no_log_startups step e effs : forall g l r g' l',
  no_log effs = true -> exec_effs step e effs g l = (r, g', l') -> l_startups l' = l_startups l.
Proof.
  induction effs as [|x effs IH]; intros g l r g' l' N H; simpl in H.
  - injection H as <- <- <-. reflexivity.
  - simpl in N. apply andb_true_iff in N as [N1 N2].
    destruct x as [|n|f size ok|f u]; try discriminate.
    + injection H as <- <- <-. reflexivity.
    + apply IH in H; [|exact N2]. exact H.
    + destruct (get_matcher e g f u) as [[r1 g1] o1].
      destruct r1.
      * destruct o1 as [pw|].
        -- apply IH in H; [|exact N2]. exact H.
        -- injection H as <- <- <-. reflexivity.
      * injection H as <- <- <-. reflexivity.
      * injection H as <- <- <-. reflexivity.
Qed.

(* ------------------------------------------------------------------ ValidateAndExecuteDirectives *)
Lemma ext_set_hooks_back step g g1 : ext step g g1 -> ext step g (set_hooks g1 (g_hooks g)).
Proof.
  intros [A1 A2 A3 A4 A5 A6 A7]. constructor; simpl; auto.
  exists O. simpl. symmetry. apply app_nil_r.
Qed.

Lemma do_validate_ext step e c g r g' :
  do_validate step e c g = (r, g') ->
  ext step g g' /\ (r <> ROk -> g_hooks g' = g_hooks g) /\ (g_htlock g = false -> r <> RHang) /\
  (no_auth (c_effs c) = true -> g_htcache g' = g_htcache g).
Proof.
  unfold do_validate. intros H.
  destruct (negb (parse_ok c)).
  { injection H as <- <-. split; [apply ext_refl|]. split; [reflexivity|]. split; [discriminate|reflexivity]. }
  destruct (exec_effs step e (c_effs c) g l0) as [[r1 g1] l] eqn:E1.
  pose proof (exec_effs_ext _ _ _ _ _ _ _ _ E1) as X.
  assert (NH : g_htlock g = false -> r1 <> RHang) by (intros L; eapply exec_effs_no_hang; eauto).
  assert (NA : no_auth (c_effs c) = true -> g_htcache g1 = g_htcache g)
    by (intros A; exact (proj1 (exec_effs_no_auth_same _ _ _ _ _ _ _ _ A E1))).
  destruct r1; injection H as <- <-.
  - split; [exact X|]. split; [congruence|]. split; assumption.
  - split; [apply ext_set_hooks_back; exact X|]. split; [reflexivity|]. split; assumption.
  - split; [apply ext_set_hooks_back; exact X|]. split; [reflexivity|]. split; assumption.
Qed.

(* ------------------------------------------------------------------ startup callbacks *)
(* g' differs from g at most by additional rollers *)
Record rext (g g' : gstate) : Prop := {
  r_insts : g_insts g' = g_insts g;
  r_hooks : g_hooks g' = g_hooks g;
  r_cache : g_htcache g' = g_htcache g;
  r_lock : g_htlock g' = g_htlock g;
  r_socks : g_socks g' = g_socks g;
  r_next : g_next g' = g_next g;
  r_rollers : forall f x, assoc f (g_rollers g) = Some x -> assoc f (g_rollers g') = Some x
}.

Lemma rext_refl g : rext g g.
Proof. constructor; auto. Qed.

Lemma add_roller_rext g f size : rext g (add_roller g f size).
Proof.
  unfold add_roller. destruct (assoc f (g_rollers g)) eqn:A; [apply rext_refl|].
  constructor; simpl; try reflexivity.
  intros f' x Hx. destruct (f' =? f) eqn:E; [|exact Hx].
  apply N.eqb_eq in E. subst f'. congruence.
Qed.

Lemma run_startups_rext cbs : forall g r g', run_startups cbs g = (r, g') -> rext g g' /\ r <> RHang.
Proof.
  induction cbs as [|[[f size] ok] cbs IH]; intros g r g' H; simpl in H.
  - injection H as <- <-. split; [apply rext_refl|discriminate].
  - destruct ok.
    + apply IH in H as [H NH]. split; [|exact NH].
      pose proof (add_roller_rext g f size) as A.
      destruct A, H. constructor; try congruence. auto.
    + injection H as <- <-. split; [apply rext_refl|discriminate].
Qed.

Lemma run_startups_nil_same g r g' : run_startups [] g = (r, g') -> g' = g /\ r = ROk.
Proof. simpl. intros H. injection H as <- <-. split; reflexivity. Qed.

(* ------------------------------------------------------------------ startServers *)

Lemma socks_le_refl a : socks_le a a.
Proof. intros s Hs. exists s. repeat split; auto. Qed.

Lemma socks_le_trans a b c : socks_le a b -> socks_le b c -> socks_le a c.
Proof.
  intros AB BC s Hs. destruct (AB s Hs) as (s1 & I1 & E1 & A1 & F1).
  destruct (BC s1 I1) as (s2 & I2 & E2 & A2 & F2).
  exists s2. repeat split; try congruence. lia.
Qed.

(* what startServers may touch: the socket table only *)
Record sext (g g' : gstate) : Prop := {
  s_insts : g_insts g' = g_insts g;
  s_hooks : g_hooks g' = g_hooks g;
  s_cache : g_htcache g' = g_htcache g;
  s_lock : g_htlock g' = g_htlock g;
  s_rollers : g_rollers g' = g_rollers g
}.

Lemma sext_refl g : sext g g.
Proof. constructor; auto. Qed.

Lemma sext_trans a b c : sext a b -> sext b c -> sext a c.
Proof.
  intros [A1 A2 A3 A4 A5] [B1 B2 B3 B4 B5]. constructor; congruence.
Qed.

Lemma dup_fd_le g sid : socks_le (g_socks g) (g_socks (dup_fd g sid)).
Proof.
  simpl. intros s Hs.
  exists (if s_id s =? sid then {| s_id := s_id s; s_addr := s_addr s; s_fds := S (s_fds s) |} else s).
  split.
  - apply (in_map (fun s => if s_id s =? sid then {| s_id := s_id s; s_addr := s_addr s; s_fds := S (s_fds s) |} else s)) in Hs.
    exact Hs.
  - destruct (s_id s =? sid); simpl; repeat split; lia.
Qed.

Lemma new_sock_le g a : socks_le (g_socks g) (g_socks (new_sock g a)).
Proof.
  simpl. intros s Hs. exists s. repeat split; auto. apply in_or_app. left. exact Hs.
Qed.

Lemma start_servers_sext old addrs : forall g acc r g' srv,
  start_servers old addrs g acc = (r, g', srv) -> sext g g' /\ r <> RHang.
Proof.
  induction addrs as [|a addrs IH]; intros g acc r g' srv H; simpl in H.
  - injection H as <- <- <-. split; [apply sext_refl|discriminate].
  - destruct (inherited a old) as [sid|].
    + apply IH in H as [H NH]. split; [|exact NH].
      eapply sext_trans; [|exact H]. constructor; reflexivity.
    + destruct a as [n|].
      * apply IH in H as [H NH]. split; [|exact NH].
        eapply sext_trans; [|exact H]. constructor; reflexivity.
      * injection H as <- <- <-. split; [constructor; reflexivity|discriminate].
Qed.

Lemma start_servers_no_busy old addrs : forall g acc r g' srv,
  existsb is_busy addrs = false -> start_servers old addrs g acc = (r, g', srv) -> r = ROk.
Proof.
  induction addrs as [|a addrs IH]; intros g acc r g' srv NB H; simpl in H.
  - injection H as <- <- <-. reflexivity.
  - simpl in NB. apply orb_false_iff in NB as [NB1 NB2].
    destruct (inherited a old) as [sid|].
    + eapply IH; eauto.
    + destruct a as [n|]; [eapply IH; eauto|discriminate].
Qed.

(* --- closing what was opened gives the socket table back (in a well-formed table) --- *)
Definition closed_again (acc : list (addr * N)) (socks : list sock) : list sock :=
  fold_right (fun p socks => close_fd socks (snd p)) socks acc.

Definition table_ok (socks : list sock) (next : N) : Prop :=
  forall s, In s socks -> (1 <= s_fds s)%nat /\ s_id s < next.

Lemma close_fd_dup socks sid next :
  table_ok socks next ->
  close_fd (map (fun s => if s_id s =? sid then {| s_id := s_id s; s_addr := s_addr s; s_fds := S (s_fds s) |} else s) socks) sid = socks.
Proof.
  induction socks as [|s socks IH]; intros T; [reflexivity|].
  assert (Hs : (1 <= s_fds s)%nat) by (apply T; left; reflexivity).
  assert (IH' := IH (fun x Hx => T x (or_intror Hx))).
  unfold close_fd in *. cbn [map].
  destruct (s_id s =? sid) eqn:E; cbn [s_id s_fds s_addr].
  - rewrite E. cbn [filter s_fds pred Nat.eqb negb]. destruct s as [i a f]. cbn [s_id s_addr s_fds] in *.
    destruct f as [|f]; [lia|]. cbn [Nat.eqb negb]. f_equal. exact IH'.
  - rewrite E. cbn [filter]. destruct (s_fds s) as [|f] eqn:F; [lia|]. cbn [Nat.eqb negb]. f_equal. exact IH'.
Qed.

Lemma close_fd_new socks next a :
  table_ok socks next ->
  close_fd (socks ++ [{| s_id := next; s_addr := a; s_fds := 1 |}]) next = socks.
Proof.
  induction socks as [|s socks IH]; intros T.
  - unfold close_fd. cbn [app map s_id]. rewrite N.eqb_refl. reflexivity.
  - assert (Hs : (1 <= s_fds s)%nat /\ s_id s < next) by (apply T; left; reflexivity).
    assert (IH' := IH (fun x Hx => T x (or_intror Hx))).
    unfold close_fd in *. cbn [app map].
    destruct (s_id s =? next) eqn:E; [apply N.eqb_eq in E; lia|].
    cbn [filter]. destruct (s_fds s) as [|f] eqn:F; [lia|]. cbn [Nat.eqb negb]. f_equal. exact IH'.
Qed.

Lemma close_fd_ok socks sid next : table_ok socks next -> table_ok (close_fd socks sid) next.
Proof.
  intros T s Hs. unfold close_fd in Hs. apply filter_In in Hs as [Hs NZ].
  apply in_map_iff in Hs as (s0 & E & Hs0). destruct (T s0 Hs0) as [F I].
  destruct (s_id s0 =? sid); subst s; simpl in *.
  - split; [|exact I]. destruct (s_fds s0) as [|[|f]]; simpl in *; try discriminate; lia.
  - split; assumption.
Qed.

Lemma closed_again_ok acc socks next : table_ok socks next -> table_ok (closed_again acc socks) next.
Proof.
  induction acc as [|p acc IH]; intros T; simpl; [exact T|]. apply close_fd_ok. apply IH. exact T.
Qed.

Lemma table_ok_mono socks n m : n <= m -> table_ok socks n -> table_ok socks m.
Proof. intros L T s Hs. destruct (T s Hs). split; [assumption|lia]. Qed.

Lemma dup_fd_ok g sid : socks_ok g -> socks_ok (dup_fd g sid).
Proof.
  intros T s Hs. simpl in Hs. apply in_map_iff in Hs as (s0 & E & Hs0). destruct (T s0 Hs0) as [F I].
  simpl. destruct (s_id s0 =? sid); subst s; simpl; split; auto.
Qed.

Lemma new_sock_ok g a : socks_ok g -> socks_ok (new_sock g a).
Proof.
  intros T s Hs. simpl in Hs. apply in_app_or in Hs as [Hs|[Hs|[]]]; simpl.
  - destruct (T s Hs). split; [assumption|lia].
  - subst s. simpl. split; [auto|lia].
Qed.

Lemma closed_again_app acc p socks :
  closed_again (acc ++ [p]) socks = closed_again acc (close_fd socks (snd p)).
Proof. unfold closed_again. rewrite fold_right_app. reflexivity. Qed.

(* a failing startServers leaves the socket table as it found it; a succeeding one closes nothing *)
Lemma start_servers_socks old addrs : forall g acc r g' srv,
  socks_ok g -> start_servers old addrs g acc = (r, g', srv) ->
  socks_ok g' /\ g_next g <= g_next g' /\
  (r = ROk -> socks_le (g_socks g) (g_socks g')) /\
  (r <> ROk -> g_socks g' = closed_again acc (g_socks g)).
Proof.
  induction addrs as [|a addrs IH]; intros g acc r g' srv T H; simpl in H.
  - injection H as <- <- <-. split; [exact T|]. split; [lia|]. split; [intros _; apply socks_le_refl|congruence].
  - destruct (inherited a old) as [sid|].
    + destruct (IH _ _ _ _ _ (dup_fd_ok g sid T) H) as (T' & N' & OK & KO).
      split; [exact T'|]. split; [exact N'|]. split.
      * intros E. eapply socks_le_trans; [apply dup_fd_le|apply OK; exact E].
      * intros E. rewrite (KO E), closed_again_app. simpl.
        rewrite (close_fd_dup _ _ _ T). reflexivity.
    + destruct a as [n|].
      * destruct (IH _ _ _ _ _ (new_sock_ok g (AEph n) T) H) as (T' & N' & OK & KO).
        simpl in N'. split; [exact T'|]. split; [lia|]. split.
        -- intros E. eapply socks_le_trans; [apply new_sock_le|apply OK; exact E].
        -- intros E. rewrite (KO E), closed_again_app. simpl.
           rewrite (close_fd_new _ _ _ T). reflexivity.
      * injection H as <- <- <-. split; [|split; [simpl; lia|split; [discriminate|reflexivity]]].
        intros s Hs. exact (closed_again_ok acc _ _ T s Hs).
Qed.

(* ------------------------------------------------------------------ nothing is ever lost *)
(* what ANY call of startWithListenerFds may do to the registries: they only grow, the instance list and
   the mutex are as before (the socket table is treated separately: it needs a well-formed table) *)
Record grow (step : N) (g g' : gstate) : Prop := {
  w_insts : g_insts g' = g_insts g;
  w_lock : g_htlock g' = g_htlock g;
  w_hooks : exists k, g_hooks g' = g_hooks g ++ repeat step k;
  w_cache : forall f x, assoc f (g_htcache g) = Some x -> assoc f (g_htcache g') = Some x;
  w_rollers : forall f x, assoc f (g_rollers g) = Some x -> assoc f (g_rollers g') = Some x
}.

Lemma grow_refl step g : grow step g g.
Proof.
  constructor; auto.
  exists O. simpl. symmetry. apply app_nil_r.
Qed.

Lemma grow_trans step a b c : grow step a b -> grow step b c -> grow step a c.
Proof.
  intros [A1 A2 [ka A3] A4 A5] [B1 B2 [kb B3] B4 B5]. constructor; try congruence; auto.
  exists (ka + kb)%nat. rewrite B3, A3, <- app_assoc, repeat_app. reflexivity.
Qed.

Lemma ext_grow step g g' : ext step g g' -> grow step g g'.
Proof.
  intros [A1 A2 A3 A4 A5 A6 A7]. constructor; auto.
  intros f x. rewrite A4. auto.
Qed.

Lemma rext_grow step g g' : rext g g' -> grow step g g'.
Proof.
  intros [A1 A2 A3 A4 A5 A6 A7]. constructor; auto.
  - exists O. rewrite A2. simpl. symmetry. apply app_nil_r.
  - intros f x. rewrite A3. auto.
Qed.

Lemma sext_grow step g g' : sext g g' -> grow step g g'.
Proof.
  intros [A1 A2 A3 A4 A5]. constructor; auto.
  - exists O. rewrite A2. simpl. symmetry. apply app_nil_r.
  - intros f x. rewrite A3. auto.
  - intros f x. rewrite A5. auto.
Qed.

Lemma grow_set_socks step g g' x n : grow step g g' -> grow step g (set_socks g' x n).
Proof. intros [A1 A2 A3 A4 A5]. constructor; auto. Qed.

Lemma start_body_grow step e c old g r g' oi :
  start_body step e c old g = (r, g', oi) -> grow step g g'.
Proof.
  unfold start_body. intros H.
  destruct (negb (parse_ok c)); [injection H as <- <- <-; apply grow_refl|].
  destruct (exec_effs step e (c_effs c) g l0) as [[r1 g1] l] eqn:E1.
  pose proof (ext_grow _ _ _ (exec_effs_ext _ _ _ _ _ _ _ _ E1)) as G1.
  destruct r1; try (injection H as <- <- <-; exact G1).
  destruct (run_startups (l_startups l) g1) as [r2 g2] eqn:E2.
  pose proof (rext_grow step _ _ (proj1 (run_startups_rext _ _ _ _ E2))) as G2.
  destruct r2; try (injection H as <- <- <-; eapply grow_trans; eauto).
  destruct (start_servers old (c_addrs c) g2 []) as [[r3 g3] srv] eqn:E3.
  pose proof (sext_grow step _ _ (proj1 (start_servers_sext _ _ _ _ _ _ _ E3))) as G3.
  assert (G : grow step g g3) by (eapply grow_trans; eauto; eapply grow_trans; eauto).
  destruct r3; injection H as <- <- <-; [exact G|apply grow_set_socks; exact G|apply grow_set_socks; exact G].
Qed.

Lemma start_with_grow step e c old g r g' oi :
  start_with step e c old g = (r, g', oi) -> grow step g g'.
Proof.
  unfold start_with. intros H.
  destruct (start_body step e c old g) as [[r1 g1] oi1] eqn:B.
  pose proof (start_body_grow _ _ _ _ _ _ _ _ B) as [A1 A2 A3 A4 A5].
  destruct r1; injection H as <- <- <-; constructor; simpl; auto;
    exists O; simpl; symmetry; apply app_nil_r.
Qed.

(* a failing start puts the hook registry back exactly *)
Lemma start_with_hooks step e c old g r g' oi :
  start_with step e c old g = (r, g', oi) -> r <> ROk -> g_hooks g' = g_hooks g.
Proof.
  unfold start_with. intros H NR.
  destruct (start_body step e c old g) as [[r1 g1] oi1].
  destruct r1; injection H as <- <- <-; [congruence|reflexivity|reflexivity].
Qed.

(* the socket table: a failing start gives it back as it was, a succeeding one closes nothing *)
Lemma start_body_socks step e c old g r g' oi :
  socks_ok g -> start_body step e c old g = (r, g', oi) ->
  socks_ok g' /\ (r = ROk -> socks_le (g_socks g) (g_socks g')) /\
  (r <> ROk -> g_socks g' = g_socks g /\ g_next g' = g_next g).
Proof.
  unfold start_body. intros T H.
  assert (SAME : forall ga, g_socks ga = g_socks g -> g_next ga = g_next g ->
                 socks_ok ga /\ (RErr = ROk -> socks_le (g_socks g) (g_socks ga)) /\
                 (g_socks ga = g_socks g /\ g_next ga = g_next g)).
  { intros ga S1 S2. split; [|split; [discriminate|split; assumption]].
    intros s Hs. rewrite S1 in Hs. rewrite S2. apply T. exact Hs. }
  destruct (negb (parse_ok c)).
  { injection H as <- <- <-. destruct (SAME g eq_refl eq_refl) as (A & _ & B).
    split; [exact A|]. split; [discriminate|intros _; exact B]. }
  destruct (exec_effs step e (c_effs c) g l0) as [[r1 g1] l] eqn:E1.
  pose proof (exec_effs_ext _ _ _ _ _ _ _ _ E1) as X1.
  pose proof (x_socks _ _ _ X1) as S1. pose proof (x_next _ _ _ X1) as N1.
  destruct r1;
    try (injection H as <- <- <-; destruct (SAME g1 S1 N1) as (A & _ & B);
         split; [exact A|]; split; [discriminate|intros _; exact B]).
  destruct (run_startups (l_startups l) g1) as [r2 g2] eqn:E2.
  pose proof (proj1 (run_startups_rext _ _ _ _ E2)) as X2.
  assert (S2 : g_socks g2 = g_socks g) by (rewrite (r_socks _ _ X2); exact S1).
  assert (N2 : g_next g2 = g_next g) by (rewrite (r_next _ _ X2); exact N1).
  destruct r2;
    try (injection H as <- <- <-; destruct (SAME g2 S2 N2) as (A & _ & B);
         split; [exact A|]; split; [discriminate|intros _; exact B]).
  destruct (start_servers old (c_addrs c) g2 []) as [[r3 g3] srv] eqn:E3.
  assert (T2 : socks_ok g2) by (destruct (SAME g2 S2 N2) as (A & _); exact A).
  destruct (start_servers_socks _ _ _ _ _ _ _ T2 E3) as (T3 & N3 & OK & KO).
  destruct r3; injection H as <- <- <-.
  - split; [exact T3|]. split; [intros _; rewrite <- S2; apply OK; reflexivity|congruence].
  - assert (S3 : g_socks g3 = g_socks g) by (rewrite KO; [exact S2|discriminate]).
    destruct (SAME (set_socks g3 (g_socks g3) (g_next g2)) S3 N2) as (A & _ & B).
    split; [exact A|]. split; [discriminate|intros _; exact B].
  - assert (S3 : g_socks g3 = g_socks g) by (rewrite KO; [exact S2|discriminate]).
    destruct (SAME (set_socks g3 (g_socks g3) (g_next g2)) S3 N2) as (A & _ & B).
    split; [exact A|]. split; [discriminate|intros _; exact B].
Qed.

Lemma start_with_socks step e c old g r g' oi :
  socks_ok g -> start_with step e c old g = (r, g', oi) ->
  socks_ok g' /\ (r = ROk -> socks_le (g_socks g) (g_socks g')) /\
  (r <> ROk -> g_socks g' = g_socks g /\ g_next g' = g_next g).
Proof.
  unfold start_with. intros T H.
  destruct (start_body step e c old g) as [[r1 g1] oi1] eqn:B.
  pose proof (start_body_socks _ _ _ _ _ _ _ _ T B) as S.
  destruct r1; injection H as <- <- <-; exact S.
Qed.

Lemma start_body_no_hang step e c old g r g' oi :
  g_htlock g = false -> start_body step e c old g = (r, g', oi) -> r <> RHang.
Proof.
  unfold start_body. intros L H.
  destruct (negb (parse_ok c)); [injection H as <- <- <-; discriminate|].
  destruct (exec_effs step e (c_effs c) g l0) as [[r1 g1] l] eqn:E1.
  pose proof (exec_effs_no_hang _ _ _ _ _ _ _ _ L E1) as N1.
  destruct r1; try (injection H as <- <- <-; congruence).
  destruct (run_startups (l_startups l) g1) as [r2 g2] eqn:E2.
  pose proof (proj2 (run_startups_rext _ _ _ _ E2)) as N2.
  destruct r2; try (injection H as <- <- <-; congruence).
  destruct (start_servers old (c_addrs c) g2 []) as [[r3 g3] srv] eqn:E3.
  pose proof (proj2 (start_servers_sext _ _ _ _ _ _ _ E3)) as N3.
  destruct r3; injection H as <- <- <-; congruence.
Qed.

Lemma start_with_no_hang step e c old g r g' oi :
  g_htlock g = false -> start_with step e c old g = (r, g', oi) -> r <> RHang.
Proof.
  unfold start_with. intros L H.
  destruct (start_body step e c old g) as [[r1 g1] oi1] eqn:B.
  pose proof (start_body_no_hang _ _ _ _ _ _ _ _ L B) as NH.
  destruct r1; injection H as <- <- <-; exact NH.
Qed.

Lemma start_body_ok_some step e c old g g' oi :
  start_body step e c old g = (ROk, g', oi) -> exists ni, oi = Some ni.
Proof.
  unfold start_body. intros H.
  destruct (negb (parse_ok c)); [discriminate|].
  destruct (exec_effs step e (c_effs c) g l0) as [[r1 g1] l].
  destruct r1; try discriminate.
  destruct (run_startups (l_startups l) g1) as [r2 g2].
  destruct r2; try discriminate.
  destruct (start_servers old (c_addrs c) g2 []) as [[r3 g3] srv].
  destruct r3; try discriminate. injection H as <- <-. eauto.
Qed.

Lemma start_with_ok_some step e c old g g' oi :
  start_with step e c old g = (ROk, g', oi) -> exists ni, oi = Some ni.
Proof.
  unfold start_with. intros H.
  destruct (start_body step e c old g) as [[r1 g1] oi1] eqn:B.
  destruct r1; try discriminate. injection H as <- <-. eapply start_body_ok_some; eauto.
Qed.

(* every attempt leaves the mutex as it found it *)
Lemma stop_inst_lock g i : g_htlock (stop_inst g i) = g_htlock g.
Proof. reflexivity. Qed.

Lemma attempt_lock m step e c g r g' :
  attempt m step e c g = (r, g') -> g_htlock g' = g_htlock g.
Proof.
  assert (RL : forall g r g', do_reload step e c g = (r, g') -> g_htlock g' = g_htlock g).
  { clear. intros g r g' H. unfold do_reload in H. destruct (g_insts g) as [|old rest]; [injection H as <- <-; reflexivity|].
    destruct (start_with step e c (i_servers old) g) as [[r1 g1] oi] eqn:S.
    pose proof (w_lock _ _ _ (start_with_grow _ _ _ _ _ _ _ _ S)) as L.
    destruct r1; [destruct oi|..]; injection H as <- <-; simpl; exact L. }
  destruct m; simpl; intros H.
  - unfold do_load in H. destruct (start_with step e c [] g) as [[r1 g1] oi] eqn:S.
    pose proof (w_lock _ _ _ (start_with_grow _ _ _ _ _ _ _ _ S)) as L.
    destruct r1; [destruct oi|..]; injection H as <- <-; simpl; exact L.
  - exact (x_lock _ _ _ (proj1 (do_validate_ext _ _ _ _ _ _ H))).
  - eapply RL; eauto.
  - unfold do_sigusr1 in H. destruct (g_insts g) as [|old rest] eqn:GI; [injection H as <- <-; reflexivity|].
    destruct (do_reload step e c (set_hooks g [])) as [r1 g1] eqn:R.
    apply RL in R. simpl in R.
    destruct r1; injection H as <- <-; simpl; exact R.
  - exact (x_lock _ _ _ (proj1 (do_validate_ext _ _ _ _ _ _ H))).
Qed.

Lemma attempt_no_hang m step e c g r g' :
  g_htlock g = false -> attempt m step e c g = (r, g') -> r <> RHang.
Proof.
  intros L.
  assert (RL : forall g r g', g_htlock g = false -> do_reload step e c g = (r, g') -> r <> RHang).
  { clear. intros g r g' L H. unfold do_reload in H. destruct (g_insts g) as [|old rest]; [injection H as <- <-; discriminate|].
    destruct (start_with step e c (i_servers old) g) as [[r1 g1] oi] eqn:S.
    pose proof (start_with_no_hang _ _ _ _ _ _ _ _ L S) as NH.
    destruct r1; [destruct oi|..]; injection H as <- <-; congruence. }
  destruct m; simpl; intros H.
  - unfold do_load in H. destruct (start_with step e c [] g) as [[r1 g1] oi] eqn:S.
    pose proof (start_with_no_hang _ _ _ _ _ _ _ _ L S) as NH.
    destruct r1; [destruct oi|..]; injection H as <- <-; congruence.
  - destruct (do_validate_ext _ _ _ _ _ _ H) as (_ & _ & NH & _). auto.
  - eapply RL; eauto.
  - unfold do_sigusr1 in H. destruct (g_insts g) as [|old rest] eqn:GI; [injection H as <- <-; discriminate|].
    destruct (do_reload step e c (set_hooks g [])) as [r1 g1] eqn:R.
    apply RL in R; [|exact L].
    destruct r1; injection H as <- <-; congruence.
  - destruct (do_validate_ext _ _ _ _ _ _ H) as (_ & _ & NH & _). auto.
Qed.

(* ------------------------------------------------------------------ a failed attempt loses nothing *)
Lemma failed_reload_grow step e c g r g' :
  do_reload step e c g = (r, g') -> r <> ROk -> grow step g g'.
Proof.
  unfold do_reload. intros H NR. destruct (g_insts g) as [|old rest]; [injection H as <- <-; apply grow_refl|].
  destruct (start_with step e c (i_servers old) g) as [[r1 g1] oi] eqn:S.
  pose proof (start_with_grow _ _ _ _ _ _ _ _ S) as G.
  destruct r1; [destruct oi|..]; injection H as <- <-; try exact G. congruence.
Qed.

Lemma failed_attempt_grow m step e c g r g' :
  attempt m step e c g = (r, g') -> r <> ROk -> grow step g g'.
Proof.
  destruct m; simpl; intros H NR.
  - unfold do_load in H. destruct (start_with step e c [] g) as [[r1 g1] oi] eqn:S.
    pose proof (start_with_grow _ _ _ _ _ _ _ _ S) as G.
    destruct r1; [destruct oi|..]; injection H as <- <-; try exact G. congruence.
  - apply ext_grow. exact (proj1 (do_validate_ext _ _ _ _ _ _ H)).
  - eapply failed_reload_grow; eauto.
  - unfold do_sigusr1 in H. destruct (g_insts g) as [|old rest] eqn:GI; [injection H as <- <-; apply grow_refl|].
    destruct (do_reload step e c (set_hooks g [])) as [r1 g1] eqn:R.
    destruct r1; injection H as <- <-; try congruence.
    + apply failed_reload_grow in R; [|discriminate]. destruct R as [R1 R2 R3 R4 R5].
      constructor; simpl in *; auto. exists O. simpl. symmetry. apply app_nil_r.
    + apply failed_reload_grow in R; [|discriminate]. destruct R as [R1 R2 R3 R4 R5].
      constructor; simpl in *; auto. exists O. simpl. symmetry. apply app_nil_r.
  - apply ext_grow. exact (proj1 (do_validate_ext _ _ _ _ _ _ H)).
Qed.

(* every failing attempt puts the hook registry back exactly (the SIGUSR1 path does so twice: the failing
   Restart restores the purged registry it found, the signal handler then restores the saved one) *)
Lemma failed_sigusr1_hooks step e c g r g' :
  do_sigusr1 step e c g = (r, g') -> r <> ROk -> g_hooks g' = g_hooks g.
Proof.
  unfold do_sigusr1. intros H NR. destruct (g_insts g) as [|old rest]; [injection H as <- <-; reflexivity|].
  destruct (do_reload step e c (set_hooks g [])) as [r1 g1].
  destruct r1; injection H as <- <-; try congruence; reflexivity.
Qed.

Lemma failed_attempt_hooks m step e c g r g' :
  attempt m step e c g = (r, g') -> r <> ROk -> g_hooks g' = g_hooks g.
Proof.
  destruct m; simpl; intros H NR.
  - unfold do_load in H. destruct (start_with step e c [] g) as [[r1 g1] oi] eqn:S.
    destruct r1; [destruct (start_with_ok_some _ _ _ _ _ _ _ S) as [ni ->]; injection H as <- <-; congruence|..];
      injection H as <- <-; eapply start_with_hooks; eauto.
  - destruct (do_validate_ext _ _ _ _ _ _ H) as (_ & HK & _). auto.
  - unfold do_reload in H. destruct (g_insts g) as [|old rest]; [injection H as <- <-; reflexivity|].
    destruct (start_with step e c (i_servers old) g) as [[r1 g1] oi] eqn:S.
    destruct r1; [destruct (start_with_ok_some _ _ _ _ _ _ _ S) as [ni ->]; injection H as <- <-; congruence|..];
      injection H as <- <-; eapply start_with_hooks; eauto.
  - eapply failed_sigusr1_hooks; eauto.
  - destruct (do_validate_ext _ _ _ _ _ _ H) as (_ & HK & _). auto.
Qed.

(* ------------------------------------------------------------------ well-formed states *)

Lemma addr_eqb_eq a b : addr_eqb a b = true -> a = b.
Proof.
  destruct a, b; simpl; intros H; try discriminate; try reflexivity.
  apply N.eqb_eq in H. congruence.
Qed.

Lemma inherited_in a old sid : inherited a old = Some sid -> In (a, sid) old.
Proof.
  induction old as [|[a' s'] old IH]; simpl; [discriminate|].
  destruct (addr_eqb a a') eqn:E.
  - intros H. injection H as <-. left. apply addr_eqb_eq in E. congruence.
  - intros H. right. auto.
Qed.

Lemma start_servers_wf old addrs : forall g acc r g' srv,
  srv_wf old -> srv_wf acc -> start_servers old addrs g acc = (r, g', srv) -> srv_wf srv.
Proof.
  induction addrs as [|a addrs IH]; intros g acc r g' srv WO WA H; simpl in H.
  - injection H as <- <- <-. exact WA.
  - destruct (inherited a old) as [sid|] eqn:I.
    + eapply IH; [exact WO| |exact H].
      intros a' s' Hin. apply in_app_or in Hin as [Hin|[Hin|[]]]; [eapply WA; eauto|].
      injection Hin as <- <-. apply inherited_in in I. eapply WO; eauto.
    + destruct a as [n|].
      * eapply IH; [exact WO| |exact H].
        intros a' s' Hin. apply in_app_or in Hin as [Hin|[Hin|[]]]; [eapply WA; eauto|].
        injection Hin as <- <-. discriminate.
      * injection H as <- <- <-. intros a' s' [].
Qed.

Lemma start_body_inst_wf step e c old g g' ni :
  srv_wf old -> start_body step e c old g = (ROk, g', Some ni) -> srv_wf (i_servers ni).
Proof.
  unfold start_body. intros WO H.
  destruct (negb (parse_ok c)); [discriminate|].
  destruct (exec_effs step e (c_effs c) g l0) as [[r1 g1] l].
  destruct r1; try discriminate.
  destruct (run_startups (l_startups l) g1) as [r2 g2].
  destruct r2; try discriminate.
  destruct (start_servers old (c_addrs c) g2 []) as [[r3 g3] srv] eqn:E3.
  destruct r3; try discriminate. injection H as <- <-. simpl.
  eapply start_servers_wf; [exact WO| |exact E3]. intros a sid [].
Qed.

Lemma start_with_inst_wf step e c old g g' ni :
  srv_wf old -> start_with step e c old g = (ROk, g', Some ni) -> srv_wf (i_servers ni).
Proof.
  unfold start_with. intros WO H.
  destruct (start_body step e c old g) as [[r1 g1] oi1] eqn:B.
  destruct r1; try discriminate. injection H as E1 E2. subst g1 oi1. eapply start_body_inst_wf; eauto.
Qed.

Lemma fold_close_ok l : forall socks next, table_ok socks next -> table_ok (fold_left close_fd l socks) next.
Proof.
  induction l as [|sid l IH]; intros socks next T; simpl; [exact T|].
  apply IH. apply close_fd_ok. exact T.
Qed.

Lemma stop_inst_ok g i : socks_ok g -> socks_ok (stop_inst g i).
Proof. intros T. unfold socks_ok, stop_inst. simpl. apply fold_close_ok. exact T. Qed.

Lemma reload_wf step e c g r g' : wf g -> do_reload step e c g = (r, g') -> wf g'.
Proof.
  unfold do_reload. intros [W T] H. destruct (g_insts g) as [|old rest] eqn:GI; [injection H as <- <-; split; [rewrite GI|]; assumption|].
  destruct (start_with step e c (i_servers old) g) as [[r1 g1] oi] eqn:S.
  pose proof (w_insts _ _ _ (start_with_grow _ _ _ _ _ _ _ _ S)) as GI1.
  destruct (start_with_socks _ _ _ _ _ _ _ _ T S) as (T1 & _).
  assert (W1 : wf g1) by (split; [rewrite GI1, GI; exact W|exact T1]).
  destruct r1; [destruct oi as [ni|]|..]; injection H as <- <-; try exact W1.
  split; [|apply stop_inst_ok; exact T1].
  intros i Hi. simpl in Hi. apply in_app_or in Hi as [Hi|[Hi|[]]].
  - apply W. right. exact Hi.
  - subst i. eapply start_with_inst_wf; [|exact S]. apply W. left. reflexivity.
Qed.

Lemma attempt_wf m step e c g r g' : wf g -> attempt m step e c g = (r, g') -> wf g'.
Proof.
  assert (VL : forall g r g', wf g -> do_validate step e c g = (r, g') -> wf g').
  { clear. intros g r g' [W T] H. pose proof (proj1 (do_validate_ext _ _ _ _ _ _ H)) as X. split.
    - rewrite (x_insts _ _ _ X). exact W.
    - intros s Hs. rewrite (x_socks _ _ _ X) in Hs. rewrite (x_next _ _ _ X). apply T. exact Hs. }
  destruct m; simpl; intros W H.
  - unfold do_load in H. destruct (start_with step e c [] g) as [[r1 g1] oi] eqn:S.
    pose proof (w_insts _ _ _ (start_with_grow _ _ _ _ _ _ _ _ S)) as GI1.
    destruct W as [W T].
    destruct (start_with_socks _ _ _ _ _ _ _ _ T S) as (T1 & _).
    assert (W1 : wf g1) by (split; [rewrite GI1; exact W|exact T1]).
    destruct r1; [destruct oi as [ni|]|..]; injection H as <- <-; try exact W1.
    split; [|exact T1].
    intros i Hi. simpl in Hi. apply in_app_or in Hi as [Hi|[Hi|[]]].
    + rewrite GI1 in Hi. apply W. exact Hi.
    + subst i. eapply start_with_inst_wf; [|exact S]. intros a sid [].
  - eapply VL; eauto.
  - eapply reload_wf; eauto.
  - unfold do_sigusr1 in H. destruct (g_insts g) as [|old rest] eqn:GI; [injection H as <- <-; exact W|].
    destruct (do_reload step e c (set_hooks g [])) as [r1 g1] eqn:R.
    apply reload_wf in R; [|exact W].
    destruct r1; injection H as <- <-; exact R.
  - eapply VL; eauto.
Qed.

(* a failed attempt gives the socket table back exactly *)
Lemma failed_attempt_socks m step e c g r g' :
  socks_ok g -> attempt m step e c g = (r, g') -> r <> ROk ->
  g_socks g' = g_socks g /\ g_next g' = g_next g.
Proof.
  assert (VL : forall g r g', do_validate step e c g = (r, g') -> g_socks g' = g_socks g /\ g_next g' = g_next g).
  { clear. intros g r g' H. pose proof (proj1 (do_validate_ext _ _ _ _ _ _ H)) as X.
    split; [exact (x_socks _ _ _ X)|exact (x_next _ _ _ X)]. }
  assert (RL : forall g r g', socks_ok g -> do_reload step e c g = (r, g') -> r <> ROk ->
               g_socks g' = g_socks g /\ g_next g' = g_next g).
  { clear. intros g r g' T H NR. unfold do_reload in H.
    destruct (g_insts g) as [|old rest]; [injection H as <- <-; split; reflexivity|].
    destruct (start_with step e c (i_servers old) g) as [[r1 g1] oi] eqn:S.
    destruct (start_with_socks _ _ _ _ _ _ _ _ T S) as (_ & _ & KO).
    destruct r1; [destruct (start_with_ok_some _ _ _ _ _ _ _ S) as [ni ->]; injection H as <- <-; congruence|..];
      injection H as <- <-; apply KO; discriminate. }
  destruct m; simpl; intros T H NR.
  - unfold do_load in H. destruct (start_with step e c [] g) as [[r1 g1] oi] eqn:S.
    destruct (start_with_socks _ _ _ _ _ _ _ _ T S) as (_ & _ & KO).
    destruct r1; [destruct (start_with_ok_some _ _ _ _ _ _ _ S) as [ni ->]; injection H as <- <-; congruence|..];
      injection H as <- <-; apply KO; discriminate.
  - eapply VL; eauto.
  - eapply RL; eauto.
  - unfold do_sigusr1 in H. destruct (g_insts g) as [|old rest] eqn:GI; [injection H as <- <-; split; reflexivity|].
    destruct (do_reload step e c (set_hooks g [])) as [r1 g1] eqn:R.
    assert (r1 <> ROk) as NR1 by (destruct r1; injection H as <- <-; congruence).
    assert (T' : socks_ok (set_hooks g [])) by exact T.
    destruct (RL _ _ _ T' R NR1) as [A B]. simpl in A, B.
    destruct r1; injection H as <- <-; try congruence; simpl; split; assumption.
  - eapply VL; eauto.
Qed.

(* ------------------------------------------------------------------ harmless failures are the identity *)

Lemma start_body_harmless step e c old g r g' oi :
  socks_ok g -> no_auth (c_effs c) = true -> no_log (c_effs c) = true ->
  start_body step e c old g = (r, g', oi) -> r <> ROk ->
  g_insts g' = g_insts g /\ g_htcache g' = g_htcache g /\ g_htlock g' = g_htlock g /\
  g_rollers g' = g_rollers g /\ g_socks g' = g_socks g /\ g_next g' = g_next g /\
  (no_on (c_effs c) = true -> g_hooks g' = g_hooks g).
Proof.
  intros T NA NL H NR.
  destruct (start_body_socks _ _ _ _ _ _ _ _ T H) as (_ & _ & KO). destruct (KO NR) as [KS KN].
  revert H. unfold start_body. intros H.
  destruct (negb (parse_ok c)); [injection H as <- <- <-; repeat split; auto|].
  destruct (exec_effs step e (c_effs c) g l0) as [[r1 g1] l] eqn:E1.
  pose proof (exec_effs_ext _ _ _ _ _ _ _ _ E1) as X.
  pose proof (exec_effs_no_auth_same _ _ _ _ _ _ _ _ NA E1) as [C1 L1].
  pose proof (exec_effs_no_log_startups _ _ _ _ _ _ _ _ NL E1) as SU. simpl in SU.
  assert (F1 : g_insts g1 = g_insts g /\ g_htcache g1 = g_htcache g /\ g_htlock g1 = g_htlock g /\
               g_rollers g1 = g_rollers g /\ (no_on (c_effs c) = true -> g_hooks g1 = g_hooks g)).
  { destruct X. repeat split; auto. intros NO. eapply exec_effs_hooks_same; eauto. }
  destruct F1 as (F1 & F2 & F3 & F4 & F5).
  destruct r1; try (injection H as <- <- <-; repeat split; auto).
  rewrite SU in H. simpl in H.
  destruct (start_servers old (c_addrs c) g1 []) as [[r3 g3] srv] eqn:E3.
  destruct (start_servers_sext _ _ _ _ _ _ _ E3) as [[Z1 Z2 Z3 Z4 Z5] _].
  destruct r3; injection H as <- <- <-; try congruence; simpl in *; repeat split; try congruence.
  - intros NO. rewrite Z2. auto.
  - intros NO. rewrite Z2. auto.
Qed.

Lemma start_with_harmless step e c old g r g' oi :
  socks_ok g -> no_auth (c_effs c) = true -> no_log (c_effs c) = true ->
  start_with step e c old g = (r, g', oi) -> r <> ROk -> g' = g.
Proof.
  unfold start_with. intros T NA NL H NR.
  destruct (start_body step e c old g) as [[r1 g1] oi1] eqn:B.
  assert (NR1 : r1 <> ROk) by (destruct r1; injection H as <- <- <-; congruence).
  destruct (start_body_harmless _ _ _ _ _ _ _ _ T NA NL B NR1) as (A1 & A2 & A3 & A4 & A5 & A6 & _).
  destruct r1; [congruence|..]; injection H as <- <- <-; apply gstate_eq; simpl; auto.
Qed.

Theorem failed_harmless0_identity m step e c g r g' :
  wf g -> harmless0 m c = true -> attempt m step e c g = (r, g') -> r <> ROk -> g' = g.
Proof.
  intros [W T] HM H NR. unfold harmless0 in HM.
  apply andb_true_iff in HM as [H2 H3].
  assert (VL : forall g r g', do_validate step e c g = (r, g') -> r <> ROk -> g' = g).
  { clear - H2. intros g r g' H NR.
    destruct (do_validate_ext _ _ _ _ _ _ H) as (X & HK & _ & HC). destruct X.
    apply gstate_eq; auto. }
  assert (RL : forall g r g', socks_ok g -> no_log (c_effs c) = true ->
            do_reload step e c g = (r, g') -> r <> ROk -> g' = g).
  { clear - H2. intros g r g' T NL H NR. unfold do_reload in H.
    destruct (g_insts g) as [|old rest] eqn:GI; [injection H as <- <-; reflexivity|].
    destruct (start_with step e c (i_servers old) g) as [[r1 g1] oi] eqn:S.
    assert (NR1 : r1 <> ROk).
    { intros ->. destruct (start_with_ok_some _ _ _ _ _ _ _ S) as [ni ->]. injection H as <- <-. congruence. }
    pose proof (start_with_harmless _ _ _ _ _ _ _ _ T H2 NL S NR1) as ->.
    destruct r1; [congruence|..]; injection H as <- <-; reflexivity. }
  destruct m; simpl in H.
  - rename H3 into NL.
    unfold do_load in H. destruct (start_with step e c [] g) as [[r1 g1] oi] eqn:S.
    assert (NR1 : r1 <> ROk).
    { intros ->. destruct (start_with_ok_some _ _ _ _ _ _ _ S) as [ni ->]. injection H as <- <-. congruence. }
    pose proof (start_with_harmless step e c [] g r1 g1 oi T H2 NL S NR1) as ->.
    destruct r1; [congruence|..]; injection H as <- <-; reflexivity.
  - eapply VL; eauto.
  - eapply RL; eauto.
  - rename H3 into NL.
    unfold do_sigusr1 in H. destruct (g_insts g) as [|old rest] eqn:GI; [injection H as <- <-; reflexivity|].
    destruct (do_reload step e c (set_hooks g [])) as [r1 g1] eqn:R.
    assert (r1 <> ROk) as NR1 by (destruct r1; injection H as <- <-; congruence).
    assert (T' : socks_ok (set_hooks g [])) by exact T.
    pose proof (RL _ _ _ T' NL R NR1) as ->.
    destruct r1; injection H as <- <-; try congruence; apply gstate_eq; reflexivity.
  - eapply VL; eauto.
Qed.

(* an attempt does what it does on the part of the configuration it reaches *)
Lemma exec_cut step e effs : forall pre g l l2,
  cut_bad effs = (pre, true) ->
  exists r g' la lb, exec_effs step e effs g l = (r, g', la) /\
                     exec_effs step e (filter not_log pre ++ [EBad]) g l2 = (r, g', lb) /\ r <> ROk.
Proof.
  induction effs as [|x effs IH]; intros pre g l l2 CB; simpl in CB.
  - discriminate.
  - destruct x as [|n|f size ok|f u].
    + injection CB as <-. simpl. exists RErr, g, l, l2. repeat split; discriminate.
    + destruct (cut_bad effs) as [p b] eqn:C. injection CB as <- ->. simpl. apply IH. reflexivity.
    + destruct (cut_bad effs) as [p b] eqn:C. injection CB as <- ->. simpl. apply IH. reflexivity.
    + destruct (cut_bad effs) as [p b] eqn:C. injection CB as <- ->. simpl.
      destruct (get_matcher e g f u) as [[r1 g1] o1].
      destruct r1.
      * destruct o1 as [pw|]; [apply IH; reflexivity|].
        exists RErr, g1, l, l2. repeat split; discriminate.
      * exists RErr, g1, l, l2. repeat split; discriminate.
      * exists RHang, g1, l, l2. repeat split; discriminate.
Qed.

Lemma parse_ok_reached c : negb (parse_ok c) = true ->
  parse_ok {| c_id := c_id c; c_parse := c_parse c; c_effs := []; c_addrs := [] |} = parse_ok c.
Proof. reflexivity. Qed.

Lemma start_body_reached step e c old g :
  start_body step e c old g = start_body step e (reached c) old g.
Proof.
  unfold reached. destruct (negb (parse_ok c)) eqn:P.
  - unfold start_body. rewrite P. unfold parse_ok in *. simpl. rewrite P. reflexivity.
  - destruct (cut_bad (c_effs c)) as [pre bad] eqn:CB. destruct bad; [|reflexivity].
    unfold start_body. rewrite P. simpl.
    destruct (exec_cut step e (c_effs c) pre g l0 l0 CB) as (r & g' & la & lb & E1 & E2 & NR).
    rewrite E1, E2. destruct r; [congruence|reflexivity|reflexivity].
Qed.

Lemma start_with_reached step e c old g :
  start_with step e c old g = start_with step e (reached c) old g.
Proof. unfold start_with. rewrite start_body_reached. reflexivity. Qed.

Lemma do_validate_reached step e c g :
  do_validate step e c g = do_validate step e (reached c) g.
Proof.
  unfold reached. destruct (negb (parse_ok c)) eqn:P.
  - unfold do_validate. rewrite P. unfold parse_ok in *. simpl. rewrite P. reflexivity.
  - destruct (cut_bad (c_effs c)) as [pre bad] eqn:CB. destruct bad; [|reflexivity].
    unfold do_validate. rewrite P. simpl.
    destruct (exec_cut step e (c_effs c) pre g l0 l0 CB) as (r & g' & la & lb & E1 & E2 & NR).
    rewrite E1, E2. reflexivity.
Qed.

Lemma do_reload_reached step e c g :
  do_reload step e c g = do_reload step e (reached c) g.
Proof.
  unfold do_reload. destruct (g_insts g) as [|old rest]; [reflexivity|].
  rewrite start_with_reached. reflexivity.
Qed.

Lemma attempt_reached m step e c g :
  attempt m step e c g = attempt m step e (reached c) g.
Proof.
  destruct m; simpl.
  - unfold do_load. rewrite start_with_reached. reflexivity.
  - apply do_validate_reached.
  - apply do_reload_reached.
  - unfold do_sigusr1. destruct (g_insts g); [reflexivity|]. rewrite do_reload_reached. reflexivity.
  - apply do_validate_reached.
Qed.

Theorem failed_harmless_identity m step e c g r g' :
  wf g -> harmless m c = true -> attempt m step e c g = (r, g') -> r <> ROk -> g' = g.
Proof.
  intros W HM H NR. rewrite attempt_reached in H.
  eapply failed_harmless0_identity; eauto.
Qed.

(* ------------------------------------------------------------------ histories *)

Theorem run_harmless_failures_identity h : forall step e g rs e' g',
  wf g -> forallb harmless_op h = true -> run step h (e, g) = (rs, (e', g')) ->
  attempts_failed h rs -> g' = g /\ e' = writes h e.
Proof.
  induction h as [|o h IH]; intros step e g rs e' g' W HH R AF; simpl in R.
  - injection R as <- <- <-. split; reflexivity.
  - simpl in HH. apply andb_true_iff in HH as [HO HH].
    destruct (step_op step o (e, g)) as [x [e1 g1]] eqn:S.
    destruct (run (step + 1) h (e1, g1)) as [xs [e2 g2]] eqn:R2.
    injection R as <- <- <-.
    destruct o as [m c|f hf]; simpl in S.
    + destruct (attempt m step e c g) as [r ga] eqn:A. injection S as <- <- <-.
      simpl in AF. destruct AF as [NR AF].
      pose proof (failed_harmless_identity _ _ _ _ _ _ _ W HO A NR) as ->.
      simpl. eapply IH; eauto.
    + injection S as <- <- <-. simpl in AF. simpl. eapply IH; eauto.
Qed.

(* the mutex is free after every history, and no attempt of any history ever blocks *)
Theorem run_never_hangs h : forall step e g rs e' g',
  g_htlock g = false -> run step h (e, g) = (rs, (e', g')) ->
  g_htlock g' = false /\ ~ In RHang rs.
Proof.
  induction h as [|o h IH]; intros step e g rs e' g' L R; simpl in R.
  - injection R as <- <- <-. split; [exact L|intros []].
  - destruct (step_op step o (e, g)) as [x [e1 g1]] eqn:S.
    destruct (run (step + 1) h (e1, g1)) as [xs [e2 g2]] eqn:R2.
    injection R as <- <- <-.
    destruct o as [m c|f hf]; simpl in S.
    + destruct (attempt m step e c g) as [r ga] eqn:A. injection S as <- <- <-.
      pose proof (attempt_lock _ _ _ _ _ _ _ A) as L1. rewrite L in L1.
      pose proof (attempt_no_hang _ _ _ _ _ _ _ L A) as NH.
      destruct (IH _ _ _ _ _ _ L1 R2) as [L2 NI]. split; [exact L2|].
      intros [E|I]; [congruence|auto].
    + injection S as <- <- <-.
      destruct (IH _ _ _ _ _ _ L R2) as [L2 NI]. split; [exact L2|].
      intros [E|I]; [discriminate|auto].
Qed.

Theorem run_wf h : forall step e g rs e' g',
  wf g -> run step h (e, g) = (rs, (e', g')) -> wf g'.
Proof.
  induction h as [|o h IH]; intros step e g rs e' g' W R; simpl in R.
  - injection R as <- <- <-. exact W.
  - destruct (step_op step o (e, g)) as [x [e1 g1]] eqn:S.
    destruct (run (step + 1) h (e1, g1)) as [xs [e2 g2]] eqn:R2.
    injection R as <- <- <-.
    destruct o as [m c|f hf]; simpl in S.
    + destruct (attempt m step e c g) as [r ga] eqn:A. injection S as <- <- <-.
      eapply IH; [|exact R2]. eapply attempt_wf; eauto.
    + injection S as <- <- <-. eapply IH; eauto.
Qed.

Lemma wf_g0 : wf g0.
Proof. split; [intros i []|intros s []]. Qed.

(* ------------------------------------------------------------------ running sites are untouched *)

Theorem failed_attempt_sites_untouched m step e c g r g' :
  wf g -> attempt m step e c g = (r, g') -> r <> ROk ->
  g_insts g' = g_insts g /\
  (forall i, In i (g_insts g) -> alive g i -> alive g' i) /\
  (forall i x, In i (g_insts g) -> roller_of g i = Some x -> roller_of g' i = Some x).
Proof.
  intros [W T] H NR. destruct (failed_attempt_grow _ _ _ _ _ _ _ H NR) as [G1 G2 G3 G4 G5].
  destruct (failed_attempt_socks _ _ _ _ _ _ _ T H NR) as [S1 _].
  split; [exact G1|]. split.
  - intros i Hi AL a sid Hin. unfold alive in AL. rewrite S1. exact (AL a sid Hin).
  - intros i x Hi. unfold roller_of. destruct (i_log i); [apply G5|discriminate].
Qed.

(* ... and loses nothing *)
Theorem failed_attempt_loses_nothing m step e c g r g' :
  wf g -> attempt m step e c g = (r, g') -> r <> ROk ->
  g_insts g' = g_insts g /\ g_htlock g' = g_htlock g /\
  g_hooks g' = g_hooks g /\
  (forall f x, assoc f (g_htcache g) = Some x -> assoc f (g_htcache g') = Some x) /\
  (forall f x, assoc f (g_rollers g) = Some x -> assoc f (g_rollers g') = Some x) /\
  g_socks g' = g_socks g.
Proof.
  intros [W T] H NR. destruct (failed_attempt_grow _ _ _ _ _ _ _ H NR) as [G1 G2 G3 G4 G5].
  destruct (failed_attempt_socks _ _ _ _ _ _ _ T H NR) as [S1 _].
  pose proof (failed_attempt_hooks _ _ _ _ _ _ _ H NR) as HK. auto 10.
Qed.

(* ------------------------------------------------------------------ valid configurations load *)

Definition all_ok (cbs : list (N * N * bool)) : Prop := forall t, In t cbs -> snd t = true.

Lemma exec_effs_valid step e effs : forall g l,
  g_htlock g = false -> forallb (eff_valid e) effs = true -> cache_fresh e g effs -> all_ok (l_startups l) ->
  exists g' l', exec_effs step e effs g l = (ROk, g', l') /\ all_ok (l_startups l') /\
                l_auth l' = expected_auth e effs (l_auth l).
Proof.
  induction effs as [|x effs IH]; intros g l L V CF AO; simpl.
  - eauto.
  - simpl in V. apply andb_true_iff in V as [V1 V2].
    assert (CF2 : cache_fresh e g effs) by (intros f u Hin; apply (CF f u); right; exact Hin).
    destruct x as [|n|f size ok|f u]; simpl in V1.
    + discriminate.
    + apply IH; auto.
    + match goal with |- context [exec_effs step e effs g ?l1] =>
        destruct (IH g l1) as (g' & l' & E & A & B); auto end.
      { simpl. intros t Hin. apply in_app_or in Hin as [Hin|[Hin|[]]]; [auto|]. subst t. simpl. exact V1. }
      exists g', l'. repeat split; auto.
    + apply andb_true_iff in V1 as [V1 V1c]. apply andb_true_iff in V1 as [V1a V1b].
      unfold get_matcher, get_matcher_gen. rewrite L.
      pose proof (CF f u (or_introl eq_refl)) as CFf.
      assert (CF3 : forall f' u', In (EAuth f' u') effs ->
                (if f' =? f then Some (h_users (env_get e f)) else assoc f' (g_htcache g)) = None \/
                (if f' =? f then Some (h_users (env_get e f)) else assoc f' (g_htcache g)) = Some (h_users (env_get e f'))).
      { intros f' u' Hin. destruct (f' =? f) eqn:E.
        - apply N.eqb_eq in E. subst f'. right. reflexivity.
        - apply (CF2 f' u'). exact Hin. }
      remember (env_get e f) as hf eqn:Hhf.
      destruct (assoc u (h_users hf)) as [pw|] eqn:AU; [|discriminate].
      destruct CFf as [C|C]; rewrite C.
      * rewrite V1a. apply negb_true_iff in V1b. rewrite V1b. cbn [negb].
        match goal with |- context [exec_effs step e effs ?g1 ?l1] =>
          destruct (IH g1 l1) as (g' & l' & E & A & B); auto end.
        exists g', l'. repeat split; auto.
      * rewrite AU.
        match goal with |- context [exec_effs step e effs ?g1 ?l1] =>
          destruct (IH g1 l1) as (g' & l' & E & A & B); auto end.
        exists g', l'. repeat split; auto.
Qed.

Lemma run_startups_all_ok cbs : forall g, all_ok cbs -> exists g', run_startups cbs g = (ROk, g').
Proof.
  induction cbs as [|[[f size] ok] cbs IH]; intros g AO; simpl.
  - eauto.
  - assert (ok = true) as -> by (apply (AO (f, size, ok)); left; reflexivity).
    apply IH. intros t Hin. apply AO. right. exact Hin.
Qed.

Lemma forallb_free_no_busy addrs : forallb addr_free addrs = true -> existsb is_busy addrs = false.
Proof.
  induction addrs as [|a addrs IH]; simpl; [reflexivity|].
  intros H. apply andb_true_iff in H as [H1 H2]. rewrite (IH H2).
  destruct a; simpl in *; [reflexivity|discriminate].
Qed.

Lemma start_body_valid step e c old g :
  g_htlock g = false -> cfg_valid e c = true -> cache_fresh e g (c_effs c) ->
  exists g' ni, start_body step e c old g = (ROk, g', Some ni) /\ i_cfg ni = c_id c /\
                i_auth ni = expected_auth e (c_effs c) None.
Proof.
  intros L V CF. unfold cfg_valid in V.
  apply andb_true_iff in V as [V V4]. apply andb_true_iff in V as [V V3]. apply andb_true_iff in V as [V1 V2].
  unfold start_body. rewrite V1. simpl.
  destruct (exec_effs_valid step e (c_effs c) g l0 L V2 CF) as (g1 & l1 & E1 & AO & AU); [intros t []|].
  rewrite E1.
  destruct (run_startups_all_ok (l_startups l1) g1 AO) as (g2 & E2). rewrite E2.
  destruct (start_servers old (c_addrs c) g2 []) as [[r3 g3] srv] eqn:E3.
  pose proof (start_servers_no_busy _ _ _ _ _ _ _ (forallb_free_no_busy _ V3) E3) as ->.
  eexists. eexists. split; [reflexivity|]. split; [reflexivity|exact AU].
Qed.

Lemma start_with_valid step e c old g :
  g_htlock g = false -> cfg_valid e c = true -> cache_fresh e g (c_effs c) ->
  exists g' ni, start_with step e c old g = (ROk, g', Some ni) /\ i_cfg ni = c_id c /\
                i_auth ni = expected_auth e (c_effs c) None.
Proof.
  intros L V CF. destruct (start_body_valid step e c old g L V CF) as (g1 & ni & B & I).
  unfold start_with. rewrite B. eauto.
Qed.

Theorem valid_load_succeeds step e c g :
  g_htlock g = false -> cfg_valid e c = true -> cache_fresh e g (c_effs c) ->
  exists g' ni, do_load step e c g = (ROk, g') /\ g_insts g' = g_insts g ++ [ni] /\ i_cfg ni = c_id c /\
                i_auth ni = expected_auth e (c_effs c) None.
Proof.
  intros L V CF. destruct (start_with_valid step e c [] g L V CF) as (g1 & ni & S & I).
  unfold do_load. rewrite S. eexists. exists ni. split; [reflexivity|]. split; [|exact I].
  simpl. rewrite (w_insts _ _ _ (start_with_grow _ _ _ _ _ _ _ _ S)). reflexivity.
Qed.

Theorem valid_reload_succeeds step e c g old rest :
  g_htlock g = false -> g_insts g = old :: rest -> cfg_valid e c = true -> cache_fresh e g (c_effs c) ->
  exists g' ni, do_reload step e c g = (ROk, g') /\ g_insts g' = rest ++ [ni] /\ i_cfg ni = c_id c /\
                i_auth ni = expected_auth e (c_effs c) None.
Proof.
  intros L GI V CF. destruct (start_with_valid step e c (i_servers old) g L V CF) as (g1 & ni & S & I).
  unfold do_reload. rewrite GI, S. eexists. exists ni. split; [reflexivity|]. split; [reflexivity|exact I].
Qed.

Lemma no_auth_cache_fresh e g effs : no_auth effs = true -> cache_fresh e g effs.
Proof.
  intros NA f u Hin. unfold no_auth in NA. rewrite forallb_forall in NA.
  specialize (NA _ Hin). discriminate.
Qed.

(* over ALL histories: the mutex invariant is all a valid configuration needs, besides a cache that is not
   stale for the htpasswd files it uses *)
Theorem valid_load_after_any_history h e rs e' g' step v :
  run 1 h (e, g0) = (rs, (e', g')) ->
  cfg_valid e' v = true -> cache_fresh e' g' (c_effs v) ->
  exists g'' ni, do_load step e' v g' = (ROk, g'') /\ g_insts g'' = g_insts g' ++ [ni] /\ i_cfg ni = c_id v /\
                 i_auth ni = expected_auth e' (c_effs v) None.
Proof.
  intros R V CF. destruct (run_never_hangs h 1 e g0 rs e' g' eq_refl R) as [L _].
  apply valid_load_succeeds; auto.
Qed.

(* ------------------------------------------------------------------ the code before ee9fbaa *)
Lemma prefix_lock_refuted :
  exists e e' f u g1,
    get_matcher_gen false e g0 f u = (RErr, g1, None) /\
    eff_valid e' (EAuth f u) = true /\
    fst (fst (get_matcher_gen false e' g1 f u)) = RHang /\
    fst (fst (get_matcher_gen false e' g0 f u)) = ROk.
Proof.
  exists [], [(2, {| h_present := true; h_users := [(1, 1)]; h_bad := false |})], 2, 1.
  eexists. vm_compute. repeat split; reflexivity.
Qed.

(* ------------------------------------------------------------------ witnesses against the full frame *)
Definition mkcfg (id : N) (effs : list effect) (addrs : list addr) : cfg :=
  {| c_id := id; c_parse := PNone; c_effs := effs; c_addrs := addrs |}.
Definition users (l : list (N * N)) : htfile := {| h_present := true; h_users := l; h_bad := false |}.

Lemma frame_refuted :
  (* roller settings of a rejected configuration are registered *)
  (exists c g', attempt Load 1 [] c g0 = (RErr, g') /\ g_rollers g' <> g_rollers g0) /\
  (* the htpasswd file read by a rejected configuration is cached *)
  (exists e c g', attempt Load 1 e c g0 = (RErr, g') /\ g_htcache g' <> g_htcache g0).
Proof.
  repeat split.
  - exists (mkcfg 1 [ELog 1 1 true] [ABusy]). eexists. split; [vm_compute; reflexivity|discriminate].
  - exists [(2, users [(2, 1)])], (mkcfg 1 [EAuth 2 1] [AEph 1]). eexists.
    split; [vm_compute; reflexivity|discriminate].
Qed.

(* hooks registered by a rejected configuration are taken out again: load, validate, API-driven execute and
   reload, SIGUSR1 *)
Lemma hooks_restored_witness :
  (exists g', attempt Load 1 [] (mkcfg 1 [EOn 1; EBad] [AEph 1]) g0 = (RErr, g') /\ g_hooks g' = []) /\
  (exists g', attempt Validate 1 [] (mkcfg 1 [EOn 1; EAuth 2 1] [AEph 1]) g0 = (RErr, g') /\ g_hooks g' = []) /\
  (exists g', attempt Execute 1 [] (mkcfg 1 [EOn 2; EBad] [AEph 1]) g0 = (RErr, g') /\ g_hooks g' = []) /\
  (exists g', attempt Load 1 [] (mkcfg 1 [EOn 1] [AEph 1; ABusy]) g0 = (RErr, g') /\ g_hooks g' = []) /\
  (exists g1 g2, attempt Load 1 [] (mkcfg 1 [EOn 1] [AEph 1]) g0 = (ROk, g1) /\
                 attempt Reload 2 [] (mkcfg 2 [EOn 2; EBad] [AEph 1]) g1 = (RErr, g2) /\
                 g_hooks g2 = [1] /\ g_hooks g1 = [1]) /\
  (exists g1 g2, attempt Load 1 [] (mkcfg 1 [EOn 1] [AEph 1]) g0 = (ROk, g1) /\
                 attempt Sigusr1 2 [] (mkcfg 2 [EOn 2; EBad] [AEph 1]) g1 = (RErr, g2) /\
                 g_hooks g2 = [1] /\ g_hooks g1 = [1]).
Proof.
  repeat split; try (eexists; vm_compute; split; reflexivity);
    eexists; eexists; vm_compute; repeat split; reflexivity.
Qed.

(* the listeners a failing start opened before the failing one are closed again: the socket table and the
   descriptor counts are exactly as before, on a fresh start and on a reload that inherits a listener *)
Lemma listeners_closed_witness :
  (exists g', attempt Load 1 [] (mkcfg 1 [] [AEph 1; ABusy]) g0 = (RErr, g') /\ g_socks g' = g_socks g0) /\
  (exists g1 g', attempt Load 1 [] (mkcfg 1 [] [AEph 1]) g0 = (ROk, g1) /\
                 attempt Reload 2 [] (mkcfg 2 [] [AEph 1; AEph 2; ABusy]) g1 = (RErr, g') /\
                 g_socks g' = g_socks g1 /\ sum_fds (g_socks g1) = 1%nat).
Proof.
  split.
  - eexists. split; vm_compute; reflexivity.
  - eexists. eexists. split; [vm_compute; reflexivity|]. split; [vm_compute; reflexivity|].
    split; vm_compute; reflexivity.
Qed.

(* a valid configuration that would load in a fresh process does not load after a failed attempt *)
Lemma valid_after_failures_refuted :
  exists h e v rs e' g',
    run 1 h (e, g0) = (rs, (e', g')) /\ attempts_failed h rs /\
    cfg_valid e' v = true /\
    fst (do_load 9 e' v g0) = ROk /\ fst (do_load 9 e' v g') = RErr.
Proof.
  exists [OAttempt Load (mkcfg 1 [EAuth 2 1] [AEph 1]); OWrite 2 (users [(1, 2); (2, 1)])],
         [(2, users [(2, 1)])], (mkcfg 2 [EAuth 2 1] [AEph 1]).
  eexists. eexists. eexists. split; [vm_compute; reflexivity|].
  split; [simpl; split; [discriminate|exact I]|]. vm_compute. repeat split; reflexivity.
Qed.

(* ... or loads and behaves differently: rotates its log with the rejected settings / authenticates
   against the old htpasswd contents *)
Lemma valid_after_failures_behaviour_refuted :
  (exists h v rs e' g' ga gb,
     run 1 h ([], g0) = (rs, (e', g')) /\ attempts_failed h rs /\ cfg_valid e' v = true /\
     do_load 9 e' v g0 = (ROk, ga) /\ do_load 9 e' v g' = (ROk, gb) /\ roll_view ga <> roll_view gb) /\
  (exists h e v rs e' g' ga gb,
     run 1 h (e, g0) = (rs, (e', g')) /\ attempts_failed h rs /\ cfg_valid e' v = true /\
     do_load 9 e' v g0 = (ROk, ga) /\ do_load 9 e' v g' = (ROk, gb) /\
     map auth_view (g_insts ga) <> map auth_view (g_insts gb)).
Proof.
  split.
  - exists [OAttempt Load (mkcfg 1 [ELog 1 1 true] [ABusy])], (mkcfg 2 [ELog 1 50 true] [AEph 1]).
    do 5 eexists. split; [vm_compute; reflexivity|].
    split; [simpl; split; [discriminate|exact I]|].
    split; [vm_compute; reflexivity|]. split; [vm_compute; reflexivity|].
    split; [vm_compute; reflexivity|]. vm_compute. discriminate.
  - exists [OAttempt Load (mkcfg 1 [EAuth 1 1; EBad] [AEph 1]); OWrite 1 (users [(1, 2)])],
           [(1, users [(1, 1)])], (mkcfg 2 [EAuth 1 1] [AEph 1]).
    do 5 eexists. split; [vm_compute; reflexivity|].
    split; [simpl; split; [discriminate|exact I]|].
    split; [vm_compute; reflexivity|]. split; [vm_compute; reflexivity|].
    split; [vm_compute; reflexivity|]. vm_compute. discriminate.
Qed.
