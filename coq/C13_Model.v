(* C13 — FastCGI requests and responses cross the wire intact: executable model.
   Mirrors caskethttp/fastcgi/fcgiclient.go (header.init, writeRecord, encodeSize, writePairs,
   bufio(65500)+streamWriter framing, record.read, streamReader.Read, Request's status rule)
   and caskethttp/fastcgi/fastcgi.go (Handler.ServeHTTP dispatch decision, canSplit/splitPos,
   buildEnv, the per-method overrides of FCGIClient.Get/Head/Options/Post).
   Definitions only; proofs are in C13_Proofs.v. *)
Require Import V.Lib V.GoPath.
(* the proved model of httpserver's replacer (Replace / getSubstitution) is the one of C20; it is
   loaded, not imported: its names are used qualified (C19/C20 define their own index_of, mem, …) *)
Require V.Gen_C20 V.C19_Model V.C20_Model.
Open Scope string_scope.
Open Scope list_scope.
Open Scope N_scope.

Definition len (b : bytes) : N := N.of_nat (length b).

(* ---------- compact byte strings (case files only): literal / counting pattern / constant run ---------- *)
Inductive seg := SL (b : bytes) | SG (start n : N) | SZ (b n : N).

Fixpoint gen_nat (n : nat) (cur : N) : bytes :=
  match n with O => [] | S n' => cur :: gen_nat n' (if cur =? 250 then 0 else cur + 1) end.
Definition expand1 (s : seg) : bytes :=
  match s with
  | SL b => b
  | SG st n => gen_nat (N.to_nat n) (st mod 251)
  | SZ b n => repeat b (N.to_nat n)
  end.
Definition expand (l : list seg) : bytes := concat (map expand1 l).

(* ---------- constants (fcgiclient.go) ---------- *)
Definition MAXW : N := 65500.            (* maxWrite *)
Definition T_BEGIN : N := 1.
Definition T_END : N := 3.
Definition T_PARAMS : N := 4.
Definition T_STDIN : N := 5.
Definition T_STDOUT : N := 6.
Definition T_STDERR : N := 7.

(* ================= request side: the encoder (what the code does) ================= *)

(* encodeSize: 1 byte up to 127, else 4 bytes big endian with the top bit set.
   For a uint32 n, n | 1<<31 is n + 2^31 when bit 31 is clear. *)
Definition encode_size (n : N) : bytes :=
  if n <=? 127 then [n]
  else let m := if n <? 2147483648 then n + 2147483648 else n in
       [(m / 16777216) mod 256; (m / 65536) mod 256; (m / 256) mod 256; m mod 256].

Definition encode_pair (kv : bytes * bytes) : bytes :=
  encode_size (len (fst kv)) ++ encode_size (len (snd kv)) ++ fst kv ++ snd kv.

(* header.init + binary.Write: uint16(contentLength), uint8(-contentLength & 7) *)
Definition pad_of (n : N) : N := (8 - n mod 8) mod 8.
Definition header (ty id clen : N) : bytes :=
  [1; ty; (id / 256) mod 256; id mod 256; (clen / 256) mod 256; clen mod 256; pad_of clen; 0].
Definition write_record (ty id : N) (c : bytes) : bytes :=
  header ty id (len c) ++ c ++ repeat 0 (N.to_nat (pad_of (len c))).

(* streamWriter.Write behind bufio.Writer(65500) fed by io.Copy/ReadFrom: full 65500-byte
   records, then the remainder; bufWriter.Close adds the empty terminator. *)
Fixpoint chunks_f (fuel : nat) (n : nat) (l : bytes) : list bytes :=
  match fuel with
  | O => []
  | S f => match l with [] => [] | _ => firstn n l :: chunks_f f n (skipn n l) end
  end.
Definition chunks (n : nat) (l : bytes) : list bytes := chunks_f (length l) n l.

Definition stream_wire (ty id : N) (data : bytes) : bytes :=
  concat (map (write_record ty id) (chunks (N.to_nat MAXW) data)) ++ write_record ty id [].

(* writePairs: the value is cut when the ENCODED pair exceeds 65500 bytes: v[:vl] with
   vl = 65500-8-len(k), clamped at 0 when the name leaves no room (Go-checked slice);
   pairs are grouped into records by the nn+m > maxWrite rule. *)
Definition trunc_pair (kv : bytes * bytes) : res (bytes * bytes) :=
  let '(k, v) := kv in
  if MAXW <? len (encode_pair kv) then
    let vl := if MAXW <? 8 + len k then 0 else MAXW - 8 - len k in      (* if vl < 0 { vl = 0 } *)
    do v' <- slice v 0 (N.to_nat vl); Ok (k, v')                       (* v = v[:vl] *)
  else Ok kv.

Fixpoint trunc_all (ps : list (bytes * bytes)) : res (list (bytes * bytes)) :=
  match ps with
  | [] => Ok []
  | p :: r => do p' <- trunc_pair p; do r' <- trunc_all r; Ok (p' :: r')
  end.

(* bufio.Writer(65500).Flush behind the streamWriter: what has been written since the last flush
   leaves in records of 65500 bytes and a remainder.  As long as every encoded pair is at most
   65500 bytes (always, unless a NAME is longer than 65492) the nn rule flushes before the buffer
   overflows and this is a single record; a longer pair overflows the buffer, which bufio empties
   in full 65500-byte writes. *)
Definition flush (cur : list bytes) : list bytes := chunks (N.to_nat MAXW) (concat (rev cur)).
(* cur is what was written since the last flush as a reversed list of encoded pairs, nn the code's counter *)
Fixpoint group (es : list bytes) (nn : N) (cur : list bytes) : list bytes :=
  match es with
  | [] => flush cur
  | e :: r => if MAXW <? nn + len e then flush cur ++ group r (len e) [e]
              else group r (nn + len e) (e :: cur)
  end.

Definition params_records (ps : list (bytes * bytes)) : res (list bytes) :=
  do tps <- trunc_all ps; Ok (group (map encode_pair tps) 0 []).
Definition params_wire (id : N) (ps : list (bytes * bytes)) : res bytes :=
  do recs <- params_records ps;
  Ok (concat (map (write_record T_PARAMS id) recs) ++ write_record T_PARAMS id []).

Definition begin_record (id : N) : bytes := write_record T_BEGIN id [0; 1; 0; 0; 0; 0; 0; 0].

(* FCGIClient.Do: BeginRequest(Responder, flags 0), params, stdin *)
Definition request_wire (ps : list (bytes * bytes)) (body : option bytes) : res bytes :=
  do pw <- params_wire 1 ps;
  Ok (begin_record 1 ++ pw ++ stream_wire T_STDIN 1 (match body with Some b => b | None => [] end)).

(* a SEQUENCE of requests served by one process: every request is sent on a connection of its own, through
   record writers created for it (FCGIClient.newWriter allocates the stream writer and its 65500-byte buffer
   per stream) — nothing written, buffered or failed for one request is carried into the next, so the bytes of
   the i-th request are those of the request alone, whatever the others were *)
Definition sequence_wires (reqs : list (list (bytes * bytes) * option bytes)) : list (res bytes) :=
  map (fun q => request_wire (fst q) (snd q)) reqs.

(* ================= request side: a reference responder (FastCGI 1.0 spec, independent) ================= *)

Definition decode_size (w : bytes) : option (N * bytes) :=
  match w with
  | b0 :: r =>
      if b0 <? 128 then Some (b0, r)
      else match r with
           | b1 :: b2 :: b3 :: r' => Some ((b0 - 128) * 16777216 + b1 * 65536 + b2 * 256 + b3, r')
           | _ => None
           end
  | [] => None
  end.

Fixpoint decode_pairs_f (fuel : nat) (w : bytes) : option (list (bytes * bytes)) :=
  match w with
  | [] => Some []
  | _ =>
    match fuel with
    | O => None
    | S f =>
      match decode_size w with
      | Some (kl, w1) =>
        match decode_size w1 with
        | Some (vl, w2) =>
          if kl + vl <=? len w2 then
            let k := firstn (N.to_nat kl) w2 in
            let w3 := skipn (N.to_nat kl) w2 in
            match decode_pairs_f f (skipn (N.to_nat vl) w3) with
            | Some r => Some ((k, firstn (N.to_nat vl) w3) :: r)
            | None => None
            end
          else None
        | None => None
        end
      | None => None
      end
    end
  end.
Definition decode_pairs (w : bytes) : option (list (bytes * bytes)) := decode_pairs_f (length w) w.

(* one record: (type, request id, content, rest); padding length taken from the header *)
Definition parse_record (w : bytes) : option (N * N * bytes * bytes) :=
  match w with
  | v :: ty :: ih :: il :: ch :: cl :: pad :: _ :: rest =>
      if v =? 1 then
        let n := 256 * ch + cl in
        if n + pad <=? len rest
        then Some (ty, 256 * ih + il, firstn (N.to_nat n) rest, skipn (N.to_nat (n + pad)) rest)
        else None
      else None
  | _ => None
  end.

(* a stream = records of one type and id up to the first empty one *)
Fixpoint read_stream_f (fuel : nat) (ty id : N) (w : bytes) (acc : list bytes) : option (bytes * bytes) :=
  match fuel with
  | O => None
  | S f =>
    match parse_record w with
    | Some (t, i, c, rest) =>
        if (t =? ty) && (i =? id) then
          match c with
          | [] => Some (concat (rev acc), rest)
          | _ => read_stream_f f ty id rest (c :: acc)
          end
        else None
    | None => None
    end
  end.
Definition read_stream (ty id : N) (w : bytes) : option (bytes * bytes) :=
  read_stream_f (S (length w)) ty id w [].

(* what a conforming responder understands from the bytes of one request:
   (role, flags, name-value pairs in wire order, stdin) — None = not a well-formed request *)
Definition responder_receive (w : bytes) : option (N * N * list (bytes * bytes) * bytes) :=
  match parse_record w with
  | Some (t, id, [rh; rl; fl; _; _; _; _; _], w1) =>
      if t =? T_BEGIN then
        match read_stream T_PARAMS id w1 with
        | Some (pb, w2) =>
          match decode_pairs pb, read_stream T_STDIN id w2 with
          | Some ps, Some (body, []) => Some (256 * rh + rl, fl, ps, body)
          | _, _ => None
          end
        | None => None
        end
      else None
  | _ => None
  end.

(* ================= response side: record.read and streamReader.Read ================= *)

Inductive rerr := REOF | RUnexpected | RBadVersion.
Definition rerr_code (e : option rerr) : N :=
  match e with None => 0 | Some REOF => 1 | Some RUnexpected => 2 | Some RBadVersion => 3 end.

Inductive rr := RRec (ty : N) (content rest : bytes) | RErr (e : rerr) (rest : bytes).

(* record.read over the connection seen as a byte stream (binary.Read and io.ReadFull loop
   over partial reads).  Slices are Go-checked: rbuf[:n], rbuf[:ContentLength]. *)
Definition record_read (conn : bytes) : res rr :=
  match conn with
  | [] => Ok (RErr REOF [])
  | v :: ty :: _ :: _ :: ch :: cl :: pad :: _ :: rest =>
      if negb (v =? 1) then Ok (RErr RBadVersion rest)
      else if ty =? T_END then Ok (RErr REOF rest)
      else
        let c := 256 * ch + cl in
        let n := c + pad in
        (* rbuf = make([]byte, n); io.ReadFull(r, rbuf[:n]) *)
        match rest with
        | [] => if n =? 0 then Ok (RRec ty [] []) else Ok (RErr REOF [])
        | _ =>
          if len rest <? n then Ok (RErr RUnexpected [])
          else do rbuf <- slice rest 0 (N.to_nat n);
               do buf <- slice rbuf 0 (N.to_nat c);
               Ok (RRec ty buf (skipn (N.to_nat n) rest))
        end
  | _ => Ok (RErr RUnexpected [])
  end.

Record sreader := { s_conn : bytes; s_buf : bytes; s_stderr : list bytes (* reversed chunks *) }.
Definition stderr_of (s : sreader) : bytes := concat (rev (s_stderr s)).

(* the "filter outputs for error log" loop: next non-stderr record *)
Fixpoint next_out (fuel : nat) (conn : bytes) (se : list bytes) : res (option rerr * bytes * bytes * list bytes) :=
  match fuel with
  | O => Ok (Some RUnexpected, [], conn, se)       (* unreachable with fuel = S (length conn) *)
  | S f =>
    do r <- record_read conn;
    match r with
    | RErr e rest => Ok (Some e, [], rest, se)
    | RRec ty c rest =>
        if ty =? T_STDERR then next_out f rest (c :: se)
        else Ok (None, c, rest, se)
    end
  end.

(* streamReader.Read(p) with len(p) = m *)
Definition sr_read (s : sreader) (m : nat) : res (bytes * option rerr * sreader) :=
  match m with
  | O => Ok ([], None, s)
  | _ =>
    match s_buf s with
    | [] =>
      do x <- next_out (S (length (s_conn s))) (s_conn s) (s_stderr s);
      let '(e, buf, conn', se') := x in
      match e with
      | Some err => Ok ([], Some err, {| s_conn := conn'; s_buf := []; s_stderr := se' |})
      | None => Ok (firstn m buf, None, {| s_conn := conn'; s_buf := skipn m buf; s_stderr := se' |})
      end
    | b => Ok (firstn m b, None, {| s_conn := s_conn s; s_buf := skipn m b; s_stderr := s_stderr s |})
    end
  end.

(* a caller reading with successive buffer sizes until the first error *)
Fixpoint sr_read_all (s : sreader) (sizes : list nat) (acc : list bytes)
  : res (bytes * option rerr * sreader) :=
  match sizes with
  | [] => Ok (concat (rev acc), None, s)
  | m :: r =>
    do x <- sr_read s m;
    let '(d, e, s') := x in
    match e with
    | Some err => Ok (concat (rev (d :: acc)), Some err, s')
    | None => sr_read_all s' r (d :: acc)
    end
  end.
Definition sr_init (conn : bytes) : sreader := {| s_conn := conn; s_buf := []; s_stderr := [] |}.

(* the same reads seen call by call: (len(p), n, err) of every Read up to the first error.
   FCGIClient.Request consumes the reader through bufio.Reader, whose fill gives up with
   io.ErrNoProgress after 100 consecutive reads that return (0, nil): such "empty reads" are what
   decides whether a framing gets through, so they are part of the model's observable behaviour. *)
Fixpoint sr_reads (s : sreader) (sizes : list nat) : res (list (nat * nat * option rerr)) :=
  match sizes with
  | [] => Ok []
  | m :: r =>
    do x <- sr_read s m;
    let '(d, e, s') := x in
    match e with
    | Some _ => Ok [(m, length d, e)]
    | None => do t <- sr_reads s' r; Ok ((m, length d, None) :: t)
    end
  end.
(* Read(p) with len(p) > 0 returned (0, nil) *)
Definition empty_read (x : nat * nat * option rerr) : bool :=
  let '(m, n, e) := x in negb (Nat.eqb m 0) && Nat.eqb n 0 && match e with None => true | Some _ => false end.
Definition stalls (t : list (nat * nat * option rerr)) : nat := length (filter empty_read t).
(* longest run of consecutive empty reads (reads with len(p) = 0 are not made by bufio; they are
   skipped) *)
Fixpoint stall_run (t : list (nat * nat * option rerr)) (cur best : nat) : nat :=
  match t with
  | [] => Nat.max cur best
  | x :: r => if empty_read x then stall_run r (S cur) best
              else if Nat.eqb (fst (fst x)) 0 then stall_run r cur best
              else stall_run r 0 (Nat.max cur best)
  end.
Definition max_stall_run (t : list (nat * nat * option rerr)) : nat := stall_run t 0 0.
Definition BUFIO_EMPTY_READS : nat := 100.      (* bufio's maxConsecutiveEmptyReads *)
(* no bufio.Reader on top of these reads ever reports io.ErrNoProgress *)
Definition bufio_ok (t : list (nat * nat * option rerr)) : bool := Nat.ltb (max_stall_run t) BUFIO_EMPTY_READS.

(* a responder's record as scripted by the harness: type, content, padding length (padding
   bytes are 0xAA so that leaked padding is visible) *)
Definition enc_rec (r : N * bytes * N) : bytes :=
  let '(ty, c, pad) := r in
  [1; ty; 0; 1; (len c / 256) mod 256; len c mod 256; pad; 0] ++ c ++ repeat 170 (N.to_nat pad).
Definition end_rec : N * bytes * N := (T_END, [0; 0; 0; 0; 0; 0; 0; 0], 0).

Definition contents_of (ty : N) (recs : list (N * bytes * N)) : bytes :=
  concat (map (fun r => snd (fst r)) (filter (fun r => fst (fst r) =? ty) recs)).
(* everything that is not stderr is delivered as output (the code does not look at other types) *)
Definition stdout_of (recs : list (N * bytes * N)) : bytes :=
  concat (map (fun r => snd (fst r)) (filter (fun r => negb (fst (fst r) =? T_STDERR)) recs)).

Fixpoint before_end (recs : list (N * bytes * N)) : list (N * bytes * N) :=
  match recs with
  | [] => []
  | r :: t => if fst (fst r) =? T_END then [] else r :: before_end t
  end.
Definition has_end (recs : list (N * bytes * N)) : bool := existsb (fun r => fst (fst r) =? T_END) recs.
(* an output record without content: the only records on which Read returns (0, nil); a conforming
   responder sends one, as the terminator of its stdout stream *)
Definition empty_out (r : N * bytes * N) : bool :=
  negb (fst (fst r) =? T_STDERR) && match snd (fst r) with [] => true | _ => false end.

(* ---------- response head (Request): Status header or 200 ---------- *)
Definition is_digit (c : N) : bool := (48 <=? c) && (c <=? 57).
Fixpoint parse_dec_acc (s : bytes) (acc : N) : option N :=
  match s with
  | [] => Some acc
  | c :: r => if is_digit c then parse_dec_acc r (10 * acc + (c - 48)) else None
  end.
Definition parse_dec (s : bytes) : option N :=
  match s with [] => None | _ => parse_dec_acc s 0 end.

Definition upper_byte (c : N) : N := if (97 <=? c) && (c <=? 122) then c - 32 else c.
Definition to_upper (s : bytes) : bytes := map upper_byte s.

(* textproto.CanonicalMIMEHeaderKey on token characters *)
Fixpoint canon_from (up : bool) (s : bytes) : bytes :=
  match s with
  | [] => []
  | c :: r => (if up then upper_byte c else lower_byte c) :: canon_from (c =? 45) r
  end.
Definition canon_mime (s : bytes) : bytes := canon_from true s.

Fixpoint take_until (c : N) (s : bytes) : bytes :=
  match s with [] => [] | x :: r => if x =? c then [] else x :: take_until c r end.

Definition hdr_values (name : bytes) (fields : list (bytes * bytes)) : list bytes :=
  map snd (filter (fun f => beq (canon_mime (fst f)) name) fields).

(* None = the Status value is not a number, or a number outside 100..999: Request fails, the
   handler answers 502 *)
Definition resp_status (fields : list (bytes * bytes)) : option N :=
  match hdr_values (bs "Status") fields with
  | [] => Some 200
  | v :: _ => match v with
              | [] => Some 200
              | _ => match parse_dec (take_until 32 v) with
                     | Some c => if (c <? 100) || (999 <? c) then None else Some c
                     | None => None
                     end
              end
  end.

(* a conforming head as rendered by the harness, and the matching parser *)
Definition CRLF : bytes := [13; 10].
Definition render_head (fields : list (bytes * bytes)) : bytes :=
  concat (map (fun f => fst f ++ [58; 32] ++ snd f ++ CRLF) fields) ++ CRLF.

Fixpoint split_line (s : bytes) (cur : bytes) : option (bytes * bytes) :=
  match s with
  | [] => None
  | c :: r =>
      if (c =? 13) && (match r with d :: _ => d =? 10 | [] => false end) then Some (rev cur, tl r)
      else split_line r (c :: cur)
  end.
Fixpoint drop_sp (s : bytes) : bytes :=
  match s with c :: r => if c =? 32 then drop_sp r else s | [] => [] end.
Fixpoint parse_head_f (fuel : nat) (s : bytes) (acc : list (bytes * bytes)) : option (list (bytes * bytes) * bytes) :=
  match fuel with
  | O => None
  | S f =>
    match split_line s [] with
    | Some ([], rest) => Some (rev acc, rest)
    | Some (line, rest) =>
        let name := take_until 58 line in
        let v := drop_sp (skipn (S (length name)) line) in
        parse_head_f f rest ((name, v) :: acc)
    | None => None
    end
  end.
Definition parse_head (s : bytes) : option (list (bytes * bytes) * bytes) := parse_head_f (S (length s)) s [].

(* ================= dispatch decision of Handler.ServeHTTP ================= *)

Record rule := {
  r_path : bytes; r_ext : bytes; r_split : bytes; r_index : list bytes;
  r_except : list bytes; r_env : list (bytes * bytes); r_root : bytes }.

Definition SP : N := 32.
Fixpoint trim_right_rev (r : bytes) : bytes :=
  match r with c :: t => if (c =? SP) || (c =? DOT) then trim_right_rev t else r | [] => [] end.
Definition trim_right (s : bytes) : bytes := rev (trim_right_rev (rev s)).   (* strings.TrimRight(s, " .") *)

Definition fold (cs : bool) (s : bytes) : bytes := if cs then s else to_lower s.

(* strings.Index *)
Fixpoint index_from (hay needle : bytes) (i : nat) : option nat :=
  if has_prefix hay needle then Some i
  else match hay with [] => None | _ :: t => index_from t needle (S i) end.
Definition index_of (hay needle : bytes) : option nat := index_from hay needle 0.

Definition split_pos (cs : bool) (r : rule) (p : bytes) : option nat :=
  index_of (fold cs p) (fold cs (r_split r)).
Definition can_split (cs : bool) (r : rule) (p : bytes) : bool :=
  match split_pos cs r p with Some _ => true | None => false end.

(* path.Join of two elements *)
Definition path_join (a b : bytes) : bytes :=
  match a, b with
  | [], [] => []
  | [], _ => clean b
  | _, [] => clean a
  | _, _ => clean (a ++ [SLASH] ++ b)
  end.

Definition last_byte (s : bytes) : option N := match rev s with c :: _ => Some c | [] => None end.

Section Dispatch.
Variable cs : bool.
Variable stat_ok : bytes -> bool.     (* os.Stat(Root + p) succeeds *)
Variable open_ok : bytes -> bool.     (* http.Dir(Root).Open(p) succeeds *)

(* httpserver.IndexFile *)
Definition index_file (fpath : bytes) (idx : list bytes) : option bytes :=
  let fp := match fpath with [] => [SLASH] | _ => fpath end in
  if ends_with_slash fp then
    match find (fun i => open_ok (path_join fp i)) idx with
    | Some i => Some (path_join fp i)
    | None => None
    end
  else None.

Definition rule_matches (r : rule) (p : bytes) : bool :=
  path_matches cs p (r_path r) ||
  (negb (has_prefix p [SLASH]) && path_matches cs (SLASH :: p) (r_path r)).
Definition allowed (r : rule) (p : bytes) : bool :=
  forallb (fun ig => negb (path_matches cs (clean p) (path_join (r_path r) ig))) (r_except r).

(* OPanic is not produced by [serve] any more (C13_dispatch_no_panic); it is kept as the model-side
   counterpart of an observed panic *)
Inductive outcome := ONext | ODispatch (i : nat) (fpath : bytes) | O500 | OPanic.

Fixpoint serve (rules : list rule) (i : nat) (p : bytes) : outcome :=
  match rules with
  | [] => ONext
  | r :: rest =>
    if negb (rule_matches r p) then serve rest (S i) p
    else if negb (allowed r p) then serve rest (S i) p
    else
      let decide (f : bytes) : outcome :=
        (* !h.exists(fpath) || strings.HasSuffix(fpath, "/") || HasSuffix(lower fpath, lower ext) *)
        if negb (stat_ok f) then ODispatch i f
        else if ends_with_slash f || has_suffix (to_lower f) (to_lower (r_ext r))
             then ODispatch i f else serve rest (S i) p in
      let f0 := trim_right p in
      match index_file f0 (r_index r) with
      | Some idx => if can_split cs r idx then decide idx else O500
      | None => if can_split cs r f0 then decide f0 else serve rest (S i) p
      end
  end.
End Dispatch.

(* ================= the directive's setup: fastcgiParse / fastcgiPreset ================= *)
(* `fastcgi <path> <upstream> [preset] { ... }`: the rule starts from the directive line, the preset
   (if named) is applied FIRST, then the block's sub-directives in the order written. *)
Inductive item :=
| IExt (v : bytes) | ISplit (v : bytes) | IIndex (l : list bytes) | IExcept (l : list bytes)
| IEnv (k v : bytes) | IRoot (v : bytes)
| IOther.                                 (* upstream / timeouts: no effect on the fields modelled *)
Record rcfg := { c_path : bytes; c_preset : option bytes; c_items : list item }.

(* fastcgiPreset: the presets the code knows *)
Definition preset (name : bytes) (r : rule) : option rule :=
  if beq name (bs "php") then
    Some {| r_path := r_path r; r_ext := bs ".php"; r_split := bs ".php"; r_index := [bs "index.php"];
            r_except := r_except r; r_env := r_env r; r_root := r_root r |}
  else None.

Definition apply_item (r : rule) (it : item) : rule :=
  match it with
  | IExt v => {| r_path := r_path r; r_ext := v; r_split := r_split r; r_index := r_index r;
                 r_except := r_except r; r_env := r_env r; r_root := r_root r |}
  | ISplit v => {| r_path := r_path r; r_ext := r_ext r; r_split := v; r_index := r_index r;
                   r_except := r_except r; r_env := r_env r; r_root := r_root r |}
  | IIndex l => {| r_path := r_path r; r_ext := r_ext r; r_split := r_split r; r_index := l;
                   r_except := r_except r; r_env := r_env r; r_root := r_root r |}
  | IExcept l => {| r_path := r_path r; r_ext := r_ext r; r_split := r_split r; r_index := r_index r;
                    r_except := l; r_env := r_env r; r_root := r_root r |}
  | IEnv k v => {| r_path := r_path r; r_ext := r_ext r; r_split := r_split r; r_index := r_index r;
                   r_except := r_except r; r_env := r_env r ++ [(k, v)]; r_root := r_root r |}
  | IRoot v => {| r_path := r_path r; r_ext := r_ext r; r_split := r_split r; r_index := r_index r;
                  r_except := r_except r; r_env := r_env r; r_root := v |}
  | IOther => r
  end.

Definition rule0 (absroot path : bytes) : rule :=
  {| r_path := path; r_ext := []; r_split := []; r_index := []; r_except := []; r_env := []; r_root := absroot |}.

(* one directive occurrence; None = setup error (unknown preset name) *)
Definition parse_rule (absroot : bytes) (c : rcfg) : option rule :=
  let r0 := rule0 absroot (c_path c) in
  match c_preset c with
  | None => Some (fold_left apply_item (c_items c) r0)
  | Some name =>
      match preset name r0 with
      | Some r1 => Some (fold_left apply_item (c_items c) r1)
      | None => None
      end
  end.
(* the loop over the directive's occurrences returns at the first error *)
Fixpoint parse_rules (absroot : bytes) (cs : list rcfg) : option (list rule) :=
  match cs with
  | [] => Some []
  | c :: t => match parse_rule absroot c with
              | Some r => match parse_rules absroot t with Some rs => Some (r :: rs) | None => None end
              | None => None
              end
  end.

(* what the configuration SAYS (the spec side, written without the parser's state threading):
   a setting given in the block wins over the preset's value; the last one given wins; `env`
   entries accumulate in order; without block setting and without preset the field is empty *)
Fixpoint last_of {A} (f : item -> option A) (l : list item) (d : A) : A :=
  match l with
  | [] => d
  | it :: t => last_of f t (match f it with Some v => v | None => d end)
  end.
Definition preset_known (c : rcfg) : bool :=
  match c_preset c with None => true | Some n => beq n (bs "php") end.
Definition is_php (c : rcfg) : bool :=
  match c_preset c with Some n => beq n (bs "php") | None => false end.
Definition eff_rule (absroot : bytes) (c : rcfg) : rule :=
  let its := c_items c in
  {| r_path := c_path c;
     r_ext := last_of (fun it => match it with IExt v => Some v | _ => None end) its (if is_php c then bs ".php" else []);
     r_split := last_of (fun it => match it with ISplit v => Some v | _ => None end) its (if is_php c then bs ".php" else []);
     r_index := last_of (fun it => match it with IIndex l => Some l | _ => None end) its (if is_php c then [bs "index.php"] else []);
     r_except := last_of (fun it => match it with IExcept l => Some l | _ => None end) its [];
     r_env := flat_map (fun it => match it with IEnv k v => [(k, v)] | _ => [] end) its;
     r_root := last_of (fun it => match it with IRoot v => Some v | _ => None end) its absroot |}.

Definition rule_beq (a b : rule) : bool :=
  beq (r_path a) (r_path b) && beq (r_ext a) (r_ext b) && beq (r_split a) (r_split b) &&
  list_beq beq (r_index a) (r_index b) && list_beq beq (r_except a) (r_except b) &&
  list_beq (fun x y => beq (fst x) (fst y) && beq (snd x) (snd y)) (r_env a) (r_env b) &&
  beq (r_root a) (r_root b).

(* ================= buildEnv ================= *)

Record request := {
  q_method : bytes; q_path : bytes; q_query : bytes; q_requri : bytes; q_host : bytes;
  q_remote : bytes; q_proto : bytes; q_headers : list (bytes * list bytes);  (* canonical keys *)
  q_prefix : bytes; q_user : bytes; q_cl : Z;
  (* what the replacer of the configured env values sees beyond the fields above; the results of
     net/http's cookie parsing, net/url's query parsing and net.SplitHostPort are inputs *)
  q_cookies : list (bytes * bytes);       (* Request.Cookies(), in order *)
  q_qargs : list (bytes * bytes);         (* URL.Query(): the first value of every key *)
  q_osenv : list (bytes * bytes);         (* process environment (the names the generator uses) *)
  q_host_hp : option (bytes * bytes);     (* net.SplitHostPort(Host) *)
  q_remote_hp : option (bytes * bytes);   (* net.SplitHostPort(RemoteAddr) *)
  q_tls : option (N * N) }.               (* r.TLS: (Version, CipherSuite); no client certificate *)
Record server := { sv_name : bytes; sv_port : bytes; sv_software : bytes; sv_version : bytes }.

Fixpoint last_index_rev (r : bytes) (c : N) (n : nat) : option nat :=
  match r with [] => None | x :: t => if x =? c then Some n else last_index_rev t c (Nat.pred n) end.
Definition last_index (s : bytes) (c : N) : option nat := last_index_rev (rev s) c (Nat.pred (length s)).
Fixpoint remove_first (c : N) (s : bytes) : bytes :=
  match s with [] => [] | x :: t => if x =? c then t else x :: remove_first c t end.

Definition hdr_get (name : bytes) (h : list (bytes * list bytes)) : bytes :=
  match find (fun kv => beq (fst kv) name) h with
  | Some (_, v :: _) => v
  | _ => []
  end.

(* headerNameReplacer after ToUpper: ' ' and '-' become '_' *)
Definition env_name (field : bytes) : bytes :=
  bs "HTTP_" ++ map (fun c => if (c =? 32) || (c =? 45) then 95 else c) (to_upper field).

Fixpoint dec_f (fuel : nat) (n : N) (acc : bytes) : bytes :=
  match fuel with
  | O => acc
  | S f => let acc' := (48 + n mod 10) :: acc in if n <? 10 then acc' else dec_f f (n / 10) acc'
  end.
Definition dec (n : N) : bytes := dec_f 40 n [].

(* filepath.Join(root, x) *)
Definition fjoin (root x : bytes) : bytes := path_join root x.

(* the split of buildEnv with Go's checked slicing *)
Definition split_at (cs : bool) (r : rule) (f : bytes) : res (bytes * bytes) :=
  match split_pos cs r f with
  | None => Panic                                          (* fpath[:-1+len] — canSplit was checked before *)
  | Some pos =>
      let cut := (pos + length (r_split r))%nat in
      do d <- slice f 0 cut; do pi <- slice_from f cut; Ok (d, pi)
  end.

(* ---- TLS tables ---- *)
Definition tbl_get (k : N) (t : list (N * bytes)) : option bytes :=
  match find (fun kv => fst kv =? k) t with Some kv => Some (snd kv) | None => None end.
(* fastcgi.tlsProtocolStringToMap (mod_ssl names; it has no entry for TLS 1.3) *)
Definition SSL_PROTOCOLS : list (N * bytes) := [(769, bs "TLSv1"); (770, bs "TLSv1.1"); (771, bs "TLSv1.2")].
(* caskettls.SupportedProtocols, by version *)
Definition TLS_PROTOCOL_NAMES : list (N * bytes) :=
  [(769, bs "tls1.0"); (770, bs "tls1.1"); (771, bs "tls1.2"); (772, bs "tls1.3")].
(* caskettls.SupportedCiphersMap, by suite id (the ids are pairwise distinct, so the map's iteration
   order does not matter) *)
Definition TLS_CIPHER_NAMES : list (N * bytes) :=
  [(49196, bs "ECDHE-ECDSA-AES256-GCM-SHA384"); (49200, bs "ECDHE-RSA-AES256-GCM-SHA384");
   (49195, bs "ECDHE-ECDSA-AES128-GCM-SHA256"); (49199, bs "ECDHE-RSA-AES128-GCM-SHA256");
   (52393, bs "ECDHE-ECDSA-WITH-CHACHA20-POLY1305"); (52392, bs "ECDHE-RSA-WITH-CHACHA20-POLY1305");
   (49172, bs "ECDHE-RSA-AES256-CBC-SHA"); (49171, bs "ECDHE-RSA-AES128-CBC-SHA");
   (49162, bs "ECDHE-ECDSA-AES256-CBC-SHA"); (49161, bs "ECDHE-ECDSA-AES128-CBC-SHA");
   (53, bs "RSA-AES256-CBC-SHA"); (47, bs "RSA-AES128-CBC-SHA");
   (49170, bs "ECDHE-RSA-3DES-EDE-CBC-SHA"); (10, bs "RSA-3DES-EDE-CBC-SHA")].

(* "Some web apps rely on knowing HTTPS or not" *)
Definition env_tls (q : request) : list (bytes * bytes) :=
  match q_tls q with
  | None => []
  | Some (ver, cs) =>
      [(bs "HTTPS", bs "on")] ++
      match tbl_get ver SSL_PROTOCOLS with Some v => [(bs "SSL_PROTOCOL", v)] | None => [] end ++
      match tbl_get cs TLS_CIPHER_NAMES with Some v => [(bs "SSL_CIPHER", v)] | None => [] end
  end.

Definition env_base (sv : server) (r : rule) (q : request) (docuri pathinfo : bytes) : list (bytes * bytes) :=
  let '(ip0, port) := match last_index (q_remote q) 58 with
                      | Some i => (firstn i (q_remote q), skipn (S i) (q_remote q))
                      | None => (q_remote q, [])
                      end in
  let ip := remove_first 93 (remove_first 91 ip0) in
  let script0 := docuri in          (* TrimSuffix(fpath, pathInfo) *)
  [ (bs "AUTH_TYPE", []);
    (bs "CONTENT_LENGTH", hdr_get (bs "Content-Length") (q_headers q));
    (bs "CONTENT_TYPE", hdr_get (bs "Content-Type") (q_headers q));
    (bs "GATEWAY_INTERFACE", bs "CGI/1.1");
    (bs "PATH_INFO", pathinfo);
    (bs "QUERY_STRING", q_query q);
    (bs "REMOTE_ADDR", ip);
    (bs "REMOTE_HOST", ip);
    (bs "REMOTE_PORT", port);
    (bs "REMOTE_IDENT", []);
    (bs "REMOTE_USER", q_user q);
    (bs "REQUEST_METHOD", q_method q);
    (bs "REQUEST_SCHEME", match q_tls q with Some _ => bs "https" | None => bs "http" end);
    (bs "SERVER_NAME", sv_name sv);
    (bs "SERVER_PORT", sv_port sv);
    (bs "SERVER_PROTOCOL", q_proto q);
    (bs "SERVER_SOFTWARE", sv_software sv ++ [SLASH] ++ sv_version sv);
    (bs "DOCUMENT_ROOT", r_root r);
    (bs "DOCUMENT_URI", docuri);
    (bs "HTTP_HOST", q_host q);
    (bs "REQUEST_URI", q_requri q);
    (bs "SCRIPT_FILENAME", fjoin (r_root r) script0);
    (bs "SCRIPT_NAME", path_join (q_prefix q) script0) ] ++
  (* PATH_TRANSLATED only when PATH_INFO is not empty *)
  match pathinfo with [] => [] | _ => [(bs "PATH_TRANSLATED", fjoin (r_root r) pathinfo)] end ++
  env_tls q.

(* "Add all HTTP headers to env variables" *)
Definition hdr_pairs (q : request) : list (bytes * bytes) :=
  map (fun kv => (env_name (fst kv), join (bs ", ") (snd kv))) (q_headers q).

(* FCGIClient.Head/Get/Options/Post *)
Definition meth_of (q : request) : list (bytes * bytes) :=
  let clen := if (0 <? q_cl q)%Z then Z.to_N (q_cl q)
              else match parse_dec (hdr_get (bs "Content-Length") (q_headers q)) with Some n => n | None => 0 end in
  let m := q_method q in
  if beq m (bs "HEAD") then [(bs "REQUEST_METHOD", bs "HEAD"); (bs "CONTENT_LENGTH", bs "0")]
  else if beq m (bs "GET") then [(bs "REQUEST_METHOD", bs "GET"); (bs "CONTENT_LENGTH", dec clen)]
  else if beq m (bs "OPTIONS") then [(bs "REQUEST_METHOD", bs "OPTIONS"); (bs "CONTENT_LENGTH", bs "0")]
  else
    let um := to_upper m in
    [(bs "REQUEST_METHOD", if beq um [] || beq um (bs "GET") then bs "POST" else um);
     (bs "CONTENT_LENGTH", dec clen);
     (bs "CONTENT_TYPE", match hdr_get (bs "Content-Type") (q_headers q) with
                         | [] => bs "application/x-www-form-urlencoded" | ct => ct end)].

(* ---- "Add env variables from config (with support for placeholders in values)" ----
   replacer := httpserver.NewReplacer(r, nil, ""); env[k] = replacer.Replace(v).
   The replacer is C20's model (expand_env = Replace over getSubstitution); here is the request
   environment it runs in: no response recorder, no custom placeholders (no earlier replacer in the
   request context), and the EMPTY STRING as the empty value. *)
Definition CFG_EMPTY : bytes := [].        (* third argument of NewReplacer in buildEnv *)

(* C13's own table of the request-determined part of getSubstitution's default vocabulary (rr ==
   nil; no client certificate).  [empty] is the replacer's empty value.  It serves two purposes:
   (1) it is the DOCUMENTED table the executable spec reads ([cfg_expected], through C20's
   spec_subst), for every label; (2) the model reads from it the labels that [cfg_dispatch] marks
   Oracle: those C20 leaves to the harness ({hostonly} {remote} {port} {uri} {rewrite_uri}
   {server_port} {latency} {latency_ms}) and the three that depend on r.TLS, which C20's table
   fixes to plain HTTP.  For every label C20's table COMPUTES (Fn) the two coincide
   (cfg_fn_agrees in C13_Proofs).  Vocabulary entries that are not listed ({when…}, {hostname},
   {request}, {request_body}, the *_escaped ones) are outside the model: [cfg_judged] below
   keeps them out of the comparison. *)
Definition TLS_CONN_KEYS : list bytes := map bs ["{tls_protocol}"; "{tls_cipher}"].
Definition TLS_KEYS : list bytes :=
  map bs ["{tls_client_escaped_cert}"; "{tls_client_fingerprint}";
          "{tls_client_i_dn}"; "{tls_client_raw_cert}"; "{tls_client_s_dn}"; "{tls_client_serial}";
          "{tls_client_v_end}"; "{tls_client_v_remain}"; "{tls_client_v_start}"].
Definition REC_KEYS : list bytes := map bs ["{status}"; "{size}"; "{latency}"; "{latency_ms}"].
Definition cfg_defaults (empty : bytes) (q : request) : list (bytes * bytes) :=
  [ (bs "{method}", q_method q);
    (bs "{scheme}", match q_tls q with Some _ => bs "https" | None => bs "http" end);
    (bs "{tls_protocol}", match q_tls q with
                          | Some vc => match tbl_get (fst vc) TLS_PROTOCOL_NAMES with Some n => n | None => bs "tls" end
                          | None => empty end);
    (bs "{tls_cipher}", match q_tls q with
                        | Some vc => match tbl_get (snd vc) TLS_CIPHER_NAMES with Some n => n | None => bs "UNKNOWN" end
                        | None => empty end);
    (bs "{host}", q_host q);
    (bs "{hostonly}", match q_host_hp q with Some hp => fst hp | None => q_host q end);
    (bs "{path}", q_path q); (bs "{rewrite_path}", q_path q);
    (bs "{query}", q_query q); (bs "{fragment}", []); (bs "{proto}", q_proto q);
    (bs "{remote}", match q_remote_hp q with Some hp => fst hp | None => q_remote q end);
    (bs "{port}", match q_remote_hp q with Some hp => snd hp | None => empty end);
    (bs "{uri}", q_requri q); (bs "{rewrite_uri}", q_requri q);
    (bs "{file}", C20_Model.path_file (q_path q)); (bs "{dir}", C20_Model.path_dir (q_path q));
    (bs "{request_id}", []); (bs "{mitm}", bs "unknown");
    (bs "{server_port}", match q_host_hp q with
                         | Some hp => snd hp
                         | None => match q_tls q with Some _ => bs "443" | None => bs "80" end
                         end) ] ++
  map (fun k => (k, empty)) (REC_KEYS ++ TLS_KEYS).

Definition cfg_renv (empty : bytes) (q : request) : C20_Model.renv :=
  {| C20_Model.e_custom := []; C20_Model.e_reqh := q_headers q; C20_Model.e_resph := None;
     C20_Model.e_cookies := q_cookies q; C20_Model.e_query := q_qargs q; C20_Model.e_osenv := q_osenv q;
     C20_Model.e_defaults := cfg_defaults empty q; C20_Model.e_host := q_host q;
     C20_Model.e_empty := empty;
     (* buildEnv's replacer sees the request as the handler got it: the original URL of the
        context and r.URL are the harness's request URL; no recorder *)
     C20_Model.e_method := q_method q; C20_Model.e_path := q_path q; C20_Model.e_curpath := q_path q;
     C20_Model.e_rawquery := q_query q; C20_Model.e_proto := q_proto q; C20_Model.e_rec := None |}.

(* the dispatch table of getSubstitution's default vocabulary: C20's, with the three labels whose
   value depends on r.TLS handed in (C20's model has no TLS: its table fixes them to http / empty) *)
Definition TLS_DEP_KEYS : list bytes := map bs ["{scheme}"; "{tls_protocol}"; "{tls_cipher}"].
Definition cfg_dispatch : list (bytes * C20_Model.how) :=
  map (fun p => if C20_Model.mem (fst p) TLS_DEP_KEYS then (fst p, C20_Model.Oracle) else p) C20_Model.dispatch.

(* Replace over getSubstitution (C20's [expand] and [get_subst]) with that table; on plain HTTP
   this is C20_Model.expand_env itself (cfg_expand_plain_http in C13_Proofs) *)
Definition cfg_expand (q : request) (v : bytes) : res bytes :=
  C20_Model.expand (C20_Model.get_subst cfg_dispatch (cfg_renv CFG_EMPTY q)) v.
Fixpoint cfg_entries (q : request) (l : list (bytes * bytes)) : res (list (bytes * bytes)) :=
  match l with
  | [] => Ok []
  | kv :: r => do o <- cfg_expand q (snd kv); do r' <- cfg_entries q r; Ok ((fst kv, o) :: r')
  end.

(* the assignments to the env map in program order (later ones overwrite earlier ones) *)
Definition env_list (cs : bool) (sv : server) (r : rule) (q : request) (f : bytes) : res (list (bytes * bytes)) :=
  do dp <- split_at cs r f;
  do ce <- cfg_entries q (r_env r);
  Ok (env_base sv r q (fst dp) (snd dp) ++ ce ++ hdr_pairs q ++ meth_of q).

(* ---- executable statement for the configured entries, independent of [expand]: the documented
   reading of the value (C20's structural tokenizer and value table) with "" as the empty value ---- *)
Definition cfg_key_modelled (q : request) (k : bytes) : bool :=
  match C20_Model.assoc k cfg_dispatch with
  | None => true                                                 (* not in the vocabulary *)
  | Some _ => C20_Model.mem k (map fst (cfg_defaults [] q))      (* in C13's documented table *)
  end.
Definition cfg_judged (q : request) (v : bytes) : bool :=
  C20_Model.simple_fmt v && forallb (cfg_key_modelled q) (C20_Model.keys_of (C20_Model.spec_tokens v)).
Definition cfg_expected (q : request) (v : bytes) : bytes :=
  C20_Model.render (C20_Model.spec_subst (cfg_renv [] q)) (C20_Model.spec_tokens v).
Definition cfg_entry_ok (q : request) (v : bytes) (got : option bytes) : bool :=
  match got with
  | None => false
  | Some g => if cfg_judged q v then beq g (cfg_expected q v) else true
  end.

(* map semantics: the last assignment of a key wins *)
Definition env_lookup (k : bytes) (l : list (bytes * bytes)) : option bytes :=
  match find (fun kv => beq (fst kv) k) (rev l) with Some kv => Some (snd kv) | None => None end.
Definition sends_body (m : bytes) : bool := negb (beq m (bs "HEAD") || beq m (bs "OPTIONS")).

(* ================= case type and judge ================= *)

Definition lookup {A} (k : bytes) (l : list (bytes * A)) : option A :=
  match find (fun kv => beq (fst kv) k) l with Some kv => Some (snd kv) | None => None end.
Definition mem (k : bytes) (l : list bytes) : bool := existsb (beq k) l.
Fixpoint nodupb (l : list bytes) : bool :=
  match l with [] => true | x :: r => negb (mem x r) && nodupb r end.
Definition opt_beq (a b : option bytes) : bool :=
  match a, b with Some x, Some y => beq x y | None, None => true | _, _ => false end.
Definition is_prefix (p s : bytes) : bool := has_prefix s p.

(* "fits a single 65 500-byte record" *)
Definition fits (kv : bytes * bytes) : bool := len (encode_pair kv) <=? MAXW.

(* received pairs are exactly the expected map on the fitting pairs *)
Definition pairs_ok (expected got : list (bytes * bytes)) : bool :=
  nodupb (map fst got) &&
  (length got =? length expected)%nat &&
  forallb (fun kv => match lookup (fst kv) got with
                     | Some v => if fits kv then beq v (snd kv) else true
                     | None => false end) expected.

Definition reorder (keys : list bytes) (ps : list (bytes * bytes)) : list (bytes * bytes) :=
  let hit := flat_map (fun k => match lookup k ps with Some v => [(k, v)] | None => [] end) keys in
  hit ++ filter (fun kv => negb (mem (fst kv) keys)) ps.

(* ---------- the header block reader: textproto.Reader.ReadMIMEHeader over the responder's STDOUT
   byte stream, as FCGIClient.Request uses it (bufio.ReadLine line splitting, continuation lines,
   canonical keys, repeated keys, missing colon, bare LF and CRLF), then Request's Status rule ---------- *)
Definition is_ws (c : N) : bool := (c =? 32) || (c =? 9).
Fixpoint drop_ws (s : bytes) : bytes :=
  match s with c :: r => if is_ws c then drop_ws r else s | [] => [] end.
Definition trim_ws (s : bytes) : bytes := rev (drop_ws (rev (drop_ws s))).       (* textproto.trim *)

(* bufio.Reader.ReadLine: up to the first LF, ONE CR before it dropped; an unterminated last line is
   returned as it is.  Result: line, rest. *)
Fixpoint cut_lf (s cur : bytes) : bytes * bytes :=
  match s with
  | [] => (rev cur, [])
  | c :: r => if c =? 10 then (rev (match cur with 13 :: p => p | _ => cur end), r) else cut_lf r (c :: cur)
  end.
Definition next_line (s : bytes) : option (bytes * bytes) :=      (* None: io.EOF *)
  match s with [] => None | _ => Some (cut_lf s []) end.

(* readContinuedLineSlice's loop: `for r.skipSpace() > 0 { buf += ' ' + trim(next line) }` *)
Fixpoint cont_lines (fuel : nat) (buf s : bytes) : bytes * bytes :=
  match fuel with
  | O => (buf, s)
  | S f =>
    match s with
    | c :: _ =>
        if is_ws c then
          match next_line (drop_ws s) with
          | None => (buf ++ [32], [])
          | Some (l, rest) => cont_lines f (buf ++ 32 :: trim_ws l) rest
          end
        else (buf, s)
    | [] => (buf, [])
    end
  end.

Definition is_alnum (c : N) : bool :=
  ((48 <=? c) && (c <=? 57)) || ((65 <=? c) && (c <=? 90)) || ((97 <=? c) && (c <=? 122)).
Definition valid_field_byte (c : N) : bool :=      (* textproto.validHeaderFieldByte: RFC 7230 tchar *)
  is_alnum c || existsb (N.eqb c) [33; 35; 36; 37; 38; 39; 42; 43; 45; 46; 94; 95; 96; 124; 126].
Definition valid_value_byte (c : N) : bool :=      (* validHeaderValueByte: HTAB, SP, VCHAR, obs-text *)
  (c =? 9) || ((32 <=? c) && (c <=? 126)) || (128 <=? c).
(* canonicalMIMEHeaderKey: None = not a header key (the whole block is refused) *)
Definition mime_key (k : bytes) : option bytes :=
  match k with
  | [] => None
  | _ => if forallb (fun c => valid_field_byte c || (c =? 32)) k
         then Some (if existsb (N.eqb 32) k then k else canon_mime k)
         else None
  end.

Inductive mres := MErr | MHead (fields : list (bytes * bytes)) (rest : bytes).
Fixpoint mime_f (fuel : nat) (s : bytes) (acc : list (bytes * bytes)) : mres :=
  match fuel with
  | O => MErr                                   (* unreachable with fuel = S (length s) *)
  | S f =>
    match next_line s with
    | None => MHead (rev acc) []                (* io.EOF: Request goes on with what was parsed *)
    | Some ([], rest) => MHead (rev acc) rest
    | Some (line, rest) =>
        if negb (existsb (N.eqb 58) line) then MErr           (* mustHaveFieldNameColon *)
        else
          let '(kv, rest') := cont_lines (S (length rest)) (trim_ws line) rest in
          let k := take_until 58 kv in
          let v := skipn (S (length k)) kv in
          match mime_key k with
          | None => MErr
          | Some key => if forallb valid_value_byte v then mime_f f rest' ((key, drop_ws v) :: acc) else MErr
          end
    end
  end.
Definition mime_head (s : bytes) : mres :=
  match s with
  | c :: _ => if is_ws c then MErr else mime_f (S (length s)) s []     (* "malformed MIME header initial line" *)
  | [] => MHead [] []
  end.

(* Request's Status rule on the parsed multimap: Header.Get("Status") is the FIRST value stored under
   exactly "Status"; strconv.Atoi of what precedes the first space (a sign is accepted) *)
Definition first_value (key : bytes) (fields : list (bytes * bytes)) : bytes :=
  match filter (fun f => beq (fst f) key) fields with f :: _ => snd f | [] => [] end.
Definition atoi (s : bytes) : option Z :=
  match s with
  | 43 :: r => option_map Z.of_N (parse_dec r)
  | 45 :: r => option_map (fun n => Z.opp (Z.of_N n)) (parse_dec r)
  | _ => option_map Z.of_N (parse_dec s)
  end.
Definition status_of (fields : list (bytes * bytes)) : option N :=
  match first_value (bs "Status") fields with
  | [] => Some 200
  | v => match atoi (take_until 32 v) with
         | Some c => if (c <? 100)%Z || (999 <? c)%Z then None else Some (Z.to_N c)
         | None => None
         end
  end.
(* what the client side makes of the responder's output: None = Request fails (the handler answers 502) *)
Inductive hres := HFail | HResp (code : N) (fields : list (bytes * bytes)) (body : bytes).
Definition client_view (out : bytes) : hres :=
  match mime_head out with
  | MErr => HFail
  | MHead fields rest => match status_of fields with Some st => HResp st fields rest | None => HFail end
  end.
(* the multimap as a Go map presents it: values of one key in arrival order *)
Definition values_of (key : bytes) (fields : list (bytes * bytes)) : list bytes :=
  map snd (filter (fun f => beq (fst f) key) fields).
Definition multimap_ok (obs : list (bytes * list bytes)) (fields : list (bytes * bytes)) : bool :=
  nodupb (map fst obs) &&
  forallb (fun kv => list_beq beq (snd kv) (values_of (fst kv) fields) &&
                     negb (match snd kv with [] => true | _ => false end)) obs &&
  forallb (fun f => mem (fst f) (map fst obs)) fields.
(* a head rendered with a chosen line end (CRLF or bare LF) *)
Definition render_head_eol (eol : bytes) (fields : list (bytes * bytes)) : bytes :=
  concat (map (fun f => fst f ++ [58; 32] ++ snd f ++ eol) fields) ++ eol.

Record rscript := {
  rs_fields : list (bytes * bytes);     (* the responder's header fields, in order *)
  rs_body : list seg;
  rs_recs : list (N * list seg * N) }.  (* the framing it used: stdout/stderr records + EndRequest *)

Inductive sobs :=
| SNext
| SStatus (code : N)                     (* returned without contacting a responder *)
| SPanic
| SSetupError                            (* the directive's setup refused the configuration *)
| SDispatched (wire : list seg)          (* raw bytes the responder received *)
              (ret : N) (logerr : option bytes)   (* ServeHTTP's return: status, LogError text *)
              (status : N) (hdrs : list (bytes * list bytes)) (body : list seg).

Inductive case :=
| CWire (ps : list (list seg * list seg)) (hasbody : bool) (body : list seg) (wire : list seg) (panicked : bool)
| CDemux (recs : list (N * list seg * N)) (tail : list seg) (sizes : list N)
         (obs_data : list seg) (obs_err : N) (obs_stderr : list seg)
         (obs_reads : list N)               (* n of every Read call made *)
| CChild (checks : list (bytes * list seg * list seg))    (* label, expected, observed *)
| CServe (cs : bool) (sv : server)
         (absroot : bytes) (cfgs : list rcfg)   (* the site root and the fastcgi directives as written *)
         (rules : list rule)                    (* the rules the real setup produced from them *)
         (stat_tbl open_tbl : list (bytes * bool))
         (q : request) (qbody : list seg) (rs : rscript) (obs : sobs)
(* several responses being read at the same time: reader i reads stream i; the schedule says
   which reader makes the next Read call and with what buffer size *)
| COverlap (streams : list (list (N * list seg * N) * list seg)) (sched : list (N * N))
           (obs : list (list seg * N * list seg * list N))   (* per reader: delivered, error, stderr, n of every Read *)
(* cases whose runs overlapped in time (request i+1 was served completely during a body write of request i) *)
| CTogether (l : list case)
(* the header block reader: ONE responder output under two framings (each a record list that ends with
   its own END_REQUEST record, any appStatus / protocolStatus / padding), what FCGIClient.Request made
   of each — (0 = failed | status code, header multimap sorted by key, body, stderr collected) —
   and, when the output is a conforming rendering, its line end, fields and body *)
| CHead (recsA recsB : list (N * list seg * N))
        (conf : option (bytes * list (bytes * bytes) * list seg))
        (obsA obsB : N * list (bytes * list bytes) * list seg * list seg).

Definition exp_recs (l : list (N * list seg * N)) : list (N * bytes * N) :=
  map (fun r => (fst (fst r), expand (snd (fst r)), snd r)) l.

Definition tbl (t : list (bytes * bool)) (p : bytes) : bool :=
  match lookup p t with Some b => b | None => false end.
Definition tbl_has (t : list (bytes * bool)) (p : bytes) : bool :=
  match lookup p t with Some _ => true | None => false end.

(* header multimap comparison, the Status field left aside (CGI control field) *)
Definition hdrs_ok (obs : list (bytes * list bytes)) (fields : list (bytes * bytes)) : bool :=
  let st := bs "Status" in
  let obs' := filter (fun kv => negb (beq (fst kv) st)) obs in
  let fields' := filter (fun f => negb (beq (canon_mime (fst f)) st)) fields in
  nodupb (map fst obs') &&
  forallb (fun kv => list_beq beq (snd kv) (hdr_values (fst kv) fields') &&
                     negb (match snd kv with [] => true | _ => false end)) obs' &&
  forallb (fun f => mem (canon_mime (fst f)) (map fst obs')) fields'.

(* strings.TrimSuffix(s, "\n") — one pass (List.rev is quadratic, the logged text can be long) *)
Fixpoint trim_nl (s : bytes) : bytes :=
  match s with
  | [] => []
  | c :: r => match r with [] => if c =? 10 then [] else [c] | _ => c :: trim_nl r end
  end.

(* the spec of the split, on the observed variables *)
Definition split_ok (cs : bool) (split f docuri pathinfo : bytes) : bool :=
  beq (docuri ++ pathinfo) f &&
  has_suffix (fold cs docuri) (fold cs split) &&
  (* first occurrence: no proper prefix of docuri already ends with the split string *)
  match index_of (fold cs f) (fold cs split) with
  | Some pos => (pos + length split =? length docuri)%nat
  | None => false
  end.

Definition header_names_collide (h : list (bytes * list bytes)) : bool :=
  negb (nodupb (map (fun kv => env_name (fst kv)) h)).

Definition METHOD_VARS : list bytes := [bs "REQUEST_METHOD"; bs "CONTENT_LENGTH"; bs "CONTENT_TYPE"].

(* "exactly the CGI variables derived from the request" — evaluated on what the responder got *)
Definition env_spec (cs : bool) (sv : server) (r : rule) (q : request) (f : bytes) (bodylen : N)
           (got : list (bytes * bytes)) : bool :=
  let g k := match lookup (bs k) got with Some v => v | None => [] end in
  let has k := match lookup (bs k) got with Some _ => true | None => false end in
  let ov k := mem (bs k) (map fst (r_env r)) in
  let hn := map (fun kv => env_name (fst kv)) (q_headers q) in
  nodupb (map fst got) &&
  (* every header as HTTP_* (one of the colliding ones if two fields map to the same name) *)
  forallb (fun kv => negb (fits (env_name (fst kv), join (bs ", ") (snd kv))) ||
                     match lookup (env_name (fst kv)) got with
                     | Some v => existsb (fun kv' => beq (env_name (fst kv')) (env_name (fst kv)) &&
                                                     beq v (join (bs ", ") (snd kv'))) (q_headers q)
                     | None => false end) (q_headers q) &&
  (* nothing invented: every received name is standard, configured or a header *)
  forallb (fun kv => mem (fst kv) hn || mem (fst kv) (map fst (r_env r)) ||
                     mem (fst kv) (map bs ["AUTH_TYPE"; "CONTENT_LENGTH"; "CONTENT_TYPE"; "GATEWAY_INTERFACE";
                       "PATH_INFO"; "QUERY_STRING"; "REMOTE_ADDR"; "REMOTE_HOST"; "REMOTE_PORT"; "REMOTE_IDENT";
                       "REMOTE_USER"; "REQUEST_METHOD"; "REQUEST_SCHEME"; "SERVER_NAME"; "SERVER_PORT";
                       "SERVER_PROTOCOL"; "SERVER_SOFTWARE"; "DOCUMENT_ROOT"; "DOCUMENT_URI"; "HTTP_HOST";
                       "REQUEST_URI"; "SCRIPT_FILENAME"; "SCRIPT_NAME"; "PATH_TRANSLATED"]) ||
                     (match q_tls q with Some _ => true | None => false end &&
                      mem (fst kv) (map bs ["HTTPS"; "SSL_PROTOCOL"; "SSL_CIPHER"]))) got &&
  (* configured env entries (last one of a name wins) unless a header or the method variables override *)
  forallb (fun kv => mem (fst kv) hn || mem (fst kv) METHOD_VARS ||
                     match env_lookup (fst kv) (r_env r) with
                     | Some v => cfg_entry_ok q v (lookup (fst kv) got)   (* the expected expansion, "" for empty *)
                     | None => false
                     end) (r_env r) &&
  (* script name / path info split at the configured split string *)
  (mem (bs "DOCUMENT_URI") (map fst (r_env r)) || mem (bs "PATH_INFO") (map fst (r_env r)) ||
   mem (bs "SCRIPT_NAME") (map fst (r_env r)) ||
   (split_ok cs (r_split r) f (g "DOCUMENT_URI") (g "PATH_INFO") &&
    beq (g "SCRIPT_NAME") (path_join (q_prefix q) (g "DOCUMENT_URI")) &&
    beq (g "SCRIPT_FILENAME") (fjoin (r_root r) (g "DOCUMENT_URI")) &&
    (if beq (g "PATH_INFO") [] then negb (has "PATH_TRANSLATED")
     else beq (g "PATH_TRANSLATED") (fjoin (r_root r) (g "PATH_INFO"))))) &&
  (* request line and connection facts *)
  beq (g "REQUEST_METHOD") (q_method q) &&
  (mem (bs "QUERY_STRING") (map fst (r_env r)) || beq (g "QUERY_STRING") (q_query q)) &&
  (mem (bs "SERVER_PROTOCOL") (map fst (r_env r)) || beq (g "SERVER_PROTOCOL") (q_proto q)) &&
  (mem (bs "REQUEST_URI") (map fst (r_env r)) || beq (g "REQUEST_URI") (q_requri q)) &&
  (mem (bs "HTTP_HOST") (map fst (r_env r)) || mem (bs "HTTP_HOST") hn || beq (g "HTTP_HOST") (q_host q)) &&
  (mem (bs "DOCUMENT_ROOT") (map fst (r_env r)) || beq (g "DOCUMENT_ROOT") (r_root r)) &&
  (mem (bs "SERVER_NAME") (map fst (r_env r)) || beq (g "SERVER_NAME") (sv_name sv)) &&
  (mem (bs "SERVER_PORT") (map fst (r_env r)) || beq (g "SERVER_PORT") (sv_port sv)) &&
  (mem (bs "REMOTE_ADDR") (map fst (r_env r)) || mem (bs "REMOTE_PORT") (map fst (r_env r)) ||
   beq (q_remote q) (g "REMOTE_ADDR" ++ [58] ++ g "REMOTE_PORT") ||
   beq (q_remote q) ([91] ++ g "REMOTE_ADDR" ++ [93; 58] ++ g "REMOTE_PORT") ||
   (beq (g "REMOTE_PORT") [] && beq (q_remote q) (g "REMOTE_ADDR"))) &&
  beq (g "GATEWAY_INTERFACE") (bs "CGI/1.1") &&
  (ov "REMOTE_ADDR" || forallb (fun c => negb ((c =? 91) || (c =? 93))) (g "REMOTE_ADDR")) &&
  (ov "REMOTE_HOST" || ov "REMOTE_ADDR" || beq (g "REMOTE_HOST") (g "REMOTE_ADDR")) &&
  (ov "REMOTE_USER" || beq (g "REMOTE_USER") (q_user q)) &&
  (ov "SERVER_SOFTWARE" || beq (g "SERVER_SOFTWARE") (sv_software sv ++ [SLASH] ++ sv_version sv)) &&
  (ov "REQUEST_SCHEME" || beq (g "REQUEST_SCHEME") (match q_tls q with Some _ => bs "https" | None => bs "http" end)) &&
  (* HTTPS=on exactly on TLS connections; the mod_ssl variables only there *)
  (ov "HTTPS" || match q_tls q with Some _ => beq (g "HTTPS") (bs "on") | None => negb (has "HTTPS") end) &&
  (ov "SSL_PROTOCOL" || match q_tls q, lookup (bs "SSL_PROTOCOL") got with
                        | Some vc, Some v => opt_beq (Some v) (tbl_get (fst vc) SSL_PROTOCOLS)
                        | None, Some _ => false
                        | _, None => true end) &&
  (ov "SSL_CIPHER" || match q_tls q, lookup (bs "SSL_CIPHER") got with
                      | Some vc, Some v => opt_beq (Some v) (tbl_get (snd vc) TLS_CIPHER_NAMES)
                      | None, Some _ => false
                      | _, None => true end) &&
  (let ct := hdr_get (bs "Content-Type") (q_headers q) in
   beq ct [] || beq (g "CONTENT_TYPE") ct) &&
  (* a declared body length is announced as such *)
  (if (0 <=? q_cl q)%Z && sends_body (q_method q) then beq (g "CONTENT_LENGTH") (dec bodylen) else true).

Definition sobs_class (o : sobs) : N :=
  match o with SNext => 0 | SStatus _ => 1 | SPanic => 2 | SDispatched _ _ _ _ _ _ => 3 | SSetupError => 4 end.

Definition no_rule : rule :=
  {| r_path := []; r_ext := []; r_split := []; r_index := []; r_except := []; r_env := []; r_root := [] |}.

Definition judge_wire (ps0 : list (list seg * list seg)) (hasbody : bool) (body0 wire0 : list seg) (panicked : bool) : N :=
  let ps := map (fun kv => (expand (fst kv), expand (snd kv))) ps0 in
  let body := expand body0 in
  let wire := expand wire0 in
  let rcv := responder_receive wire in
  let order := match rcv with Some (_, _, got, _) => map fst got | None => [] end in
  let agree :=
    match request_wire (reorder order ps) (if hasbody then Some body else None) with
    | Ok w => negb panicked && beq w wire
    | Panic => panicked
    end in
  let spec :=
    if panicked then false            (* writing a request never panics, whatever the sizes *)
    else match rcv with
         | Some (role, flags, got, gotbody) =>
             (role =? 1) && (flags =? 0) && pairs_ok ps got &&
             beq gotbody (if hasbody then body else [])
         | None => false
         end in
  verdict agree spec.

Definition conforming (recs : list (N * bytes * N)) : bool :=
  forallb (fun r => let t := fst (fst r) in (t =? T_END) || (t =? T_STDOUT) || (t =? T_STDERR)) recs.

(* the observed reads as a trace: the error, if any, belongs to the last call *)
Fixpoint obs_trace (sizes : list N) (ns : list N) (oe : N) : list (nat * nat * option rerr) :=
  match sizes, ns with
  | m :: sr, n :: nr =>
      let last := match nr with [] => true | _ => false end in
      (N.to_nat m, N.to_nat n, if last && negb (oe =? 0) then Some REOF else None) :: obs_trace sr nr oe
  | _, _ => []
  end.
Definition trace_beq (a b : list (nat * nat * option rerr)) : bool :=
  list_beq (fun x y => Nat.eqb (fst (fst x)) (fst (fst y)) && Nat.eqb (snd (fst x)) (snd (fst y)) &&
                       Bool.eqb (match snd x with None => true | Some _ => false end)
                                (match snd y with None => true | Some _ => false end)) a b.

Definition judge_demux (recs0 : list (N * list seg * N)) (tail0 : list seg) (sizes : list N)
           (od0 : list seg) (oe : N) (os0 : list seg) (oreads : list N) : N :=
  let recs := exp_recs recs0 in
  let otrace := obs_trace sizes oreads oe in
  let od := expand od0 in
  let ostderr := expand os0 in
  let tail := expand tail0 in
  let wire := concat (map enc_rec recs) ++ tail in
  let agree :=
    match sr_read_all (sr_init wire) (map N.to_nat sizes) [] with
    | Ok (d, e, s') => beq d od && (rerr_code e =? oe) && beq (stderr_of s') ostderr
    | Panic => false
    end &&
    match sr_reads (sr_init wire) (map N.to_nat sizes) with
    | Ok t => trace_beq t otrace
    | Panic => false
    end in
  (* spec (conforming responders): only the bytes of stdout records before EndRequest are
     delivered, in order; stderr bytes are diverted; at a clean end nothing is missing *)
  let pre := before_end recs in
  let out := contents_of T_STDOUT pre in
  let err := contents_of T_STDERR pre in
  let spec :=
    if conforming recs && (has_end recs || match tail with [] => true | _ => false end) then
      is_prefix od out && is_prefix ostderr err &&
      (if oe =? 1 then beq od out && beq ostderr err else true) &&
      ((oe =? 0) || (oe =? 1)) &&
      (* progress: unless the responder itself sends 100 empty output records, the reader never
         makes the 100 consecutive empty reads at which bufio (FCGIClient.Request) gives up *)
      (Nat.leb BUFIO_EMPTY_READS (length (filter empty_out pre)) || bufio_ok otrace)
    else true in
  verdict agree spec.

(* ================= several streamReaders at once ================= *)
(* every Read call allocates its own record, so the readers of different responses share nothing:
   the state of the whole is the list of the readers' states *)
Record rstate := { rd_s : sreader; rd_acc : list bytes (* reversed *); rd_err : option rerr;
                   rd_trace : list (nat * nat * option rerr) (* reversed *) }.
Definition rd_init (conn : bytes) : rstate := {| rd_s := sr_init conn; rd_acc := []; rd_err := None; rd_trace := [] |}.
(* one Read call of a reader (a reader that has returned an error is not read again) *)
Definition rd_step (r : rstate) (m : nat) : res rstate :=
  match rd_err r with
  | Some _ => Ok r
  | None =>
    do x <- sr_read (rd_s r) m;
    let '(d, e, s') := x in
    Ok {| rd_s := s'; rd_acc := d :: rd_acc r; rd_err := e; rd_trace := (m, length d, e) :: rd_trace r |}
  end.
Fixpoint rd_run (r : rstate) (sizes : list nat) : res rstate :=
  match sizes with [] => Ok r | m :: t => do r' <- rd_step r m; rd_run r' t end.
Fixpoint upd_nth (i : nat) (f : rstate -> res rstate) (l : list rstate) : res (list rstate) :=
  match l, i with
  | [], _ => Ok []
  | r :: t, O => do r' <- f r; Ok (r' :: t)
  | r :: t, S j => do t' <- upd_nth j f t; Ok (r :: t')
  end.
Fixpoint run_sched (rs : list rstate) (sched : list (nat * nat)) : res (list rstate) :=
  match sched with
  | [] => Ok rs
  | (i, m) :: t => do rs' <- upd_nth i (fun r => rd_step r m) rs; run_sched rs' t
  end.
Definition sizes_of (i : nat) (sched : list (nat * nat)) : list nat :=
  map snd (filter (fun x => Nat.eqb (fst x) i) sched).
Definition rd_data (r : rstate) : bytes := concat (rev (rd_acc r)).

Definition wire_of (st : list (N * list seg * N) * list seg) : bytes :=
  concat (map enc_rec (exp_recs (fst st))) ++ expand (snd st).

Fixpoint all2 {A B} (f : A -> B -> bool) (a : list A) (b : list B) : bool :=
  match a, b with
  | [], [] => true
  | x :: a', y :: b' => f x y && all2 f a' b'
  | _, _ => false
  end.
Fixpoint seqn (n : nat) (i : nat) : list nat := match n with O => [] | S k => i :: seqn k (S i) end.

Definition judge_overlap (streams : list (list (N * list seg * N) * list seg)) (sched0 : list (N * N))
           (obs : list (list seg * N * list seg * list N)) : N :=
  let sched := map (fun x => (N.to_nat (fst x), N.to_nat (snd x))) sched0 in
  (* every reader judged on ITS OWN stream and its own reads (model and spec of the single-reader case) *)
  let vs := map (fun i =>
              match nth_error streams i, nth_error obs i with
              | Some st, Some (od, oe, os, ors) =>
                  judge_demux (fst st) (snd st) (map N.of_nat (sizes_of i sched)) od oe os ors
              | _, _ => 3
              end) (seqn (length streams) 0) in
  (* the model of the interleaved execution *)
  let agree_sched :=
    match run_sched (map (fun st => rd_init (wire_of st)) streams) sched with
    | Ok rs => all2 (fun (r : rstate) (o : list seg * N * list seg * list N) => let '(od, oe, os, ors) := o in
                           beq (rd_data r) (expand od) && (rerr_code (rd_err r) =? oe) &&
                           beq (stderr_of (rd_s r)) (expand os)) rs obs
    | Panic => false
    end in
  verdict (agree_sched && forallb (fun v => negb (N.odd v)) vs && Nat.eqb (length obs) (length streams))
          (forallb (fun v => v <? 2) vs).

Section Serve.
Variables (cs : bool) (sv : server) (rules : list rule) (stat_tbl open_tbl : list (bytes * bool))
          (q : request) (qbody : bytes) (rs : rscript).

Definition sv_recs := exp_recs (rs_recs rs).
Definition sv_out := stdout_of (before_end sv_recs).
Definition sv_errtxt := contents_of T_STDERR (before_end sv_recs).
Definition sv_logged : option bytes := match sv_errtxt with [] => None | _ => Some (trim_nl sv_errtxt) end.
Definition sv_model := serve cs (tbl stat_tbl) (tbl open_tbl) rules 0 (q_path q).

(* model prediction vs observation *)
(* two header fields can map to the same HTTP_* name; which one survives depends on Go's map
   iteration order, so for those names the model takes the observed one (checked to be one of them) *)
Definition hdr_collides (k : bytes) : bool :=
  Nat.ltb 1 (length (filter (fun h => beq (env_name (fst h)) k) (q_headers q))).
Definition coll_ok (kv : bytes * bytes) : bool :=
  existsb (fun h => beq (env_name (fst h)) (fst kv) && beq (join (bs ", ") (snd h)) (snd kv)) (q_headers q).
Definition agree_env (i : nat) (f : bytes) (wire : bytes) : bool :=
  match env_list cs sv (nth i rules no_rule) q f, responder_receive wire with
  | Ok el0, Some (role, flags, got, gotbody) =>
      let fixd := filter (fun kv => hdr_collides (fst kv)) got in
      let el := el0 ++ fixd in
      forallb coll_ok fixd &&
      nodupb (map fst got) &&
      forallb (fun kv => opt_beq (env_lookup (fst kv) el) (Some (snd kv))) got &&
      forallb (fun kv => mem (fst kv) (map fst got)) el &&
      match request_wire (map (fun k => (k, match env_lookup k el with Some v => v | None => [] end)) (map fst got))
                         (if sends_body (q_method q) then Some qbody else None) with
      | Ok w => beq w wire | Panic => false end
  | _, _ => false
  end.
Definition agree_resp (ret : N) (logerr : option bytes) (status : N) (hdrs : list (bytes * list bytes)) (body : bytes) : bool :=
  match parse_head sv_out with
  | Some (fields, rbody) =>
      match resp_status fields with
      | Some st => (ret =? 0) && (status =? st) && beq body rbody && hdrs_ok hdrs fields && opt_beq logerr sv_logged
      | None => ret =? 502
      end
  | None => true       (* not a conforming head: left to the spec *)
  end.
Definition serve_agree (obs : sobs) : bool :=
  match sv_model, obs with
  | ONext, SNext => true
  | O500, SStatus 500 => true
  | OPanic, SPanic => true
  | ODispatch i f, SDispatched wire0 ret logerr status hdrs body0 =>
      agree_env i f (expand wire0) && agree_resp ret logerr status hdrs (expand body0)
  | _, _ => false
  end.

(* the property, on the observation *)
Definition f0 := trim_right (q_path q).
Definition under (r : rule) : bool := rule_matches cs r (q_path q) && allowed cs r (q_path q).
(* an existing file with the rule's extension, in any letter case, under the rule's path *)
Definition ext_file (r : rule) : bool :=
  under r && (tbl stat_tbl f0 || tbl open_tbl f0) &&      (* exists for os.Stat or for the static file server *)
  negb (beq (r_ext r) []) && has_suffix (to_lower f0) (to_lower (r_ext r)).
Definition spec_dispatch (obs : sobs) : bool :=
  if existsb ext_file rules then sobs_class obs =? 3 else negb (sobs_class obs =? 2).

Definition spec_request (wire : bytes) : bool :=
  match responder_receive wire with
  | Some (role, flags, got, gotbody) =>
      (role =? 1) &&
      match lookup (bs "VERIF_RULE") got with           (* the configured marker says which rule *)
      | Some ri =>
          match parse_dec ri with
          | Some i =>
              let r := nth (N.to_nat i) rules no_rule in
              (* the script the variables describe is the request path or its index file *)
              let f := match lookup (bs "DOCUMENT_URI") got, lookup (bs "PATH_INFO") got with
                       | Some d, Some pi => d ++ pi | _, _ => [] end in
              let dir := match f0 with [] => [SLASH] | _ => f0 end in
              under r &&
              (beq f f0 || existsb (fun ix => beq f (path_join dir ix) && ends_with_slash dir && tbl open_tbl f) (r_index r)) &&
              env_spec cs sv r q f (len qbody) got &&
              beq gotbody (if sends_body (q_method q) then qbody else [])
          | None => false
          end
      | None => false
      end
  | None => false
  end.
Definition spec_response (ret : N) (logerr : option bytes) (status : N) (hdrs : list (bytes * list bytes)) (body : bytes) : bool :=
  beq sv_out (render_head (rs_fields rs) ++ expand (rs_body rs)) &&
  match resp_status (rs_fields rs) with
  | Some st => (ret =? 0) && (status =? st) && beq body (expand (rs_body rs)) &&
               hdrs_ok hdrs (rs_fields rs) && opt_beq logerr sv_logged
  | None => ret =? 502
  end.
Definition spec_io (obs : sobs) : bool :=
  match obs with
  | SDispatched wire0 ret logerr status hdrs body0 =>
      spec_request (expand wire0) && spec_response ret logerr status hdrs (expand body0)
  | _ => true
  end.
End Serve.

(* the serve case: the rules the real setup produced are compared with the parser model and drive the
   model of ServeHTTP; the SPEC is evaluated against what the configuration says (eff_rule: block
   settings override the preset), never against what the setup made of it *)
Definition judge_serve (cs : bool) (sv : server) (absroot : bytes) (cfgs : list rcfg) (rules : list rule)
           (stat_tbl open_tbl : list (bytes * bool)) (q : request) (qbody : bytes) (rs : rscript) (obs : sobs) : N :=
  let declared := map (eff_rule absroot) cfgs in
  let known := forallb preset_known cfgs in
  match obs with
  | SSetupError =>
      verdict (match parse_rules absroot cfgs with None => true | Some _ => false end)
              (negb known)                 (* a configuration naming only known presets is accepted *)
  | _ =>
      verdict (match parse_rules absroot cfgs with Some rl => list_beq rule_beq rl rules | None => false end &&
               serve_agree cs sv rules stat_tbl open_tbl q qbody rs obs)
              (known && list_beq rule_beq declared rules &&
               spec_dispatch cs declared stat_tbl open_tbl q obs && spec_io cs sv declared open_tbl q qbody rs obs)
  end.

(* ---------- the head cases ---------- *)
Definition hobs := (N * list (bytes * list bytes) * list seg * list seg)%type.
Definition head_out (recs : list (N * bytes * N)) : bytes := stdout_of (before_end recs).
Definition head_agree (recs : list (N * bytes * N)) (o : hobs) : bool :=
  let '(code, hdrs, body, err) := o in
  match client_view (head_out recs) with
  | HFail => code =? 0
  | HResp st f b => (code =? st) && multimap_ok hdrs f && beq (expand body) b &&
                    beq (expand err) (contents_of T_STDERR (before_end recs))
  end.
Definition hdrs_beq (a b : list (bytes * list bytes)) : bool :=
  list_beq (fun x y => beq (fst x) (fst y) && list_beq beq (snd x) (snd y)) a b.
(* the clause "a function of the STDOUT bytes only", on the two observations *)
Definition head_same (a b : hobs) : bool :=
  let '(ca, ha, ba, _) := a in let '(cb, hb, bb, _) := b in
  (ca =? cb) && ((ca =? 0) || (hdrs_beq ha hb && beq (expand ba) (expand bb))).
(* stderr goes to the error log only, complete, whenever the response was delivered *)
Definition head_stderr_ok (recs : list (N * bytes * N)) (o : hobs) : bool :=
  let '(code, _, _, err) := o in (code =? 0) || beq (expand err) (contents_of T_STDERR (before_end recs)).
Definition no_edge_ws (v : bytes) : bool :=
  match v with [] => true | c :: _ => negb (is_ws c) && negb (is_ws (last v 0)) end.
Definition conf_fieldb (f : bytes * bytes) : bool :=
  negb (beq (fst f) []) && forallb valid_field_byte (fst f) &&
  forallb valid_value_byte (snd f) && no_edge_ws (snd f) &&
  negb (beq (canon_mime (fst f)) (bs "Transfer-Encoding")).
(* a conforming head (CRLF or bare LF line ends): the client gets exactly these fields, status, body *)
Definition head_conf_ok (out : bytes) (conf : option (bytes * list (bytes * bytes) * list seg)) (o : hobs) : bool :=
  match conf with
  | None => true
  | Some (eol, fl, body0) =>
      let '(code, hdrs, body, _) := o in
      if beq out (render_head_eol eol fl ++ expand body0) && forallb conf_fieldb fl &&
         (beq eol CRLF || beq eol [10])
      then match resp_status fl with
           | Some st => (code =? st) && hdrs_ok hdrs fl && beq (expand body) (expand body0)
           | None => code =? 0
           end
      else false          (* the harness claimed a conforming rendering that is not one *)
  end.
Definition judge_head (recsA0 recsB0 : list (N * list seg * N))
           (conf : option (bytes * list (bytes * bytes) * list seg)) (oa ob : hobs) : N :=
  let ra := exp_recs recsA0 in let rb := exp_recs recsB0 in
  verdict (head_agree ra oa && head_agree rb ob)
          ((if beq (head_out ra) (head_out rb) then head_same oa ob else true) &&
           head_stderr_ok ra oa && head_stderr_ok rb ob &&
           head_conf_ok (head_out ra) conf oa && (if beq (head_out ra) (head_out rb) then head_conf_ok (head_out rb) conf ob else true)).

Fixpoint judge (c : case) : N :=
  match c with
  | CWire ps hasbody body wire panicked => judge_wire ps hasbody body wire panicked
  | CDemux recs tail sizes od oe os ors => judge_demux recs tail sizes od oe os ors
  | CChild checks =>
      (* Go's own net/http/fcgi responder as the peer: what it understood / what the client got
         back must equal what was sent (the comparison is the spec; there is no model part) *)
      verdict true (forallb (fun c => beq (expand (snd (fst c))) (expand (snd c))) checks)
  | CServe cs sv absroot cfgs rules stat_tbl open_tbl q qbody0 rs obs =>
      judge_serve cs sv absroot cfgs rules stat_tbl open_tbl q (expand qbody0) rs obs
  | COverlap streams sched obs => judge_overlap streams sched obs
  | CTogether l =>
      (* every one of them is judged as if it had run alone: disagreement / violation of any of them *)
      fold_right (fun c acc => N.lor (judge c) acc) 0 l
  | CHead recsA recsB conf oa ob => judge_head recsA recsB conf oa ob
  end.
