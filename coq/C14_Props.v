(* C14 — property theorems only.  Each is closed by [exact] of a lemma proved in
   C14_Proofs.v and followed by Print Assumptions.

   [reachable c sel s]: s is produced from the idle server by ANY finite sequence of atomic
   steps (any scheduler, any number of requests — LSpawn adds one —, any per-request outcome:
   success, backend error, client cancel, body too large, panic; any retry decisions; timers
   firing at any moment at or after their deadline), for ANY selection function [sel]
   (any policy, sound or not) and ANY max_conns / max_fails / fail_timeout. *)
Require Import V.Lib V.C14_Model V.C14_Proofs.
Open Scope Z_scope.

(* In-flight accounting is exact: under every interleaving and whatever the outcomes, Conns of a
   backend is the number of requests currently between the increment and the deferred decrement
   around the forward call to it. *)
Theorem C14_conns_counts_forwarding :
  forall c sel s h, reachable c sel s -> conns s h = cnt (is_fwd h) (threads s).
Proof. exact conns_counts_forwarding. Qed.
Print Assumptions C14_conns_counts_forwarding.

Theorem C14_conns_bounds :
  forall c sel s h, reachable c sel s -> 0 <= conns s h <= Z.of_nat (length (threads s)).
Proof. exact conns_bounds. Qed.
Print Assumptions C14_conns_bounds.

(* ... and returns to zero when traffic stops: no request being forwarded to h => Conns h = 0;
   in particular when every request has completed (with whatever result). *)
Theorem C14_conns_zero_when_none_forwarding :
  forall c sel s h, reachable c sel s ->
  (forall p, In p (threads s) -> p <> Forwarding h) -> conns s h = 0.
Proof. exact conns_zero_when_none_forwarding. Qed.
Print Assumptions C14_conns_zero_when_none_forwarding.

Theorem C14_conns_zero_at_quiescence :
  forall c sel s, reachable c sel s -> forallb is_done (threads s) = true -> forall h, conns s h = 0.
Proof. exact conns_zero_at_quiescence. Qed.
Print Assumptions C14_conns_zero_at_quiescence.

Example C14_conns_zero_at_quiescence_nonvacuous :
  match run cfg_cap1 (sel_first cfg_cap1) (init 0)
            [LSpawn; LSelect 0; LBegin 0; LFinish 0 OPanic] with
  | Some s => forallb is_done (threads s) = true /\ conns s 0%nat = 0
  | None => False
  end.
Proof. vm_compute. split; reflexivity. Qed.

(* Failure accounting: Fails of a backend is the number of its expiry goroutines still asleep; a
   recorded failure is never dropped before fail_timeout has elapsed; and when the goroutines
   run on time ([prompt]: none is overdue) Fails is EXACTLY the number of failures recorded for
   the backend less than fail_timeout ago. *)
Theorem C14_fails_counts_sleeping_timers :
  forall c sel s h, reachable c sel s -> fails s h = cnt (for_host h) (timers s).
Proof. exact fails_counts_timers. Qed.
Print Assumptions C14_fails_counts_sleeping_timers.

Theorem C14_failure_counted_at_least_fail_timeout :
  forall c sel s h, reachable c sel s -> unexpired c s h <= fails s h.
Proof. exact fails_ge_unexpired. Qed.
Print Assumptions C14_failure_counted_at_least_fail_timeout.

Theorem C14_fails_counts_unexpired :
  forall c sel s h, reachable c sel s -> prompt s -> fails s h = unexpired c s h.
Proof. exact fails_counts_unexpired. Qed.
Print Assumptions C14_fails_counts_unexpired.

(* A backend is treated as down exactly while it is unhealthy or has at least max_fails
   unexpired failures. *)
Theorem C14_down_iff_maxfails :
  forall c sel s h, reachable c sel s -> prompt s ->
  (down c s h = true <-> c_unhealthy c h = true \/ c_max_fails c <= unexpired c s h).
Proof. exact down_iff_maxfails. Qed.
Print Assumptions C14_down_iff_maxfails.

(* without the timeliness assumption one direction survives: never up while max_fails failures are unexpired *)
Theorem C14_down_while_maxfails_unexpired :
  forall c sel s h, reachable c sel s ->
  c_unhealthy c h = true \/ c_max_fails c <= unexpired c s h -> down c s h = true.
Proof. exact down_while_maxfails_unexpired. Qed.
Print Assumptions C14_down_while_maxfails_unexpired.

Example C14_down_iff_maxfails_nonvacuous :
  match run cfg_cap1 (sel_first cfg_cap1) (init 0)
            [LSpawn; LSelect 0; LBegin 0; LFinish 0 OError; LRecord 0 true; LTick 9] with
  | Some s => promptb s = true /\ unexpired cfg_cap1 s 0%nat = 1 /\ down cfg_cap1 s 0%nat = true
  | None => False
  end.
Proof. vm_compute. repeat split; reflexivity. Qed.

(* The fail count also returns to zero: once every failure of h is older than fail_timeout
   (and the goroutines ran on time) Fails h = 0; with fail_timeout <= 0 nothing is ever counted
   and a healthy backend is never down; and from every reachable state letting time pass and
   the sleeping goroutines run brings every Fails to zero without touching Conns. *)
Theorem C14_fails_zero_when_all_expired :
  forall c sel s h, reachable c sel s -> prompt s ->
  (forall e, In e (flog s) -> fst e = h -> snd e + c_fail_timeout c <= now s) -> fails s h = 0.
Proof. exact fails_zero_when_all_expired. Qed.
Print Assumptions C14_fails_zero_when_all_expired.

Theorem C14_fails_nonneg :
  forall c sel s h, reachable c sel s -> 0 <= fails s h.
Proof. exact fails_nonneg. Qed.
Print Assumptions C14_fails_nonneg.

Theorem C14_no_counting_when_fail_timeout_off :
  forall c sel s h, reachable c sel s -> c_fail_timeout c <= 0 -> fails s h = 0.
Proof. exact no_counting_when_disabled. Qed.
Print Assumptions C14_no_counting_when_fail_timeout_off.

Theorem C14_never_down_when_fail_timeout_off :
  forall c sel s h, reachable c sel s -> c_fail_timeout c <= 0 -> 1 <= c_max_fails c ->
  down c s h = c_unhealthy c h.
Proof. exact never_down_when_disabled. Qed.
Print Assumptions C14_never_down_when_fail_timeout_off.

Theorem C14_fails_return_to_zero :
  forall c sel s, reachable c sel s ->
  exists ls s', run c sel s ls = Some s' /\ reachable c sel s' /\
                (forall h, fails s' h = 0) /\ threads s' = threads s /\ conns s' = conns s.
Proof. exact fails_drain. Qed.
Print Assumptions C14_fails_return_to_zero.

(* The cap.  Under EVERY schedule, for EVERY selection function (sound or not) and any number of
   requests, Conns of a backend never exceeds max_conns — and therefore neither does the number
   of requests being forwarded to it: acquireConn increments Conns only in the atomic step that
   also sees the host below the cap.  (F-C14-1, fixed: the increment used to be unconditional, and
   the schedule spawn, spawn, select 0, select 1, begin 0, begin 1 gave Conns = 2 with max_conns 1.) *)
Theorem C14_conns_le_max :
  forall c sel s h, 0 < c_max_conns c -> reachable c sel s -> conns s h <= c_max_conns c.
Proof. exact conns_le_max. Qed.
Print Assumptions C14_conns_le_max.

Theorem C14_forwarding_le_max :
  forall c sel s h, 0 < c_max_conns c -> reachable c sel s -> cnt (is_fwd h) (threads s) <= c_max_conns c.
Proof. exact forwarding_le_max. Qed.
Print Assumptions C14_forwarding_le_max.

(* the schedule that used to overshoot: the second request finds the host full and is not counted *)
Example C14_conns_le_max_nonvacuous :
  match run cfg_cap1 (sel_first cfg_cap1) (init 0) sched_window with
  | Some s => conns s 0%nat = 1 /\ nth_error (threads s) 0 = Some (Forwarding 0) /\
              nth_error (threads s) 1 = Some (Selected None)
  | None => False
  end.
Proof. vm_compute. repeat split; reflexivity. Qed.

(* Leaving the window: a request is forwarded to the host it holds exactly when that host is not
   full at that instant (and is then counted); otherwise nothing is counted and the request takes
   the no-host path (retry within try_duration, or 502). *)
Theorem C14_begin_forwards_unless_full :
  forall c sel s t h s',
  nth_error (threads s) t = Some (Selected (Some h)) -> step c sel s (LBegin t) = Some s' ->
  (full c s h = false -> nth_error (threads s') t = Some (Forwarding h) /\ conns s' h = conns s h + 1) /\
  (full c s h = true -> nth_error (threads s') t = Some (Selected None) /\ conns s' = conns s).
Proof. exact begin_forwards_unless_full. Qed.
Print Assumptions C14_begin_forwards_unless_full.

(* in every schedule a sound selector hands out a host only when it is neither down nor full
   at that instant *)
Theorem C14_selected_host_available :
  forall c sel s t s' h, sel_sound c sel -> step c sel s (LSelect t) = Some s' ->
  nth_error (threads s') t = Some (Selected (Some h)) -> available c s h = true.
Proof. exact select_not_full. Qed.
Print Assumptions C14_selected_host_available.

(* the concrete selectors (staticUpstream.Select with First / RoundRobin) are sound *)
Theorem C14_selectors_sound :
  forall pol c, sel_sound c (sel_of pol c).
Proof. exact sel_of_sound. Qed.
Print Assumptions C14_selectors_sound.

(* The states the correspondence check compares the real counters with are reachable and
   prompt states of this transition system, so every theorem above speaks about them. *)
Theorem C14_harness_states_reachable :
  forall c sel r n, reachable c sel (init_threads r n) /\ prompt (init_threads r n).
Proof. exact harness_states_reachable. Qed.
Print Assumptions C14_harness_states_reachable.

Theorem C14_harness_steps_reachable :
  forall c sel s h s' e, reachable c sel s -> prompt s -> hexec c sel s h = Some (s', e) ->
  reachable c sel s' /\ prompt s'.
Proof. exact harness_steps_reachable. Qed.
Print Assumptions C14_harness_steps_reachable.

(* max_fails: the literal is parsed with a 32-bit size, so whatever setup accepts is stored
   unchanged as the int32 threshold — the backend is down exactly from max_fails outstanding
   failures on, for every accepted value — and exactly the values 1 .. 2^31-1 are accepted
   (F-C14-2, fixed: larger values used to be accepted and truncated). *)
Theorem C14_max_fails_stored :
  forall n m, parse_max_fails n = Some m -> m = n /\ 1 <= m.
Proof. exact max_fails_stored. Qed.
Print Assumptions C14_max_fails_stored.

Theorem C14_max_fails_accepted_iff :
  forall n, (exists m, parse_max_fails n = Some m) <-> 1 <= n < 2147483648.
Proof. exact max_fails_accepted_iff. Qed.
Print Assumptions C14_max_fails_accepted_iff.

Example C14_max_fails_stored_nonvacuous :
  parse_max_fails 2147483647 = Some 2147483647 /\ parse_max_fails 4294967296 = None.
Proof. vm_compute. split; reflexivity. Qed.
