(* C14 — property theorems only.  Each is closed by [exact] of a lemma proved in
   C14_Proofs.v and followed by Print Assumptions.

   [reachable c sel s]: s is produced from the idle server by ANY finite sequence of atomic
   steps (any scheduler, any number of requests — LSpawn adds one —, any per-request outcome:
   success, backend error, client cancel, body too large, panic; any retry decisions; timers
   firing at any moment at or after their deadline), for ANY selection function [sel]
   (any policy, sound or not) and ANY max_conns / max_fails / fail_timeout. *)
Require Import V.Lib V.C14_Model V.C14_Proofs.
Open Scope Z_scope.

(* In-flight accounting is exact: under every interleaving and whatever the outcomes, Conns of a
   backend is the number of requests currently between the increment and the deferred decrement
   around the forward call to it. *)
Theorem C14_conns_counts_forwarding :
  forall c sel s h, reachable c sel s -> conns s h = cnt (is_fwd h) (threads s).
Proof. exact conns_counts_forwarding. Qed.
Print Assumptions C14_conns_counts_forwarding.

Theorem C14_conns_bounds :
  forall c sel s h, reachable c sel s -> 0 <= conns s h <= Z.of_nat (length (threads s)).
Proof. exact conns_bounds. Qed.
Print Assumptions C14_conns_bounds.

(* ... and returns to zero when traffic stops: no request being forwarded to h => Conns h = 0;
   in particular when every request has completed (with whatever result). *)
Theorem C14_conns_zero_when_none_forwarding :
  forall c sel s h, reachable c sel s ->
  (forall p, In p (threads s) -> p <> Forwarding h) -> conns s h = 0.
Proof. exact conns_zero_when_none_forwarding. Qed.
Print Assumptions C14_conns_zero_when_none_forwarding.

Theorem C14_conns_zero_at_quiescence :
  forall c sel s, reachable c sel s -> forallb is_done (threads s) = true -> forall h, conns s h = 0.
Proof. exact conns_zero_at_quiescence. Qed.
Print Assumptions C14_conns_zero_at_quiescence.

Example C14_conns_zero_at_quiescence_nonvacuous :
  match run cfg_refute (sel_first cfg_refute) (init 0)
            [LSpawn; LSelect 0; LBegin 0; LFinish 0 OPanic] with
  | Some s => forallb is_done (threads s) = true /\ conns s 0%nat = 0
  | None => False
  end.
Proof. vm_compute. split; reflexivity. Qed.

(* Failure accounting: Fails of a backend is the number of its expiry goroutines still asleep; a
   recorded failure is never dropped before fail_timeout has elapsed; and when the goroutines
   run on time ([prompt]: none is overdue) Fails is EXACTLY the number of failures recorded for
   the backend less than fail_timeout ago. *)
Theorem C14_fails_counts_sleeping_timers :
  forall c sel s h, reachable c sel s -> fails s h = cnt (for_host h) (timers s).
Proof. exact fails_counts_timers. Qed.
Print Assumptions C14_fails_counts_sleeping_timers.

Theorem C14_failure_counted_at_least_fail_timeout :
  forall c sel s h, reachable c sel s -> unexpired c s h <= fails s h.
Proof. exact fails_ge_unexpired. Qed.
Print Assumptions C14_failure_counted_at_least_fail_timeout.

Theorem C14_fails_counts_unexpired :
  forall c sel s h, reachable c sel s -> prompt s -> fails s h = unexpired c s h.
Proof. exact fails_counts_unexpired. Qed.
Print Assumptions C14_fails_counts_unexpired.

(* A backend is treated as down exactly while it is unhealthy or has at least max_fails
   unexpired failures. *)
Theorem C14_down_iff_maxfails :
  forall c sel s h, reachable c sel s -> prompt s ->
  (down c s h = true <-> c_unhealthy c h = true \/ c_max_fails c <= unexpired c s h).
Proof. exact down_iff_maxfails. Qed.
Print Assumptions C14_down_iff_maxfails.

(* without the timeliness assumption one direction survives: never up while max_fails failures are unexpired *)
Theorem C14_down_while_maxfails_unexpired :
  forall c sel s h, reachable c sel s ->
  c_unhealthy c h = true \/ c_max_fails c <= unexpired c s h -> down c s h = true.
Proof. exact down_while_maxfails_unexpired. Qed.
Print Assumptions C14_down_while_maxfails_unexpired.

Example C14_down_iff_maxfails_nonvacuous :
  match run cfg_refute (sel_first cfg_refute) (init 0)
            [LSpawn; LSelect 0; LBegin 0; LFinish 0 OError; LRecord 0 true; LTick 9] with
  | Some s => promptb s = true /\ unexpired cfg_refute s 0%nat = 1 /\ down cfg_refute s 0%nat = true
  | None => False
  end.
Proof. vm_compute. repeat split; reflexivity. Qed.

(* The fail count also returns to zero: once every failure of h is older than fail_timeout
   (and the goroutines ran on time) Fails h = 0; with fail_timeout <= 0 nothing is ever counted
   and a healthy backend is never down; and from every reachable state letting time pass and
   the sleeping goroutines run brings every Fails to zero without touching Conns. *)
Theorem C14_fails_zero_when_all_expired :
  forall c sel s h, reachable c sel s -> prompt s ->
  (forall e, In e (flog s) -> fst e = h -> snd e + c_fail_timeout c <= now s) -> fails s h = 0.
Proof. exact fails_zero_when_all_expired. Qed.
Print Assumptions C14_fails_zero_when_all_expired.

Theorem C14_fails_nonneg :
  forall c sel s h, reachable c sel s -> 0 <= fails s h.
Proof. exact fails_nonneg. Qed.
Print Assumptions C14_fails_nonneg.

Theorem C14_no_counting_when_fail_timeout_off :
  forall c sel s h, reachable c sel s -> c_fail_timeout c <= 0 -> fails s h = 0.
Proof. exact no_counting_when_disabled. Qed.
Print Assumptions C14_no_counting_when_fail_timeout_off.

Theorem C14_never_down_when_fail_timeout_off :
  forall c sel s h, reachable c sel s -> c_fail_timeout c <= 0 -> 1 <= c_max_fails c ->
  down c s h = c_unhealthy c h.
Proof. exact never_down_when_disabled. Qed.
Print Assumptions C14_never_down_when_fail_timeout_off.

Theorem C14_fails_return_to_zero :
  forall c sel s, reachable c sel s ->
  exists ls s', run c sel s ls = Some s' /\ reachable c sel s' /\
                (forall h, fails s' h = 0) /\ threads s' = threads s /\ conns s' = conns s.
Proof. exact fails_drain. Qed.
Print Assumptions C14_fails_return_to_zero.

(* The cap.  "Conns never exceeds max_conns" is FALSE of the code as written: Select checks
   Full() and the increment happens later, so two requests that are both in the window are both
   forwarded.  Witness: one backend, max_conns 1, schedule
   spawn, spawn, select 0, select 1, begin 0, begin 1  =>  Conns = 2.  (F-C14-1) *)
Theorem C14_conns_le_max_refuted :
  exists c sel s h, sel_sound c sel /\ reachable c sel s /\ 0 < c_max_conns c /\ c_max_conns c < conns s h.
Proof. exact conns_le_max_refuted. Qed.
Print Assumptions C14_conns_le_max_refuted.

(* Strongest true statement: for every selector that only hands out available hosts, in every
   schedule in which no Select runs while another request sits in the window (sequential
   traffic is the special case; a lock around select+increment enforces it), requests
   forwarded plus requests about to be forwarded never exceed max_conns. *)
Theorem C14_conns_le_max_serialized_partial :
  forall c sel s h, sel_sound c sel -> 0 < c_max_conns c -> reachable_ser c sel s ->
  conns s h + cnt (is_sel h) (threads s) <= c_max_conns c.
Proof. exact conns_le_max_serialized. Qed.
Print Assumptions C14_conns_le_max_serialized_partial.

Example C14_conns_le_max_serialized_partial_nonvacuous :
  match run_ser cfg_refute (sel_first cfg_refute) (init 0)
                [LSpawn; LSpawn; LSelect 0; LBegin 0; LSelect 1] with
  | Some s => conns s 0%nat = 1 /\ nth_error (threads s) 1 = Some (Selected None)
  | None => False
  end.
Proof. vm_compute. split; reflexivity. Qed.

(* Design-level statement for the repair (NOT a theorem about the code as written): if the
   increment itself re-checks the cap ([step_res]: a request that finds the host full at the
   increment is treated as "no host"), then under EVERY schedule and EVERY selection function,
   sound or not, Conns is exact and never exceeds max_conns. *)
Theorem C14_conns_le_max_repaired_design :
  forall c sel s h, 0 < c_max_conns c -> reachable_res c sel s ->
  conns s h = cnt (is_fwd h) (threads s) /\ conns s h <= c_max_conns c.
Proof. exact conns_le_max_with_recheck. Qed.
Print Assumptions C14_conns_le_max_repaired_design.

Example C14_conns_le_max_repaired_design_nonvacuous :
  match run_res cfg_refute (sel_first cfg_refute) (init 0)
                [LSpawn; LSpawn; LSelect 0; LSelect 1; LBegin 0; LBegin 1] with
  | Some s => conns s 0%nat = 1 /\ nth_error (threads s) 1 = Some (Selected None)
  | None => False
  end.
Proof. vm_compute. split; reflexivity. Qed.

(* serialised schedules are schedules, so everything above applies to them as well *)
Theorem C14_serialized_is_reachable :
  forall c sel s, reachable_ser c sel s -> reachable c sel s.
Proof. exact reachable_ser_reachable. Qed.
Print Assumptions C14_serialized_is_reachable.

(* in every schedule a sound selector hands out a host only when it is neither down nor full
   at that instant *)
Theorem C14_selected_host_available :
  forall c sel s t s' h, sel_sound c sel -> step c sel s (LSelect t) = Some s' ->
  nth_error (threads s') t = Some (Selected (Some h)) -> available c s h = true.
Proof. exact select_not_full. Qed.
Print Assumptions C14_selected_host_available.

(* the concrete selectors (staticUpstream.Select with First / RoundRobin) are sound *)
Theorem C14_selectors_sound :
  forall pol c, sel_sound c (sel_of pol c).
Proof. exact sel_of_sound. Qed.
Print Assumptions C14_selectors_sound.

(* The states the correspondence check compares the real counters with are reachable and
   prompt states of this transition system, so every theorem above speaks about them. *)
Theorem C14_harness_states_reachable :
  forall c sel r n, reachable c sel (init_threads r n) /\ prompt (init_threads r n).
Proof. exact harness_states_reachable. Qed.
Print Assumptions C14_harness_states_reachable.

Theorem C14_harness_steps_reachable :
  forall c sel s h s' e, reachable c sel s -> prompt s -> hexec c sel s h = Some (s', e) ->
  reachable c sel s' /\ prompt s'.
Proof. exact harness_steps_reachable. Qed.
Print Assumptions C14_harness_steps_reachable.

(* max_fails: the literal is parsed with a 32-bit size, so whatever setup accepts is stored
   unchanged as the int32 threshold — the backend is down exactly from max_fails outstanding
   failures on, for every accepted value — and exactly the values 1 .. 2^31-1 are accepted
   (F-C14-2, fixed: larger values used to be accepted and truncated). *)
Theorem C14_max_fails_stored :
  forall n m, parse_max_fails n = Some m -> m = n /\ 1 <= m.
Proof. exact max_fails_stored. Qed.
Print Assumptions C14_max_fails_stored.

Theorem C14_max_fails_accepted_iff :
  forall n, (exists m, parse_max_fails n = Some m) <-> 1 <= n < 2147483648.
Proof. exact max_fails_accepted_iff. Qed.
Print Assumptions C14_max_fails_accepted_iff.

Example C14_max_fails_stored_nonvacuous :
  parse_max_fails 2147483647 = Some 2147483647 /\ parse_max_fails 4294967296 = None.
Proof. vm_compute. split; reflexivity. Qed.
