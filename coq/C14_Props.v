(* C14 — property theorems only.  Each is closed by [exact] of a lemma proved in
   C14_Proofs.v and followed by Print Assumptions.

   [reachable c pol s]: s is produced from the idle server by ANY finite sequence of atomic
   steps (any scheduler, any number of requests — LSpawn adds one —, any per-request outcome:
   success, backend error, client cancel, body too large, panic; any retry decisions; Select
   interleaved atomic load by atomic load (Unhealthy, Fails, Conns of each host.Available()) with
   everything else; compare-and-swaps of acquireConn won or lost;
   every recorded failure's own expiry goroutine firing at any moment at or after failure time +
   fail_timeout; the health-check worker storing any verdict at any moment), for ANY contract
   [pol] of what Select may answer (any policy, sound or not) and ANY max_conns / max_fails /
   fail_timeout.  No theorem below assumes anything about when timers run, except the three
   that say so ([prompt]). *)
Require Import V.Lib V.C14_Model V.C14_Proofs.
Open Scope Z_scope.

(* ===== In-flight accounting ===== *)
(* Conns of a backend is, in every reachable state, exactly the number of requests between a
   SUCCESSFUL acquireConn on it (the compare-and-swap that won) and the deferred release — whatever
   else the requests do: refused acquisitions, lost compare-and-swaps, retries, failures, panics. *)
Theorem C14_conns_is_exactly_forwarding :
  forall c pol s h, reachable c pol s -> conns s h = cnt (is_fwd h) (threads s).
Proof. exact conns_counts_forwarding. Qed.
Print Assumptions C14_conns_is_exactly_forwarding.

Theorem C14_conns_counts_forwarding :
  forall c pol s h, reachable c pol s -> conns s h = cnt (is_fwd h) (threads s).
Proof. exact conns_counts_forwarding. Qed.
Print Assumptions C14_conns_counts_forwarding.

Theorem C14_conns_bounds :
  forall c pol s h, reachable c pol s -> 0 <= conns s h <= Z.of_nat (length (threads s)).
Proof. exact conns_bounds. Qed.
Print Assumptions C14_conns_bounds.

(* ... and returns to zero when traffic stops: no request being forwarded to h => Conns h = 0
   (a request in its retry loop, in Select, in the window or refused holds no slot);
   in particular when every request has completed (with whatever result). *)
Theorem C14_conns_zero_when_none_forwarding :
  forall c pol s h, reachable c pol s ->
  (forall p, In p (threads s) -> p <> Forwarding h) -> conns s h = 0.
Proof. exact conns_zero_when_none_forwarding. Qed.
Print Assumptions C14_conns_zero_when_none_forwarding.

Theorem C14_conns_zero_at_quiescence :
  forall c pol s, reachable c pol s -> forallb is_done (threads s) = true -> forall h, conns s h = 0.
Proof. exact conns_zero_at_quiescence. Qed.
Print Assumptions C14_conns_zero_at_quiescence.

Example C14_conns_zero_at_quiescence_nonvacuous :
  match run cfg_cap1 pol_any (init 0 healthy)
            ([LSpawn] ++ sel0 0 ++ [LLoad 0; LCas 0; LFinish 0 OPanic]) with
  | Some s => forallb is_done (threads s) = true /\ conns s 0%nat = 0
  | None => False
  end.
Proof. vm_compute. split; reflexivity. Qed.

(* Quiescence — every request gone, every expiry goroutine run — is stable and both counters of
   every backend are zero in it: nothing but a new request changes that. *)
Theorem C14_quiescent_zero :
  forall c pol ls s s', reachable c pol s -> quiescent s -> existsb is_spawn ls = false ->
  run c pol s ls = Some s' -> quiescent s' /\ forall h, conns s' h = 0 /\ fails s' h = 0.
Proof. exact quiescent_zero. Qed.
Print Assumptions C14_quiescent_zero.

Example C14_quiescent_zero_nonvacuous :
  match run cfg_cap1 pol_any (init 0 healthy)
            ([LSpawn] ++ sel0 0 ++ [LLoad 0; LCas 0; LFinish 0 OError; LRecord 0 false; LTick 10; LFire 0]) with
  | Some s => forallb is_done (threads s) = true /\ all_fired s = true /\
              run cfg_cap1 pol_any s [LTick 5; LHealth 0 true] <> None
  | None => False
  end.
Proof. vm_compute. repeat split; try reflexivity. discriminate. Qed.

(* ===== Failure accounting, with NO assumption about when the expiry goroutines run ===== *)
(* Fails of a backend is, in every reachable state, the number of its recorded failures whose own
   expiry event has not fired. *)
Theorem C14_fails_counts_unexpired_failures :
  forall c pol s h, reachable c pol s -> fails s h = pending s h.
Proof. exact fails_counts_pending. Qed.
Print Assumptions C14_fails_counts_unexpired_failures.

Theorem C14_fails_counts_sleeping_timers :
  forall c pol s h, reachable c pol s ->
  fails s h = cnt (on_host h) (filter asleep (flog s)).
Proof. exact fails_counts_sleeping. Qed.
Print Assumptions C14_fails_counts_sleeping_timers.

(* every expiry event fires fail_timeout after its failure or later — never earlier *)
Theorem C14_expiry_not_before_fail_timeout :
  forall c pol s f w, reachable c pol s -> In f (flog s) -> f_fired f = Some w ->
  f_at f + c_fail_timeout c <= w <= now s.
Proof. exact expiry_not_before_fail_timeout. Qed.
Print Assumptions C14_expiry_not_before_fail_timeout.

Theorem C14_failure_counted_at_least_fail_timeout :
  forall c pol s h, reachable c pol s -> unexpired c s h <= fails s h.
Proof. exact fails_ge_unexpired. Qed.
Print Assumptions C14_failure_counted_at_least_fail_timeout.

(* A backend is treated as down exactly while it is marked unhealthy or has at least max_fails
   failures whose expiry has not fired. *)
Theorem C14_down_iff_max_fails_unexpired :
  forall c pol s h, reachable c pol s ->
  (down c s h = true <-> unhealthy s h = true \/ c_max_fails c <= pending s h).
Proof. exact down_iff_pending. Qed.
Print Assumptions C14_down_iff_max_fails_unexpired.

Theorem C14_down_while_maxfails_unexpired :
  forall c pol s h, reachable c pol s ->
  unhealthy s h = true \/ c_max_fails c <= unexpired c s h -> down c s h = true.
Proof. exact down_while_maxfails_unexpired. Qed.
Print Assumptions C14_down_while_maxfails_unexpired.

(* The fail count returns to zero: whenever every expiry event of h has fired, Fails h = 0. *)
Theorem C14_fails_returns_to_zero :
  forall c pol s h, reachable c pol s ->
  (forall f, In f (flog s) -> f_host f = h -> f_fired f <> None) -> fails s h = 0.
Proof. exact fails_zero_when_all_fired. Qed.
Print Assumptions C14_fails_returns_to_zero.

(* ... and that always happens: from every reachable state letting time pass and the sleeping
   goroutines run brings every Fails to zero without touching Conns. *)
Theorem C14_fails_return_to_zero :
  forall c pol s, reachable c pol s ->
  exists ls s', run c pol s ls = Some s' /\ reachable c pol s' /\
                (forall h, fails s' h = 0) /\ threads s' = threads s /\ conns s' = conns s.
Proof. exact fails_drain. Qed.
Print Assumptions C14_fails_return_to_zero.

Theorem C14_fails_nonneg :
  forall c pol s h, reachable c pol s -> 0 <= fails s h.
Proof. exact fails_nonneg. Qed.
Print Assumptions C14_fails_nonneg.

Theorem C14_no_counting_when_fail_timeout_off :
  forall c pol s h, reachable c pol s -> c_fail_timeout c <= 0 -> fails s h = 0.
Proof. exact no_counting_when_disabled. Qed.
Print Assumptions C14_no_counting_when_fail_timeout_off.

Theorem C14_never_down_when_fail_timeout_off :
  forall c pol s h, reachable c pol s -> c_fail_timeout c <= 0 -> 1 <= c_max_fails c ->
  down c s h = unhealthy s h.
Proof. exact never_down_when_disabled. Qed.
Print Assumptions C14_never_down_when_fail_timeout_off.

(* --- why the seeded changes are wrong --- *)
(* A failure is recorded in EVERY state — also when the host is already down (by max_fails or by
   the health check): Fails +1 and a new expiry event of its own.  (C14-m2 / C14-m5 skip the
   record when Down(): their Fails is below [pending].) *)
Theorem C14_failure_recorded_even_when_down :
  forall c pol s t h again s',
  nth_error (threads s) t = Some (Failed h) -> 0 < c_fail_timeout c ->
  step c pol s (LRecord t again) = Some s' ->
  fails s' h = fails s h + 1 /\
  flog s' = flog s ++ [{| f_host := h; f_at := now s; f_fired := None |}] /\
  now s' = now s /\ nth_error (threads s') t = Some (retry_pc again).
Proof. exact failure_recorded_in_every_state. Qed.
Print Assumptions C14_failure_recorded_even_when_down.

(* the host is down when the second failure arrives, and it is recorded: Fails = 2 *)
Example C14_failure_recorded_even_when_down_nonvacuous :
  match run cfg_free pol_any (init 0 healthy) sched_two_failures with
  | Some s => nth_error (threads s) 1 = Some (Failed 0) /\ down cfg_free s 0%nat = true /\
              match step cfg_free pol_any s (LRecord 1 false) with
              | Some s' => fails s' 0%nat = 2 /\
                           (* ... and keeps the host down after the first failure has expired *)
                           match run cfg_free pol_any s' [LTick 5; LFire 0] with
                           | Some s2 => now s2 = 11 /\ fails s2 0%nat = 1 /\ down cfg_free s2 0%nat = true
                           | None => False
                           end
              | None => False
              end
  | None => False
  end.
Proof. vm_compute. repeat split; reflexivity. Qed.

(* ... and it is counted until fail_timeout has passed since IT was recorded, whatever happens in
   between: with max_fails 1 the host stays down for that long — a failure that arrives while the
   host is down extends the down window. *)
Theorem C14_failure_counted_for_fail_timeout :
  forall c pol s t h again s1 ls s2,
  reachable c pol s -> nth_error (threads s) t = Some (Failed h) -> 0 < c_fail_timeout c ->
  step c pol s (LRecord t again) = Some s1 -> run c pol s1 ls = Some s2 ->
  now s2 < now s + c_fail_timeout c -> 1 <= fails s2 h.
Proof. exact failure_counted_for_fail_timeout. Qed.
Print Assumptions C14_failure_counted_for_fail_timeout.

Theorem C14_late_failure_extends_down_window :
  forall c pol s t h again s1 ls s2,
  reachable c pol s -> nth_error (threads s) t = Some (Failed h) -> 0 < c_fail_timeout c ->
  step c pol s (LRecord t again) = Some s1 -> run c pol s1 ls = Some s2 ->
  now s2 < now s + c_fail_timeout c -> c_max_fails c <= 1 -> down c s2 h = true.
Proof. exact failure_extends_down_window. Qed.
Print Assumptions C14_late_failure_extends_down_window.

(* One expiry event undoes exactly its own failure: one decrement on that host, every other
   recorded failure (and every other counter) untouched.  (C14-m4 lets one timer per burst clear
   the whole count.) *)
Theorem C14_expiry_clears_only_its_own_failure :
  forall c pol s k s', step c pol s (LFire k) = Some s' ->
  exists f, nth_error (flog s) k = Some f /\ f_fired f = None /\ f_at f + c_fail_timeout c <= now s /\
            fails s' (f_host f) = fails s (f_host f) - 1 /\
            (forall h, h <> f_host f -> fails s' h = fails s h) /\
            flog s' = set_nth (flog s) k (fire f (now s)) /\
            (forall j, j <> k -> nth_error (flog s') j = nth_error (flog s) j) /\
            conns s' = conns s /\ unhealthy s' = unhealthy s /\ threads s' = threads s.
Proof. exact expiry_clears_only_its_own_failure. Qed.
Print Assumptions C14_expiry_clears_only_its_own_failure.

(* --- the same with timers assumed prompt: Fails is then also the number of failures younger than
   fail_timeout on the clock --- *)
Theorem C14_fails_counts_unexpired :
  forall c pol s h, reachable c pol s -> prompt c s -> fails s h = unexpired c s h.
Proof. exact fails_counts_unexpired. Qed.
Print Assumptions C14_fails_counts_unexpired.

Theorem C14_down_iff_maxfails :
  forall c pol s h, reachable c pol s -> prompt c s ->
  (down c s h = true <-> unhealthy s h = true \/ c_max_fails c <= unexpired c s h).
Proof. exact down_iff_maxfails. Qed.
Print Assumptions C14_down_iff_maxfails.

Example C14_down_iff_maxfails_nonvacuous :
  match run cfg_cap1 pol_any (init 0 healthy)
            ([LSpawn] ++ sel0 0 ++ [LLoad 0; LCas 0; LFinish 0 OError; LRecord 0 true; LTick 9]) with
  | Some s => promptb cfg_cap1 s = true /\ unexpired cfg_cap1 s 0%nat = 1 /\ down cfg_cap1 s 0%nat = true
  | None => False
  end.
Proof. vm_compute. repeat split; reflexivity. Qed.

(* ... and with timers late by less than delta: Fails lies between the failures younger than
   fail_timeout and those younger than fail_timeout + delta — lateness can only keep a backend down
   longer, by at most delta. *)
Theorem C14_fails_bounds_under_late_timers :
  forall c pol s h delta, reachable c pol s -> late_by c delta s ->
  unexpired c s h <= fails s h <=
  cnt (fun f => on_host h f && (now s <? f_at f + c_fail_timeout c + delta)) (flog s).
Proof. exact fails_bounds_under_late_timers. Qed.
Print Assumptions C14_fails_bounds_under_late_timers.

Example C14_fails_bounds_under_late_timers_nonvacuous :
  match run cfg_cap1 pol_any (init 0 healthy)
            ([LSpawn] ++ sel0 0 ++ [LLoad 0; LCas 0; LFinish 0 OError; LRecord 0 true; LTick 12]) with
  | Some s => promptb cfg_cap1 s = false /\ unexpired cfg_cap1 s 0%nat = 0 /\ fails s 0%nat = 1 /\
              forallb (fun f => negb (asleep f) || (now s <? f_at f + 10 + 3)) (flog s) = true
  | None => False
  end.
Proof. vm_compute. repeat split; reflexivity. Qed.

Theorem C14_fails_zero_when_all_expired :
  forall c pol s h, reachable c pol s -> prompt c s ->
  (forall f, In f (flog s) -> f_host f = h -> f_at f + c_fail_timeout c <= now s) -> fails s h = 0.
Proof. exact fails_zero_when_all_expired. Qed.
Print Assumptions C14_fails_zero_when_all_expired.

(* ===== The cap, and lost select/acquire races ===== *)
(* Under EVERY schedule, for EVERY Select contract (sound or not) and any number of requests, Conns
   of a backend never exceeds max_conns — and therefore neither does the number of requests being
   forwarded to it: the compare-and-swap of acquireConn only wins against the value that was loaded,
   and only values below the cap are swapped.  (F-C14-1, fixed: the increment used to be
   unconditional.) *)
Theorem C14_conns_le_max :
  forall c pol s h, 0 < c_max_conns c -> reachable c pol s -> conns s h <= c_max_conns c.
Proof. exact conns_le_max. Qed.
Print Assumptions C14_conns_le_max.

Theorem C14_forwarding_le_max :
  forall c pol s h, 0 < c_max_conns c -> reachable c pol s -> cnt (is_fwd h) (threads s) <= c_max_conns c.
Proof. exact forwarding_le_max. Qed.
Print Assumptions C14_forwarding_le_max.

Theorem C14_acquiring_below_cap :
  forall c pol s t h n, reachable c pol s -> nth_error (threads s) t = Some (Acquiring h n) ->
  0 < c_max_conns c -> n < c_max_conns c.
Proof. exact acquiring_below_cap. Qed.
Print Assumptions C14_acquiring_below_cap.

(* the schedule that used to overshoot: the second request finds the host full and is not counted *)
Example C14_conns_le_max_nonvacuous :
  match run cfg_cap1 pol_any (init 0 healthy) sched_window with
  | Some s => conns s 0%nat = 1 /\ nth_error (threads s) 0 = Some (Forwarding 0) /\
              nth_error (threads s) 1 = Some (Selected None)
  | None => False
  end.
Proof. vm_compute. repeat split; reflexivity. Qed.

(* A refused acquisition and a lost compare-and-swap count nothing: Conns is untouched and the
   request goes to the no-host path / loads again.  (C14-m1 / C14-m6 add first and check afterwards
   without taking the addition back: the slot of a refused request is never released.) *)
Theorem C14_refused_acquire_counts_nothing :
  forall c pol s t h s',
  nth_error (threads s) t = Some (Selected (Some h)) -> step c pol s (LLoad t) = Some s' ->
  conns s' = conns s /\ fails s' = fails s /\
  (full c s h = true -> nth_error (threads s') t = Some (Selected None)) /\
  (full c s h = false -> nth_error (threads s') t = Some (Acquiring h (conns s h))).
Proof. exact load_refused_or_loaded. Qed.
Print Assumptions C14_refused_acquire_counts_nothing.

Theorem C14_cas_won_or_lost :
  forall c pol s t h n s',
  nth_error (threads s) t = Some (Acquiring h n) -> step c pol s (LCas t) = Some s' ->
  (conns s h = n -> nth_error (threads s') t = Some (Forwarding h) /\ conns s' h = conns s h + 1 /\
                    forall h', h' <> h -> conns s' h' = conns s h') /\
  (conns s h <> n -> nth_error (threads s') t = Some (Selected (Some h)) /\ conns s' = conns s).
Proof. exact cas_won_or_lost. Qed.
Print Assumptions C14_cas_won_or_lost.

(* both requests load 0; the first swap wins, the second is lost, counts nothing, and the reload refuses *)
Example C14_cas_won_or_lost_nonvacuous :
  match run cfg_cap1 pol_any (init 0 healthy) sched_lost_cas with
  | Some s => conns s 0%nat = 1 /\ nth_error (threads s) 0 = Some (Forwarding 0) /\
              nth_error (threads s) 1 = Some (Selected None)
  | None => False
  end.
Proof. vm_compute. repeat split; reflexivity. Qed.

(* Leaving the window with nothing else moving: a request is forwarded to the host it holds exactly
   when that host is not full at that instant (and is then counted); otherwise nothing is counted
   and the request takes the no-host path (retry within try_duration, or 502). *)
Theorem C14_begin_forwards_unless_full :
  forall c pol s t h s',
  nth_error (threads s) t = Some (Selected (Some h)) -> acquire c pol s t = Some s' ->
  (full c s h = false -> nth_error (threads s') t = Some (Forwarding h) /\ conns s' h = conns s h + 1) /\
  (full c s h = true -> nth_error (threads s') t = Some (Selected None) /\ conns s' = conns s).
Proof. exact begin_forwards_unless_full. Qed.
Print Assumptions C14_begin_forwards_unless_full.

(* ===== Select against the health checker (and every other writer): a sequence of reads ===== *)
(* For the host a Select returns, each of the three facts that make it available — not marked
   unhealthy, below max_fails, below max_conns — held in SOME state between the entry and the return
   of that very Select (the three loads of host.Available() are three moments). *)
Theorem C14_select_result_available_during_select :
  forall c pol s0 t mid h r s1,
  pol_sound pol -> existsb (is_selstart t) mid = false ->
  run c pol s0 (LSelStart t :: mid ++ [LSelEnd t (Some h) r]) = Some s1 ->
  (exists l1 l2 si, mid = l1 ++ l2 /\ run c pol s0 (LSelStart t :: l1) = Some si /\ unhealthy si h = false) /\
  (exists l1 l2 si, mid = l1 ++ l2 /\ run c pol s0 (LSelStart t :: l1) = Some si /\ fails si h < c_max_fails c) /\
  (exists l1 l2 si, mid = l1 ++ l2 /\ run c pol s0 (LSelStart t :: l1) = Some si /\ full c si h = false).
Proof. exact select_result_available_during. Qed.
Print Assumptions C14_select_result_available_during_select.

(* So a host marked unhealthy before the request entered Select and not declared healthy while it
   runs is never that Select's answer: no schedule contains such a Select. *)
Theorem C14_unhealthy_before_select_never_selected :
  forall c pol s0 t mid h r,
  pol_sound pol -> unhealthy s0 h = true ->
  existsb (is_selstart t) mid = false -> existsb (is_heal h) mid = false ->
  run c pol s0 (LSelStart t :: mid ++ [LSelEnd t (Some h) r]) = None.
Proof. exact unhealthy_before_select_never_selected. Qed.
Print Assumptions C14_unhealthy_before_select_never_selected.

Theorem C14_standard_contract_sound : forall n, pol_sound (pol_std n).
Proof. exact pol_std_sound. Qed.
Print Assumptions C14_standard_contract_sound.

(* the hypotheses are needed: declared healthy during the Select, the host may be answered *)
Example C14_unhealthy_before_select_never_selected_nonvacuous :
  let s0 := init_threads 0 (fun _ => true) 1 in
  unhealthy s0 0%nat = true /\
  run cfg_cap1 (pol_std 1) s0 (LSelStart 0 :: [LSelRead 0 0] ++ [LSelEnd 0 (Some 0%nat) 0%N]) = None /\
  run cfg_cap1 (pol_std 1) s0 (LSelStart 0 :: [LSelRead 0 0] ++ [LSelEnd 0 None 0%N]) <> None /\
  run cfg_cap1 (pol_std 1) s0
      (LSelStart 0 :: [LHealth 0 false; LSelRead 0 0; LSelRead 0 0; LSelRead 0 0] ++ [LSelEnd 0 (Some 0%nat) 0%N]) <> None.
Proof. vm_compute. repeat split; try reflexivity; discriminate. Qed.

(* What is NOT guaranteed: the availability read is a snapshot.  A host marked unhealthy after its
   Unhealthy flag was loaded (in the middle of host.Available(), later in the Select, or in the
   window after it) is still answered and forwarded to. *)
Theorem C14_selected_host_healthy_refuted :
  exists c s h, reachable c (pol_std (c_hosts c)) s /\
                nth_error (threads s) 0 = Some (Forwarding h) /\ unhealthy s h = true /\
                exists s', reachable c (pol_std (c_hosts c)) s' /\
                           nth_error (threads s') 0 = Some (Selected (Some h)) /\ down c s' h = true.
Proof. exact selected_host_healthy_refuted. Qed.
Print Assumptions C14_selected_host_healthy_refuted.

(* the strongest true statement about the chosen host when nothing else moves during the Select *)
Theorem C14_selected_host_available :
  forall c pol ps s t s' h, psel_sound c ps ->
  hexec c pol ps s (HSelect t) = Some (s', EvSel (Some h)) -> available c s h = true.
Proof. exact select_atomic_available. Qed.
Print Assumptions C14_selected_host_available.

(* the concrete policies (First / RoundRobin) are sound *)
Theorem C14_selectors_sound :
  forall pol c, psel_sound c (psel_of pol c).
Proof. exact psel_of_sound. Qed.
Print Assumptions C14_selectors_sound.

Theorem C14_first_nil_only_when_none_available :
  forall c s r, pol_first c s = (None, r) -> forall h, (h < c_hosts c)%nat -> available c s h = false.
Proof. exact pol_first_complete. Qed.
Print Assumptions C14_first_nil_only_when_none_available.

(* ===== The states the correspondence check compares the real counters with are reachable
   (and prompt) states of this transition system, so every theorem above speaks about them. ===== *)
Theorem C14_harness_states_reachable :
  forall c pol r u n, reachable c pol (init_threads r u n) /\ prompt c (init_threads r u n).
Proof. exact harness_states_reachable. Qed.
Print Assumptions C14_harness_states_reachable.

Theorem C14_harness_steps_reachable :
  forall c pol ps s h s' e, reachable c pol s -> prompt c s -> hexec c pol ps s h = Some (s', e) ->
  reachable c pol s' /\ prompt c s'.
Proof. exact harness_steps_reachable. Qed.
Print Assumptions C14_harness_steps_reachable.

(* ===== max_fails: the literal is parsed with a 32-bit size, so whatever setup accepts is stored
   unchanged as the int32 threshold — the backend is down exactly from max_fails outstanding
   failures on, for every accepted value — and exactly the values 1 .. 2^31-1 are accepted
   (F-C14-2, fixed: larger values used to be accepted and truncated). ===== *)
Theorem C14_max_fails_stored :
  forall n m, parse_max_fails n = Some m -> m = n /\ 1 <= m.
Proof. exact max_fails_stored. Qed.
Print Assumptions C14_max_fails_stored.

Theorem C14_max_fails_accepted_iff :
  forall n, (exists m, parse_max_fails n = Some m) <-> 1 <= n < 2147483648.
Proof. exact max_fails_accepted_iff. Qed.
Print Assumptions C14_max_fails_accepted_iff.

Example C14_max_fails_stored_nonvacuous :
  parse_max_fails 2147483647 = Some 2147483647 /\ parse_max_fails 4294967296 = None.
Proof. vm_compute. split; reflexivity. Qed.

(* ===== The client goes away (its request's context is cancelled) — at ANY point ===== *)
(* [LCancel t] is a step of the transition system, enabled wherever request t is as long as it has not
   returned; every theorem above about reachable states therefore also covers every schedule in which
   clients disconnect before Select, inside it, in the window, inside acquireConn, during the forward
   or while waiting in the retry loop.  The disconnect itself moves nothing: *)
Theorem C14_cancel_moves_no_counter :
  forall c pol s t s', step c pol s (LCancel t) = Some s' -> s' = s.
Proof. exact cancel_moves_nothing. Qed.
Print Assumptions C14_cancel_moves_no_counter.

Theorem C14_cancel_possible_at_every_point :
  forall c pol s t p, nth_error (threads s) t = Some p -> is_done p = false -> step c pol s (LCancel t) = Some s.
Proof. exact cancel_enabled_while_alive. Qed.
Print Assumptions C14_cancel_possible_at_every_point.

(* Whether and when clients go away changes no counter, no failure record and no request's path:
   erasing the disconnects from any schedule yields a schedule with the same final state. *)
Theorem C14_cancels_change_nothing :
  forall c pol ls s s',
  run c pol s ls = Some s' -> run c pol s (filter (fun l => negb (is_cancel l)) ls) = Some s'.
Proof. exact run_without_cancels. Qed.
Print Assumptions C14_cancels_change_nothing.

(* A request whose client is ALREADY gone when its attempt begins still takes its slot and enters the
   forward call; when the call comes back with context.Canceled the slot is given back, the client is
   answered 499 and no failure is recorded.  (C14-m7 returns 499 between the successful acquireConn and
   the deferred release: the request ends in Done with the slot still taken, Conns stays one above the
   number of forwarded requests for ever.) *)
Theorem C14_gone_request_holds_and_releases :
  forall c pol s t h s1 s2 s3,
  nth_error (threads s) t = Some (Selected (Some h)) -> full c s h = false ->
  step c pol s (LCancel t) = Some s1 -> acquire c pol s1 t = Some s2 ->
  step c pol s2 (LFinish t OCancel) = Some s3 ->
  nth_error (threads s2) t = Some (Forwarding h) /\ conns s2 h = conns s h + 1 /\
  nth_error (threads s3) t = Some (Done 499) /\ conns s3 h = conns s h /\
  fails s3 = fails s2 /\ flog s3 = flog s2.
Proof. exact gone_request_holds_and_releases. Qed.
Print Assumptions C14_gone_request_holds_and_releases.

(* request 0 holds the only slot, request 1 waits in the retry loop and its client leaves, request 0
   is answered, request 1 selects the backend: the hypotheses hold there, and at the end both counters
   are zero with both requests gone *)
Example C14_gone_request_holds_and_releases_nonvacuous :
  match run cfg_cap1 (pol_std 1) (init 0 healthy) sched_gone_waiter with
  | Some s2 =>
      nth_error (threads s2) 1 = Some (Forwarding 0) /\ conns s2 0%nat = 1 /\
      match step cfg_cap1 (pol_std 1) s2 (LFinish 1 OCancel) with
      | Some s3 => threads s3 = [Done 0; Done 499] /\ conns s3 0%nat = 0 /\ fails s3 0%nat = 0
      | None => False
      end
  | None => False
  end.
Proof. vm_compute. repeat split; reflexivity. Qed.
