Require Import V.Lib V.C14_Model V.C14_Proofs.
Open Scope Z_scope.
