(* C05 — load-balancing policies and the retry loop: executable model.
   Mirrors caskethttp/proxy/policy.go (First, RoundRobin, hostByHashing, Random, LeastConn,
   Header), proxy.go (Down/Full/Available, retry loop of Proxy.ServeHTTP), upstream.go
   (staticUpstream.Select shortcuts, CheckDown with max_fails). *)
Require Import V.Lib.
Open Scope N_scope.

Definition U32 : N := 4294967296.

Record host := { unhealthy : bool; fails : Z; conns : Z; maxconns : Z }.
Definition down (maxfails : Z) (h : host) : bool := unhealthy h || (maxfails <=? fails h)%Z.
Definition full (h : host) : bool := (0 <? maxconns h)%Z && (maxconns h <=? conns h)%Z.
Definition available (mf : Z) (h : host) : bool := negb (down mf h) && negb (full h).

(* availability vector of a pool *)
Definition avail_vec (mf : Z) (pool : list host) : list bool := map (available mf) pool.

(* probe the given indexes in order; first available one wins *)
Fixpoint probe_seq (av : list bool) (idxs : list nat) : option nat :=
  match idxs with
  | [] => None
  | i :: r => if nth i av false then Some i else probe_seq av r
  end.

(* First *)
Definition first_select (av : list bool) : option nat := probe_seq av (seq 0 (length av)).

(* hostByHashing: linear probing from hash mod n (as fixed) *)
Definition hash_idxs (n : nat) (h : N) : list nat :=
  map (fun i => N.to_nat ((h mod N.of_nat n + N.of_nat i) mod N.of_nat n)) (seq 0 n).
Definition hash_select (av : list bool) (h : N) : option nat :=
  probe_seq av (hash_idxs (length av) h).

(* hostByHashing as coded before the fix: index += i (uint32), probe index mod n *)
Fixpoint tri_idxs (n : N) (index : N) (i : N) (steps : nat) : list nat :=
  match steps with
  | O => []
  | S k => let index' := (index + i) mod U32 in
           N.to_nat (index' mod n) :: tri_idxs n index' (i + 1) k
  end.
Definition hash_select_triangular (av : list bool) (h : N) : option nat :=
  let n := length av in
  probe_seq av (tri_idxs (N.of_nat n) (h mod N.of_nat n) 0 n).

(* RoundRobin: robin is a uint32; before each probe it is advanced by one (uint32 addition) and
   reduced modulo the pool length, `r.robin = (r.robin + 1) % poolLen`, and the slot probed is the
   counter itself (poolLen = uint32(len(pool)): the theorems take pools of fewer than 2^32 hosts) *)
Fixpoint rr_loop (av : list bool) (n : N) (robin : N) (steps : nat) : option nat * N :=
  match steps with
  | O => (None, robin)
  | S k => let robin' := ((robin + 1) mod U32) mod n in
           let i := N.to_nat robin' in
           if nth i av false then (Some i, robin') else rr_loop av n robin' k
  end.
Definition rr_select (av : list bool) (robin : N) : option nat * N :=
  rr_loop av (N.of_nat (length av)) robin (length av).

(* m consecutive Selects of one RoundRobin value *)
Fixpoint rr_run (av : list bool) (robin : N) (m : nat) : list (option nat) :=
  match m with
  | O => []
  | Datatypes.S k => let '(r, robin') := rr_select av robin in r :: rr_run av robin' k
  end.

(* Random: reservoir sampling over the available hosts with a stream of rand.Int() values *)
Fixpoint reservoir (cands : list nat) (rs : list N) (count : N) (cur : option nat) : option nat :=
  match cands with
  | [] => cur
  | c :: r => let count' := count + 1 in
              let x := hd 0 rs in
              reservoir r (tl rs) count' (if x mod count' =? 0 then Some c else cur)
  end.
Definition avail_idxs (av : list bool) : list nat :=
  filter (fun i => nth i av false) (seq 0 (length av)).
Definition random_select (av : list bool) (rs : list N) : option nat :=
  reservoir (avail_idxs av) rs 0 None.

(* LeastConn, faithful to the loop: running minimum with reservoir among ties *)
Fixpoint lc_loop (hs : list (nat * (bool * Z))) (rs : list N) (least : option Z) (count : N)
         (best : option nat) : option nat :=
  match hs with
  | [] => best
  | (i, (a, c)) :: r =>
      if negb a then lc_loop r rs least count best
      else
        let least' := match least with
                      | None => c
                      | Some l => if (c <? l)%Z then c else l end in
        let count1 := match least with
                      | None => 0
                      | Some l => if (c <? l)%Z then 0 else count end in
        if (c =? least')%Z then
          let count2 := count1 + 1 in
          let x := hd 0 rs in
          lc_loop r (tl rs) (Some least') count2 (if x mod count2 =? 0 then Some i else best)
        else lc_loop r rs (Some least') count1 best
  end.
Definition least_conn_select (mf : Z) (pool : list host) (rs : list N) : option nat :=
  lc_loop (combine (seq 0 (length pool)) (map (fun h => (available mf h, conns h)) pool)) rs None 0 None.

(* Header policy *)
Inductive header_key := HNoNames | HEmptyValue | HValue (h : N).
Definition header_select (av : list bool) (k : header_key) (global_robin : N) : option nat * N :=
  match k with
  | HNoNames => (None, global_robin)
  | HEmptyValue => rr_select av global_robin
  | HValue h => (hash_select av h, global_robin)
  end.

(* staticUpstream.Select: the shortcuts in front of every policy *)
Definition static_select (av : list bool) (pol : list bool -> option nat) : option nat :=
  match av with
  | [a] => if a then Some 0%nat else None
  | _ => if existsb (fun b => b) av then pol av else None
  end.

(* ---- retry loop of Proxy.ServeHTTP over an abstract stateful selector ---- *)
Inductive outcome := Answered (host attempt : nat) | BadGateway.

Section Retry.
Variable S : Type.
Variable sel : S -> list bool -> option nat * S.
Variable fails_at : nat -> nat -> bool.   (* attempt number -> host -> does the forward fail? *)

Fixpoint set_true (i : nat) (l : list bool) : list bool :=
  match l, i with
  | [], _ => []
  | _ :: r, O => true :: r
  | b :: r, Datatypes.S j => b :: set_true j r
  end.

Definition cur_avail (base failed : list bool) : list bool :=
  map (fun p => fst p && negb (snd p)) (combine base failed).

(* fuel = number of loop iterations the try_duration/try_interval budget allows;
   mark = fail_timeout > 0 (a failure marks the host down; max_fails = 1) *)
Fixpoint retry (fuel : nat) (mark : bool) (k : nat) (st : S) (base failed : list bool)
         (trace : list nat) : outcome * list nat :=
  match fuel with
  | O => (BadGateway, rev trace)
  | Datatypes.S f =>
      match sel st (cur_avail base failed) with
      | (None, st') => retry f mark k st' base failed trace
      | (Some i, st') =>
          if fails_at k i
          then retry f mark (Datatypes.S k) st' base (if mark then set_true i failed else failed) (i :: trace)
          else (Answered i k, rev (i :: trace))
      end
  end.
End Retry.

(* request body as seen by attempt number k: rewound iff buffered; it is buffered whenever the
   request can be retried, whatever the number of hosts *)
Definition buffered (nhosts : nat) (try_duration_nonzero : bool) : bool :=
  try_duration_nonzero.
Definition attempt_body {A} (buf : bool) (body : list A) (consumed_before : nat) : list A :=
  if buf then body else skipn consumed_before body.

(* ---- discrete-time model of the retry loop of Proxy.ServeHTTP (proxy.go) ----
   Time is a natural number of ticks since `start := time.Now()`.  One loop iteration:
     host := upstream.Select(r)                      -- any selector over the availability vector
     host == nil            -> keepRetrying           (ENone)
     !host.acquireConn()    -> keepRetrying           (ERefused: another request filled the host
                                                       between Select and the increment)
     backendErr = proxy.ServeHTTP(...)                (EAttempt, takes `adur` ticks)
     nil -> return 0;  otherwise Fails++ (expires fail_timeout later, only if fail_timeout > 0)
                        and keepRetrying
   keepRetrying: `time.Since(start) >= try_duration` -> stop (502), else sleep try_interval.
   The budget is measured ONLY there, i.e. after a failed attempt / a nil Select / a refusal.
   The outcome of the k-th use of a host is scripted (fault sequence per host, with a default
   for the tail).  The request body is buffered and rewound before every attempt iff
   try_duration != 0 (i.e. whenever there can be a second attempt); an unbuffered body is closed by
   the first attempt that runs (RoundTripper contract), every later attempt that reads it would get
   nothing.  A scripted success
   only succeeds if the complete body arrived (a backend does not answer a truncated upload). *)
Inductive akind := KOk | KFailBefore | KFailAfter | KRefuse.
Record astep := mk_astep { ak : akind; adur : N }.
Record script := mk_script { spre : list astep; sdflt : astep }.
Definition script_at (s : script) (k : nat) : astep := nth k (spre s) (sdflt s).
Definition is_refuse (k : akind) : bool := match k with KRefuse => true | _ => false end.
Definition is_ok (k : akind) : bool := match k with KOk => true | _ => false end.

Record tcfg := mk_tcfg { t_n : nat; t_mf : N; t_ft : N; t_td : N; t_ti : N; t_hasbody : bool }.
(* requiresBuffering := upstream.GetTryDuration() != 0 *)
Definition t_buf (c : tcfg) : bool := negb (t_td c =? 0).

(* what a forward saw of the request body *)
Inductive rxk := RxNotRead | RxFull | RxClosed | RxBad.
Inductive tev :=
| ENone (t : N)
| ERefused (t : N) (i : nat)
| EAttempt (t : N) (i : nat) (k : akind) (rx : rxk) (ok : bool) (te : N).
Inductive tout := TAnswered (i : nat) (t : N) | T502 (t : N) | THang.

Definition upd {A} (f : nat -> A) (i : nat) (v : A) : nat -> A :=
  fun j => if Nat.eqb j i then v else f j.
(* Fails of a host at time `now`: the failure records that have not expired yet *)
Definition live (now : N) (l : list N) : N := N.of_nat (length (filter (fun x => now <? x) l)).

Section RetryT.
Variable S : Type.
Variable sel : S -> list bool -> option nat * S.
Variable c : tcfg.
Variable unh : nat -> bool.               (* Unhealthy flag (health checker), per host *)
Variable scr : nat -> script.             (* fault sequence per host *)
Variable envdown : nat -> nat -> bool.    (* iteration -> host -> made unavailable by others (full / health flap) *)

Definition t_avail (it : nat) (now : N) (fx : nat -> list N) : list bool :=
  map (fun i => negb (unh i) && negb (envdown it i) && (live now (fx i) <? t_mf c)) (seq 0 (t_n c)).

Definition keep (t : N) : option N := if t_td c <=? t then None else Some (t + t_ti c).

Definition rx_of (k : akind) (fresh : bool) : rxk :=
  match k with
  | KFailBefore | KRefuse => RxNotRead
  | _ => if negb (t_hasbody c) || t_buf c || fresh then RxFull else RxClosed
  end.
Definition att_ok (k : akind) (rx : rxk) : bool :=
  match k, rx with KOk, RxFull => true | _, _ => false end.

Fixpoint runT (fuel : nat) (now : N) (fx : nat -> list N) (cnt : nat -> nat) (st : S)
         (fresh : bool) (it : nat) : tout * list tev :=
  match fuel with
  | O => (THang, [])
  | Datatypes.S f =>
    match sel st (t_avail it now fx) with
    | (None, st') =>
        match keep now with
        | None => (T502 now, [ENone now])
        | Some t' => let '(o, tr) := runT f t' fx cnt st' fresh (Datatypes.S it) in (o, ENone now :: tr)
        end
    | (Some i, st') =>
        let a := script_at (scr i) (cnt i) in
        let cnt' := upd cnt i (Datatypes.S (cnt i)) in
        if is_refuse (ak a) then
          match keep now with
          | None => (T502 now, [ERefused now i])
          | Some t' => let '(o, tr) := runT f t' fx cnt' st' fresh (Datatypes.S it) in
                       (o, ERefused now i :: tr)
          end
        else
          let rx := rx_of (ak a) fresh in
          let ok := att_ok (ak a) rx in
          let te := now + adur a in
          let ev := EAttempt now i (ak a) rx ok te in
          if ok then (TAnswered i te, [ev])
          else
            let fx' := if 0 <? t_ft c then upd fx i ((te + t_ft c) :: fx i) else fx in
            match keep te with
            | None => (T502 te, [ev])
            | Some t' => let '(o, tr) := runT f t' fx' cnt' st' false (Datatypes.S it) in (o, ev :: tr)
            end
    end
  end.
End RetryT.

(* ---- the policy as a CHOICE ORACLE (random, least_conn, and any policy whatever) ----
   The state of the selector is the list of choices the policy is going to make.  Whatever the
   oracle says, the selector is sound and complete: a choice that is not available at the moment
   it is made is overridden by the earliest available host (the oracle entry is consumed), and no
   entry is consumed when no host is available (Select returns nil).  Every run of the loop with a
   sound and complete policy is the run of [osel] fed with the hosts that run chose
   (C05_retry_run_is_oracle_run), so what is proved of [osel] for EVERY oracle is proved of every
   such policy, and an observed run of random / least_conn is compared with the model by feeding
   [osel] the observed choices: they agree iff every observed choice was available by the model's
   books and nil was returned only when none was. *)
Definition osel (st : list nat) (av : list bool) : option nat * list nat :=
  if existsb (fun b => b) av then
    match st with
    | o :: r => if nth o av false then (Some o, r) else (first_select av, r)
    | [] => (first_select av, [])
    end
  else (None, st).
Definition ev_choices (tr : list tev) : list nat :=
  flat_map (fun e => match e with EAttempt _ i _ _ _ _ | ERefused _ i => [i] | ENone _ => [] end) tr.

(* bytes an attempt received, for a body of any type *)
Definition rx_bytes {A} (body : list A) (rx : rxk) : option (list A) :=
  match rx with RxNotRead => None | RxFull => Some body | RxClosed | RxBad => Some [] end.

(* --- executable clauses, evaluated on a trace (the model's or the observed one) --- *)
(* a host is only used while fewer than max_fails of its failures are unexpired *)
Definition ev_fail_rec (ft : N) (acc : nat -> list N) (e : tev) : nat -> list N :=
  match e with
  | EAttempt _ i _ _ false te => if 0 <? ft then upd acc i ((te + ft) :: acc i) else acc
  | _ => acc
  end.
Fixpoint skip_ok (mf ft : N) (acc : nat -> list N) (tr : list tev) : bool :=
  match tr with
  | [] => true
  | e :: r =>
      match e with
      | EAttempt t i _ _ _ _ | ERefused t i => live t (acc i) <? mf
      | ENone _ => true
      end && skip_ok mf ft (ev_fail_rec ft acc e) r
  end.
(* every attempt that read the body read all of it *)
Definition rx_good (rx : rxk) : bool := match rx with RxClosed | RxBad => false | _ => true end.
Definition bodies_ok (tr : list tev) : bool :=
  forallb (fun e => match e with EAttempt _ _ _ rx _ _ => rx_good rx | _ => true end) tr.
(* the final status against the last event *)
Definition answered_ok (n : nat) (unh : nat -> bool) (tr : list tev) (o : tout) : bool :=
  match o with
  | TAnswered j t =>
      match last tr (ENone 0) with
      | EAttempt _ i KOk RxFull true te => Nat.eqb i j && (te =? t) && Nat.ltb j n && negb (unh j)
      | _ => false
      end &&
      forallb (fun e => match e with EAttempt _ _ _ _ ok _ => negb ok | _ => true end) (removelast tr)
  | T502 t =>
      forallb (fun e => match e with EAttempt _ _ _ _ ok _ => negb ok | _ => true end) tr &&
      match last tr (ENone 0) with
      | EAttempt _ _ _ _ _ te => te =? t
      | ENone t' | ERefused t' _ => t' =? t
      end
  | THang => false
  end.

(* hypotheses of C05_retry_reaches_healthy, as a boolean predicate of the configuration *)
Definition count_refuse (l : list astep) : nat := length (filter (fun a => is_refuse (ak a)) l).
Definition all_ok (s : script) : bool := forallb (fun a => is_ok (ak a)) (spre s) && is_ok (ak (sdflt s)).
Definition bad_host (unh : nat -> bool) (scr : nat -> script) (g i : nat) : bool :=
  negb (Nat.eqb i g) && negb (unh i) && negb (all_ok (scr i)).
Definition nbad (n : nat) unh scr g : nat := length (filter (bad_host unh scr g) (seq 0 n)).
Definition nrefuse (n : nat) (scr : nat -> script) : nat :=
  list_sum (map (fun i => count_refuse (spre (scr i))) (seq 0 n)).
(* iterations that can be wasted before a good host must be reached: every other host that can
   fail needs max_fails failures to be marked down, plus the scripted acquireConn refusals *)
Definition waste (c : tcfg) unh scr g : N :=
  t_mf c * N.of_nat (nbad (t_n c) unh scr g) + N.of_nat (nrefuse (t_n c) scr).
Definition durs_le (n : nat) (scr : nat -> script) (dmax : N) : bool :=
  forallb (fun i => forallb (fun a => adur a <=? dmax) (spre (scr i)) && (adur (sdflt (scr i)) <=? dmax))
          (seq 0 n).
Definition reach_hyp (c : tcfg) unh scr (g : nat) (dmax : N) : bool :=
  let W := waste c unh scr g in
  Nat.ltb g (t_n c) && negb (unh g) && all_ok (scr g)
  && forallb (fun i => negb (is_refuse (ak (sdflt (scr i))))) (seq 0 (t_n c))
  && durs_le (t_n c) scr dmax
  && (1 <=? t_mf c)
  (* failures recorded during the request do not expire before the good host is reached *)
  && (W * (t_ti c + dmax) <? t_ft c)
  (* the budget covers the wasted iterations: the W-th one is judged at (W-1) sleeps + W forwards *)
  && ((W =? 0) || ((W - 1) * t_ti c + W * dmax <? t_td c)).
Definition never_ok (n : nat) (scr : nat -> script) : bool :=
  forallb (fun i => forallb (fun a => negb (is_ok (ak a))) (spre (scr i)) && negb (is_ok (ak (sdflt (scr i)))))
          (seq 0 n).

(* ---- cases for the correspondence check ---- *)
Definition mk_host (u : bool) (f c m : Z) : host :=
  {| unhealthy := u; fails := f; conns := c; maxconns := m |}.

Inductive pol :=
| PFirst | PRoundRobin (robin : N) | PHash (h : N) | PRandom | PLeastConn
| PHeaderNoNames | PHeaderValue (h : N).

Definition opt_nat_eqb (a b : option nat) : bool :=
  match a, b with
  | None, None => true
  | Some x, Some y => Nat.eqb x y
  | _, _ => false
  end.

Definition min_conns_avail (mf : Z) (pool : list host) : option Z :=
  fold_left (fun acc h => if available mf h then
                            match acc with None => Some (conns h)
                                      | Some m => Some (Z.min m (conns h)) end
                          else acc) pool None.

(* ================= bytes of the buffered request body vs the shared buffer pool (kind retryconc) =====
   body.go: newBufferedBody reads the whole body with ioutil.ReadAll into memory of its own;
   bufferedBody.Close is a no-op; rewind seeks to 0; every attempt reads that memory again.
   reverseproxy.go: bufferPool is a sync.Pool of 32 KiB slices used by pooledIoCopy (every relayed
   response) and the websocket replay buffer: Get (any pooled slice, or a fresh one), write, Put.
   Memory = numbered blocks; the pool and the blocks currently held by other goroutines are lists of
   block numbers. *)
Fixpoint set_nth {A} (i : nat) (v : A) (l : list A) : list A :=
  match l, i with
  | [], _ => []
  | _ :: r, O => v :: r
  | x :: r, Datatypes.S j => x :: set_nth j v r
  end.
Definition block := list N.
Record mem := mk_mem { m_heap : list block; m_pool : list nat; m_held : list nat }.
Fixpoint remove_nth {A} (i : nat) (l : list A) : list A :=
  match l, i with
  | [], _ => []
  | _ :: r, O => r
  | x :: r, Datatypes.S j => x :: remove_nth j r
  end.
(* a write of [data] at the start of a block (copy buffers are filled from offset 0) *)
Definition write_at (old data : block) : block := data ++ skipn (length data) old.
Inductive mev :=
| MGet (pick : nat)                 (* bufferPool.Get(): the pick-th pooled block, a fresh one if there is none *)
| MWrite (h : nat) (data : block)   (* the holder of the h-th held block writes into it *)
| MPut (h : nat)                    (* bufferPool.Put *)
| MAttempt.                         (* an attempt of OUR request: rewind, the transport reads the body to EOF and closes it *)
Record bbody := mk_bbody { bb_block : nat; bb_len : nat; bb_put : bool }.
(* newBufferedBody: ReadAll allocates; nothing else refers to the block *)
Definition new_body (m : mem) (body : block) : mem * bbody :=
  (mk_mem (m_heap m ++ [body]) (m_pool m) (m_held m), mk_bbody (length (m_heap m)) (length body) false).
(* [close_puts]: false = the code (Close is a no-op); true = a Close that hands the body's block to
   the pool (once), for contrast *)
Definition mstep (close_puts : bool) (s : mem * bbody) (e : mev) : (mem * bbody) * option block :=
  let '(m, b) := s in
  match e with
  | MGet pick =>
      match nth_error (m_pool m) pick with
      | Some k => ((mk_mem (m_heap m) (remove_nth pick (m_pool m)) (m_held m ++ [k]), b), None)
      | None => ((mk_mem (m_heap m ++ [[]]) (m_pool m) (m_held m ++ [length (m_heap m)]), b), None)
      end
  | MWrite h data =>
      match nth_error (m_held m) h with
      | Some k => ((mk_mem (set_nth k (write_at (nth k (m_heap m) []) data) (m_heap m)) (m_pool m) (m_held m), b), None)
      | None => ((m, b), None)
      end
  | MPut h =>
      match nth_error (m_held m) h with
      | Some k => ((mk_mem (m_heap m) (k :: m_pool m) (remove_nth h (m_held m)), b), None)
      | None => ((m, b), None)
      end
  | MAttempt =>
      let got := firstn (bb_len b) (nth (bb_block b) (m_heap m) []) in
      if close_puts && negb (bb_put b)
      then ((mk_mem (m_heap m) (bb_block b :: m_pool m) (m_held m), mk_bbody (bb_block b) (bb_len b) true), Some got)
      else ((m, b), Some got)
  end.
(* what the attempts of our request read, in order *)
Fixpoint mrun (close_puts : bool) (s : mem * bbody) (evs : list mev) : list block :=
  match evs with
  | [] => []
  | e :: r => let '(s', o) := mstep close_puts s e in
              match o with Some got => got :: mrun close_puts s' r | None => mrun close_puts s' r end
  end.
Definition mem_wf (m : mem) : Prop :=
  (forall k, In k (m_pool m) -> (k < length (m_heap m))%nat) /\ (forall k, In k (m_held m) -> (k < length (m_heap m))%nat).
Definition is_attempt (e : mev) : bool := match e with MAttempt => true | _ => false end.

(* observation of a byte string relative to a pattern (harness c04BodyOf / c04Observe): length, first
   offset differing from the expected pattern (computed by the harness), first and last 48 bytes *)
Definition pat_byte (salt i : N) : N := (i * 7 + i / 251 + salt) mod 253.
Definition window : N := 48.
Record bobs := mk_bobs { bo_len : N; bo_diff : option N; bo_head : list N; bo_tail : list N }.
Fixpoint bytes_are (l : list N) (salt off : N) : bool :=
  match l with
  | [] => true
  | c :: r => (c =? pat_byte salt off) && bytes_are r salt (off + 1)
  end.
Definition own_bytes (o : bobs) (salt len : N) : bool :=
  let h := N.min len window in
  (bo_len o =? len) && match bo_diff o with None => true | Some _ => false end &&
  (N.of_nat (length (bo_head o)) =? h) && (N.of_nat (length (bo_tail o)) =? h) &&
  bytes_are (bo_head o) salt 0 && bytes_are (bo_tail o) salt (len - h).
Fixpoint pat_range (salt start : N) (n : nat) : list N :=
  match n with
  | O => []
  | Datatypes.S m => pat_byte salt start :: pat_range salt (start + 1) m
  end.
Definition desc_of_pat (salt len : N) : bobs :=
  let h := N.min len window in
  mk_bobs len None (pat_range salt 0 (N.to_nat h)) (pat_range salt (len - h) (N.to_nat h)).
Definition bobs_eqb (a b : bobs) : bool :=
  (bo_len a =? bo_len b) &&
  match bo_diff a, bo_diff b with None, None => true | Some x, Some y => x =? y | _, _ => false end &&
  list_beq N.eqb (bo_head a) (bo_head b) && list_beq N.eqb (bo_tail a) (bo_tail b).

(* ================= a backend that dies MID-BODY (kind retrymid) =================
   bufferedBody is a bytes.Reader over the buffered request body: Len() is the number of UNREAD
   bytes, rewind() seeks to offset 0.  One iteration of the retry loop of Proxy.ServeHTTP on a
   buffered body: rewind, then the attempt's backend reads k bytes (None: to EOF) of what is sent
   with the announced outreq.ContentLength, which the loop never touches.  [len_before_rewind] is the
   variant that announces bb.Len() taken BEFORE the rewind (for the nonvacuity example). *)
Record rdr := mk_rdr { rd_data : list N; rd_off : nat }.
Definition rd_unread (r : rdr) : nat := (length (rd_data r) - rd_off r)%nat.
Definition rd_rewind (r : rdr) : rdr := mk_rdr (rd_data r) 0.
Definition rd_read (r : rdr) (k : option nat) : list N * rdr :=
  let rest := skipn (rd_off r) (rd_data r) in
  let got := match k with None => rest | Some k => firstn k rest end in
  (got, mk_rdr (rd_data r) (rd_off r + length got)).
Definition mid_attempt (len_before_rewind : bool) (cl : Z) (r : rdr) (k : option nat)
  : (Z * list N) * (Z * rdr) :=
  let cl' := if len_before_rewind then Z.of_nat (rd_unread r) else cl in
  let '(got, r') := rd_read (rd_rewind r) k in
  ((cl', got), (cl', r')).
Fixpoint mid_run (lbr : bool) (cl : Z) (r : rdr) (ks : list (option nat)) : list (Z * list N) :=
  match ks with
  | [] => []
  | k :: rest => let '(o, (cl', r')) := mid_attempt lbr cl r k in o :: mid_run lbr cl' r' rest
  end.
(* what an attempt that asks for k bytes must get of [data] *)
Definition mid_expect (data : list N) (k : option nat) : list N :=
  match k with None => data | Some k => firstn k data end.
(* observed attempt: bytes its backend asked for before failing (-1: to EOF, then it answers), what it
   could read, the Content-Length announced to it, scripted failure? *)
Record rmatt := mk_rmatt { rm_asked : Z; rm_body : bobs; rm_cl : Z; rm_failed : bool }.
Definition rm_eff (len : N) (asked : Z) : N := if (asked <? 0)%Z then len else N.min (Z.to_N asked) len.
Definition rm_k (asked : Z) : option nat := if (asked <? 0)%Z then None else Some (Z.to_nat asked).
Fixpoint first_diff (l : list N) (salt off : N) : option N :=
  match l with
  | [] => None
  | c :: r => if c =? pat_byte salt off then first_diff r salt (off + 1) else Some off
  end.
Definition describe_pat (salt : N) (l : list N) : bobs :=
  let n := N.of_nat (length l) in
  let h := N.to_nat (N.min n window) in
  mk_bobs n (first_diff l salt 0) (firstn h l) (skipn (length l - h) l).
Definition MID_SMALL : N := 600.
(* the model's attempts: (announced Content-Length, descriptor of the bytes read); the byte strings
   themselves for small bodies, their descriptors (C05_retry_announces_full_length) for large ones *)
Definition mid_model (salt len : N) (cl0 : Z) (asks : list Z) : list (Z * bobs) :=
  if len <=? MID_SMALL
  then map (fun o : Z * list N => (fst o, describe_pat salt (snd o)))
           (mid_run false cl0 (mk_rdr (pat_range salt 0 (N.to_nat len)) 0) (map rm_k asks))
  else map (fun a => (cl0, desc_of_pat salt (rm_eff len a))) asks.
Fixpoint fails_then_ok (l : list bool) : bool :=
  match l with
  | [] => false
  | [f] => negb f
  | f :: r => f && fails_then_ok r
  end.
(* one request of a concurrent schedule: body pattern, number of first attempts that fail *)
Record rcreq := mk_rcreq { rc_salt : N; rc_len : N; rc_fails : nat }.
Record rcatt := mk_rcatt { rca_host : nat; rca_body : bobs }.
Record rcobs := mk_rcobs { rco_atts : list rcatt; rco_status : N; rco_ret : N }.

(* one request of a sequence: absolute start tick, Fails of every host read at the start, the
   events and the outcome (ticks relative to the start), Fails read when it returned *)
Record sreq := mk_sreq { sq_start : N; sq_f0 : list Z; sq_obs : list tev; sq_out : tout; sq_f1 : list Z }.
Inductive case :=
(* direct call of an exported policy type: pool, max_fails (1 = default CheckDown=nil), observed index *)
| CPolicy (p : pol) (mf : Z) (pool : list host) (obs : option nat)
(* staticUpstream.Select through a parsed upstream block *)
| CStatic (p : pol) (mf : Z) (pool : list host) (obs : option nat)
(* retry loop: policy (first / round robin from 0 / hash), base availability, fail script per host
   (true = this host fails every attempt), fuel, observed trace of chosen hosts and final
   answered host (None = 502), every attempt got the complete body? *)
| CRetry (p : pol) (base : list bool) (failing : list bool) (obs_trace : list nat)
         (obs_final : option nat) (bodies_complete : bool)
(* timed retry loop through the real Proxy.ServeHTTP with a fault-scripted transport per host:
   policy, configuration in ticks, Unhealthy flags, fault script per host, interference table
   (iteration -> host -> made unavailable for that Select), expiry times of the failures other
   requests have recorded on each host before this one starts, observed events and final status *)
(* m consecutive Selects of one RoundRobin whose counter was set to robin (also right below 2^32) *)
| CRRSeq (robin : N) (av : list bool) (obs : list (option nat))
| CRetryT (p : pol) (c : tcfg) (unhl : list bool) (scripts : list script) (envl : list (list bool))
          (fx0l : list (list N)) (obs : list tev) (obs_out : tout)
(* several `policy round_robin` blocks parsed from one text (per block: availability of its hosts)
   served through Proxy.ServeHTTP following a schedule (which block gets the next request): the host
   each request reached *)
| CRRBlocks (avs : list (list bool)) (sched : list nat) (obs : list (option nat))
(* concurrent schedule through one proxy (retries on): per request its body pattern and number of
   failing first attempts; observed: every attempt (host, body bytes as received), status *)
| CRetryConc (nhosts : nat) (reqs : list (rcreq * rcobs))
(* ONE request (pattern body, Content-Length or chunked) through a proxy with retries whose first
   attempts hit backends that read k bytes of the body and die (scripted transport, or the real
   http.Transport against loopback backends that reset the connection): per attempt what it was
   announced and what it could read *)
| CRetryMid (wire : bool) (salt len : N) (chunked : bool) (atts : list rmatt) (status ret : N)
(* several requests, one after the other, through ONE proxy (timed machinery, the hosts' fault
   scripts go on from request to request): per request its start, Fails of every host at the start
   and at the end, events and outcome; Fails read once more at fin_t *)
| CRetrySeq (p : pol) (c : tcfg) (unhl : list bool) (scripts : list script) (reqs : list sreq)
            (fin_t : N) (fin_f : list Z).

Definition pol_select (p : pol) (mf : Z) (pool : list host) : option (option nat) :=
  let av := avail_vec mf pool in
  match p with
  | PFirst => Some (first_select av)
  | PRoundRobin r => Some (fst (rr_select av r))
  | PHash h => Some (hash_select av h)
  | PHeaderNoNames => Some None
  | PHeaderValue h => Some (hash_select av h)
  | PRandom | PLeastConn => None     (* nondeterministic: judged by the spec only *)
  end.

Definition sel_of (p : pol) : N -> list bool -> option nat * N :=
  fun st av =>
  match p with
  | PFirst => (static_select av first_select, st)
  | PRoundRobin _ => match av with
                     | [a] => (if a then Some 0%nat else None, st)
                     | _ => if existsb (fun b => b) av then rr_select av st else (None, st)
                     end
  | PHash h | PHeaderValue h => (static_select av (fun av => hash_select av h), st)
  | _ => (None, st)
  end.


(* ================= several round_robin blocks served alternately (kind rrblocks) =================
   policy.go registers `round_robin` with a factory that returns a NEW &RoundRobin{} for every parsed
   proxy block: each staticUpstream has its own counter. [st]: the counter of every block; [sched]:
   which block receives the next request. *)
(* staticUpstream.Select with the round robin policy: one block, m consecutive requests *)
Fixpoint rrs_run (av : list bool) (robin : N) (m : nat) : list (option nat) :=
  match m with
  | O => []
  | Datatypes.S k => let '(o, robin') := sel_of (PRoundRobin 0) robin av in o :: rrs_run av robin' k
  end.
Fixpoint rrb_run (avs : list (list bool)) (st : list N) (sched : list nat) : list (option nat) :=
  match sched with
  | [] => []
  | b :: r => let '(o, s') := sel_of (PRoundRobin 0) (nth b st 0) (nth b avs []) in
              o :: rrb_run avs (set_nth b s' st) r
  end.
(* the requests of block b, in order *)
Fixpoint proj {A} (b : nat) (sched : list nat) (xs : list A) : list A :=
  match sched, xs with
  | s :: sr, x :: xr => if Nat.eqb s b then x :: proj b sr xr else proj b sr xr
  | _, _ => []
  end.
Definition count_nat (b : nat) (l : list nat) : nat := length (filter (Nat.eqb b) l).
(* for contrast: ONE counter shared by all blocks (a package-level RoundRobin handed to every block) *)
Fixpoint rrb_run_shared (avs : list (list bool)) (robin : N) (sched : list nat) : list (option nat) :=
  match sched with
  | [] => []
  | b :: r => let '(o, s') := sel_of (PRoundRobin 0) robin (nth b avs []) in o :: rrb_run_shared avs s' r
  end.
(* executable clause: fairness of ONE block on its own requests while availability is unchanged:
   never an unavailable host, a host whenever one is available, and the available hosts are visited
   evenly: their visit counts differ by at most one *)
Definition count_opt (j : nat) (obs : list (option nat)) : nat :=
  length (filter (fun o => opt_nat_eqb o (Some j)) obs).
Definition is_nil_nat (l : list nat) : bool := match l with [] => true | _ => false end.
Definition block_fair (av : list bool) (obs : list (option nat)) : bool :=
  let idxs := avail_idxs av in
  forallb (fun o => match o with Some i => nth i av false | None => is_nil_nat idxs end) obs &&
  forallb (fun i => forallb (fun j => Nat.leb (count_opt i obs) (Datatypes.S (count_opt j obs))) idxs) idxs.


Fixpoint NoDup_b (l : list nat) : bool :=
  match l with [] => true | x :: r => negb (existsb (Nat.eqb x) r) && NoDup_b r end.


(* --- helpers of the timed retry cases --- *)
Definition akind_eqb (a b : akind) : bool :=
  match a, b with KOk, KOk | KFailBefore, KFailBefore | KFailAfter, KFailAfter | KRefuse, KRefuse => true
  | _, _ => false end.
Definition rxk_eqb (a b : rxk) : bool :=
  match a, b with RxNotRead, RxNotRead | RxFull, RxFull | RxClosed, RxClosed | RxBad, RxBad => true
  | _, _ => false end.
Definition tev_eqb (a b : tev) : bool :=
  match a, b with
  | ENone t, ENone t' => t =? t'
  | ERefused t i, ERefused t' i' => (t =? t') && Nat.eqb i i'
  | EAttempt t i k rx ok te, EAttempt t' i' k' rx' ok' te' =>
      (t =? t') && Nat.eqb i i' && akind_eqb k k' && rxk_eqb rx rx' && Bool.eqb ok ok' && (te =? te')
  | _, _ => false
  end.
Definition tout_eqb (a b : tout) : bool :=
  match a, b with
  | TAnswered i t, TAnswered i' t' => Nat.eqb i i' && (t =? t')
  | T502 t, T502 t' => t =? t'
  | THang, THang => true
  | _, _ => false
  end.
(* the observed trace follows the fault scripts and the clock only moves forward *)
Fixpoint trace_wf (scr : nat -> script) (cnt : nat -> nat) (last_t : N) (tr : list tev) : bool :=
  match tr with
  | [] => true
  | ENone t :: r => (last_t <=? t) && trace_wf scr cnt t r
  | ERefused t i :: r =>
      (last_t <=? t) && is_refuse (ak (script_at (scr i) (cnt i))) &&
      trace_wf scr (upd cnt i (Datatypes.S (cnt i))) t r
  | EAttempt t i k rx ok te :: r =>
      let a := script_at (scr i) (cnt i) in
      (last_t <=? t) && akind_eqb k (ak a) && negb (is_refuse k) && (te =? t + adur a) &&
      Bool.eqb ok (att_ok k rx) &&
      match k, rx with KFailBefore, RxNotRead => true | KFailBefore, _ => false | _, RxNotRead => false | _, _ => true end &&
      trace_wf scr (upd cnt i (Datatypes.S (cnt i))) te r
  end.
(* Select found no host only when, by the books of this request, none was available *)
Fixpoint none_ok (n : nat) (mf ft : N) (unh : nat -> bool) (env : nat -> nat -> bool)
         (it : nat) (acc : nat -> list N) (tr : list tev) : bool :=
  match tr with
  | [] => true
  | e :: r =>
      match e with
      | ENone t => forallb (fun i => unh i || env it i || (mf <=? live t (acc i))) (seq 0 n)
      | _ => true
      end && none_ok n mf ft unh env (Datatypes.S it) (ev_fail_rec ft acc e) r
  end.
Definition dmax_of (n : nat) (scr : nat -> script) : N :=
  fold_left N.max (flat_map (fun i => adur (sdflt (scr i)) :: map adur (spre (scr i))) (seq 0 n)) 0.
Definition is_answered (o : tout) : bool := match o with TAnswered _ _ => true | _ => false end.

(* the timed retry loop of ONE request: (model = observation, executable spec on the observation) *)
Definition retryT_eval (p : pol) (c : tcfg) (unhl : list bool) (scripts : list script) (envl : list (list bool))
           (fx0l : list (list N)) (obs : list tev) (obs_out : tout) : bool * bool :=
      let n := t_n c in
      let unh := fun i => nth i unhl true in
      let scr := fun i => nth i scripts (mk_script [] (mk_astep KFailBefore 0)) in
      let env := fun it i => nth i (nth it envl []) false in
      let det := match p with PFirst | PRoundRobin _ | PHash _ | PHeaderValue _ => true | _ => false end in
      let st0 := match p with PRoundRobin r => r | _ => 0 end in
      let fuel := (N.to_nat (t_td c / t_ti c) + 3)%nat in
      let fx0 := fun i => nth i fx0l [] in
      let orc := match p with PRandom | PLeastConn => true | _ => false end in
      (* random / least_conn: the observed choices are the oracle of the model's selector *)
      let '(out, tr) := if orc then runT (list nat) osel c unh scr env fuel 0 fx0 (fun _ => 0%nat) (ev_choices obs) true 0
                        else runT N (sel_of p) c unh scr env fuel 0 fx0 (fun _ => 0%nat) st0 true 0 in
      let agree := negb (det || orc) || (list_beq tev_eqb tr obs && tout_eqb out obs_out) in
      let dmax := dmax_of n scr in
      let env_clear g := forallb (fun row => negb (nth g row false)) envl in
      let spec :=
        trace_wf scr (fun _ => 0%nat) 0 obs &&
        (* failed hosts are skipped until their failure expires; Select finds a host whenever one is available *)
        skip_ok (t_mf c) (t_ft c) fx0 obs &&
        none_ok n (t_mf c) (t_ft c) unh env 0 fx0 obs &&
        (* every attempt receives the complete original body, whatever the pool size and the
           configuration (without retries there is only one attempt) *)
        bodies_ok obs &&
        (* 200 only from a successful forward to a host that is not unhealthy, 502 only after failures *)
        answered_ok n unh obs obs_out &&
        (* a healthy backend exists and the budget covers the others => answered *)
        (negb (existsb (fun g => reach_hyp c unh scr g dmax && env_clear g && (live 0 (fx0 g) <? t_mf c)) (seq 0 n)) ||
         is_answered obs_out) &&
        (* 502 only once the duration is spent; and when nobody can succeed, 502 within the bound *)
        match obs_out with T502 t => t_td c <=? t | THang => false | TAnswered _ _ => true end &&
        (negb (never_ok n scr && (0 <? t_ti c)) ||
         match obs_out with T502 t => t <? t_td c + t_ti c + dmax | _ => false end) in
      (agree, spec).

(* ================= several requests over time through one proxy (kind retryseq) =================
   Fails of a host as the code keeps it: an integer incremented by every failed forward, and one
   timer per failure that decrements it fail_timeout later; a successful forward does not touch it.
   [reset_on_succ] is the variant in which a success stores 0 (for the nonvacuity example). *)
Inductive fev := FFail (te : N) | FSucc (t : N) | FRead (t : N).
Record fcs := mk_fcs { f_cnt : Z; f_pend : list N }.
Definition fire (now : N) (s : fcs) : fcs :=
  mk_fcs (f_cnt s - Z.of_nat (length (filter (fun x => x <=? now) (f_pend s))))
         (filter (fun x => now <? x) (f_pend s)).
Definition fstep (reset_on_succ : bool) (ft : N) (s : fcs) (e : fev) : fcs :=
  match e with
  | FFail te => let s' := fire te s in
                if 0 <? ft then mk_fcs (f_cnt s' + 1) ((te + ft) :: f_pend s') else s'
  | FSucc t => let s' := fire t s in
               if reset_on_succ && (0 <? f_cnt s')%Z then mk_fcs 0 (f_pend s') else s'
  | FRead t => fire t s
  end.
Definition frun (reset_on_succ : bool) (ft : N) (evs : list fev) : fcs :=
  fold_left (fstep reset_on_succ ft) evs (mk_fcs 0 []).
(* all expiry times of the failures in a history *)
Definition fexp (ft : N) (evs : list fev) : list N :=
  flat_map (fun e => match e with FFail te => if 0 <? ft then [te + ft] else [] | _ => [] end) evs.

Definition tout_time (o : tout) : N := match o with TAnswered _ t | T502 t => t | THang => 0 end.
Definition ev_uses (i : nat) (e : tev) : bool :=
  match e with EAttempt _ j _ _ _ _ | ERefused _ j => Nat.eqb i j | ENone _ => false end.
(* the history of host i told by a request's events: failed and successful forwards, absolute time *)
Definition ev_fevs (start : N) (i : nat) (tr : list tev) : list fev :=
  flat_map (fun e => match e with
                     | EAttempt _ j _ _ ok te =>
                         if Nat.eqb i j then [if ok then FSucc (start + te) else FFail (start + te)] else []
                     | _ => [] end) tr.
Definition script_drop (k : nat) (s : script) : script := mk_script (skipn k (spre s)) (sdflt s).
(* unexpired failures at [start], as expiry times relative to it *)
Definition rel_exp (start : N) (l : list N) : list N :=
  map (fun x => x - start) (filter (fun x => start <? x) l).
Definition zlist_eqb (a b : list Z) : bool := list_beq Z.eqb a b.
Definition ftime (e : fev) : N := match e with FFail t | FSucc t | FRead t => t end.
(* the history is told in the order of time *)
Fixpoint fmono (last : N) (evs : list fev) : bool :=
  match evs with [] => true | e :: r => (last <=? ftime e) && fmono (ftime e) r end.
Fixpoint flast (last : N) (evs : list fev) : N :=
  match evs with [] => last | e :: r => flast (ftime e) r end.
(* hist: per host the history so far (oldest first); used: forwards/refusals each host's script has played *)
Fixpoint seq_eval (p : pol) (c : tcfg) (unhl : list bool) (scripts : list script)
         (hist : list (list fev)) (used : list nat) (reqs : list sreq) : bool * bool :=
  match reqs with
  | [] => (true, true)
  | r :: rest =>
      let hosts := seq 0 (t_n c) in
      let ft := t_ft c in
      let start := sq_start r in
      let tend := start + tout_time (sq_out r) in
      let scr' := map (fun i => script_drop (nth i used 0%nat) (nth i scripts (mk_script [] (mk_astep KFailBefore 0)))) hosts in
      let fx0l := map (fun i => rel_exp start (fexp ft (nth i hist []))) hosts in
      let '(a, s) := retryT_eval p c unhl scr' [] fx0l (sq_obs r) (sq_out r) in
      let hist' := map (fun i => nth i hist [] ++ ev_fevs start i (sq_obs r)) hosts in
      let used' := map (fun i => (nth i used 0 + length (filter (ev_uses i) (sq_obs r)))%nat) hosts in
      (* model: the counter with its timers; spec: Fails = number of unexpired failures (never negative) *)
      let a_f := zlist_eqb (sq_f0 r) (map (fun i => f_cnt (fire start (frun false ft (nth i hist [])))) hosts) &&
                 zlist_eqb (sq_f1 r) (map (fun i => f_cnt (fire tend (frun false ft (nth i hist' [])))) hosts) in
      let s_f := zlist_eqb (sq_f0 r) (map (fun i => Z.of_N (live start (fexp ft (nth i hist [])))) hosts) &&
                 zlist_eqb (sq_f1 r) (map (fun i => Z.of_N (live tend (fexp ft (nth i hist' [])))) hosts) in
      let '(a', s') := seq_eval p c unhl scripts hist' used' rest in
      (a && a_f && a', s && s_f && s')
  end.
Fixpoint seq_hist (c : tcfg) (hist : list (list fev)) (reqs : list sreq) : list (list fev) :=
  match reqs with
  | [] => hist
  | r :: rest => seq_hist c (map (fun i => nth i hist [] ++ ev_fevs (sq_start r) i (sq_obs r)) (seq 0 (t_n c))) rest
  end.

Definition judge (c : case) : N :=
  match c with
  | CPolicy p mf pool obs | CStatic p mf pool obs =>
      let av := avail_vec mf pool in
      let any := existsb (fun b => b) av in
      let is_static := match c with CStatic _ _ _ _ => true | _ => false end in
      let sound := match obs with None => true | Some i => nth i av false end in
      let complete := match p with
                      | PHeaderNoNames => true
                      | _ => negb any || match obs with Some _ => true | None => false end
                      end in
      let extra := match p, obs with
                   | PLeastConn, Some i =>
                       match min_conns_avail mf pool with
                       | Some m => (conns (nth i pool (mk_host true 0 0 0)) =? m)%Z
                       | None => false end
                   | PFirst, Some i => negb (existsb (fun j => nth j av false) (seq 0 i))
                   | _, _ => true
                   end in
      let agree := match pol_select p mf pool with
                   | None => true
                   | Some m => let m' := if is_static then static_select av (fun _ => m) else m in
                               opt_nat_eqb m' obs
                   end in
      verdict agree (sound && complete && extra)
  | CRetry p base failing obs_trace obs_final bodies_complete =>
      let n := length base in
      let st0 := match p with PRoundRobin r => r | _ => 0 end in
      let '(out, tr) := retry N (sel_of p) (fun _ i => nth i failing false) (n + 2) true 0 st0 base
                              (map (fun _ => false) base) [] in
      let healthy_exists := existsb (fun i => nth i base false && negb (nth i failing false)) (seq 0 n) in
      let agree := list_beq Nat.eqb tr obs_trace &&
                   match out, obs_final with
                   | Answered i _, Some j => Nat.eqb i j
                   | BadGateway, None => true
                   | _, _ => false end in
      let spec :=
        bodies_complete &&
        (* answered only by a healthy available backend; 502 only when none exists *)
        match obs_final with
        | Some j => nth j base false && negb (nth j failing false)
        | None => negb healthy_exists
        end &&
        (* every attempt went to an available host not yet failed in this request *)
        NoDup_b obs_trace && forallb (fun i => nth i base false) obs_trace in
      verdict agree spec
  | CRRSeq robin av obs =>
      let n := length av in
      let m := length obs in
      let any := existsb (fun b => b) av in
      let all := forallb (fun b => b) av in
      let nones := length (filter (fun o => match o with None => true | _ => false end) obs) in
      let nowrap := robin + N.of_nat (m * n) <? U32 in
      let count j := length (filter (fun o => opt_nat_eqb o (Some j)) obs) in
      let k := Nat.div m n in
      let agree := list_beq opt_nat_eqb (rr_run av robin m) obs in
      let spec :=
        (* never an unavailable host *)
        forallb (fun o => match o with Some i => nth i av false | None => true end) obs &&
        (* a host whenever one is available *)
        (negb any || Nat.eqb nones 0) &&
        (* evenness: k times each over k*n selections with all hosts up *)
        (negb (all && Nat.ltb 0 n && Nat.eqb (k * n) m) ||
         forallb (fun j => Nat.eqb (count j) k) (seq 0 n)) in
      verdict agree spec
  | CRetryT p c unhl scripts envl fx0l obs obs_out =>
      let '(agree, spec) := retryT_eval p c unhl scripts envl fx0l obs obs_out in
      verdict agree spec
  | CRetrySeq p c unhl scripts reqs fin_t fin_f =>
      let hosts := seq 0 (t_n c) in
      let '(agree, spec) := seq_eval p c unhl scripts (map (fun _ => []) hosts) (map (fun _ => 0%nat) hosts) reqs in
      let hist := seq_hist c (map (fun _ => []) hosts) reqs in
      (* every request by itself given the history, Fails at every reading, and times in order *)
      let ordered := (fix go (last : N) (l : list sreq) : bool :=
                        match l with [] => last <=? fin_t
                        | r :: rest => (last <=? sq_start r) && go (sq_start r + tout_time (sq_out r)) rest end) 0 reqs in
      verdict (agree && zlist_eqb fin_f (map (fun i => f_cnt (fire fin_t (frun false (t_ft c) (nth i hist [])))) hosts))
              (spec && ordered &&
               zlist_eqb fin_f (map (fun i => Z.of_N (live fin_t (fexp (t_ft c) (nth i hist [])))) hosts))
  | CRRBlocks avs sched obs =>
      let agree := list_beq opt_nat_eqb (rrb_run avs (map (fun _ => 0) avs) sched) obs in
      (* fairness PER BLOCK, on the block's own requests *)
      let spec :=
        Nat.eqb (length obs) (length sched) && forallb (fun b => Nat.ltb b (length avs)) sched &&
        forallb (fun b => block_fair (nth b avs []) (proj b sched obs)) (seq 0 (length avs)) in
      verdict agree spec
  | CRetryConc nhosts reqs =>
      let agree :=
        forallb (fun ro : rcreq * rcobs => let '(r, o) := ro in
                   list_beq bobs_eqb (map rca_body (rco_atts o))
                            (repeat (desc_of_pat (rc_salt r) (rc_len r)) (Datatypes.S (rc_fails r))) &&
                   (rco_status o =? 200)) reqs in
      (* every attempt received the complete original body BYTES, and the request was answered by the
         backend that was up when its scripted failures were over *)
      let spec :=
        forallb (fun ro : rcreq * rcobs => let '(r, o) := ro in
                   Nat.eqb (length (rco_atts o)) (Datatypes.S (rc_fails r)) &&
                   forallb (fun a => Nat.ltb (rca_host a) nhosts && own_bytes (rca_body a) (rc_salt r) (rc_len r)) (rco_atts o) &&
                   (rco_status o =? 200) && (rco_ret o =? 0)) reqs in
      verdict agree spec
  | CRetryMid wire salt len chunked atts status ret =>
      let cl0 := if chunked then (-1)%Z else Z.of_N len in
      let agree :=
        list_beq (fun a b : Z * bobs => (fst a =? fst b)%Z && bobs_eqb (snd a) (snd b))
                 (map (fun a => (rm_cl a, rm_body a)) atts) (mid_model salt len cl0 (map rm_asked atts)) &&
        (status =? 200) in
      (* EVERY attempt - the first and each retry, whatever the earlier backends consumed - is
         announced the complete length and can read the original bytes from offset 0; the request is
         answered by the backend that is up *)
      let spec :=
        fails_then_ok (map rm_failed atts) &&
        forallb (fun a => own_bytes (rm_body a) salt (rm_eff len (rm_asked a))) atts &&
        forallb (fun a => if chunked then (rm_cl a <=? 0)%Z else (rm_cl a =? Z.of_N len)%Z) atts &&
        (status =? 200) && (ret =? 0) in
      verdict agree spec
  end.
