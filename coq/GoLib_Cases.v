(* case type for the differential test of the Go-stdlib models (path.Clean, strings helpers) *)
Require Import V.Lib V.GoPath V.GoNet.
Inductive lcase :=
| LClean (p obs : bytes)
| LLower (s obs : bytes)
| LHasPrefix (s p : bytes) (obs : bool)
| LHasSuffix (s p : bytes) (obs : bool)
| LSplit (sep : N) (s : bytes) (obs : list bytes)
| LSplitHostPort (s : bytes) (ok : bool) (h p : bytes).
Definition ljudge (c : lcase) : N :=
  match c with
  | LClean p obs => verdict (beq (clean p) obs) true
  | LLower s obs => verdict (beq (to_lower s) obs) true
  | LHasPrefix s p obs => verdict (Bool.eqb (has_prefix s p) obs) true
  | LHasSuffix s p obs => verdict (Bool.eqb (has_suffix s p) obs) true
  | LSplit sep s obs => verdict (list_beq beq (split sep s) obs) true
  | LSplitHostPort s ok h p =>
      verdict (match split_host_port s with
               | Some (h', p') => ok && beq h h' && beq p p'
               | None => negb ok end) true
  end.
