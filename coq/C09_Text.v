(* C09 composed with C10 — reorder-invariance stated on TEXT.
   C10 proves that the lexer+parser model returns, for every configuration AST printed by its
   printer, the blocks of the AST (C10_parse_structure).  Here the per-directive token groups of
   that result are shown to be exactly C09's [tokens_of] over the lines as written (directive name
   = environment-expanded first token), and therefore — through C09's grouping_invariant — equal
   for every admissible reordering of the lines of a server block: same texts and the same line
   structure as the Dispenser of a setup function sees it (NextLine / NextArg answers between
   consecutive tokens), the absolute line numbers excepted (they necessarily differ). *)
Require Import V.Lib.
Require V.C09_Model V.C09_Proofs.
Require Import V.C10_Model V.C10_Proofs.
From Coq Require Import Permutation Lia ZArith.
Open Scope N_scope.

(* ================= 1. C10's association list of groups = C09's tokens_of ================= *)
Definition glist (m : list (bytes * list token)) (d : bytes) : list token :=
  match lookup_s m d with Some v => v | None => [] end.

Lemma beq_sym a b : beq a b = beq b a.
Proof.
  destruct (beq a b) eqn:E1, (beq b a) eqn:E2; try reflexivity.
  - apply beq_eq in E1. subst b. rewrite beq_refl in E2. discriminate.
  - apply beq_eq in E2. subst b. rewrite beq_refl in E1. discriminate.
Qed.

Lemma lookup_add m dir t d :
  lookup_s (add_btok m dir t) d = if beq dir d then Some (glist m d ++ [t]) else lookup_s m d.
Proof.
  unfold glist. induction m as [|[k v] r IH]; cbn [add_btok lookup_s].
  - destruct (beq dir d); reflexivity.
  - destruct (beq k dir) eqn:Ekd.
    + apply beq_eq in Ekd. subst k. cbn [lookup_s]. destruct (beq dir d); reflexivity.
    + cbn [lookup_s]. destruct (beq k d) eqn:Ek.
      * apply beq_eq in Ek. subst k. rewrite beq_sym, Ekd. reflexivity.
      * exact IH.
Qed.

Lemma glist_add m dir t d :
  glist (add_btok m dir t) d = if beq dir d then glist m d ++ [t] else glist m d.
Proof. unfold glist at 1. rewrite lookup_add. destruct (beq dir d); reflexivity. Qed.

Lemma lookup_push_all : forall ts m dir d,
  lookup_s (push_all m dir ts) d =
  if beq dir d then match ts with [] => lookup_s m d | _ => Some (glist m d ++ ts) end else lookup_s m d.
Proof.
  induction ts as [|t r IH]; intros m dir d.
  - cbn. destruct (beq dir d); reflexivity.
  - change (push_all m dir (t :: r)) with (push_all (add_btok m dir t) dir r).
    rewrite IH, lookup_add, glist_add. destruct (beq dir d); [|reflexivity].
    destruct r; [reflexivity|]. rewrite <- app_assoc. reflexivity.
Qed.

Section Groups.
Variable env : list (bytes * bytes).

(* a directive line as the parser stores it: name = expanded first token, tokens = the first token
   as written followed by the expanded rest *)
Definition cl (l : dline) : @C09_Model.line token :=
  (renv env (t_text (fst l)), fst l :: map (exp_tok env) (snd l)).

Lemma lookup_push_line m l d :
  lookup_s (push_line env m l) d =
  if beq (fst (cl l)) d then Some (glist m d ++ snd (cl l)) else lookup_s m d.
Proof.
  unfold push_line, cl. cbn [fst snd]. rewrite lookup_push_all, lookup_add, glist_add.
  destruct (beq (renv env (t_text (fst l))) d); [|reflexivity].
  destruct (map (exp_tok env) (snd l)); [reflexivity|]. rewrite <- app_assoc. reflexivity.
Qed.

Lemma group_cons {A} d (x : @C09_Model.line A) xs :
  C09_Model.group d (x :: xs) = if C09_Model.is_dir d x then snd x ++ C09_Model.group d xs else C09_Model.group d xs.
Proof. unfold C09_Model.group, C09_Model.lines_of. cbn [filter]. destruct (C09_Model.is_dir d x); reflexivity. Qed.

Lemma lookup_push_lines : forall ls m d,
  lookup_s (push_lines env m ls) d =
  match C09_Model.lines_of d (map cl ls) with
  | [] => lookup_s m d
  | _ => Some (glist m d ++ C09_Model.group d (map cl ls))
  end.
Proof.
  induction ls as [|l r IH]; intros m d; [reflexivity|].
  change (push_lines env m (l :: r)) with (push_lines env (push_line env m l) r).
  rewrite IH. cbn [map]. rewrite group_cons. unfold C09_Model.lines_of at 2. cbn [filter].
  fold (C09_Model.lines_of d (map cl r)).
  unfold glist at 1. rewrite lookup_push_line. unfold C09_Model.is_dir.
  destruct (beq (fst (cl l)) d).
  - destruct (C09_Model.lines_of d (map cl r)) eqn:E.
    + unfold C09_Model.group. rewrite E. cbn [map concat]. rewrite app_nil_r. reflexivity.
    + rewrite <- app_assoc. reflexivity.
  - reflexivity.
Qed.

(* the parser's group for d in a block = C09's tokens_of over the block's lines *)
Lemma block_groups ls d :
  lookup_s (push_lines env [] ls) d = C09_Model.tokens_of (map cl ls) d.
Proof.
  rewrite lookup_push_lines. unfold C09_Model.tokens_of, glist. cbn [lookup_s app].
  destruct (C09_Model.lines_of d (map cl ls)); reflexivity.
Qed.
End Groups.

(* C10_parse_structure composed: for EVERY printed configuration the parse succeeds and the token
   group of every directive of every block is C09's grouping of the block's lines *)
Theorem text_parse_groups env bs :
  forallb (fun p => okq (fst p)) (a_flat_all bs) = true ->
  forallb (block_ok env) (annot_blocks 0 1%Z bs) = true ->
  exists res, parse env (print (a_flat_all bs)) = POk res /\
    Forall2 (fun r b => fst r = block_names env b /\
                        forall d, lookup_s (snd r) d = C09_Model.tokens_of (map (cl env) (b_lines b)) d)
            res (annot_blocks 0 1%Z bs).
Proof.
  intros Hq Hok. eexists. split; [apply parse_structure; assumption|].
  generalize (annot_blocks 0 1%Z bs). induction l as [|b r IH]; cbn [map]; constructor; [|exact IH].
  split; [reflexivity|]. intro d. apply block_groups.
Qed.

(* ================= 2. what a setup function's Dispenser sees of a group ================= *)
(* texts and, between consecutive tokens, the answers of NextLine (isNextOnNewLine) and NextArg:
   C10's observable [otoks_of] without file and line number *)
Definition sview (prev : option token) (ts : list token) : list (bytes * (bool * bool)) :=
  map (fun o : otok => (o_text o, snd o)) (otoks_of prev ts).

Definition lastopt {A} (prev : option A) (l : list A) : option A := fold_left (fun _ t => Some t) l prev.

Lemma sview_app : forall a prev b, sview prev (a ++ b) = sview prev a ++ sview (lastopt prev a) b.
Proof.
  unfold sview. induction a as [|x a IH]; intros prev b; [reflexivity|].
  cbn [app otoks_of map lastopt fold_left]. f_equal. apply IH.
Qed.

(* the same, computed from the lines as written (C09_Model.flags_from): a token is on a new line iff
   its predecessor in the group was followed by a line break, and NextArg reaches it iff it is not *)
Notation flags_from := C09_Model.flags_from.
Definition lastflag (prev : option bool) (l : list (bytes * bool)) : option bool :=
  fold_left (fun _ x => Some (snd x)) l prev.
Lemma flags_from_app : forall a prev b,
  flags_from prev (a ++ b) = flags_from prev a ++ flags_from (lastflag prev a) b.
Proof. induction a as [|x a IH]; intros prev b; [reflexivity|]. cbn. f_equal. apply IH. Qed.

Definition lastb (pf : bool) (l : list ltok) : bool := fold_left (fun _ x => snd x) l pf.

Lemma count_nl_nonneg s : (0 <= count_nl s)%Z.
Proof. induction s as [|c r IH]; cbn [count_nl]; [lia|]. destruct (c =? NL); lia. Qed.
Lemma adv_ge ln t : (ln <= adv ln t)%Z.
Proof. unfold adv. pose proof (count_nl_nonneg (fst t)). destruct (snd t); lia. Qed.
Lemma end_line_ge : forall ts ln, (ln <= end_line ln ts)%Z.
Proof. induction ts as [|t r IH]; intro ln; cbn [end_line]; [lia|]. pose proof (adv_ge ln t). specialize (IH (adv ln t)). lia. Qed.

(* [p] is a token of file f whose text ends before line [ln] (pf: a line break follows it) or on
   line [ln] (a space follows it) *)
Definition Inv (f : N) (p : token) (pf : bool) (ln : Z) : Prop :=
  t_file p = f /\ t_imp p = 0 /\
  (if pf then (t_line p + tok_breaks p < ln)%Z else (t_line p + tok_breaks p = ln)%Z).
Definition InvO (f : N) (prev : option token) (pf : bool) (ln : Z) : Prop :=
  match prev with None => True | Some p => Inv f p pf ln end.

Lemma inv_flags f p pf ln x : Inv f p pf ln -> t_file x = f -> t_imp x = 0 -> t_line x = ln ->
  next_on_new_line p x = pf /\ same_line p x = negb pf.
Proof.
  intros [Hf [Hi Hl]] Hxf Hxi Hxl. unfold next_on_new_line, same_line.
  rewrite Hf, Hxf, Hi, Hxi, Hxl, !N.eqb_refl. cbn [negb orb andb].
  destruct pf; cbn [negb].
  - split; [apply Z.ltb_lt; exact Hl | apply Z.eqb_neq; lia].
  - split; [apply Z.ltb_ge; lia | apply Z.eqb_eq; exact Hl].
Qed.

Lemma inv_weaken f p ln ln' : Inv f p true ln -> (ln <= ln')%Z -> Inv f p true ln'.
Proof. intros [Hf [Hi Hl]] Hle. repeat split; try assumption. lia. Qed.
Lemma invO_weaken f prev ln ln' : InvO f prev true ln -> (ln <= ln')%Z -> InvO f prev true ln'.
Proof. destruct prev; [apply inv_weaken | trivial]. Qed.

Lemma inv_raw f ln (t : ltok) : Inv f (mk_tok f ln t) (snd t) (adv ln t).
Proof.
  unfold Inv, mk_tok, adv, tok_breaks. cbn [t_file t_imp t_line t_text t_envnl].
  repeat split. destruct (snd t); lia.
Qed.

Section Views.
Variable env : list (bytes * bytes).

Lemma inv_exp f ln (t : ltok) : Inv f (exp_tok env (mk_tok f ln t)) (snd t) (adv ln t).
Proof.
  destruct (inv_raw f ln t) as [Hf [Hi Hl]]. unfold exp_tok, Inv. rewrite tok_breaks_retext.
  repeat split; assumption.
Qed.

Notation ev := (C09_Model.ev env).

Lemma toks_from_cons f ln t r : toks_from f ln (t :: r) = mk_tok f ln t :: toks_from f (adv ln t) r.
Proof. reflexivity. Qed.

Lemma sview_exp : forall ts f ln prev pf, InvO f prev pf ln ->
  sview prev (map (exp_tok env) (toks_from f ln ts)) = flags_from (option_map (fun _ => pf) prev) (map ev ts) /\
  InvO f (lastopt prev (map (exp_tok env) (toks_from f ln ts))) (lastb pf ts) (end_line ln ts).
Proof.
  induction ts as [|t r IH]; intros f ln prev pf Hinv.
  - split; [reflexivity | exact Hinv].
  - rewrite toks_from_cons. cbn [map end_line lastb fold_left lastopt].
    destruct (IH f (adv ln t) (Some (exp_tok env (mk_tok f ln t))) (snd t) (inv_exp f ln t)) as [Hv Hi].
    split; [|exact Hi].
    unfold sview in *. cbn [otoks_of map flags_from]. rewrite Hv. cbn [option_map ev fst snd].
    f_equal. unfold o_text. cbn [fst snd]. f_equal.
    destruct prev as [p|]; [|reflexivity]. cbn [option_map].
    destruct (inv_flags f p pf ln (exp_tok env (mk_tok f ln t)) Hinv eq_refl eq_refl eq_refl) as [H1 H2].
    rewrite H1, H2. reflexivity.
Qed.

(* a line of the AST, without line numbers: name and (text, followed-by-line-break) per token *)
Notation aline := (ltok * list ltok)%type.
Notation lview := (C09_Model.lview env).
Definition annot_line (f : N) (ln : Z) (l : aline) : dline :=
  (mk_tok f ln (fst l), toks_from f (adv ln (fst l)) (snd l)).

Lemma annot_lines_cons f ln l r :
  annot_lines f ln (l :: r) = annot_line f ln l :: annot_lines f (end_line ln (a_line_flat l)) r.
Proof. reflexivity. Qed.

Lemma sview_line f ln prev pf (l : aline) : InvO f prev pf ln ->
  sview prev (snd (cl env (annot_line f ln l))) = flags_from (option_map (fun _ => pf) prev) (snd (lview l)) /\
  InvO f (lastopt prev (snd (cl env (annot_line f ln l)))) (lastb (snd (fst l)) (snd l)) (end_line ln (a_line_flat l)).
Proof.
  intros Hinv. destruct l as [h rest]. unfold cl, annot_line, lview, a_line_flat. cbn [fst snd].
  destruct (sview_exp rest f (adv ln h) (Some (mk_tok f ln h)) (snd h) (inv_raw f ln h)) as [Hv Hi].
  cbn [lastopt fold_left end_line]. split; [|exact Hi].
  unfold sview in *. cbn [otoks_of map flags_from]. rewrite Hv. cbn [option_map fst snd].
  f_equal. unfold o_text. cbn [fst snd mk_tok t_text]. f_equal.
  destruct prev as [p|]; [|reflexivity]. cbn [option_map].
  destruct (inv_flags f p pf ln (mk_tok f ln h) Hinv eq_refl eq_refl eq_refl) as [H1 H2].
  rewrite H1, H2. reflexivity.
Qed.

Lemma lastflag_lview prev (l : aline) : lastflag prev (snd (lview l)) = Some (lastb (snd (fst l)) (snd l)).
Proof.
  destruct l as [[ht hb] rest]. unfold C09_Model.lview, lastflag, lastb. cbn [fst snd map fold_left].
  generalize hb. induction rest as [|x r IH]; intro b; [reflexivity|]. cbn [map fold_left C09_Model.ev snd]. apply IH.
Qed.

Lemma lastopt_some {A} (l : list A) prev : l <> [] -> exists x, lastopt prev l = Some x.
Proof.
  revert prev. induction l as [|a r IH]; intros prev H; [congruence|].
  destruct r as [|b r']; [exists a; reflexivity|]. apply (IH (Some a)). discriminate.
Qed.

(* per-line guard on the AST as written (no line numbers): the name is not a brace or `import`, the
   rest satisfies the parser's line discipline, and the line ends with a line break *)
Fixpoint aline_ok (prevnl : bool) (seg : list ltok) (nest : Z) : bool :=
  match seg with
  | [] => (nest =? 0)%Z
  | x :: r =>
    if beq (fst x) LBRACE then aline_ok (snd x) r (nest + 1)
    else if prevnl && (nest =? 0)%Z then false
    else if beq (fst x) RBRACE then (0 <? nest)%Z && aline_ok (snd x) r (nest - 1)
    else if beq (fst x) IMPORT && prevnl then false
    else aline_ok (snd x) r nest
  end.
Definition al_ok (l : aline) : bool :=
  negb (beq (fst (fst l)) LBRACE) && negb (beq (fst (fst l)) RBRACE) && negb (beq (fst (fst l)) IMPORT) &&
  aline_ok (snd (fst l)) (snd l) 0 && lastb (snd (fst l)) (snd l).

Lemma fst_cl_annot f ln l : fst (cl env (annot_line f ln l)) = fst (lview l).
Proof. reflexivity. Qed.

Lemma sview_group d f : forall ls ln prev, InvO f prev true ln -> forallb al_ok ls = true ->
  sview prev (C09_Model.group d (map (cl env) (annot_lines f ln ls))) =
  flags_from (option_map (fun _ => true) prev) (C09_Model.group d (map lview ls)).
Proof.
  induction ls as [|l r IH]; intros ln prev Hinv Hok; [reflexivity|].
  cbn [forallb] in Hok. apply andb_true_iff in Hok as [Hl Hr].
  rewrite annot_lines_cons. cbn [map]. rewrite !group_cons. unfold C09_Model.is_dir.
  rewrite fst_cl_annot. destruct (beq (fst (lview l)) d).
  - rewrite sview_app, flags_from_app.
    destruct (sview_line f ln prev true l Hinv) as [Hv Hi]. rewrite Hv. f_equal.
    unfold al_ok in Hl. apply andb_true_iff in Hl as [_ Hlast]. rewrite Hlast in Hi.
    rewrite (IH _ _ Hi Hr). rewrite lastflag_lview, Hlast.
    destruct (lastopt_some (snd (cl env (annot_line f ln l))) prev) as [x Hx]; [discriminate|].
    rewrite Hx. reflexivity.
  - apply IH; [|exact Hr]. eapply invO_weaken; [exact Hinv | apply end_line_ge].
Qed.

Lemma lines_of_length d f : forall ls ln,
  length (C09_Model.lines_of d (map (cl env) (annot_lines f ln ls))) = length (C09_Model.lines_of d (map lview ls)).
Proof.
  induction ls as [|l r IH]; intro ln; [reflexivity|].
  rewrite annot_lines_cons. cbn [map]. unfold C09_Model.lines_of. cbn [filter]. unfold C09_Model.is_dir.
  rewrite fst_cl_annot. destruct (beq (fst (lview l)) d); cbn [length]; [f_equal|]; apply IH.
Qed.

(* the Dispenser's view of the parser's group for d = the view computed from the lines as written *)
Lemma view_tokens_of d f ln ls : forallb al_ok ls = true ->
  option_map (sview None) (C09_Model.tokens_of (map (cl env) (annot_lines f ln ls)) d) =
  option_map (flags_from None) (C09_Model.tokens_of (map lview ls) d).
Proof.
  intros Hok. unfold C09_Model.tokens_of. pose proof (lines_of_length d f ls ln) as Hlen.
  destruct (C09_Model.lines_of d (map (cl env) (annot_lines f ln ls))),
           (C09_Model.lines_of d (map lview ls)); try discriminate; [reflexivity|].
  cbn [option_map]. f_equal. apply (sview_group d f ls ln None I Hok).
Qed.

(* ---- the guard of C10's structure theorem follows from the per-line guard ---- *)
Lemma line_ok_annot f : forall seg ln p pf nest, Inv f p pf ln ->
  line_ok p (toks_from f ln seg) nest = aline_ok pf seg nest.
Proof.
  induction seg as [|x r IH]; intros ln p pf nest Hinv; [reflexivity|].
  rewrite toks_from_cons. cbn [line_ok aline_ok]. cbn [mk_tok t_text].
  destruct (inv_flags f p pf ln (mk_tok f ln x) Hinv eq_refl eq_refl eq_refl) as [H1 _]. rewrite H1.
  rewrite !(IH (adv ln x) (mk_tok f ln x) (snd x) _ (inv_raw f ln x)). reflexivity.
Qed.

Lemma last_inv f : forall rest ln p pf, Inv f p pf ln ->
  Inv f (last (toks_from f ln rest) p) (lastb pf rest) (end_line ln rest).
Proof.
  induction rest as [|x r IH]; intros ln p pf Hinv; [exact Hinv|].
  rewrite toks_from_cons, last_cons_def. cbn [lastb fold_left end_line].
  apply IH. apply inv_raw.
Qed.

Lemma lines_ok_annot f : forall ls ln rb, forallb al_ok ls = true ->
  t_file rb = f -> t_imp rb = 0 -> t_text rb = RBRACE ->
  t_line rb = end_line ln (concat (map a_line_flat ls)) ->
  lines_ok (annot_lines f ln ls) rb = true.
Proof.
  induction ls as [|l r IH]; intros ln rb Hok Hf Hi Ht Hl; [reflexivity|].
  cbn [forallb] in Hok. apply andb_true_iff in Hok as [Hal Hr].
  rewrite annot_lines_cons. unfold annot_line. cbn [lines_ok]. cbn [map concat] in Hl. rewrite end_line_app in Hl.
  unfold al_ok in Hal. repeat (apply andb_true_iff in Hal as [Hal ?]).
  rename H into Hlast, H0 into Hline, H1 into Himp, H2 into Hrb.
  cbn [mk_tok t_text]. rewrite Hrb, Himp. cbn [andb].
  rewrite (line_ok_annot f (snd l) (adv ln (fst l)) _ (snd (fst l)) 0%Z (inv_raw f ln (fst l))), Hline. cbn [andb].
  rewrite (IH _ rb Hr Hf Hi Ht Hl), andb_true_r.
  pose proof (last_inv f (snd l) (adv ln (fst l)) _ _ (inv_raw f ln (fst l))) as Hinv.
  rewrite Hlast in Hinv. change (end_line (adv ln (fst l)) (snd l)) with (end_line ln (a_line_flat l)) in Hinv.
  unfold follow_ok, head_after.
  destruct r as [|l2 r2].
  - cbn [annot_lines]. rewrite Ht. change (beq RBRACE LBRACE) with false. cbn [negb andb].
    cbn [map concat end_line] in Hl.
    exact (proj1 (inv_flags f _ true _ rb Hinv Hf Hi Hl)).
  - rewrite annot_lines_cons. unfold annot_line. cbn [fst mk_tok t_text].
    cbn [forallb] in Hr. apply andb_true_iff in Hr as [Hal2 _]. unfold al_ok in Hal2.
    repeat (apply andb_true_iff in Hal2 as [Hal2 _]). rewrite Hal2. cbn [andb].
    exact (proj1 (inv_flags f _ true _ (mk_tok f (end_line ln (a_line_flat l)) (fst l2)) Hinv eq_refl eq_refl eq_refl)).
Qed.
End Views.
Notation aline := (ltok * list ltok)%type.
Notation lview := C09_Model.lview.

(* ================= 3. admissible reorderings of a block's lines, on the printed text ================= *)
Definition w1 (t : ltok) : Z := (count_nl (fst t) + (if snd t then 1 else 0))%Z.
Fixpoint weight (ts : list ltok) : Z :=
  match ts with [] => 0%Z | t :: r => (w1 t + weight r)%Z end.
Lemma end_line_weight : forall ts ln, end_line ln ts = (ln + weight ts)%Z.
Proof.
  induction ts as [|t r IH]; intro ln; cbn [end_line weight]; [lia|]. rewrite IH. unfold adv, w1. lia.
Qed.
Lemma weight_app a b : weight (a ++ b) = (weight a + weight b)%Z.
Proof. induction a as [|t r IH]; cbn [app weight]; [lia|]. rewrite IH. lia. Qed.
Lemma weight_lines_perm (ls ls' : list (ltok * list ltok)) : Permutation ls ls' ->
  weight (concat (map a_line_flat ls)) = weight (concat (map a_line_flat ls')).
Proof.
  induction 1 as [|x l l' _ IH|x y l|l l' l'' _ IH1 _ IH2]; cbn [map concat]; rewrite ?weight_app; lia.
Qed.

Lemma forallb_perm {A} (p : A -> bool) l l' : Permutation l l' -> forallb p l = true -> forallb p l' = true.
Proof.
  intros HP H. apply forallb_forall. intros x Hx. rewrite forallb_forall in H. apply H.
  eapply Permutation_in; [apply Permutation_sym; exact HP | exact Hx].
Qed.
Lemma forallb_concat {A} (p : A -> bool) : forall ll, forallb p (concat ll) = forallb (forallb p) ll.
Proof. induction ll as [|l r IH]; [reflexivity|]. cbn [concat forallb]. rewrite forallb_app, IH. reflexivity. Qed.

Lemma forallb_map_comm {A B} (f : A -> B) (p : B -> bool) : forall l,
  forallb p (map f l) = forallb (fun x => p (f x)) l.
Proof. induction l as [|x r IH]; [reflexivity|]. cbn [map forallb]. rewrite IH. reflexivity. Qed.
Lemma filter_map_comm {A B} (f : A -> B) (p : B -> bool) : forall l,
  filter p (map f l) = map f (filter (fun x => p (f x)) l).
Proof. induction l as [|x r IH]; [reflexivity|]. cbn [map filter]. destruct (p (f x)); cbn [map]; rewrite IH; reflexivity. Qed.

Lemma annot_blocks_app f : forall a ln b,
  annot_blocks f ln (a ++ b) = annot_blocks f ln a ++ annot_blocks f (end_line ln (a_flat_all a)) b.
Proof.
  induction a as [|x r IH]; intros ln b; [reflexivity|].
  cbn [app annot_blocks]. rewrite IH. unfold a_flat_all. cbn [map concat]. rewrite end_line_app. reflexivity.
Qed.
Lemma a_flat_all_app a b : a_flat_all (a ++ b) = a_flat_all a ++ a_flat_all b.
Proof. unfold a_flat_all. rewrite map_app, concat_app. reflexivity. Qed.

Section Reorder.
Variable env : list (bytes * bytes).

Definition is_named (d : bytes) (l : aline) : bool := beq (renv env (fst (fst l))) d.
(* the reorderings the property quantifies over, on the AST of the text: a permutation of the
   block's lines that keeps the lines of each directive (name after environment expansion) in
   their relative order *)
Definition text_admissible (ls ls' : list aline) : Prop :=
  Permutation ls ls' /\ forall d, filter (is_named d) ls = filter (is_named d) ls'.

Lemma text_adm_c09 ls ls' : text_admissible ls ls' ->
  C09_Model.admissible (map (lview env) ls) (map (lview env) ls').
Proof.
  intros [HP HF]. split; [apply Permutation_map; exact HP|]. intro d.
  unfold C09_Model.lines_of. rewrite !filter_map_comm.
  f_equal. exact (HF d).
Qed.

Lemma text_adm_swap l1 (a b : aline) l2 : renv env (fst (fst a)) <> renv env (fst (fst b)) ->
  text_admissible (l1 ++ a :: b :: l2) (l1 ++ b :: a :: l2).
Proof.
  intros Hne. split; [apply Permutation_app_head, perm_swap|]. intro d.
  rewrite !filter_app. f_equal. cbn [filter]. unfold is_named.
  destruct (beq (renv env (fst (fst a))) d) eqn:Ea, (beq (renv env (fst (fst b))) d) eqn:Eb; try reflexivity.
  apply beq_eq in Ea, Eb. congruence.
Qed.

Definition mkb (key : ltok) (keys : list ltok) (ls : list aline) : ablock :=
  {| a_key := key; a_keys := keys; a_lines := ls |}.

Lemma a_flat_weight key keys ls ls' : Permutation ls ls' ->
  weight (a_flat (mkb key keys ls)) = weight (a_flat (mkb key keys ls')).
Proof.
  intros HP. unfold a_flat, mkb. cbn [a_key a_keys a_lines].
  change (key :: keys ++ LB :: concat (map a_line_flat ls) ++ [RB]) with ([key] ++ keys ++ [LB] ++ concat (map a_line_flat ls) ++ [RB]).
  change (key :: keys ++ LB :: concat (map a_line_flat ls') ++ [RB]) with ([key] ++ keys ++ [LB] ++ concat (map a_line_flat ls') ++ [RB]).
  rewrite !weight_app, (weight_lines_perm ls ls' HP). reflexivity.
Qed.

Lemma block_ok_reorder f ln key keys ls ls' : Permutation ls ls' ->
  block_ok env (annot_block f ln (mkb key keys ls)) = true -> forallb (al_ok) ls = true ->
  block_ok env (annot_block f ln (mkb key keys ls')) = true.
Proof.
  intros HP Hok Hal. unfold block_ok, annot_block, block_names, mkb in *.
  cbn [a_key a_keys a_lines b_key b_keys b_lb b_lines b_rb] in *.
  repeat (apply andb_true_iff in Hok as [Hok ?]).
  rename H into Hsn, H0 into Hrb, H1 into Hlines, H2 into Hlb.
  rewrite Hok, Hlb, Hsn. cbn [andb]. rewrite andb_true_r.
  apply andb_true_iff. split; [|reflexivity].
  apply lines_ok_annot; try reflexivity.
  eapply forallb_perm; eassumption.
Qed.

(* REORDER-INVARIANCE ON TEXT.  For every configuration (any server blocks [pre] in front of and
   [post] behind the block considered), every server block of it and every admissible reordering
   of that block's directive lines: the lexer+parser model parses BOTH printed texts; all other
   blocks of the result are identical, the block's keys are identical, and for every directive d the
   token group handed to d's setup function is the same in both — same texts (environment
   expanded) and same line structure as seen through the Dispenser — and equals C09's grouping
   [tokens_of] of the lines as written. *)
Theorem text_reorder_invariant pre post key keys ls ls' :
  let cfg := pre ++ mkb key keys ls :: post in
  let cfg' := pre ++ mkb key keys ls' :: post in
  text_admissible ls ls' ->
  forallb (fun p => okq (fst p)) (a_flat_all cfg) = true ->
  forallb (block_ok env) (annot_blocks 0 1%Z cfg) = true ->
  forallb al_ok ls = true ->
  exists R1 r r' R2,
    parse env (print (a_flat_all cfg)) = POk (R1 ++ r :: R2) /\
    parse env (print (a_flat_all cfg')) = POk (R1 ++ r' :: R2) /\
    length R1 = length pre /\ fst r = fst r' /\
    (forall d, option_map (sview None) (lookup_s (snd r) d) = option_map (sview None) (lookup_s (snd r') d)) /\
    (forall d, option_map (sview None) (lookup_s (snd r) d) =
               option_map (flags_from None) (C09_Model.tokens_of (map (lview env) ls) d)).
Proof.
  intros cfg cfg' Hadm Hq Hok Hal. pose proof Hadm as [HP _].
  set (ln1 := end_line 1%Z (a_flat_all pre)).
  assert (Hln2 : end_line ln1 (a_flat (mkb key keys ls)) = end_line ln1 (a_flat (mkb key keys ls'))).
  { rewrite !end_line_weight, (a_flat_weight key keys ls ls' HP). reflexivity. }
  assert (Hsplit : forall l0, annot_blocks 0 1%Z (pre ++ mkb key keys l0 :: post) =
            annot_blocks 0 1%Z pre ++ annot_block 0 ln1 (mkb key keys l0) ::
            annot_blocks 0 (end_line ln1 (a_flat (mkb key keys l0))) post).
  { intro l0. rewrite annot_blocks_app. reflexivity. }
  unfold cfg in Hok. rewrite Hsplit, forallb_app in Hok. cbn [forallb] in Hok.
  apply andb_true_iff in Hok as [Hok1 Hok2]. apply andb_true_iff in Hok2 as [Hokb Hok3].
  assert (Hal' : forallb al_ok ls' = true) by (eapply forallb_perm; eassumption).
  assert (Hok' : forallb (block_ok env) (annot_blocks 0 1%Z cfg') = true).
  { unfold cfg'. rewrite Hsplit, forallb_app. cbn [forallb]. rewrite Hok1, <- Hln2, Hok3.
    rewrite (block_ok_reorder 0 ln1 key keys ls ls' HP Hokb Hal). reflexivity. }
  assert (Hq' : forallb (fun p => okq (fst p)) (a_flat_all cfg') = true).
  { unfold cfg, cfg' in *. rewrite a_flat_all_app, forallb_app in *.
    apply andb_true_iff in Hq as [Hq1 Hq2]. rewrite Hq1. cbn [andb].
    unfold a_flat_all in *. cbn [map concat] in *. rewrite forallb_app in *.
    apply andb_true_iff in Hq2 as [Hq2 Hq3]. rewrite Hq3, andb_true_r.
    unfold a_flat, mkb in *. cbn [a_key a_keys a_lines forallb] in *.
    apply andb_true_iff in Hq2 as [Hk Hq2]. rewrite Hk. cbn [andb].
    rewrite forallb_app in *. apply andb_true_iff in Hq2 as [Hks Hq2]. rewrite Hks. cbn [andb forallb] in *.
    apply andb_true_iff in Hq2 as [Hlb Hq2]. rewrite Hlb. cbn [andb].
    rewrite forallb_app in *. apply andb_true_iff in Hq2 as [Hls Hrb]. rewrite Hrb, andb_true_r.
    rewrite forallb_concat in *. rewrite forallb_map_comm in *.
    eapply forallb_perm; eassumption. }
  exists (map (block_res env) (annot_blocks 0 1%Z pre)),
         (block_res env (annot_block 0 ln1 (mkb key keys ls))),
         (block_res env (annot_block 0 ln1 (mkb key keys ls'))),
         (map (block_res env) (annot_blocks 0 (end_line ln1 (a_flat (mkb key keys ls))) post)).
  assert (Hview : forall l0 d, forallb al_ok l0 = true ->
            option_map (sview None) (lookup_s (snd (block_res env (annot_block 0 ln1 (mkb key keys l0)))) d) =
            option_map (flags_from None) (C09_Model.tokens_of (map (lview env) l0) d)).
  { intros l0 d H0. unfold block_res, annot_block, mkb. cbn [snd b_lines a_lines a_key a_keys].
    rewrite block_groups. apply view_tokens_of. exact H0. }
  split; [|split; [|split; [|split; [|split]]]].
  - rewrite (parse_structure env cfg Hq). 2:{ unfold cfg. rewrite Hsplit, forallb_app. cbn [forallb]. rewrite Hok1, Hokb, Hok3. reflexivity. }
    unfold cfg. rewrite Hsplit, map_app. reflexivity.
  - rewrite (parse_structure env cfg' Hq' Hok'). unfold cfg'. rewrite Hsplit, map_app, <- Hln2. reflexivity.
  - rewrite map_length. clear. generalize 1%Z. induction pre as [|b r IH]; intro z; [reflexivity|]. cbn [annot_blocks length]. rewrite IH. reflexivity.
  - reflexivity.
  - intro d. rewrite (Hview ls d Hal), (Hview ls' d Hal').
    rewrite (C09_Proofs.grouping_invariant _ _ (text_adm_c09 ls ls' Hadm) d). reflexivity.
  - intro d. apply Hview. exact Hal.
Qed.
End Reorder.

(* ================= 4. the printer and flattening used by the correspondence check are C10's ================= *)
Lemma tquote_is_quote t : C09_Model.tquote t = quote_text t.
Proof.
  unfold C09_Model.tquote, quote_text. change 34 with QUOTE. f_equal. f_equal.
  induction t as [|c r IH]; [reflexivity|]. cbn [flat_map esc]. rewrite IH.
  change 34 with QUOTE. change 92 with BSL. destruct (c =? QUOTE); reflexivity.
Qed.
Lemma tprint_is_print : forall ts, C09_Model.tprint ts = print ts.
Proof.
  induction ts as [|[t nl] r IH]; [reflexivity|]. cbn [C09_Model.tprint print fst snd].
  rewrite tquote_is_quote, IH. unfold sep_of. change 10 with NL. reflexivity.
Qed.
Definition to_ablock (b : C09_Model.ablockT) : ablock := mkb (fst (fst b)) (snd (fst b)) (snd b).
Lemma tflat_is_a_flat b : C09_Model.tflat b = a_flat (to_ablock b).
Proof. destruct b as [[k ks] ls]. reflexivity. Qed.
Lemma tflat_all_is_a_flat_all bs : C09_Model.tflat_all bs = a_flat_all (map to_ablock bs).
Proof.
  unfold C09_Model.tflat_all, a_flat_all. induction bs as [|b r IH]; [reflexivity|].
  cbn [map concat]. rewrite tflat_is_a_flat, IH. reflexivity.
Qed.
(* the text the judge of the text cases compares with the harness's text is the printed AST of
   text_reorder_invariant *)
Theorem judge_text_is_printed_ast pre post key keys ls :
  C09_Model.tprint (C09_Model.tflat_all (pre ++ (key, keys, ls) :: post)) =
  print (a_flat_all (map to_ablock pre ++ mkb key keys ls :: map to_ablock post)).
Proof. rewrite tprint_is_print, tflat_all_is_a_flat_all, map_app. reflexivity. Qed.

(* the configuration of C09_text_reorder_invariant_nonvacuous: a directive named through an
   environment variable, a sub-block with a multi-line token, blocks in front and behind *)
Local Open Scope string_scope.
Module TextExample.
Definition env := [(bs "D", bs "header")].
Definition t (s : string) (nl : bool) : ltok := (bs s, nl).
Definition l1 : aline := (t "{$D}" false, [t "/" false; t "X-A" false; t "1 2" true]).
Definition l2 : aline := (t "root" false, [t "/x" true]).
Definition l3 : aline := (t "header" false, [t "/" false; t "{" true; t "X-B" false; ([50; 10; 51], true); t "}" true]).
Definition pre := [mkb (t ":80" false) [] [(t "gzip" true, [])]].
Definition post := [mkb (t "b.com" false) [] [(t "root" false, [t "/y" true])]].
Definition cfg := (pre ++ mkb (t "a.com," false) [t "c.com" false] [l1; l2; l3] :: post)%list.
Definition cfg' := (pre ++ mkb (t "a.com," false) [t "c.com" false] [l2; l1; l3] :: post)%list.
End TextExample.

(* the configuration of C09_text_reorder_continued_value_nonvacuous: a long header value continued with a
   trailing backslash directly in front of the line break inside the quotes, as the last token of its
   line; what stands directly below it differs between the two orders *)
Module ContinuedExample.
Definition env : list (bytes * bytes) := [].
Definition t (s : string) (nl : bool) : ltok := (bs s, nl).
(* header / X-Long "default-src 'self'; \<line break> img-src *"  — the value is the last token of its line *)
Definition l1 : aline := (t "header" false, [t "/" false; t "X-Long" false; (bs "default-src 'self'; \" ++ [10] ++ bs " img-src *", true)]).
Definition l2 : aline := (t "gzip" true, []).
Definition l3 : aline := (t "root" false, [t "/srv" true]).
Definition cfg := [mkb (t "a.com" false) [] [l1; l2; l3]].
Definition cfg' := [mkb (t "a.com" false) [] [l1; l3; l2]].
End ContinuedExample.

(* ---- snippets and their imports on the AST as written (C09_Model.expand_lines) ---- *)
Local Close Scope string_scope.

(* a block without import lines is its own expansion: the text cases without snippets are judged as before *)
Lemma expand_lines_no_import sn : forall ls, forallb al_ok ls = true -> C09_Model.expand_lines sn ls = ls.
Proof.
  induction ls as [|l r IH]; intro H; [reflexivity|].
  cbn [forallb] in H. apply andb_true_iff in H as [Hl Hr].
  unfold C09_Model.expand_lines in *. cbn [flat_map]. rewrite (IH Hr).
  unfold C09_Model.expand_line. unfold al_ok in Hl. destruct l as [[h hn] rs]. cbn [fst snd] in *.
  apply andb_true_iff in Hl as [Hl _]. apply andb_true_iff in Hl as [Hl _]. apply andb_true_iff in Hl as [_ Hi].
  apply negb_true_iff in Hi. rewrite Hi. reflexivity.
Qed.

Lemma tb_list_refl : forall l : list (bytes * bool), list_beq C09_Model.tb_eqb l l = true.
Proof.
  induction l as [|x r IH]; [reflexivity|]. cbn [list_beq]. rewrite IH.
  unfold C09_Model.tb_eqb. rewrite beq_refl, Bool.eqb_reflx. reflexivity.
Qed.

(* the judge's test of admissibility on the expanded lines accepts EVERY admissible reordering: no reordering
   the property quantifies over escapes the comparison of the two responses *)
Lemma exp_admissible_complete env els els' :
  C09_Model.admissible (map (C09_Model.lview env) els) (map (C09_Model.lview env) els') ->
  C09_Model.exp_admissible env els els' = true.
Proof.
  intros [_ HF]. unfold C09_Model.exp_admissible. apply forallb_forall. intros l _.
  unfold C09_Model.group. rewrite (HF (fst (C09_Model.lview env l))). apply tb_list_refl.
Qed.

(* a line of a snippet standing in the block through an import: the token that opens it carries the mark of its
   import statement, which is never 0 (the mark of tokens written in the input itself) and differs between two
   import statements - so the Dispenser's line test sees it on a NEW line whatever the line numbers are (a
   snippet's tokens keep the line numbers of its definition, which lie ABOVE the block) *)
Lemma own_then_imported_new_line a b n :
  t_imp a = 0%N -> next_on_new_line a (set_imp (n + 1) b) = true /\ same_line a (set_imp (n + 1) b) = false.
Proof.
  intro H. unfold next_on_new_line, same_line, set_imp. cbn [t_imp t_file t_line]. rewrite H.
  assert (Hn : (0 =? n + 1)%N = false) by (apply N.eqb_neq; lia).
  rewrite Hn. cbn [negb]. rewrite Bool.orb_true_r, Bool.andb_false_r. split; reflexivity.
Qed.

Lemma imported_by_different_statements_new_line a b n m :
  n <> m -> next_on_new_line (set_imp n a) (set_imp m b) = true /\ same_line (set_imp n a) (set_imp m b) = false.
Proof.
  intro H. unfold next_on_new_line, same_line, set_imp. cbn [t_imp t_file t_line].
  assert (Hn : (n =? m)%N = false) by (apply N.eqb_neq; exact H).
  rewrite Hn. cbn [negb]. rewrite Bool.orb_true_r, Bool.andb_false_r. split; reflexivity.
Qed.

(* doImport numbers the import statements from 1: the mark it gives is the incremented counter *)
Lemma do_import_marks_from_one env maxi globs files st st' :
  do_import env maxi globs files st = POk st' ->
  p_imports st' = (p_imports (snd (next_arg st)) + 1)%N /\ p_imports st' <> 0%N.
Proof.
  unfold do_import. destruct (next_arg st) as [has st1]. cbn [snd].
  destruct (negb has); [discriminate|].
  destruct (renv env (pval st1)); [discriminate|].
  destruct (maxi <? p_imports st1 + 1)%N; [discriminate|].
  destruct (next_arg st1) as [has2 ?]. destruct has2; [discriminate|].
  destruct (zslice_to _ _); [|discriminate]. destruct (zslice_from _ _); [|discriminate].
  destruct (imported_tokens _ _ _ _); try discriminate.
  intro H. injection H as <-. cbn [p_imports]. split; [reflexivity|lia].
Qed.
