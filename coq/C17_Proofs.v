Require Import V.Lib V.GoPath V.C17_Model.
From Coq Require Import Permutation.
Open Scope Z_scope.

Section ReaderProofs.
Context {A : Type}.
Implicit Types (body d : list A).

(* ---- underlying reader facts ---- *)
Lemma u_read_spec (u : @ureader A) m d e u' :
  u_read u m = (d, e, u') ->
  u_data u = d ++ u_data u' /\ (length d <= m)%nat /\
  (e = None \/ (e = Some EOF /\ u_data u' = [])) /\
  (u_data u <> [] -> (1 <= m)%nat -> (forall k, In k (u_script u) -> (1 <= k)%nat) -> (1 <= length d)%nat) /\
  (forall k, In k (u_script u') -> In k (u_script u)).
Proof.
  unfold u_read. destruct m as [|m0].
  { intros H; injection H as <- <- <-. simpl. repeat split; auto; try lia. }
  set (m := S m0). destruct (u_data u) as [|a l] eqn:Hd.
  - intros H; injection H as <- <- <-. rewrite Hd. simpl.
    repeat split; auto; try lia. congruence.
  - set (cap := match u_script u with [] => m | k :: _ => Nat.min k m end).
    intros H; injection H as <- <- <-. cbn [u_data u_script].
    repeat split.
    + symmetry; apply firstn_skipn.
    + rewrite firstn_length. assert (cap <= m)%nat by (unfold cap; destruct (u_script u); lia). lia.
    + destruct (skipn cap (a :: l)) eqn:Hs; [|left; reflexivity].
      destruct (u_eof_with_data u); [right; split; reflexivity | left; reflexivity].
    + intros _ Hm Hk. rewrite firstn_length.
      assert (1 <= cap)%nat.
      { unfold cap. destruct (u_script u) as [|k r]; [lia|].
        specialize (Hk k (or_introl eq_refl)). lia. }
      simpl length. lia.
    + intros k Hk. destruct (u_script u); simpl in Hk; [contradiction | right; exact Hk].
Qed.

(* ---- invariant of the limited reader while no error has been returned ---- *)
Definition Inv (limit : Z) body (sofar : list A) (s : @mbr A) : Prop :=
  m_err s = None /\ body = sofar ++ u_data (m_u s) /\
  m_n s = limit - Z.of_nat (length sofar) /\ 0 <= m_n s.

Definition Outcome (limit : Z) body (sofar d : list A) (e : option rerr) (s' : @mbr A) : Prop :=
  match e with
  | None => Inv limit body (sofar ++ d) s'
  | Some EOF => sofar ++ d = body /\ Z.of_nat (length body) <= limit /\ m_err s' = Some EOF
  | Some TooLarge => limit < Z.of_nat (length body) /\ sofar ++ d = firstn (Z.to_nat limit) body
                     /\ m_err s' = Some TooLarge
  | Some ErrOther => False
  end.

Lemma mbr_read_step limit body sofar s m d e s' :
  Inv limit body sofar s -> mbr_read s m = (d, e, s') -> Outcome limit body sofar d e s'.
Proof.
  intros (Herr & Hbody & Hn & Hpos) H. unfold mbr_read in H. rewrite Herr in H.
  destruct m as [|m0].
  { injection H as <- <- <-. unfold Outcome, Inv. rewrite app_nil_r. auto. }
  set (m := S m0) in *.
  set (m' := if Z.of_nat m - 1 >? m_n s then Z.to_nat (m_n s + 1) else m) in *.
  destruct (u_read (m_u s) m') as [[d0 e0] u'] eqn:Hu.
  apply u_read_spec in Hu as (Hdata & Hlen & He0 & _ & _).
  assert (Hm' : Z.of_nat m' <= m_n s + 1).
  { unfold m'. destruct (Z.of_nat m - 1 >? m_n s) eqn:Hc; lia. }
  destruct (Z.of_nat (length d0) <=? m_n s) eqn:Hk.
  - apply Z.leb_le in Hk. injection H as <- <- <-.
    destruct He0 as [-> | [-> Hrest]].
    + unfold Outcome, Inv; cbn [m_err m_u m_n]. rewrite app_length.
      repeat split; try lia. rewrite Hbody, Hdata, app_assoc. reflexivity.
    + unfold Outcome; cbn [m_err]. rewrite Hrest, app_nil_r in Hdata.
      repeat split.
      * rewrite Hbody, Hdata. reflexivity.
      * rewrite Hbody, app_length, Hdata. lia.
  - apply Z.leb_gt in Hk. injection H as <- <- <-.
    unfold Outcome; cbn [m_err].
    assert (Hlen0 : Z.of_nat (length d0) = m_n s + 1) by lia.
    repeat split.
    + rewrite Hbody, Hdata, !app_length. lia.
    + rewrite Hbody, Hdata.
      replace (Z.to_nat limit) with (length sofar + Z.to_nat (m_n s))%nat by lia.
      rewrite firstn_app_2. f_equal.
      rewrite firstn_app.
      replace (Z.to_nat (m_n s) - length d0)%nat with 0%nat by lia.
      rewrite firstn_O, app_nil_r. reflexivity.
Qed.

(* ---- the whole read loop ---- *)
Lemma read_all_outcome limit body bufs : forall sofar s d e s',
  Inv limit body sofar s -> read_all s bufs = (d, e, s') -> Outcome limit body sofar d e s'.
Proof.
  induction bufs as [|m r IH]; intros sofar s d e s' HI H; cbn [read_all] in H.
  - injection H as <- <- <-. unfold Outcome. rewrite app_nil_r. exact HI.
  - destruct (mbr_read s m) as [[d1 e1] s1] eqn:H1.
    pose proof (mbr_read_step _ _ _ _ _ _ _ _ HI H1) as O1.
    destruct e1 as [x|].
    + injection H as <- <- <-. exact O1.
    + destruct (read_all s1 r) as [[d2 e2] s2] eqn:H2. injection H as <- <- <-.
      unfold Outcome in O1. specialize (IH _ _ _ _ _ O1 H2).
      unfold Outcome in *. destruct e2 as [[| |]|]; try rewrite app_assoc; exact IH.
Qed.

Lemma init_inv limit body script eofd :
  0 <= limit -> Inv limit body [] (mbr_init limit body script eofd).
Proof. intros; unfold Inv, mbr_init; cbn. repeat split; lia. Qed.

Lemma inv_prefix limit body sofar s :
  Inv limit body sofar s -> sofar = firstn (length sofar) body /\ Z.of_nat (length sofar) <= limit.
Proof.
  intros (_ & Hb & Hn & Hp). split; [|lia].
  rewrite Hb. rewrite firstn_app, Nat.sub_diag, firstn_O, app_nil_r, firstn_all. reflexivity.
Qed.

Theorem limit_exact limit body script eofd bufs d e s' :
  0 <= limit ->
  read_all (mbr_init limit body script eofd) bufs = (d, e, s') ->
  d = firstn (length d) body /\ Z.of_nat (length d) <= limit /\
  (e = Some EOF -> d = body /\ Z.of_nat (length body) <= limit) /\
  (e = Some TooLarge -> limit < Z.of_nat (length body) /\ d = firstn (Z.to_nat limit) body) /\
  e <> Some ErrOther.
Proof.
  intros Hl H. pose proof (read_all_outcome _ _ _ _ _ _ _ _ (init_inv limit body script eofd Hl) H) as O.
  unfold Outcome in O; cbn [app] in O.
  destruct e as [[| |]|].
  - destruct O as (Hd & Hle & _). subst d. rewrite firstn_all.
    repeat split; try discriminate; auto.
  - destruct O as (Hlt & Hd & _).
    assert (length d = Z.to_nat limit) by (rewrite Hd, firstn_length; lia).
    repeat split; try discriminate; auto; try lia. congruence.
  - contradiction.
  - apply inv_prefix in O as [Hp Hle]. repeat split; try discriminate; auto.
Qed.

(* sticky error: once an error was returned every later read returns it with no data *)
Theorem error_sticky (s : @mbr A) x m : m_err s = Some x -> mbr_read s m = ([], Some x, s).
Proof. intros H. unfold mbr_read. rewrite H. reflexivity. Qed.

Lemma outcome_err_recorded limit body sofar d x s' :
  Outcome limit body sofar d (Some x) s' -> m_err s' = Some x.
Proof. unfold Outcome. destruct x; intuition. Qed.

Theorem error_is_recorded limit body script eofd bufs d x s' :
  0 <= limit ->
  read_all (mbr_init limit body script eofd) bufs = (d, Some x, s') -> m_err s' = Some x.
Proof.
  intros Hl H. eapply outcome_err_recorded.
  exact (read_all_outcome _ _ _ _ _ _ _ _ (init_inv limit body script eofd Hl) H).
Qed.

(* progress: a caller that keeps reading with non-empty buffers from a reader that makes
   progress reaches an error (EOF or too-large) within |body|+2 reads *)
Lemma u_read_none_progress (u : @ureader A) m d u' :
  u_read u m = (d, None, u') -> (1 <= m)%nat ->
  (forall k, In k (u_script u) -> (1 <= k)%nat) -> (1 <= length d)%nat.
Proof.
  intros H Hm Hk. pose proof (u_read_spec _ _ _ _ _ H) as (_ & _ & _ & Hprog & _).
  apply Hprog; auto. intro Hd. unfold u_read in H. destruct m; [lia|]. rewrite Hd in H. discriminate.
Qed.

Lemma read_all_completes limit body : forall bufs sofar s d e s',
  Inv limit body sofar s ->
  (forall m, In m bufs -> (1 <= m)%nat) ->
  (forall k, In k (u_script (m_u s)) -> (1 <= k)%nat) ->
  (length (u_data (m_u s)) + 2 <= length bufs)%nat ->
  read_all s bufs = (d, e, s') -> e <> None.
Proof.
  induction bufs as [|m r IH]; intros sofar s d e s' HI Hb Hk Hlen H.
  - simpl in Hlen. lia.
  - cbn [read_all] in H. destruct (mbr_read s m) as [[d1 e1] s1] eqn:H1.
    destruct e1 as [x|]; [injection H as <- <- <-; discriminate|].
    destruct (read_all s1 r) as [[d2 e2] s2] eqn:H2. injection H as <- <- <-.
    pose proof (mbr_read_step _ _ _ _ _ _ _ _ HI H1) as O1. unfold Outcome in O1.
    destruct HI as (Herr & Hbody & Hn & Hpos).
    unfold mbr_read in H1. rewrite Herr in H1.
    assert (Hm : (1 <= m)%nat) by (apply Hb; left; reflexivity).
    destruct m as [|m0]; [lia|]. set (m := S m0) in *.
    set (m' := if Z.of_nat m - 1 >? m_n s then Z.to_nat (m_n s + 1) else m) in *.
    assert (Hm'1 : (1 <= m')%nat).
    { unfold m'. destruct (Z.of_nat m - 1 >? m_n s); lia. }
    destruct (u_read (m_u s) m') as [[d0 e0] u'] eqn:Hu.
    destruct (Z.of_nat (length d0) <=? m_n s) eqn:Hc; [|discriminate].
    injection H1 as Hd1 He0 Hs1. subst d1 e0 s1.
    pose proof (u_read_none_progress _ _ _ _ Hu Hm'1 Hk) as Hp.
    apply u_read_spec in Hu as (Hdata & _ & _ & _ & Hscr).
    eapply IH; [exact O1| | | |exact H2].
    + intros k Hk'. apply Hb. right. exact Hk'.
    + cbn [m_u]. intros k Hk'. apply Hk. apply Hscr. exact Hk'.
    + cbn [m_u]. rewrite Hdata, app_length in Hlen. simpl length in Hlen. lia.
Qed.

Theorem limit_complete limit body script eofd bufs d e s' :
  0 <= limit ->
  (forall m, In m bufs -> (1 <= m)%nat) ->
  (forall k, In k script -> (1 <= k)%nat) ->
  (length body + 2 <= length bufs)%nat ->
  read_all (mbr_init limit body script eofd) bufs = (d, e, s') ->
  (Z.of_nat (length body) <= limit -> d = body /\ e = Some EOF) /\
  (limit < Z.of_nat (length body) -> d = firstn (Z.to_nat limit) body /\ e = Some TooLarge).
Proof.
  intros Hl Hb Hk Hlen H.
  pose proof (read_all_completes _ _ _ _ _ _ _ _ (init_inv limit body script eofd Hl) Hb Hk Hlen H) as Hne.
  pose proof (limit_exact _ _ _ _ _ _ _ _ Hl H) as (_ & _ & Heof & Htl & Hother).
  destruct e as [[| |]|]; try congruence.
  - destruct (Heof eq_refl). split; intros; [auto | lia].
  - destruct (Htl eq_refl). split; intros; [lia | auto].
Qed.

End ReaderProofs.

(* ---- longest matching scope ---- *)
Lemma sorted_find_longest (P : bytes * Z -> bool) : forall table bl,
  sorted_len_desc table = true -> find P table = Some bl ->
  In bl table /\ P bl = true /\
  forall b, In b table -> P b = true -> (length (fst b) <= length (fst bl))%nat.
Proof.
  induction table as [|a r IH]; intros bl Hs Hf; simpl in *; [discriminate|].
  apply andb_true_iff in Hs as [Hall Hs].
  destruct (P a) eqn:Pa.
  - injection Hf as <-. repeat split; auto.
    intros b [<-|Hb] _; [lia|].
    rewrite forallb_forall in Hall. apply Nat.leb_le. apply Hall. exact Hb.
  - destruct (IH _ Hs Hf) as (Hin & Pbl & Hmax). repeat split; auto.
    intros b [<-|Hb] Pb; [congruence|]. apply Hmax; auto.
Qed.

Theorem longest_scope_wins cs table path lim :
  sorted_len_desc table = true -> select_limit cs table path = Some lim ->
  exists scope, In (scope, lim) table /\ path_matches cs path scope = true /\
    forall b, In b table -> path_matches cs path (fst b) = true ->
              (length (fst b) <= length scope)%nat.
Proof.
  unfold select_limit. intros Hs H.
  destruct (find _ table) as [bl|] eqn:Hf; [|discriminate]. injection H as <-.
  destruct (sorted_find_longest _ _ _ Hs Hf) as (Hin & Hp & Hmax).
  exists (fst bl). destruct bl; simpl in *. auto.
Qed.

Theorem no_scope_no_limit cs table path :
  select_limit cs table path = None ->
  forall b, In b table -> path_matches cs path (fst b) = false.
Proof.
  unfold select_limit. destruct (find _ table) eqn:Hf; [discriminate|]. intros _ b Hb.
  exact (find_none _ _ Hf b Hb).
Qed.

(* ---- strictest merge ---- *)
Lemma pick_swap acc x y : pick (pick acc x) y = pick (pick acc y) x.
Proof.
  unfold pick.
  destruct (x =? 0) eqn:Hx, (y =? 0) eqn:Hy, (acc =? 0) eqn:Ha; try rewrite Hx; try rewrite Hy;
    try rewrite Ha; try reflexivity;
    repeat match goal with |- context [?a =? 0] => destruct (a =? 0) eqn:? end; lia.
Qed.

Lemma fold_pick_perm l l' : Permutation l l' -> forall acc, fold_left pick l acc = fold_left pick l' acc.
Proof.
  induction 1 as [|x l l' _ IH|x y l|l l' l'' _ IH1 _ IH2]; intros acc; simpl.
  - reflexivity.
  - apply IH.
  - rewrite pick_swap. reflexivity.
  - rewrite IH1. apply IH2.
Qed.

Theorem strictest_perm l l' : Permutation l l' -> strictest l = strictest l'.
Proof. intros H. apply fold_pick_perm. exact H. Qed.

Lemma fold_pick_spec : forall l acc, 0 <= acc -> (forall v, In v l -> 0 <= v) ->
  let r := fold_left pick l acc in
  0 <= r /\
  (r = acc \/ In r l) /\
  (r = 0 -> acc = 0 /\ forall v, In v l -> v = 0) /\
  (0 < r -> (acc = 0 \/ r <= acc) /\ forall v, In v l -> v = 0 \/ r <= v) /\
  (0 < acc -> 0 < r).
Proof.
  induction l as [|x l IH]; intros acc Ha Hl; cbn [fold_left].
  - cbn. repeat split; auto; try lia; try (intros v []); try (intros v0 []).
  - assert (Hx : 0 <= x) by (apply Hl; left; reflexivity).
    assert (Hl' : forall v, In v l -> 0 <= v) by (intros v Hv; apply Hl; right; exact Hv).
    assert (Hp : 0 <= pick acc x) by (unfold pick; destruct (x =? 0), (acc =? 0); lia).
    specialize (IH (pick acc x) Hp Hl'). cbv zeta in IH. cbv zeta.
    set (r := fold_left pick l (pick acc x)) in *.
    destruct IH as (Hr0 & Hin & Hz & Hpos & Hmono).
    assert (Hpk : (x = 0 /\ pick acc x = acc) \/ (x <> 0 /\ acc = 0 /\ pick acc x = x) \/
                  (x <> 0 /\ acc <> 0 /\ pick acc x = Z.min acc x)).
    { unfold pick. destruct (x =? 0) eqn:E1; [left; lia|]. destruct (acc =? 0) eqn:E2; right; [left|right]; lia. }
    refine (conj Hr0 (conj _ (conj _ (conj _ _)))).
    + destruct Hin as [Hin|Hin]; [|right; right; exact Hin].
      destruct Hpk as [[? Hq]|[(?&?&Hq)|(?&?&Hq)]]; rewrite Hq in Hin.
      * left; exact Hin.
      * right; left; congruence.
      * destruct (Z.min_spec acc x) as [[_ Hm]|[_ Hm]]; rewrite Hm in Hin; [left|right; left]; congruence.
    + intro Hr. destruct (Hz Hr) as [Hq Hall]. split.
      * destruct Hpk as [[? Hq']|[(?&?&Hq')|(?&?&Hq')]]; rewrite Hq' in Hq; lia.
      * intros v [<-|Hv]; [|apply Hall; exact Hv].
        destruct Hpk as [[? Hq']|[(?&?&Hq')|(?&?&Hq')]]; rewrite Hq' in Hq; lia.
    + intro Hr. destruct (Hpos Hr) as [Hq Hall]. split.
      * destruct Hpk as [[? Hq']|[(?&?&Hq')|(?&?&Hq')]]; rewrite Hq' in Hq; lia.
      * intros v [<-|Hv]; [|apply Hall; exact Hv].
        destruct Hpk as [[? Hq']|[(?&?&Hq')|(?&?&Hq')]]; rewrite Hq' in Hq; lia.
    + intro Hacc. apply Hmono.
      destruct Hpk as [[? Hq']|[(?&?&Hq')|(?&?&Hq')]]; rewrite Hq'; lia.
Qed.

Theorem strictest_spec vals :
  (forall v, In v vals -> 0 <= v) ->
  let r := strictest vals in
  ((forall v, In v vals -> v = 0) -> r = 0) /\
  ((exists v, In v vals /\ 0 < v) ->
     In r vals /\ 0 < r /\ forall v, In v vals -> v = 0 \/ r <= v).
Proof.
  intros Hl. pose proof (fold_pick_spec vals 0 (Z.le_refl 0) Hl) as H. cbv zeta in H.
  unfold strictest. cbv zeta. set (r := fold_left pick vals 0) in *.
  destruct H as (Hr0 & Hin & Hz & Hpos & _). split.
  - intros Hall. destruct Hin as [Hin|Hin]; [exact Hin|]. apply Hall. exact Hin.
  - intros (v & Hv & Hvp).
    assert (0 < r).
    { destruct (Z.eq_dec r 0) as [E|E]; [|lia]. destruct (Hz E) as [_ Hall]. specialize (Hall v Hv). lia. }
    destruct (Hpos H) as [_ Hall]. repeat split; auto.
    destruct Hin as [Hin|Hin]; [lia|exact Hin].
Qed.

Theorem merge_timeout_spec dflt group :
  (forall v, In v (set_values group) -> 0 <= v) ->
  let r := merge_timeout dflt group in
  (set_values group = [] -> r = dflt) /\
  (set_values group <> [] -> (forall v, In v (set_values group) -> v = 0) -> r = 0) /\
  ((exists v, In v (set_values group) /\ 0 < v) ->
     In r (set_values group) /\ 0 < r /\ forall v, In v (set_values group) -> v = 0 \/ r <= v).
Proof.
  intros Hl. unfold merge_timeout. cbv zeta.
  destruct (set_values group) as [|v0 vs] eqn:E.
  - split; [reflexivity|]. split; [congruence|]. intros (v & Hv & _). destruct Hv.
  - pose proof (strictest_spec (v0 :: vs) Hl) as [H1 H2]. cbv zeta in H1, H2.
    split; [discriminate|]. split; [intros _ Hall; apply H1; exact Hall|]. exact H2.
Qed.

Lemma set_values_perm g g' : Permutation g g' -> Permutation (set_values g) (set_values g').
Proof.
  unfold set_values. induction 1 as [|x l l' _ IH|x y l|l l' l'' _ IH1 _ IH2]; simpl.
  - constructor.
  - destruct (fst x); simpl; [constructor|]; exact IH.
  - destruct (fst x), (fst y); simpl; try apply Permutation_refl. apply perm_swap.
  - eapply Permutation_trans; eauto.
Qed.

Theorem merge_timeout_perm dflt g g' : Permutation g g' -> merge_timeout dflt g = merge_timeout dflt g'.
Proof.
  intros H. apply set_values_perm in H. unfold merge_timeout.
  destruct (set_values g) as [|a l] eqn:E1, (set_values g') as [|b l'] eqn:E2; auto.
  - apply Permutation_nil in H. discriminate.
  - apply Permutation_sym, Permutation_nil in H. discriminate.
  - apply strictest_perm. exact H.
Qed.

(* the plain minimum coded before the fix is NOT the strictest value when an explicit
   "none" (0) is present *)
Theorem merge_timeout_plain_min_refuted :
  exists dflt group, (forall v, In v (set_values group) -> 0 <= v) /\
    (exists v, In v (set_values group) /\ 0 < v) /\ merge_timeout_plain_min dflt group = 0.
Proof.
  exists 300, [(true, 0); (true, 10)]. repeat split.
  - simpl. intros v [<-|[<-|[]]]; lia.
  - exists 10. simpl. split; [auto|lia].
Qed.

(* ======================================================================================== *)
(* ---- Go int64 arithmetic: the reader as coded vs the ideal reader ---- *)
Lemma wrap64_id z : - two63 <= z < two63 -> wrap64 z = z.
Proof.
  intros H. unfold wrap64. rewrite Z.mod_small; unfold two63 in *; lia.
Qed.

Lemma wrap64_range z : - two63 <= wrap64 z < two63.
Proof.
  unfold wrap64. pose proof (Z.mod_pos_bound (z + two63) (2 * two63)). unfold two63 in *. lia.
Qed.

Lemma wrap64_max_plus_1 : wrap64 (max_int64 + 1) = - two63.
Proof. vm_compute. reflexivity. Qed.

Section Reader64.
Context {A : Type}.

(* for EVERY remaining allowance 0 <= n <= 2^63-1 the coded Read IS the ideal Read: the guard
   int64(len(p))-1 > l.n never lets l.n+1 be formed when it would wrap (len(p) is a Go int) *)
Lemma mbr_read64_refines (s : @mbr A) m :
  0 <= m_n s <= max_int64 -> (m_n s < max_int64 \/ Z.of_nat m < two63) ->
  mbr_read64 s m = R_ok (mbr_read s m).
Proof.
  intros Hn Hm. unfold mbr_read64, mbr_read. destruct (m_err s); [reflexivity|].
  destruct m as [|m0]; [reflexivity|]. set (m := S m0) in *. cbv zeta.
  assert (Hcut : Z.of_nat m - 1 >? m_n s = true -> wrap64 (m_n s + 1) = m_n s + 1).
  { intros Hc. apply wrap64_id. unfold max_int64, two63 in *. lia. }
  assert (Hnp : (Z.of_nat m - 1 >? m_n s) && (wrap64 (m_n s + 1) <? 0) = false).
  { destruct (Z.of_nat m - 1 >? m_n s) eqn:Hc; [|reflexivity]. rewrite (Hcut eq_refl). cbn [andb]. lia. }
  rewrite Hnp.
  replace (if Z.of_nat m - 1 >? m_n s then Z.to_nat (wrap64 (m_n s + 1)) else m)
    with (if Z.of_nat m - 1 >? m_n s then Z.to_nat (m_n s + 1) else m)
    by (destruct (Z.of_nat m - 1 >? m_n s) eqn:Hc; [rewrite (Hcut eq_refl)|]; reflexivity).
  destruct (u_read (m_u s) _) as [[d e] u'] eqn:Hu.
  pose proof (u_read_spec _ _ _ _ _ Hu) as (_ & Hlen & _).
  destruct (Z.of_nat (length d) <=? m_n s) eqn:Hk.
  - apply Z.leb_le in Hk. rewrite wrap64_id; [reflexivity|]. unfold max_int64, two63 in *. lia.
  - replace (m_n s <? 0) with false by (symmetry; apply Z.ltb_ge; lia). reflexivity.
Qed.

Lemma mbr_read_n_range (s : @mbr A) m d e s' B :
  0 <= m_n s <= B -> mbr_read s m = (d, e, s') -> 0 <= m_n s' <= B.
Proof.
  intros Hn H. unfold mbr_read in H. destruct (m_err s).
  { injection H as <- <- <-. exact Hn. }
  destruct m as [|m0]. { injection H as <- <- <-. exact Hn. }
  destruct (u_read (m_u s) _) as [[d0 e0] u'].
  destruct (Z.of_nat (length d0) <=? m_n s) eqn:Hk; injection H as <- <- <-; cbn [m_n].
  - apply Z.leb_le in Hk. lia.
  - lia.
Qed.

Lemma read_all64_refines bufs : forall (s : @mbr A),
  0 <= m_n s <= max_int64 -> (m_n s < max_int64 \/ forall m, In m bufs -> Z.of_nat m < two63) ->
  read_all64 s bufs = R_ok (read_all s bufs).
Proof.
  induction bufs as [|m r IH]; intros s Hn Hb; cbn [read_all64 read_all]; [reflexivity|].
  rewrite (mbr_read64_refines s m Hn) by (destruct Hb as [Hb|Hb]; [left; exact Hb | right; apply Hb; left; reflexivity]).
  destruct (mbr_read s m) as [[d e] s1] eqn:H1.
  destruct e as [x|]; [reflexivity|].
  pose proof (mbr_read_n_range _ _ _ _ _ (m_n s) (conj (proj1 Hn) (Z.le_refl _)) H1) as Hn1.
  rewrite (IH s1).
  - destruct (read_all s1 r) as [[d2 e2] s2]. reflexivity.
  - lia.
  - destruct Hb as [Hb|Hb]; [left; lia | right; intros m1 Hm1; apply Hb; right; exact Hm1].
Qed.

(* full strength: EVERY limit the directive can configure, 2^63-1 included; buffer lengths are Go
   ints (only needed at limit = 2^63-1) *)
Theorem limit_exact_int64 limit (body : list A) script eofd bufs :
  0 <= limit <= max_int64 -> (limit < max_int64 \/ forall m, In m bufs -> Z.of_nat m < two63) ->
  exists d e s', read_all64 (mbr_init limit body script eofd) bufs = R_ok (d, e, s') /\
  read_all (mbr_init limit body script eofd) bufs = (d, e, s') /\
  d = firstn (length d) body /\ Z.of_nat (length d) <= limit /\
  (e = Some EOF -> d = body /\ Z.of_nat (length body) <= limit) /\
  (e = Some TooLarge -> limit < Z.of_nat (length body) /\ d = firstn (Z.to_nat limit) body) /\
  e <> Some ErrOther.
Proof.
  intros Hl Hb. destruct (read_all (mbr_init limit body script eofd) bufs) as [[d e] s'] eqn:H.
  exists d, e, s'. split.
  - rewrite read_all64_refines by (cbn [mbr_init m_n]; assumption). rewrite H. reflexivity.
  - split; [reflexivity|]. apply (limit_exact _ _ _ _ _ _ _ _ (proj1 Hl) H).
Qed.

(* negative limits (rejected by the directive's setup, reachable only through the Go API) *)
Theorem negative_limit_misbehaves (s : @mbr A) m :
  m_err s = None -> (1 <= m)%nat ->
  (- two63 <= m_n s < -1 -> mbr_read64 s m = R_panic) /\
  (m_n s = -1 -> mbr_read64 s m = R_neg (-1)).
Proof.
  intros He Hm. unfold mbr_read64. rewrite He. destruct m as [|m0]; [lia|]. split.
  - intros Hn. cbv zeta. rewrite wrap64_id by (unfold two63 in *; lia).
    replace (Z.of_nat (S m0) - 1 >? m_n s) with true by (symmetry; apply Z.gtb_lt; lia).
    replace (m_n s + 1 <? 0) with true by (symmetry; apply Z.ltb_lt; lia). reflexivity.
  - intros Hn. cbv zeta. rewrite Hn. change (wrap64 (-1 + 1)) with 0.
    replace (Z.of_nat (S m0) - 1 >? -1) with true by (symmetry; apply Z.gtb_lt; lia).
    cbn [andb Z.ltb Z.compare Z.to_nat]. unfold u_read. cbn. reflexivity.
Qed.

End Reader64.

(* ---- count level: scripted (possibly lying) answers, limits up to 2^63-2 ---- *)
Lemma cnt_run_sticky bufs : forall s e answers,
  c_err s = Some e ->
  cnt_run s bufs answers = R_ok (map (fun _ => (0, Some e)) bufs, s, answers).
Proof.
  induction bufs as [|m r IH]; intros s e answers He; cbn [cnt_run map]; [reflexivity|].
  unfold cnt_read. rewrite He. rewrite (IH s e answers He). reflexivity.
Qed.

Lemma zsum_sticky (bufs : list Z) (e : rerr) : zsum (map fst (map (fun _ : Z => (0, Some e)) bufs)) = 0.
Proof. induction bufs; simpl; auto. Qed.

Definition answers_ok (answers : list answer) : Prop :=
  forall a, In a answers -> 0 <= fst a <= max_int64 /\ snd a <> Some TooLarge.

Lemma cnt_run_spec bufs : forall s answers,
  c_err s = None -> 0 <= c_n s <= max_int64 ->
  (c_n s < max_int64 \/ forall m, In m bufs -> m < two63) -> answers_ok answers ->
  exists outs s' consumed rest,
    cnt_run s bufs answers = R_ok (outs, s', rest) /\ answers = consumed ++ rest /\
    (forall o, In o outs -> 0 <= fst o) /\
    zsum (map fst outs) = Z.min (c_n s) (zsum (map fst consumed)) /\
    0 <= c_n s' <= c_n s /\
    (c_n s < zsum (map fst consumed) <-> c_err s' = Some TooLarge) /\
    (c_err s' = None -> c_n s' = c_n s - zsum (map fst consumed)).
Proof.
  induction bufs as [|m r IH]; intros s answers He Hn Hb Hok.
  - exists [], s, [], answers. cbn [cnt_run app map zsum fold_right].
    split; [reflexivity|]. split; [reflexivity|]. split; [intros o []|].
    split; [lia|]. split; [lia|]. split; [|intros _; lia].
    split; [intros H; lia | rewrite He; discriminate].
  - cbn [cnt_run]. unfold cnt_read. rewrite He.
    assert (Hb' : forall c', 0 <= c' <= c_n s -> c' < max_int64 \/ forall m1, In m1 r -> m1 < two63).
    { intros c' Hc'. destruct Hb as [Hb|Hb]; [left; lia | right; intros m1 Hm1; apply Hb; right; exact Hm1]. }
    destruct (m =? 0) eqn:Hm.
    { destruct (IH s answers He Hn (Hb' (c_n s) ltac:(lia)) Hok) as (outs & s' & consumed & rest & Hr & Ha & Hpos & Hsum & Hrng & Htl & Hnone).
      exists ((0, None) :: outs), s', consumed, rest. rewrite Hr.
      split; [reflexivity|]. split; [exact Ha|]. split.
      { intros o [<-|Ho]; [simpl; lia|auto]. }
      split. { unfold zsum in *. cbn [map fst fold_right]. lia. }
      split; [exact Hrng|]. split; [exact Htl|exact Hnone]. }
    assert (Hnp : (m - 1 >? c_n s) && (wrap64 (c_n s + 1) <? 0) = false).
    { destruct (m - 1 >? c_n s) eqn:Hcut; [|reflexivity]. cbn [andb].
      assert (Hlt : c_n s < max_int64).
      { destruct Hb as [Hb|Hb]; [exact Hb|]. specialize (Hb m (or_introl eq_refl)). unfold max_int64, two63 in *. lia. }
      rewrite wrap64_id by (unfold max_int64, two63 in *; lia). lia. }
    rewrite Hnp.
    (* the underlying reader's answer *)
    assert (Hans : exists c e rest0 cons0,
              match answers with [] => (0, Some EOF, []) | (c, e) :: r0 => (c, e, r0) end = (c, e, rest0) /\
              answers = cons0 ++ rest0 /\ zsum (map fst cons0) = c /\ 0 <= c <= max_int64 /\
              e <> Some TooLarge /\ answers_ok rest0).
    { destruct answers as [|[c e] r0].
      - exists 0, (Some EOF), [], []. split; [reflexivity|]. split; [reflexivity|]. split; [reflexivity|].
        split; [unfold max_int64, two63; lia|]. split; [discriminate|]. intros a [].
      - exists c, e, r0, [(c, e)]. destruct (Hok (c, e) (or_introl eq_refl)) as [Hc Hne]. simpl in Hc, Hne.
        split; [reflexivity|]. split; [reflexivity|]. split; [simpl; lia|]. split; [exact Hc|].
        split; [exact Hne|]. intros a Ha. apply Hok. right. exact Ha. }
    destruct Hans as (c & e & rest0 & cons0 & -> & Ha0 & Hc0 & Hc & Hne & Hok0).
    destruct (c <=? c_n s) eqn:Hle.
    + apply Z.leb_le in Hle.
      assert (Hw : wrap64 (c_n s - c) = c_n s - c).
      { apply wrap64_id. unfold max_int64, two63 in *. lia. }
      rewrite Hw.
      destruct e as [x|].
      * (* the reader's own error becomes sticky *)
        rewrite (cnt_run_sticky r {| c_n := c_n s - c; c_err := Some x |} x rest0 eq_refl).
        eexists _, _, cons0, rest0. split; [reflexivity|]. cbn [c_n c_err].
        split; [exact Ha0|]. split.
        { intros o [<-|Ho]; [simpl; lia|].
          apply in_map_iff in Ho as (? & <- & _). simpl; lia. }
        split.
        { cbn [map fst zsum fold_right]. fold (zsum (map fst (map (fun _ : Z => (0, Some x)) r))).
          rewrite zsum_sticky. lia. }
        split; [lia|]. split; [|discriminate].
        split; [intros Hlt; lia | intros Hx; congruence].
      * set (s1 := {| c_n := c_n s - c; c_err := None |}).
        destruct (IH s1 rest0 eq_refl) as (outs & s' & consumed & rest & Hr & Ha & Hpos & Hsum & Hrng & Htl & Hnone).
        { unfold s1; cbn [c_n]; lia. } { unfold s1; cbn [c_n]. apply Hb'. lia. } { exact Hok0. }
        exists ((c, None) :: outs), s', (cons0 ++ consumed), rest. rewrite Hr. unfold s1 in *. cbn [c_n] in *.
        assert (Hsplit : zsum (map fst (cons0 ++ consumed)) = c + zsum (map fst consumed)).
        { rewrite map_app. unfold zsum. rewrite fold_right_app.
          assert (Hfs : forall l acc, fold_right Z.add acc l = fold_right Z.add 0 l + acc).
          { induction l as [|y l IHl]; intros acc; simpl; [lia|]. rewrite IHl. lia. }
          rewrite (Hfs (map fst cons0)). unfold zsum in Hc0. rewrite Hc0. reflexivity. }
        rewrite Hsplit.
        split; [reflexivity|]. split; [rewrite Ha0, Ha, app_assoc; reflexivity|]. split.
        { intros o [<-|Ho]; [simpl; lia|auto]. }
        split. { cbn [map fst zsum fold_right]. fold (zsum (map fst outs)). lia. }
        split; [lia|]. split.
        { split; [intros Hlt; apply Htl; lia | intros Hx; apply Htl in Hx; lia]. }
        intros Hx. rewrite (Hnone Hx). lia.
    + apply Z.leb_gt in Hle.
      rewrite (cnt_run_sticky r {| c_n := 0; c_err := Some TooLarge |} TooLarge rest0 eq_refl).
      eexists _, _, cons0, rest0. split; [reflexivity|]. cbn [c_n c_err].
      split; [exact Ha0|]. split.
      { intros o [<-|Ho]; [simpl; lia|].
        apply in_map_iff in Ho as (? & <- & _). simpl; lia. }
      split.
      { cbn [map fst zsum fold_right]. fold (zsum (map fst (map (fun _ : Z => (0, Some TooLarge)) r))).
        rewrite zsum_sticky. lia. }
      split; [lia|]. split; [|discriminate].
      split; [intros _; reflexivity | intros _; lia].
Qed.

Theorem count_exact_int64 limit bufs answers :
  0 <= limit <= max_int64 -> (limit < max_int64 \/ forall m, In m bufs -> m < two63) -> answers_ok answers ->
  exists outs s' consumed rest,
    cnt_run (cnt_init limit) bufs answers = R_ok (outs, s', rest) /\ answers = consumed ++ rest /\
    (forall o, In o outs -> 0 <= fst o) /\
    zsum (map fst outs) = Z.min limit (zsum (map fst consumed)) /\
    0 <= c_n s' <= limit /\
    (limit < zsum (map fst consumed) <-> c_err s' = Some TooLarge).
Proof.
  intros Hl Hb Hok.
  destruct (cnt_run_spec bufs (cnt_init limit) answers eq_refl Hl Hb Hok)
    as (outs & s' & consumed & rest & H1 & H2 & H3 & H4 & H5 & H6 & _).
  exists outs, s', consumed, rest. cbn [cnt_init c_n] in *. auto 10.
Qed.

(* ======================================================================================== *)
(* ---- parseSize: what an accepted size string yields ---- *)
Lemma size_times_range n mult : - two63 <= size_times n mult < two63.
Proof. unfold size_times. destruct (_ || _); [unfold two63; lia | apply wrap64_range]. Qed.

(* the guard of parseSize: the product is formed only when it fits, and then it is exact *)
Lemma size_times_exact n mult v :
  1 <= mult -> size_times n mult = v -> 1 <= v -> 0 <= n /\ v = n * mult /\ n * mult <= max_int64.
Proof.
  unfold size_times. intros Hm H Hv.
  destruct ((n <? 0) || (n >? max_int64 / mult)) eqn:E; [lia|].
  apply orb_false_iff in E as [E1 E2]. apply Z.ltb_ge in E1. rewrite Z.gtb_ltb in E2. apply Z.ltb_ge in E2.
  assert (Hle : n * mult <= max_int64).
  { pose proof (Z.mul_div_le max_int64 mult ltac:(lia)). nia. }
  rewrite wrap64_id in H by (unfold max_int64, two63 in *; nia). auto.
Qed.

Lemma size_times_fits n mult :
  1 <= mult -> 0 <= n -> n * mult <= max_int64 -> size_times n mult = n * mult.
Proof.
  intros Hm Hn Hle. unfold size_times.
  replace (n <? 0) with false by (symmetry; apply Z.ltb_ge; lia).
  replace (n >? max_int64 / mult) with false.
  2:{ symmetry. rewrite Z.gtb_ltb. apply Z.ltb_ge. apply Z.div_le_lower_bound; lia. }
  cbn [orb]. apply wrap64_id. unfold max_int64, two63 in *. nia.
Qed.

Lemma parse_size_units_range s us : - two63 <= parse_size_units s us < two63.
Proof.
  induction us as [|[sym mult] r IH]; cbn [parse_size_units].
  - unfold two63; lia.
  - destruct (has_suffix s sym); [|exact IH].
    destruct (parse_int64 _); [apply size_times_range | unfold two63; lia].
Qed.

Theorem accept_size_range s v : accept_size s = Some v -> 1 <= v <= max_int64.
Proof.
  unfold accept_size. destruct (parse_size s <? 1) eqn:H; [discriminate|].
  intros E; injection E as <-. apply Z.ltb_ge in H.
  pose proof (parse_size_units_range (map upper_b s) units). unfold parse_size, max_int64 in *. lia.
Qed.

Lemma has_suffix_split s suf :
  has_suffix s suf = true -> s = firstn (length s - length suf) s ++ suf.
Proof.
  unfold has_suffix. intros H. apply andb_true_iff in H as [_ H]. apply beq_eq in H.
  pose proof (firstn_skipn (length s - length suf) s) as E. rewrite H in E. symmetry. exact E.
Qed.

Lemma digits_val_spec ds : forall acc u,
  digits_val ds acc = Some u ->
  Forall (fun c => is_digit c = true) ds /\ u = fold_left (fun a c => a * 10 + digit_val c) ds acc.
Proof.
  induction ds as [|c r IH]; intros acc u H; cbn [digits_val] in H.
  - injection H as <-. split; [constructor | reflexivity].
  - destruct (is_digit c) eqn:Hc; [|discriminate].
    destruct (IH _ _ H) as [Hall Hu]. split; [constructor; auto | exact Hu].
Qed.

Lemma span_digits_app ds sym :
  Forall (fun c => is_digit c = true) ds ->
  match sym with [] => True | c :: _ => is_digit c = false end ->
  span_digits (ds ++ sym) = (ds, sym).
Proof.
  intros Hall Hs. induction Hall as [|c r Hc _ IH]; cbn [app span_digits].
  - destruct sym as [|c r]; [reflexivity|]. cbn [span_digits]. rewrite Hs. reflexivity.
  - rewrite Hc, IH. reflexivity.
Qed.

Definition signed (neg : bool) (z : Z) : Z := if neg then - z else z.

Lemma parse_int64_spec p n :
  parse_int64 p = Some n ->
  exists neg ds, ds <> [] /\ Forall (fun c => is_digit c = true) ds /\ n = signed neg (dec ds) /\
    - two63 <= n < two63 /\
    ((p = ds /\ neg = false) \/ (p = 43%N :: ds /\ neg = false) \/ (p = 45%N :: ds /\ neg = true)).
Proof.
  unfold parse_int64. destruct p as [|c r]; [discriminate|].
  assert (Hdec0 : forall ds u, digits_val ds 0 = Some u -> 0 <= u).
  { intros ds u H. apply digits_val_spec in H as [Hall ->].
    assert (G : forall l acc, Forall (fun c => is_digit c = true) l -> 0 <= acc ->
                0 <= fold_left (fun a c => a * 10 + digit_val c) l acc).
    { induction l as [|x l IHl]; intros acc Hl Ha; simpl; [exact Ha|].
      inversion Hl as [|? ? Hx Hl']; subst. apply IHl; [exact Hl'|].
      unfold is_digit in Hx. apply andb_true_iff in Hx as [Hx1 Hx2].
      apply N.leb_le in Hx1. unfold digit_val. lia. }
    apply G; [exact Hall | lia]. }
  destruct (c =? 43)%N eqn:Hp; [|destruct (c =? 45)%N eqn:Hm].
  - apply N.eqb_eq in Hp. subst c. destruct r as [|c2 r2] eqn:Er; [discriminate|]. rewrite <- Er in *.
    destruct (digits_val r 0) as [u|] eqn:Hd; [|discriminate].
    destruct (u <? two63) eqn:Hu; [|discriminate]. intros E; injection E as <-.
    pose proof (Hdec0 _ _ Hd). apply Z.ltb_lt in Hu.
    apply digits_val_spec in Hd as [Hall ->].
    exists false, r. repeat split; auto; try (rewrite Er; discriminate); try (unfold signed, dec, two63 in *; lia).
  - apply N.eqb_eq in Hm. subst c. destruct r as [|c2 r2] eqn:Er; [discriminate|]. rewrite <- Er in *.
    destruct (digits_val r 0) as [u|] eqn:Hd; [|discriminate].
    destruct (u <=? two63) eqn:Hu; [|discriminate]. intros E; injection E as <-.
    pose proof (Hdec0 _ _ Hd). apply Z.leb_le in Hu.
    apply digits_val_spec in Hd as [Hall ->].
    exists true, r. repeat split; auto; try (rewrite Er; discriminate); try (unfold signed, dec, two63 in *; lia).
  - destruct (digits_val (c :: r) 0) as [u|] eqn:Hd; [|discriminate].
    destruct (u <? two63) eqn:Hu; [|discriminate]. intros E; injection E as <-.
    pose proof (Hdec0 _ _ Hd). apply Z.ltb_lt in Hu.
    apply digits_val_spec in Hd as [Hall ->].
    exists false, (c :: r). repeat split; auto; try discriminate; try (unfold signed, dec, two63 in *; lia).
Qed.

Lemma parse_size_units_found s : forall us v,
  parse_size_units s us = v -> 1 <= v ->
  exists sym mult n, In (sym, mult) us /\ has_suffix s sym = true /\
    parse_int64 (firstn (length s - length sym) s) = Some n /\ v = size_times n mult.
Proof.
  induction us as [|[sym mult] r IH]; intros v H Hv; cbn [parse_size_units] in H.
  - lia.
  - destruct (has_suffix s sym) eqn:Hs.
    + destruct (parse_int64 _) as [n|] eqn:Hp; [|lia].
      exists sym, mult, n. repeat split; auto. left; reflexivity.
    + destruct (IH v H Hv) as (sym' & mult' & n & Hin & H1 & H2 & H3).
      exists sym', mult', n. repeat split; auto. right; exact Hin.
Qed.

Lemma units_facts sym mult :
  In (sym, mult) units ->
  unit_of sym = Some mult /\ match sym with [] => True | c :: _ => is_digit c = false end /\
  1 <= mult <= 1073741824.
Proof.
  unfold units. intros H.
  repeat (destruct H as [H|H]; [injection H as <- <-; vm_compute; intuition congruence|]).
  destruct H.
Qed.

Lemma is_digit_not_sign c : is_digit c = true -> (c =? 43)%N = false /\ (c =? 45)%N = false.
Proof.
  unfold is_digit. intros H. apply andb_true_iff in H as [H1 _]. apply N.leb_le in H1.
  split; apply N.eqb_neq; lia.
Qed.

Theorem accept_size_exact s v :
  accept_size s = Some v ->
  exists n u, denote s = Some (n, u) /\ v = n * u /\ 1 <= v <= max_int64 /\
    0 <= n < two63 /\ 1 <= u <= 1073741824.
Proof.
  intros Hacc. pose proof (accept_size_range _ _ Hacc) as Hrange.
  unfold accept_size in Hacc. destruct (parse_size s <? 1) eqn:Hlt; [discriminate|].
  injection Hacc as Hv. unfold parse_size in Hv.
  destruct (parse_size_units_found _ _ _ Hv (proj1 Hrange)) as (sym & mult & n & Hin & Hs & Hp & Hw).
  destruct (units_facts _ _ Hin) as (Hu & Hhead & Hmult).
  apply has_suffix_split in Hs.
  destruct (parse_int64_spec _ _ Hp) as (neg & ds & Hne & Hall & Hn & Hnr & Hshape).
  exists n, mult.
  assert (Hden : denote s = Some (n, mult)).
  { unfold denote. set (U := map upper_b s) in *. rewrite Hs.
    set (p := firstn (length U - length sym) U) in *.
    destruct Hshape as [[Hpd ->]|[[Hpd ->]|[Hpd ->]]]; rewrite Hpd.
    - destruct ds as [|c r]; [congruence|]. cbn [app].
      inversion Hall as [|? ? Hc Hr]; subst. destruct (is_digit_not_sign _ Hc) as [-> ->].
      change (c :: r ++ sym) with ((c :: r) ++ sym).
      rewrite (span_digits_app (c :: r) sym Hall Hhead). rewrite Hu. reflexivity.
    - cbn [app]. rewrite N.eqb_refl.
      rewrite (span_digits_app ds sym Hall Hhead). destruct ds; [congruence|]. rewrite Hu. subst n. reflexivity.
    - cbn [app]. change (45 =? 43)%N with false. rewrite N.eqb_refl.
      rewrite (span_digits_app ds sym Hall Hhead). destruct ds; [congruence|]. rewrite Hu. subst n. reflexivity. }
  destruct (size_times_exact n mult v (proj1 Hmult) (eq_sym Hw) (proj1 Hrange)) as (Hn0 & Hvx & _).
  split; [exact Hden|]. split; [exact Hvx|]. split; [exact Hrange|]. split; [lia | exact Hmult].
Qed.

(* ======================================================================================== *)
(* ---- the listener's http.Server: the coded loops vs the strictest-value merges ---- *)
Lemma tstep_fold : forall (g : list tv) (st : bool) (a : Z),
  (st = false -> a = 0) ->
  fold_left tstep g (st, a) = (st || existsb fst g, fold_left pick (set_values g) a).
Proof.
  induction g as [|[cs cv] r IH]; intros st a Hst; cbn [fold_left existsb].
  - rewrite orb_false_r. reflexivity.
  - unfold set_values in *. cbn [filter fst]. destruct cs; cbn [map fold_left snd].
    + assert (E : tstep (st, a) (true, cv) = (true, pick a cv)).
      { unfold tstep, stricter_timeout, pick. cbn [fst snd andb].
        destruct st; cbn [negb orb].
        - destruct (cv =? 0) eqn:E1; [reflexivity|]. destruct (a =? 0) eqn:E2; cbn [orb]; [reflexivity|].
          destruct (cv <? a) eqn:E3; f_equal; lia.
        - rewrite (Hst eq_refl). destruct (cv =? 0) eqn:E1; [f_equal; lia | reflexivity]. }
      rewrite E. rewrite IH by discriminate. rewrite orb_true_r. reflexivity.
    + assert (E : tstep (st, a) (false, cv) = (st, a)) by reflexivity.
      rewrite E. rewrite IH by exact Hst. reflexivity.
Qed.

Lemma set_values_nil_iff (g : list tv) : existsb fst g = false <-> set_values g = [].
Proof.
  unfold set_values. induction g as [|[cs cv] r IH]; cbn; [tauto|].
  destruct cs; cbn; [split; discriminate | exact IH].
Qed.

Lemma field_loop_is_merge (g : list tv) dflt :
  or_default (fold_left tstep g (false, 0)) dflt = merge_timeout dflt g.
Proof.
  rewrite tstep_fold by reflexivity. unfold or_default, merge_timeout. cbn [fst snd orb].
  destruct (existsb fst g) eqn:E.
  - destruct (set_values g) eqn:Es; [|reflexivity].
    apply set_values_nil_iff in Es. congruence.
  - apply set_values_nil_iff in E. rewrite E. reflexivity.
Qed.

Lemma tacc_fold_proj : forall (g : list site) (a : tacc),
  let r := fold_left tacc_step g a in
  a_read r = fold_left tstep (map s_read g) (a_read a) /\
  a_rhdr r = fold_left tstep (map s_rhdr g) (a_rhdr a) /\
  a_write r = fold_left tstep (map s_write g) (a_write a) /\
  a_idle r = fold_left tstep (map s_idle g) (a_idle a).
Proof.
  induction g as [|c r IH]; intros a; cbn [fold_left map]; [auto|].
  apply (IH (tacc_step a c)).
Qed.

Lemma hstep_pick m v : hstep m v = pick m v.
Proof.
  unfold hstep, pick. destruct (v =? 0) eqn:E1; [reflexivity|].
  destruct (m =? 0) eqn:E2.
  - rewrite Z.ltb_irrefl. reflexivity.
  - destruct (v <? m) eqn:E3; lia.
Qed.

Lemma header_loop_strictest g :
  header_loop g = let m := strictest g in if 0 <? m then m else 0.
Proof.
  unfold header_loop, strictest.
  assert (E : forall l a, fold_left hstep l a = fold_left pick l a).
  { induction l as [|x l IHl]; intros a; cbn [fold_left]; [reflexivity|]. rewrite hstep_pick. apply IHl. }
  rewrite E. reflexivity.
Qed.

Theorem new_server_fields dflt g :
  let sv := new_server dflt g in
  sv_read sv = merge_timeout (sv_read dflt) (map s_read g) /\
  sv_rhdr sv = merge_timeout (sv_rhdr dflt) (map s_rhdr g) /\
  sv_write sv = merge_timeout (sv_write dflt) (map s_write g) /\
  sv_idle sv = merge_timeout (sv_idle dflt) (map s_idle g) /\
  ((forall c, In c g -> 0 <= s_maxhdr c) -> sv_maxhdr sv = merge_header_limit (map s_maxhdr g)).
Proof.
  cbv zeta. unfold new_server. cbn [sv_read sv_rhdr sv_write sv_idle sv_maxhdr].
  destruct (tacc_fold_proj g tacc0) as (H1 & H2 & H3 & H4). cbv zeta in H1, H2, H3, H4.
  rewrite H1, H2, H3, H4. cbn [tacc0 a_read a_rhdr a_write a_idle].
  rewrite !field_loop_is_merge. repeat split.
  intros Hpos. rewrite header_loop_strictest. cbv zeta. unfold merge_header_limit.
  assert (Hl : forall v, In v (map s_maxhdr g) -> 0 <= v).
  { intros v Hv. apply in_map_iff in Hv as (c & <- & Hc). apply Hpos. exact Hc. }
  pose proof (fold_pick_spec (map s_maxhdr g) 0 (Z.le_refl 0) Hl) as (Hr0 & _). cbv zeta in Hr0.
  unfold strictest. destruct (0 <? fold_left pick (map s_maxhdr g) 0) eqn:E; [reflexivity|].
  apply Z.ltb_ge in E. lia.
Qed.

Theorem new_server_perm dflt g g' : Permutation g g' -> new_server dflt g = new_server dflt g'.
Proof.
  intros HP. unfold new_server.
  destruct (tacc_fold_proj g tacc0) as (H1 & H2 & H3 & H4).
  destruct (tacc_fold_proj g' tacc0) as (H1' & H2' & H3' & H4'). cbv zeta in *.
  rewrite H1, H2, H3, H4, H1', H2', H3', H4'. cbn [tacc0 a_read a_rhdr a_write a_idle].
  rewrite !field_loop_is_merge, !header_loop_strictest.
  rewrite (merge_timeout_perm _ _ _ (Permutation_map s_read HP)).
  rewrite (merge_timeout_perm _ _ _ (Permutation_map s_rhdr HP)).
  rewrite (merge_timeout_perm _ _ _ (Permutation_map s_write HP)).
  rewrite (merge_timeout_perm _ _ _ (Permutation_map s_idle HP)).
  rewrite (strictest_perm _ _ (Permutation_map s_maxhdr HP)). reflexivity.
Qed.

Definition site_ok (c : site) : Prop :=
  0 <= snd (s_read c) /\ 0 <= snd (s_rhdr c) /\ 0 <= snd (s_write c) /\ 0 <= snd (s_idle c) /\ 0 <= s_maxhdr c.

Lemma merge_honours dflt (g : list tv) (x : tv) :
  (forall v, In v (set_values g) -> 0 <= v) -> In x g -> fst x = true ->
  honours (merge_timeout dflt g) (snd x) = true.
Proof.
  intros Hpos Hin Hset. unfold honours.
  destruct (snd x =? 0) eqn:E0; [reflexivity|]. apply Z.eqb_neq in E0. cbn [orb].
  assert (Hx : In (snd x) (set_values g)).
  { unfold set_values. apply in_map. apply filter_In. split; assumption. }
  pose proof (Hpos _ Hx) as Hx0.
  destruct (merge_timeout_spec dflt g Hpos) as (_ & _ & H3). cbv zeta in H3.
  destruct H3 as (_ & Hr & Hall). { exists (snd x). split; [exact Hx | lia]. }
  destruct (Hall _ Hx) as [?|Hle]; [lia|].
  apply andb_true_iff. split; [apply Z.ltb_lt | apply Z.leb_le]; lia.
Qed.

Lemma strictest_honours (l : list Z) x :
  (forall v, In v l -> 0 <= v) -> In x l -> honours (strictest l) x = true.
Proof.
  intros Hpos Hin. unfold honours.
  destruct (x =? 0) eqn:E0; [reflexivity|]. apply Z.eqb_neq in E0. cbn [orb].
  pose proof (Hpos _ Hin) as Hx0.
  destruct (strictest_spec l Hpos) as (_ & H3). cbv zeta in H3.
  destruct H3 as (_ & Hr & Hall). { exists x. split; [exact Hin | lia]. }
  destruct (Hall _ Hin) as [?|Hle]; [lia|].
  apply andb_true_iff. split; [apply Z.ltb_lt | apply Z.leb_le]; lia.
Qed.

Theorem merge_never_relaxes dflt g c :
  (forall c', In c' g -> site_ok c') -> In c g -> site_honoured (new_server dflt g) c = true.
Proof.
  intros Hok Hin.
  destruct (new_server_fields dflt g) as (H1 & H2 & H3 & H4 & H5). cbv zeta in *.
  unfold site_honoured. rewrite H1, H2, H3, H4.
  rewrite H5 by (intros c' Hc'; apply (Hok c' Hc')).
  assert (P : forall (f : site -> tv), (forall c', In c' g -> 0 <= snd (f c')) ->
              forall d, negb (fst (f c)) || honours (merge_timeout d (map f g)) (snd (f c)) = true).
  { intros f Hf d. destruct (fst (f c)) eqn:Hs; [|reflexivity]. cbn [negb orb].
    apply merge_honours; [|apply in_map; exact Hin|exact Hs].
    intros v Hv. unfold set_values in Hv. apply in_map_iff in Hv as (t & <- & Ht).
    apply filter_In in Ht as [Ht _]. apply in_map_iff in Ht as (c' & <- & Hc'). apply Hf. exact Hc'. }
  rewrite (P s_read), (P s_rhdr), (P s_write), (P s_idle);
    try (intros c' Hc'; destruct (Hok c' Hc') as (?&?&?&?&?); assumption).
  cbn [andb]. unfold merge_header_limit. apply strictest_honours.
  - intros v Hv. apply in_map_iff in Hv as (c' & <- & Hc'). destruct (Hok c' Hc') as (?&?&?&?&?); assumption.
  - apply in_map. exact Hin.
Qed.

(* ---- consumers: what reaches the backend, and when the client sees 413 ---- *)
Theorem backend_never_beyond_limit limit body script eofd bufs d e :
  0 <= limit -> consumer_reads limit body script eofd bufs = (d, e) ->
  d = firstn (length d) body /\ Z.of_nat (length d) <= limit /\
  (e = Some TooLarge -> limit < Z.of_nat (length body) /\ d = firstn (Z.to_nat limit) body).
Proof.
  unfold consumer_reads. intros Hl H.
  destruct (read_all (mbr_init limit body script eofd) bufs) as [[d0 e0] s0] eqn:Hr.
  injection H as <- <-.
  destruct (limit_exact _ _ _ _ _ _ _ _ Hl Hr) as (H1 & H2 & _ & H4 & _). auto.
Qed.

Theorem too_large_is_413 k clf bs : consumer_status k clf (Some TooLarge) bs = 413.
Proof. destruct k; reflexivity. Qed.

Theorem too_large_status_table k clf e bs :
  consumer_status k clf e bs = 413 <-> e = Some TooLarge \/ bs = 413.
Proof.
  destruct e as [[| |]|]; cbn.
  - split; [intros H; right; exact H | intros [H|H]; [discriminate | exact H]].
  - destruct k; split; auto.
  - split; [intros H; right; exact H | intros [H|H]; [discriminate | exact H]].
  - split; [intros H; right; exact H | intros [H|H]; [discriminate | exact H]].
Qed.

(* end to end: a consumer that reads the limited body to the end answers 413 exactly for the bodies
   over the limit, having received exactly the first [limit] bytes; otherwise it has the whole body
   and relays the backend's own status *)
Theorem upload_status limit (body : list N) script eofd bufs k clf bs d e :
  0 <= limit ->
  (forall m, In m bufs -> (1 <= m)%nat) -> (forall j, In j script -> (1 <= j)%nat) ->
  (length body + 2 <= length bufs)%nat ->
  consumer_reads limit body script eofd bufs = (d, e) ->
  (limit < Z.of_nat (length body) -> d = firstn (Z.to_nat limit) body /\ consumer_status k clf e bs = 413) /\
  (Z.of_nat (length body) <= limit -> d = body /\ consumer_status k clf e bs = bs).
Proof.
  unfold consumer_reads. intros Hl Hb Hs Hlen H.
  destruct (read_all (mbr_init limit body script eofd) bufs) as [[d0 e0] s0] eqn:Hr.
  injection H as <- <-.
  destruct (limit_complete _ _ _ _ _ _ _ _ Hl Hb Hs Hlen Hr) as [Hin Hover]. split.
  - intros Hlt. destruct (Hover Hlt) as [-> ->]. split; [reflexivity | apply too_large_is_413].
  - intros Hle. destruct (Hin Hle) as [-> ->]. split; reflexivity.
Qed.

(* ======================================================================================== *)
(* ---- parseSize, converse: every string denoting a product within 1..2^63-1 is accepted ---- *)

Lemma has_suffix_iff s suf : has_suffix s suf = true <-> exists p, s = p ++ suf.
Proof.
  split.
  - intros H. eexists. apply has_suffix_split. exact H.
  - intros [p ->]. unfold has_suffix. rewrite app_length.
    apply andb_true_iff. split; [apply Nat.leb_le; lia|].
    replace (length p + length suf - length suf)%nat with (length p) by lia.
    rewrite skipn_app, Nat.sub_diag, skipn_all. cbn [skipn app]. apply beq_refl.
Qed.

Lemma has_suffix_prefix (p suf : bytes) : firstn (length (p ++ suf) - length suf) (p ++ suf) = p.
Proof.
  rewrite app_length. replace (length p + length suf - length suf)%nat with (length p) by lia.
  rewrite firstn_app, Nat.sub_diag, firstn_O, app_nil_r, firstn_all. reflexivity.
Qed.

Lemma span_digits_spec : forall r ds sym, span_digits r = (ds, sym) ->
  r = ds ++ sym /\ Forall (fun c => is_digit c = true) ds /\
  match sym with [] => True | c :: _ => is_digit c = false end.
Proof.
  induction r as [|c r IH]; intros ds sym H; cbn [span_digits] in H.
  - injection H as <- <-. repeat split; constructor.
  - destruct (is_digit c) eqn:Hc.
    + destruct (span_digits r) as [d t] eqn:Hs. injection H as <- <-.
      destruct (IH _ _ eq_refl) as (-> & Hall & Hh). repeat split; auto.
    + injection H as <- <-. cbn. rewrite Hc. repeat split; constructor.
Qed.

Lemma digits_val_complete ds : forall acc,
  Forall (fun c => is_digit c = true) ds ->
  digits_val ds acc = Some (fold_left (fun a c => a * 10 + digit_val c) ds acc).
Proof.
  induction ds as [|c r IH]; intros acc H; cbn [digits_val fold_left]; [reflexivity|].
  inversion H as [|? ? Hc Hr]; subst. rewrite Hc. apply IH. exact Hr.
Qed.

Lemma parse_int64_complete (sign ds : bytes) neg :
  ds <> [] -> Forall (fun c => is_digit c = true) ds ->
  (sign = [] /\ neg = false) \/ (sign = [43%N] /\ neg = false) \/ (sign = [45%N] /\ neg = true) ->
  - two63 <= signed neg (dec ds) < two63 ->
  parse_int64 (sign ++ ds) = Some (signed neg (dec ds)).
Proof.
  intros Hne Hall Hs Hr. unfold parse_int64.
  destruct Hs as [[-> ->]|[[-> ->]|[-> ->]]]; cbn [app].
  - destruct ds as [|c r]; [congruence|].
    inversion Hall as [|? ? Hc Hr']; subst. destruct (is_digit_not_sign _ Hc) as [-> ->].
    rewrite (digits_val_complete (c :: r) 0 Hall). fold (dec (c :: r)).
    unfold signed in *. replace (dec (c :: r) <? two63) with true by (symmetry; apply Z.ltb_lt; lia). reflexivity.
  - rewrite N.eqb_refl. destruct ds as [|c r] eqn:E; [congruence|]. rewrite <- E in *.
    rewrite (digits_val_complete ds 0 Hall). fold (dec ds).
    unfold signed in *. replace (dec ds <? two63) with true by (symmetry; apply Z.ltb_lt; lia). reflexivity.
  - change (45 =? 43)%N with false. rewrite N.eqb_refl. destruct ds as [|c r] eqn:E; [congruence|]. rewrite <- E in *.
    rewrite (digits_val_complete ds 0 Hall). fold (dec ds).
    unfold signed in *. replace (dec ds <=? two63) with true by (symmetry; apply Z.leb_le; lia). reflexivity.
Qed.

(* a string ending in digit d followed by sym has none of the other unit symbols as suffix *)
Lemma app2_inj {A} (p q : list A) a b c d : p ++ [a; b] = q ++ [c; d] -> a = c /\ b = d.
Proof.
  intros H. change (p ++ [a; b]) with (p ++ [a] ++ [b]) in H. change (q ++ [c; d]) with (q ++ [c] ++ [d]) in H.
  rewrite !app_assoc in H. apply app_inj_tail in H as [H ->]. apply app_inj_tail in H as [_ ->]. auto.
Qed.
Lemma app1_inj {A} (p q : list A) a b : p ++ [a] = q ++ [b] -> a = b.
Proof. intros H. apply app_inj_tail in H as [_ ->]. reflexivity. Qed.

Lemma digit_not_letter d : is_digit d = true -> d <> 75%N /\ d <> 77%N /\ d <> 71%N /\ d <> 66%N.
Proof.
  unfold is_digit. intros H. apply andb_true_iff in H as [_ H]. apply N.leb_le in H. repeat split; lia.
Qed.

Lemma parse_size_units_complete (sign ds : bytes) neg sym mult :
  ds <> [] -> Forall (fun c => is_digit c = true) ds ->
  (sign = [] /\ neg = false) \/ (sign = [43%N] /\ neg = false) \/ (sign = [45%N] /\ neg = true) ->
  - two63 <= signed neg (dec ds) < two63 ->
  In (sym, mult) units ->
  parse_size_units ((sign ++ ds) ++ sym) units = size_times (signed neg (dec ds)) mult.
Proof.
  intros Hne Hall Hs Hr Hin.
  pose proof (parse_int64_complete sign ds neg Hne Hall Hs Hr) as Hp.
  (* the digit run ends in a digit d: ds = ds0 ++ [d] *)
  destruct (exists_last Hne) as (ds0 & d & Eds).
  assert (Hd : is_digit d = true).
  { rewrite Eds in Hall. apply Forall_app in Hall as [_ Hl]. inversion Hl; assumption. }
  destruct (digit_not_letter d Hd) as (HK & HM & HG & HB).
  set (P := sign ++ ds) in *.
  assert (EP : P = (sign ++ ds0) ++ [d]) by (unfold P; rewrite Eds, app_assoc; reflexivity).
  assert (Hyes : forall suf, has_suffix (P ++ suf) suf = true) by (intros; apply has_suffix_iff; eexists; reflexivity).
  unfold units in Hin. cbn [bs] in Hin. unfold units. cbn [bs parse_size_units].
  change (N_of_ascii "K") with 75%N in *. change (N_of_ascii "M") with 77%N in *.
  change (N_of_ascii "G") with 71%N in *. change (N_of_ascii "B") with 66%N in *.
  assert (F : forall suf, has_suffix (P ++ sym) suf = false <-> ~ exists p, P ++ sym = p ++ suf).
  { intros suf. rewrite <- has_suffix_iff. destruct (has_suffix (P ++ sym) suf); split; intros; try congruence; try tauto. }
  destruct Hin as [E|[E|[E|[E|[E|[]]]]]]; injection E as <- <-.
  - rewrite Hyes, has_suffix_prefix, Hp. reflexivity.
  - replace (has_suffix (P ++ [77%N; 66%N]) [75%N; 66%N]) with false.
    2:{ symmetry. apply F. intros [p H]. apply app2_inj in H as [H _]. lia. }
    rewrite Hyes, has_suffix_prefix, Hp. reflexivity.
  - replace (has_suffix (P ++ [71%N; 66%N]) [75%N; 66%N]) with false.
    2:{ symmetry. apply F. intros [p H]. apply app2_inj in H as [H _]. lia. }
    replace (has_suffix (P ++ [71%N; 66%N]) [77%N; 66%N]) with false.
    2:{ symmetry. apply F. intros [p H]. apply app2_inj in H as [H _]. lia. }
    rewrite Hyes, has_suffix_prefix, Hp. reflexivity.
  - assert (G : forall x, has_suffix (P ++ [66%N]) [x; 66%N] = false <-> d <> x).
    { intros x. rewrite F. split.
      - intros Hn ->. apply Hn. exists (sign ++ ds0). rewrite EP, <- app_assoc. reflexivity.
      - intros Hdx [p H]. rewrite EP, <- app_assoc in H. cbn [app] in H. apply app2_inj in H as [H _]. congruence. }
    rewrite (proj2 (G 75%N) HK), (proj2 (G 77%N) HM), (proj2 (G 71%N) HG).
    rewrite Hyes, has_suffix_prefix, Hp. reflexivity.
  - rewrite !app_nil_r.
    assert (G2 : forall x, has_suffix P [x; 66%N] = false).
    { intros x. destruct (has_suffix P [x; 66%N]) eqn:H; [|reflexivity]. apply has_suffix_iff in H as [p H].
      rewrite EP in H. change (p ++ [x; 66%N]) with (p ++ [x] ++ [66%N]) in H. rewrite app_assoc in H.
      apply app1_inj in H. congruence. }
    assert (G1 : has_suffix P [66%N] = false).
    { destruct (has_suffix P [66%N]) eqn:H; [|reflexivity]. apply has_suffix_iff in H as [p H].
      rewrite EP in H. apply app1_inj in H. congruence. }
    rewrite !G2, G1.
    pose proof (Hyes []) as Hy. rewrite app_nil_r in Hy. rewrite Hy.
    pose proof (has_suffix_prefix P []) as Hpre. rewrite app_nil_r in Hpre. rewrite Hpre, Hp. reflexivity.
Qed.

Lemma unit_of_in sym u : unit_of sym = Some u -> In (sym, u) units.
Proof.
  unfold unit_of. destruct (find _ units) as [[s' m]|] eqn:Hf; [|discriminate].
  intros E; injection E as <-. apply find_some in Hf as [Hin Hb]. cbn [fst] in Hb.
  apply beq_eq in Hb. subst s'. exact Hin.
Qed.

Theorem accept_size_complete s n u :
  denote s = Some (n, u) -> 1 <= n * u <= max_int64 -> accept_size s = Some (n * u).
Proof.
  intros Hd Hr. unfold denote in Hd. set (U := map upper_b s) in *.
  assert (Hshape : exists sign ds sym neg, U = (sign ++ ds) ++ sym /\ ds <> [] /\
            Forall (fun c => is_digit c = true) ds /\
            ((sign = [] /\ neg = false) \/ (sign = [43%N] /\ neg = false) \/ (sign = [45%N] /\ neg = true)) /\
            n = signed neg (dec ds) /\ In (sym, u) units).
  { destruct U as [|c r] eqn:EU.
    - cbn in Hd. discriminate.
    - destruct (c =? 43)%N eqn:Hp; [|destruct (c =? 45)%N eqn:Hm].
      + apply N.eqb_eq in Hp. subst c. destruct (span_digits r) as [ds sym] eqn:Hs.
        destruct ds as [|d0 dr] eqn:Ed; [discriminate|]. rewrite <- Ed in *.
        destruct (unit_of sym) as [m|] eqn:Hu; [|discriminate]. injection Hd as <- <-.
        destruct (span_digits_spec _ _ _ Hs) as (-> & Hall & _).
        exists [43%N], ds, sym, false. repeat split; auto; try (rewrite Ed; discriminate).
        apply unit_of_in; exact Hu.
      + apply N.eqb_eq in Hm. subst c. destruct (span_digits r) as [ds sym] eqn:Hs.
        destruct ds as [|d0 dr] eqn:Ed; [discriminate|]. rewrite <- Ed in *.
        destruct (unit_of sym) as [m|] eqn:Hu; [|discriminate]. injection Hd as <- <-.
        destruct (span_digits_spec _ _ _ Hs) as (-> & Hall & _).
        exists [45%N], ds, sym, true. repeat split; auto; try (rewrite Ed; discriminate).
        apply unit_of_in; exact Hu.
      + destruct (span_digits (c :: r)) as [ds sym] eqn:Hs.
        destruct ds as [|d0 dr] eqn:Ed; [discriminate|]. rewrite <- Ed in *.
        destruct (unit_of sym) as [m|] eqn:Hu; [|discriminate]. injection Hd as <- <-.
        destruct (span_digits_spec _ _ _ Hs) as (E & Hall & _).
        exists [], ds, sym, false. cbn [app]. repeat split; auto; try (rewrite Ed; discriminate).
        apply unit_of_in; exact Hu. }
  destruct Hshape as (sign & ds & sym & neg & EU & Hne & Hall & Hsg & Hn & Hin).
  destruct (units_facts _ _ Hin) as (_ & _ & Hm).
  assert (Hn64 : - two63 <= signed neg (dec ds) < two63).
  { rewrite <- Hn. unfold max_int64, two63 in *. nia. }
  unfold accept_size, parse_size. fold U. rewrite EU.
  rewrite (parse_size_units_complete sign ds neg sym u Hne Hall Hsg Hn64 Hin).
  rewrite <- Hn. rewrite size_times_fits by nia.
  replace (n * u <? 1) with false by (symmetry; apply Z.ltb_ge; lia). reflexivity.
Qed.

Theorem accept_size_rejects s :
  accept_size s = None ->
  match denote s with
  | None => True
  | Some (n, u) => ~ (1 <= n * u <= max_int64)
  end.
Proof.
  intros H. destruct (denote s) as [[n u]|] eqn:Hd; [|exact I].
  intros Hr. rewrite (accept_size_complete s n u Hd Hr) in H. discriminate.
Qed.

(* ---------- every server object of one listener ---------- *)
Lemma ns_is_new_server dflt g : ns_header (ns_timeouts dflt g) g = new_server dflt g.
Proof.
  unfold ns_header, ns_timeouts, new_server, header_loop. cbn [sv_read sv_rhdr sv_write sv_idle sv_maxhdr].
  cbv zeta. destruct (0 <? fold_left hstep (map s_maxhdr g) 0); reflexivity.
Qed.

Lemma new_servers_tcp dflt g tls h2 quic : fst (new_servers dflt g tls h2 quic) = new_server dflt g.
Proof. unfold new_servers. cbv zeta. cbn [fst]. apply ns_is_new_server. Qed.

Lemma new_servers_h3_exists dflt g tls h2 quic :
  snd (new_servers dflt g tls h2 quic) <> None <-> (tls = true /\ h2 = true /\ quic = true).
Proof.
  unfold new_servers, ns_h3. cbv zeta. cbn [snd]. destruct tls, h2, quic; cbn; split; intros H;
    try (repeat split; reflexivity); try discriminate; try (exfalso; apply H; reflexivity);
    try (destruct H as (A & B & C); discriminate).
Qed.

(* all servers of one listener carry the same header limit: the strictest one configured *)
Lemma all_servers_same_header_limit dflt g tls h2 quic sv h3 :
  new_servers dflt g tls h2 quic = (sv, Some h3) ->
  sv = new_server dflt g /\ h3_maxhdr h3 = sv_maxhdr sv /\
  ((forall c, In c g -> 0 <= s_maxhdr c) -> h3_maxhdr h3 = merge_header_limit (map s_maxhdr g)).
Proof.
  intros H. pose proof (new_servers_tcp dflt g tls h2 quic) as T. rewrite H in T. cbn [fst] in T.
  unfold new_servers in H. cbv zeta in H. injection H as Hs Hq.
  unfold ns_h3 in Hq. destruct (tls && h2 && quic); [|discriminate]. injection Hq as <-.
  subst sv. split; [exact T|]. split; [reflexivity|]. intros Hpos.
  destruct (new_server_fields dflt g) as (_ & _ & _ & _ & Hh).
  transitivity (sv_maxhdr (new_server dflt g)); [rewrite <- T; reflexivity | exact (Hh Hpos)].
Qed.

(* ... and the same idle timeout (/repo a99152d): the HTTP/3 server's QUICConfig carries the TCP server's *)
Definition site_idle7 : site :=
  {| s_read := (false, 0); s_rhdr := (false, 0); s_write := (false, 0); s_idle := (true, 7); s_maxhdr := 2048 |}.
Definition dflt_srv : server := {| sv_read := 100; sv_rhdr := 100; sv_write := 200; sv_idle := 300; sv_maxhdr := 0 |}.

Lemma h3_idle_is_tcp_idle dflt g tls h2 quic sv h3 :
  new_servers dflt g tls h2 quic = (sv, Some h3) ->
  h3_idle h3 = if 0 <? sv_idle sv then sv_idle sv else 0.
Proof.
  intros H. unfold new_servers in H. cbv zeta in H. injection H as Hs Hq.
  unfold ns_h3 in Hq. destruct (tls && h2 && quic); [|discriminate]. injection Hq as <-.
  subst sv. reflexivity.
Qed.

Lemma merge_timeout_nonneg dflt (g : list tv) :
  0 <= dflt -> (forall v, In v (set_values g) -> 0 <= v) -> 0 <= merge_timeout dflt g.
Proof.
  intros Hd Hpos. destruct (merge_timeout_spec dflt g Hpos) as (H1 & H2 & H3). cbv zeta in H1, H2, H3.
  destruct (set_values g) as [|v0 vs] eqn:Es.
  - rewrite H1 by reflexivity. exact Hd.
  - destruct (existsb (fun v => 0 <? v) (v0 :: vs)) eqn:Ex.
    + apply existsb_exists in Ex as (v & Hv & Hlt). apply Z.ltb_lt in Hlt.
      destruct H3 as (_ & Hr & _); [exists v; split; assumption | lia].
    + rewrite H2; [lia | discriminate |].
      intros v Hv. pose proof (Hpos v Hv) as Hv0.
      destruct (0 <? v) eqn:E; [|apply Z.ltb_ge in E; lia].
      assert (Ht : existsb (fun v => 0 <? v) (v0 :: vs) = true).
      { apply existsb_exists. exists v. split; assumption. }
      congruence.
Qed.

(* every server of one listener carries the same idle timeout: the strictest one the sites configure, the default
   only where no site sets one (0 on both = no idle timeout configured: `timeouts idle none` on every setting site) *)
Lemma all_servers_same_idle_timeout dflt g tls h2 quic sv h3 :
  new_servers dflt g tls h2 quic = (sv, Some h3) ->
  0 <= sv_idle dflt -> (forall c, In c g -> 0 <= snd (s_idle c)) ->
  h3_idle h3 = sv_idle sv /\
  h3_idle h3 = merge_timeout (sv_idle dflt) (map s_idle g) /\
  (forall c, In c g -> fst (s_idle c) = true -> honours (h3_idle h3) (snd (s_idle c)) = true).
Proof.
  intros H Hd Hpos.
  pose proof (h3_idle_is_tcp_idle _ _ _ _ _ _ _ H) as Hq.
  pose proof (new_servers_tcp dflt g tls h2 quic) as T. rewrite H in T. cbn [fst] in T.
  destruct (new_server_fields dflt g) as (_ & _ & _ & Hi & _). cbv zeta in Hi. rewrite <- T in Hi.
  assert (Hset : forall v, In v (set_values (map s_idle g)) -> 0 <= v).
  { intros v Hv. unfold set_values in Hv. apply in_map_iff in Hv as (t & <- & Ht).
    apply filter_In in Ht as [Ht _]. apply in_map_iff in Ht as (c & <- & Hc). apply Hpos. exact Hc. }
  pose proof (merge_timeout_nonneg (sv_idle dflt) (map s_idle g) Hd Hset) as Hnn. rewrite <- Hi in Hnn.
  assert (E : h3_idle h3 = sv_idle sv).
  { rewrite Hq. destruct (0 <? sv_idle sv) eqn:El; [reflexivity|]. apply Z.ltb_ge in El. lia. }
  split; [exact E|]. split; [rewrite E; exact Hi|].
  intros c Hc Hs. rewrite E, Hi. apply merge_honours; [exact Hset | apply in_map; exact Hc | exact Hs].
Qed.

(* ---------- sequences of uploads through one counting upstream ---------- *)
(* every request of a sequence is answered as it would be alone, and the failure counter never moves: an
   over-limit upload is not a failure of the backend, so the in-limit uploads after it still arrive *)
Lemma upload_sequence_independent k limit mf qs :
  1 <= mf ->
  seq_run k limit mf 0 qs = map (fun q : bool * nat => (if limit <? Z.of_nat (snd q) then 413 else 200, 0)) qs.
Proof.
  intros Hm. assert (E : (mf <=? 0) = false) by (apply Z.leb_gt; lia).
  induction qs as [|[ch len] qs IH]; [reflexivity|].
  cbn [seq_run map snd]. unfold seq_step. rewrite E.
  destruct k; destruct (limit <? Z.of_nat len); cbn; rewrite IH; reflexivity.
Qed.

(* the too-large error is mapped before the failure accounting: it is never counted *)
Lemma too_large_never_counted bs : proxy_after_forward (Some TooLarge) bs = (413, false).
Proof. reflexivity. Qed.

(* ---------- chunked bodies: the limit counts decoded bytes, whatever the wire segmentation ---------- *)
Lemma span_hex_app ds r :
  Forall (fun c => is_hex c = true) ds ->
  match r with [] => True | c :: _ => is_hex c = false end ->
  span_hex (ds ++ r) = (ds, r).
Proof.
  intros Hds Hr. induction Hds as [|c l Hc Hl IH]; cbn [app].
  - destruct r as [|c r]; [reflexivity|]. cbn [span_hex]. rewrite Hr. reflexivity.
  - cbn [span_hex]. rewrite Hc, IH. reflexivity.
Qed.

Lemma skip_line_app ext r :
  Forall (fun c => c <> 10%N) ext -> skip_line (ext ++ 13%N :: 10%N :: r) = r.
Proof.
  intros H. induction H as [|c l Hc Hl IH]; cbn [app skip_line].
  - reflexivity.
  - destruct (c =? 10)%N eqn:E; [apply N.eqb_eq in E; congruence | exact IH].
Qed.

Lemma size_line_head ext (r : bytes) :
  match ext with [] => True | c :: _ => is_hex c = false end ->
  match ext ++ 13%N :: 10%N :: r with [] => True | c :: _ => is_hex c = false end.
Proof. destruct ext; cbn; [reflexivity | auto]. Qed.

Lemma dechunk_step f c rest :
  wf_chunk c ->
  dechunk (S f) (wc_size c ++ wc_ext c ++ 13%N :: 10%N :: wc_data c ++ 13%N :: 10%N :: rest)
  = option_map (app (wc_data c)) (dechunk f rest).
Proof.
  intros ((Hne & Hhex & Hext & Hhd) & Hval & Hd).
  cbn [dechunk]. rewrite (span_hex_app _ _ Hhex (size_line_head _ _ Hhd)).
  destruct (wc_size c) as [|d0 dr] eqn:Eds; [congruence|]. rewrite Hval, Nat2N.id.
  rewrite (skip_line_app _ _ Hext).
  destruct (wc_data c) as [|b0 br] eqn:Ed; [congruence|]. rewrite <- Ed.
  assert (Hlen : (1 <= length (wc_data c))%nat) by (rewrite Ed; cbn; lia).
  destruct (Nat.eqb (length (wc_data c)) 0) eqn:E0; [apply Nat.eqb_eq in E0; lia|].
  destruct (Nat.ltb (length (wc_data c ++ 13%N :: 10%N :: rest)) (length (wc_data c) + 2)) eqn:E1.
  { apply Nat.ltb_lt in E1. rewrite app_length in E1. cbn [length] in E1. lia. }
  rewrite skipn_app, skipn_all, Nat.sub_diag. cbn [skipn app].
  rewrite firstn_app, firstn_all, Nat.sub_diag, firstn_O, app_nil_r. reflexivity.
Qed.

Lemma dechunk_last f size ext trailers :
  wf_size_line size ext -> hex_num size 0 = 0%N ->
  dechunk (S f) (enc_last size ext trailers) = Some [].
Proof.
  intros (Hne & Hhex & Hext & Hhd) Hval. unfold enc_last.
  cbn [dechunk]. rewrite (span_hex_app _ _ Hhex (size_line_head _ _ Hhd)).
  destruct size as [|d0 dr]; [congruence|]. rewrite Hval. reflexivity.
Qed.

Theorem dechunk_enc cs size ext trailers fuel :
  (forall c, In c cs -> wf_chunk c) -> wf_size_line size ext -> hex_num size 0 = 0%N ->
  (length cs < fuel)%nat ->
  dechunk fuel (enc_chunks cs (enc_last size ext trailers)) = Some (concat (map wc_data cs)).
Proof.
  intros Hwf Hl Hv. revert fuel. induction cs as [|c r IH]; intros fuel Hf.
  - destruct fuel as [|f]; [cbn in Hf; lia|]. cbn [enc_chunks map concat]. apply dechunk_last; assumption.
  - destruct fuel as [|f]; [lia|]. cbn [enc_chunks map concat].
    rewrite dechunk_step by (apply Hwf; left; reflexivity).
    rewrite IH; [reflexivity | intros c' Hc'; apply Hwf; right; exact Hc' | cbn [length] in Hf; lia].
Qed.

(* the limit on a chunked upload: whatever the chunk sizes, size-line spellings, extensions and trailers on the
   wire, and however the caller reads, the handler gets the decoded body up to the limit — all of it with EOF when
   it fits, exactly the first [limit] bytes with the too-large error when it does not.  The chunked reader hands
   over at most the rest of the current chunk per Read: the script of the underlying reader is the chunk sizes *)
Theorem chunked_limit_counts_decoded limit cs size ext trailers fuel eofd bufs d e s' :
  (forall c, In c cs -> wf_chunk c) -> wf_size_line size ext -> hex_num size 0 = 0%N ->
  (length cs < fuel)%nat -> 0 <= limit ->
  (forall m, In m bufs -> (1 <= m)%nat) ->
  (length (concat (map wc_data cs)) + 2 <= length bufs)%nat ->
  exists body, dechunk fuel (enc_chunks cs (enc_last size ext trailers)) = Some body /\
    body = concat (map wc_data cs) /\
    (read_all (mbr_init limit body (map (fun c => length (wc_data c)) cs) eofd) bufs = (d, e, s') ->
     (Z.of_nat (length body) <= limit -> d = body /\ e = Some EOF) /\
     (limit < Z.of_nat (length body) -> d = firstn (Z.to_nat limit) body /\ e = Some TooLarge)).
Proof.
  intros Hwf Hl Hv Hf Hlim Hb Hlen. exists (concat (map wc_data cs)).
  split; [apply dechunk_enc; assumption|]. split; [reflexivity|].
  intros H. refine (limit_complete limit _ _ eofd bufs d e s' Hlim Hb _ Hlen H).
  intros k Hk. apply in_map_iff in Hk as (c & <- & Hc). destruct (Hwf c Hc) as (_ & _ & Hd).
  destruct (wc_data c); [congruence | cbn; lia].
Qed.
