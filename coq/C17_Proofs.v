Require Import V.Lib V.GoPath V.C17_Model.
From Coq Require Import Permutation.
Open Scope Z_scope.

Section ReaderProofs.
Context {A : Type}.
Implicit Types (body d : list A).

(* ---- underlying reader facts ---- *)
Lemma u_read_spec (u : @ureader A) m d e u' :
  u_read u m = (d, e, u') ->
  u_data u = d ++ u_data u' /\ (length d <= m)%nat /\
  (e = None \/ (e = Some EOF /\ u_data u' = [])) /\
  (u_data u <> [] -> (1 <= m)%nat -> (forall k, In k (u_script u) -> (1 <= k)%nat) -> (1 <= length d)%nat) /\
  (forall k, In k (u_script u') -> In k (u_script u)).
Proof.
  unfold u_read. destruct (u_data u) as [|a l] eqn:Hd.
  - intros H; injection H as <- <- <-. rewrite Hd. simpl.
    repeat split; auto; try lia. congruence.
  - set (cap := match u_script u with [] => m | k :: _ => Nat.min k m end).
    intros H; injection H as <- <- <-. cbn [u_data u_script].
    repeat split.
    + symmetry; apply firstn_skipn.
    + rewrite firstn_length. assert (cap <= m)%nat by (unfold cap; destruct (u_script u); lia). lia.
    + destruct (skipn cap (a :: l)) eqn:Hs; [|left; reflexivity].
      destruct (u_eof_with_data u); [right; split; reflexivity | left; reflexivity].
    + intros _ Hm Hk. rewrite firstn_length.
      assert (1 <= cap)%nat.
      { unfold cap. destruct (u_script u) as [|k r]; [lia|].
        specialize (Hk k (or_introl eq_refl)). lia. }
      simpl length. lia.
    + intros k Hk. destruct (u_script u); simpl in Hk; [contradiction | right; exact Hk].
Qed.

(* ---- invariant of the limited reader while no error has been returned ---- *)
Definition Inv (limit : Z) body (sofar : list A) (s : @mbr A) : Prop :=
  m_err s = None /\ body = sofar ++ u_data (m_u s) /\
  m_n s = limit - Z.of_nat (length sofar) /\ 0 <= m_n s.

Definition Outcome (limit : Z) body (sofar d : list A) (e : option rerr) (s' : @mbr A) : Prop :=
  match e with
  | None => Inv limit body (sofar ++ d) s'
  | Some EOF => sofar ++ d = body /\ Z.of_nat (length body) <= limit /\ m_err s' = Some EOF
  | Some TooLarge => limit < Z.of_nat (length body) /\ sofar ++ d = firstn (Z.to_nat limit) body
                     /\ m_err s' = Some TooLarge
  | Some ErrOther => False
  end.

Lemma mbr_read_step limit body sofar s m d e s' :
  Inv limit body sofar s -> mbr_read s m = (d, e, s') -> Outcome limit body sofar d e s'.
Proof.
  intros (Herr & Hbody & Hn & Hpos) H. unfold mbr_read in H. rewrite Herr in H.
  destruct m as [|m0].
  { injection H as <- <- <-. unfold Outcome, Inv. rewrite app_nil_r. auto. }
  set (m := S m0) in *.
  set (m' := if Z.of_nat m >? m_n s + 1 then Z.to_nat (m_n s + 1) else m) in *.
  destruct (u_read (m_u s) m') as [[d0 e0] u'] eqn:Hu.
  apply u_read_spec in Hu as (Hdata & Hlen & He0 & _ & _).
  assert (Hm' : Z.of_nat m' <= m_n s + 1).
  { unfold m'. destruct (Z.of_nat m >? m_n s + 1) eqn:Hc; lia. }
  destruct (Z.of_nat (length d0) <=? m_n s) eqn:Hk.
  - apply Z.leb_le in Hk. injection H as <- <- <-.
    destruct He0 as [-> | [-> Hrest]].
    + unfold Outcome, Inv; cbn [m_err m_u m_n]. rewrite app_length.
      repeat split; try lia. rewrite Hbody, Hdata, app_assoc. reflexivity.
    + unfold Outcome; cbn [m_err]. rewrite Hrest, app_nil_r in Hdata.
      repeat split.
      * rewrite Hbody, Hdata. reflexivity.
      * rewrite Hbody, app_length, Hdata. lia.
  - apply Z.leb_gt in Hk. injection H as <- <- <-.
    unfold Outcome; cbn [m_err].
    assert (Hlen0 : Z.of_nat (length d0) = m_n s + 1) by lia.
    repeat split.
    + rewrite Hbody, Hdata, !app_length. lia.
    + rewrite Hbody, Hdata.
      replace (Z.to_nat limit) with (length sofar + Z.to_nat (m_n s))%nat by lia.
      rewrite firstn_app_2. f_equal.
      rewrite firstn_app.
      replace (Z.to_nat (m_n s) - length d0)%nat with 0%nat by lia.
      rewrite firstn_O, app_nil_r. reflexivity.
Qed.

(* ---- the whole read loop ---- *)
Lemma read_all_outcome limit body bufs : forall sofar s d e s',
  Inv limit body sofar s -> read_all s bufs = (d, e, s') -> Outcome limit body sofar d e s'.
Proof.
  induction bufs as [|m r IH]; intros sofar s d e s' HI H; cbn [read_all] in H.
  - injection H as <- <- <-. unfold Outcome. rewrite app_nil_r. exact HI.
  - destruct (mbr_read s m) as [[d1 e1] s1] eqn:H1.
    pose proof (mbr_read_step _ _ _ _ _ _ _ _ HI H1) as O1.
    destruct e1 as [x|].
    + injection H as <- <- <-. exact O1.
    + destruct (read_all s1 r) as [[d2 e2] s2] eqn:H2. injection H as <- <- <-.
      unfold Outcome in O1. specialize (IH _ _ _ _ _ O1 H2).
      unfold Outcome in *. destruct e2 as [[| |]|]; try rewrite app_assoc; exact IH.
Qed.

Lemma init_inv limit body script eofd :
  0 <= limit -> Inv limit body [] (mbr_init limit body script eofd).
Proof. intros; unfold Inv, mbr_init; cbn. repeat split; lia. Qed.

Lemma inv_prefix limit body sofar s :
  Inv limit body sofar s -> sofar = firstn (length sofar) body /\ Z.of_nat (length sofar) <= limit.
Proof.
  intros (_ & Hb & Hn & Hp). split; [|lia].
  rewrite Hb. rewrite firstn_app, Nat.sub_diag, firstn_O, app_nil_r, firstn_all. reflexivity.
Qed.

Theorem limit_exact limit body script eofd bufs d e s' :
  0 <= limit ->
  read_all (mbr_init limit body script eofd) bufs = (d, e, s') ->
  d = firstn (length d) body /\ Z.of_nat (length d) <= limit /\
  (e = Some EOF -> d = body /\ Z.of_nat (length body) <= limit) /\
  (e = Some TooLarge -> limit < Z.of_nat (length body) /\ d = firstn (Z.to_nat limit) body) /\
  e <> Some ErrOther.
Proof.
  intros Hl H. pose proof (read_all_outcome _ _ _ _ _ _ _ _ (init_inv limit body script eofd Hl) H) as O.
  unfold Outcome in O; cbn [app] in O.
  destruct e as [[| |]|].
  - destruct O as (Hd & Hle & _). subst d. rewrite firstn_all.
    repeat split; try discriminate; auto.
  - destruct O as (Hlt & Hd & _).
    assert (length d = Z.to_nat limit) by (rewrite Hd, firstn_length; lia).
    repeat split; try discriminate; auto; try lia. congruence.
  - contradiction.
  - apply inv_prefix in O as [Hp Hle]. repeat split; try discriminate; auto.
Qed.

(* sticky error: once an error was returned every later read returns it with no data *)
Theorem error_sticky (s : @mbr A) x m : m_err s = Some x -> mbr_read s m = ([], Some x, s).
Proof. intros H. unfold mbr_read. rewrite H. reflexivity. Qed.

Lemma outcome_err_recorded limit body sofar d x s' :
  Outcome limit body sofar d (Some x) s' -> m_err s' = Some x.
Proof. unfold Outcome. destruct x; intuition. Qed.

Theorem error_is_recorded limit body script eofd bufs d x s' :
  0 <= limit ->
  read_all (mbr_init limit body script eofd) bufs = (d, Some x, s') -> m_err s' = Some x.
Proof.
  intros Hl H. eapply outcome_err_recorded.
  exact (read_all_outcome _ _ _ _ _ _ _ _ (init_inv limit body script eofd Hl) H).
Qed.

(* progress: a caller that keeps reading with non-empty buffers from a reader that makes
   progress reaches an error (EOF or too-large) within |body|+2 reads *)
Lemma u_read_none_progress (u : @ureader A) m d u' :
  u_read u m = (d, None, u') -> (1 <= m)%nat ->
  (forall k, In k (u_script u) -> (1 <= k)%nat) -> (1 <= length d)%nat.
Proof.
  intros H Hm Hk. pose proof (u_read_spec _ _ _ _ _ H) as (_ & _ & _ & Hprog & _).
  apply Hprog; auto. intro Hd. unfold u_read in H. rewrite Hd in H. discriminate.
Qed.

Lemma read_all_completes limit body : forall bufs sofar s d e s',
  Inv limit body sofar s ->
  (forall m, In m bufs -> (1 <= m)%nat) ->
  (forall k, In k (u_script (m_u s)) -> (1 <= k)%nat) ->
  (length (u_data (m_u s)) + 2 <= length bufs)%nat ->
  read_all s bufs = (d, e, s') -> e <> None.
Proof.
  induction bufs as [|m r IH]; intros sofar s d e s' HI Hb Hk Hlen H.
  - simpl in Hlen. lia.
  - cbn [read_all] in H. destruct (mbr_read s m) as [[d1 e1] s1] eqn:H1.
    destruct e1 as [x|]; [injection H as <- <- <-; discriminate|].
    destruct (read_all s1 r) as [[d2 e2] s2] eqn:H2. injection H as <- <- <-.
    pose proof (mbr_read_step _ _ _ _ _ _ _ _ HI H1) as O1. unfold Outcome in O1.
    destruct HI as (Herr & Hbody & Hn & Hpos).
    unfold mbr_read in H1. rewrite Herr in H1.
    assert (Hm : (1 <= m)%nat) by (apply Hb; left; reflexivity).
    destruct m as [|m0]; [lia|]. set (m := S m0) in *.
    set (m' := if Z.of_nat m >? m_n s + 1 then Z.to_nat (m_n s + 1) else m) in *.
    assert (Hm'1 : (1 <= m')%nat).
    { unfold m'. destruct (Z.of_nat m >? m_n s + 1); lia. }
    destruct (u_read (m_u s) m') as [[d0 e0] u'] eqn:Hu.
    destruct (Z.of_nat (length d0) <=? m_n s) eqn:Hc; [|discriminate].
    injection H1 as Hd1 He0 Hs1. subst d1 e0 s1.
    pose proof (u_read_none_progress _ _ _ _ Hu Hm'1 Hk) as Hp.
    apply u_read_spec in Hu as (Hdata & _ & _ & _ & Hscr).
    eapply IH; [exact O1| | | |exact H2].
    + intros k Hk'. apply Hb. right. exact Hk'.
    + cbn [m_u]. intros k Hk'. apply Hk. apply Hscr. exact Hk'.
    + cbn [m_u]. rewrite Hdata, app_length in Hlen. simpl length in Hlen. lia.
Qed.

Theorem limit_complete limit body script eofd bufs d e s' :
  0 <= limit ->
  (forall m, In m bufs -> (1 <= m)%nat) ->
  (forall k, In k script -> (1 <= k)%nat) ->
  (length body + 2 <= length bufs)%nat ->
  read_all (mbr_init limit body script eofd) bufs = (d, e, s') ->
  (Z.of_nat (length body) <= limit -> d = body /\ e = Some EOF) /\
  (limit < Z.of_nat (length body) -> d = firstn (Z.to_nat limit) body /\ e = Some TooLarge).
Proof.
  intros Hl Hb Hk Hlen H.
  pose proof (read_all_completes _ _ _ _ _ _ _ _ (init_inv limit body script eofd Hl) Hb Hk Hlen H) as Hne.
  pose proof (limit_exact _ _ _ _ _ _ _ _ Hl H) as (_ & _ & Heof & Htl & Hother).
  destruct e as [[| |]|]; try congruence.
  - destruct (Heof eq_refl). split; intros; [auto | lia].
  - destruct (Htl eq_refl). split; intros; [lia | auto].
Qed.

End ReaderProofs.

(* ---- longest matching scope ---- *)
Lemma sorted_find_longest (P : bytes * Z -> bool) : forall table bl,
  sorted_len_desc table = true -> find P table = Some bl ->
  In bl table /\ P bl = true /\
  forall b, In b table -> P b = true -> (length (fst b) <= length (fst bl))%nat.
Proof.
  induction table as [|a r IH]; intros bl Hs Hf; simpl in *; [discriminate|].
  apply andb_true_iff in Hs as [Hall Hs].
  destruct (P a) eqn:Pa.
  - injection Hf as <-. repeat split; auto.
    intros b [<-|Hb] _; [lia|].
    rewrite forallb_forall in Hall. apply Nat.leb_le. apply Hall. exact Hb.
  - destruct (IH _ Hs Hf) as (Hin & Pbl & Hmax). repeat split; auto.
    intros b [<-|Hb] Pb; [congruence|]. apply Hmax; auto.
Qed.

Theorem longest_scope_wins cs table path lim :
  sorted_len_desc table = true -> select_limit cs table path = Some lim ->
  exists scope, In (scope, lim) table /\ path_matches cs path scope = true /\
    forall b, In b table -> path_matches cs path (fst b) = true ->
              (length (fst b) <= length scope)%nat.
Proof.
  unfold select_limit. intros Hs H.
  destruct (find _ table) as [bl|] eqn:Hf; [|discriminate]. injection H as <-.
  destruct (sorted_find_longest _ _ _ Hs Hf) as (Hin & Hp & Hmax).
  exists (fst bl). destruct bl; simpl in *. auto.
Qed.

Theorem no_scope_no_limit cs table path :
  select_limit cs table path = None ->
  forall b, In b table -> path_matches cs path (fst b) = false.
Proof.
  unfold select_limit. destruct (find _ table) eqn:Hf; [discriminate|]. intros _ b Hb.
  exact (find_none _ _ Hf b Hb).
Qed.

(* ---- strictest merge ---- *)
Lemma pick_swap acc x y : pick (pick acc x) y = pick (pick acc y) x.
Proof.
  unfold pick.
  destruct (x =? 0) eqn:Hx, (y =? 0) eqn:Hy, (acc =? 0) eqn:Ha; try rewrite Hx; try rewrite Hy;
    try rewrite Ha; try reflexivity;
    repeat match goal with |- context [?a =? 0] => destruct (a =? 0) eqn:? end; lia.
Qed.

Lemma fold_pick_perm l l' : Permutation l l' -> forall acc, fold_left pick l acc = fold_left pick l' acc.
Proof.
  induction 1 as [|x l l' _ IH|x y l|l l' l'' _ IH1 _ IH2]; intros acc; simpl.
  - reflexivity.
  - apply IH.
  - rewrite pick_swap. reflexivity.
  - rewrite IH1. apply IH2.
Qed.

Theorem strictest_perm l l' : Permutation l l' -> strictest l = strictest l'.
Proof. intros H. apply fold_pick_perm. exact H. Qed.

Lemma fold_pick_spec : forall l acc, 0 <= acc -> (forall v, In v l -> 0 <= v) ->
  let r := fold_left pick l acc in
  0 <= r /\
  (r = acc \/ In r l) /\
  (r = 0 -> acc = 0 /\ forall v, In v l -> v = 0) /\
  (0 < r -> (acc = 0 \/ r <= acc) /\ forall v, In v l -> v = 0 \/ r <= v) /\
  (0 < acc -> 0 < r).
Proof.
  induction l as [|x l IH]; intros acc Ha Hl; cbn [fold_left].
  - cbn. repeat split; auto; try lia; try (intros v []); try (intros v0 []).
  - assert (Hx : 0 <= x) by (apply Hl; left; reflexivity).
    assert (Hl' : forall v, In v l -> 0 <= v) by (intros v Hv; apply Hl; right; exact Hv).
    assert (Hp : 0 <= pick acc x) by (unfold pick; destruct (x =? 0), (acc =? 0); lia).
    specialize (IH (pick acc x) Hp Hl'). cbv zeta in IH. cbv zeta.
    set (r := fold_left pick l (pick acc x)) in *.
    destruct IH as (Hr0 & Hin & Hz & Hpos & Hmono).
    assert (Hpk : (x = 0 /\ pick acc x = acc) \/ (x <> 0 /\ acc = 0 /\ pick acc x = x) \/
                  (x <> 0 /\ acc <> 0 /\ pick acc x = Z.min acc x)).
    { unfold pick. destruct (x =? 0) eqn:E1; [left; lia|]. destruct (acc =? 0) eqn:E2; right; [left|right]; lia. }
    refine (conj Hr0 (conj _ (conj _ (conj _ _)))).
    + destruct Hin as [Hin|Hin]; [|right; right; exact Hin].
      destruct Hpk as [[? Hq]|[(?&?&Hq)|(?&?&Hq)]]; rewrite Hq in Hin.
      * left; exact Hin.
      * right; left; congruence.
      * destruct (Z.min_spec acc x) as [[_ Hm]|[_ Hm]]; rewrite Hm in Hin; [left|right; left]; congruence.
    + intro Hr. destruct (Hz Hr) as [Hq Hall]. split.
      * destruct Hpk as [[? Hq']|[(?&?&Hq')|(?&?&Hq')]]; rewrite Hq' in Hq; lia.
      * intros v [<-|Hv]; [|apply Hall; exact Hv].
        destruct Hpk as [[? Hq']|[(?&?&Hq')|(?&?&Hq')]]; rewrite Hq' in Hq; lia.
    + intro Hr. destruct (Hpos Hr) as [Hq Hall]. split.
      * destruct Hpk as [[? Hq']|[(?&?&Hq')|(?&?&Hq')]]; rewrite Hq' in Hq; lia.
      * intros v [<-|Hv]; [|apply Hall; exact Hv].
        destruct Hpk as [[? Hq']|[(?&?&Hq')|(?&?&Hq')]]; rewrite Hq' in Hq; lia.
    + intro Hacc. apply Hmono.
      destruct Hpk as [[? Hq']|[(?&?&Hq')|(?&?&Hq')]]; rewrite Hq'; lia.
Qed.

Theorem strictest_spec vals :
  (forall v, In v vals -> 0 <= v) ->
  let r := strictest vals in
  ((forall v, In v vals -> v = 0) -> r = 0) /\
  ((exists v, In v vals /\ 0 < v) ->
     In r vals /\ 0 < r /\ forall v, In v vals -> v = 0 \/ r <= v).
Proof.
  intros Hl. pose proof (fold_pick_spec vals 0 (Z.le_refl 0) Hl) as H. cbv zeta in H.
  unfold strictest. cbv zeta. set (r := fold_left pick vals 0) in *.
  destruct H as (Hr0 & Hin & Hz & Hpos & _). split.
  - intros Hall. destruct Hin as [Hin|Hin]; [exact Hin|]. apply Hall. exact Hin.
  - intros (v & Hv & Hvp).
    assert (0 < r).
    { destruct (Z.eq_dec r 0) as [E|E]; [|lia]. destruct (Hz E) as [_ Hall]. specialize (Hall v Hv). lia. }
    destruct (Hpos H) as [_ Hall]. repeat split; auto.
    destruct Hin as [Hin|Hin]; [lia|exact Hin].
Qed.

Theorem merge_timeout_spec dflt group :
  (forall v, In v (set_values group) -> 0 <= v) ->
  let r := merge_timeout dflt group in
  (set_values group = [] -> r = dflt) /\
  (set_values group <> [] -> (forall v, In v (set_values group) -> v = 0) -> r = 0) /\
  ((exists v, In v (set_values group) /\ 0 < v) ->
     In r (set_values group) /\ 0 < r /\ forall v, In v (set_values group) -> v = 0 \/ r <= v).
Proof.
  intros Hl. unfold merge_timeout. cbv zeta.
  destruct (set_values group) as [|v0 vs] eqn:E.
  - split; [reflexivity|]. split; [congruence|]. intros (v & Hv & _). destruct Hv.
  - pose proof (strictest_spec (v0 :: vs) Hl) as [H1 H2]. cbv zeta in H1, H2.
    split; [discriminate|]. split; [intros _ Hall; apply H1; exact Hall|]. exact H2.
Qed.

Lemma set_values_perm g g' : Permutation g g' -> Permutation (set_values g) (set_values g').
Proof.
  unfold set_values. induction 1 as [|x l l' _ IH|x y l|l l' l'' _ IH1 _ IH2]; simpl.
  - constructor.
  - destruct (fst x); simpl; [constructor|]; exact IH.
  - destruct (fst x), (fst y); simpl; try apply Permutation_refl. apply perm_swap.
  - eapply Permutation_trans; eauto.
Qed.

Theorem merge_timeout_perm dflt g g' : Permutation g g' -> merge_timeout dflt g = merge_timeout dflt g'.
Proof.
  intros H. apply set_values_perm in H. unfold merge_timeout.
  destruct (set_values g) as [|a l] eqn:E1, (set_values g') as [|b l'] eqn:E2; auto.
  - apply Permutation_nil in H. discriminate.
  - apply Permutation_sym, Permutation_nil in H. discriminate.
  - apply strictest_perm. exact H.
Qed.

(* the plain minimum coded before the fix is NOT the strictest value when an explicit
   "none" (0) is present *)
Theorem merge_timeout_plain_min_refuted :
  exists dflt group, (forall v, In v (set_values group) -> 0 <= v) /\
    (exists v, In v (set_values group) /\ 0 < v) /\ merge_timeout_plain_min dflt group = 0.
Proof.
  exists 300, [(true, 0); (true, 10)]. repeat split.
  - simpl. intros v [<-|[<-|[]]]; lia.
  - exists 10. simpl. split; [auto|lia].
Qed.
