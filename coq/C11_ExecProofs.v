(* C11 — proofs about the setup calls of an execution (validate / start agreement). *)
Require Import V.Lib V.C09_Model V.C11_Exec.

Section Proofs.
Context {A St : Type}.
Variable setup : bytes -> nat -> nat -> bytes -> list A -> St -> outcome St.
Variable callback : bytes -> St -> outcome St.

Notation lset := (lsetup setup).
Notation lcb := (lcallback callback).
Notation Call := (@call A).

(* [tracks o ol log l rest full]: the logged outcome [ol] is the plain outcome [o] with the log
   extended by [l]; [l ++ rest] is the scheduled list [full], and nothing is left when [o] continues *)
Definition tracks (o : outcome St) (ol : outcome (St * list Call)) (log l rest full : list Call) : Prop :=
  out_ok ol = out_ok o /\ out_state ol = (out_state o, log ++ l) /\ full = l ++ rest /\
  (out_ok o = true -> rest = []).

Lemma keys_tracks d i toks : forall keys j s log,
  exists l rest, tracks (run_keys setup d i toks keys j s) (run_keys lset d i toks keys j (s, log))
                        log l rest (sched_keys d i toks keys j).
Proof.
  induction keys as [|k r IH]; intros j s log; cbn [run_keys sched_keys].
  - exists [], []. unfold tracks. cbn. rewrite app_nil_r. auto.
  - unfold lsetup at 1. cbn [fst snd].
    destruct (setup d i j k toks s) as [s'|s'] eqn:E.
    + destruct (IH (S j) s' (log ++ [(d, i, j, k, toks)])) as (l & rest & H1 & H2 & H3 & H4).
      exists ((d, i, j, k, toks) :: l), rest. unfold tracks. repeat split; auto.
      * rewrite H2. rewrite <- app_assoc. reflexivity.
      * cbn. rewrite H3. reflexivity.
    + exists [(d, i, j, k, toks)], (sched_keys d i toks r (S j)). unfold tracks. cbn.
      repeat split; auto. discriminate.
Qed.

Lemma block_tracks d i b s log :
  exists l rest, tracks (run_block setup d i b s) (run_block lset d i b (s, log)) log l rest (sched_block d i b).
Proof.
  unfold run_block, sched_block. destruct (tokens_of (snd b) d) as [toks|].
  - apply keys_tracks.
  - exists [], []. unfold tracks. cbn. rewrite app_nil_r. auto.
Qed.

Lemma blocks_tracks d : forall bs i s log,
  exists l rest, tracks (run_blocks setup d bs i s) (run_blocks lset d bs i (s, log)) log l rest (sched_blocks d bs i).
Proof.
  induction bs as [|b r IH]; intros i s log; cbn [run_blocks sched_blocks].
  - exists [], []. unfold tracks. cbn. rewrite app_nil_r. auto.
  - destruct (block_tracks d i b s log) as (l1 & rest1 & H1 & H2 & H3 & H4).
    destruct (run_block setup d i b s) as [s'|s'] eqn:E;
      destruct (run_block lset d i b (s, log)) as [sl|sl] eqn:El; cbn in H1; try discriminate.
    + cbn in H2. subst sl. specialize (H4 eq_refl). subst rest1. rewrite app_nil_r in H3.
      destruct (IH (S i) s' (log ++ l1)) as (l2 & rest2 & G1 & G2 & G3 & G4).
      exists (l1 ++ l2), rest2. unfold tracks. repeat split; auto.
      * rewrite G2. rewrite app_assoc. reflexivity.
      * rewrite H3, G3. rewrite app_assoc. reflexivity.
    + cbn in H2. subst sl. exists l1, (rest1 ++ sched_blocks d r (S i)). unfold tracks. cbn.
      repeat split; auto.
      * rewrite H3. rewrite app_assoc. reflexivity.
      * discriminate.
Qed.

(* callbacks never touch the log *)
Lemma dir_tracks cbs d bs s log :
  exists l rest, tracks (run_dir setup callback cbs d bs s) (run_dir lset lcb cbs d bs (s, log))
                        log l rest (sched_blocks d bs 0).
Proof.
  unfold run_dir. destruct (blocks_tracks d bs 0%nat s log) as (l & rest & H1 & H2 & H3 & H4).
  destruct (run_blocks setup d bs 0 s) as [s'|s'] eqn:E;
    destruct (run_blocks lset d bs 0 (s, log)) as [sl|sl] eqn:El; cbn in H1; try discriminate.
  - cbn in H2. subst sl. specialize (H4 eq_refl). subst rest.
    destruct cbs.
    + unfold lcallback. cbn [fst snd]. destruct (callback d s') as [s2|s2].
      * exists l, []. unfold tracks. cbn. auto.
      * exists l, []. unfold tracks. cbn. repeat split; auto.
    + exists l, []. unfold tracks. cbn. auto.
  - cbn in H2. subst sl. exists l, rest. unfold tracks. cbn. repeat split; auto.
Qed.

Lemma execute_tracks cbs bs : forall dirs s log,
  exists l rest, tracks (execute setup callback cbs dirs bs s) (execute lset lcb cbs dirs bs (s, log))
                        log l rest (schedule dirs bs).
Proof.
  induction dirs as [|d r IH]; intros s log; cbn [execute].
  - exists [], []. unfold tracks, schedule. cbn. rewrite app_nil_r. auto.
  - destruct (dir_tracks cbs d bs s log) as (l1 & rest1 & H1 & H2 & H3 & H4).
    unfold schedule. cbn [flat_map]. fold (schedule r bs).
    destruct (run_dir setup callback cbs d bs s) as [s'|s'] eqn:E;
      destruct (run_dir lset lcb cbs d bs (s, log)) as [sl|sl] eqn:El; cbn in H1; try discriminate.
    + cbn in H2. subst sl. specialize (H4 eq_refl). subst rest1. rewrite app_nil_r in H3.
      destruct (IH s' (log ++ l1)) as (l2 & rest2 & G1 & G2 & G3 & G4).
      exists (l1 ++ l2), rest2. unfold tracks. repeat split; auto.
      * rewrite G2. rewrite app_assoc. reflexivity.
      * rewrite H3, G3. rewrite app_assoc. reflexivity.
    + cbn in H2. subst sl. exists l1, (rest1 ++ schedule r bs). unfold tracks. cbn.
      repeat split; auto.
      * rewrite H3. rewrite app_assoc. reflexivity.
      * discriminate.
Qed.

(* the instrumented execution is the plain one plus a log *)
Theorem logging_faithful cbs dirs bs s :
  out_ok (run_logged setup callback cbs dirs bs s) = accepted setup callback cbs dirs bs s /\
  fst (out_state (run_logged setup callback cbs dirs bs s)) = out_state (execute setup callback cbs dirs bs s).
Proof.
  unfold run_logged, accepted.
  destruct (execute_tracks cbs bs dirs s []) as (l & rest & H1 & H2 & _ & _).
  split; [exact H1|]. rewrite H2. reflexivity.
Qed.

(* in EITHER mode the calls made are an initial segment of the one schedule, in schedule order,
   and they are the whole schedule when the configuration is accepted *)
Theorem calls_follow_schedule cbs dirs bs s :
  exists rest, schedule dirs bs = calls setup callback cbs dirs bs s ++ rest /\
               (accepted setup callback cbs dirs bs s = true -> rest = []).
Proof.
  unfold calls, run_logged, accepted.
  destruct (execute_tracks cbs bs dirs s []) as (l & rest & _ & H2 & H3 & H4).
  exists rest. rewrite H2. cbn. split; auto.
Qed.

End Proofs.

(* ---- what the schedule contains: every key of every block that writes the directive ---- *)
Section Schedule.
Context {A : Type}.

Lemma in_sched_keys (d : bytes) i (toks : list A) : forall keys j0 j k,
  nth_error keys j = Some k -> In (d, i, (j0 + j)%nat, k, toks) (sched_keys d i toks keys j0).
Proof.
  induction keys as [|k0 r IH]; intros j0 j k H; destruct j; cbn in H; try discriminate.
  - injection H as <-. cbn. left. rewrite Nat.add_0_r. reflexivity.
  - cbn. right. replace (j0 + S j)%nat with (S j0 + j)%nat by lia. apply IH. exact H.
Qed.

Lemma in_sched_blocks (d : bytes) : forall (bs : list (@block A)) i0 i b j k toks,
  nth_error bs i = Some b -> nth_error (fst b) j = Some k -> tokens_of (snd b) d = Some toks ->
  In (d, (i0 + i)%nat, j, k, toks) (sched_blocks d bs i0).
Proof.
  induction bs as [|b0 r IH]; intros i0 i b j k toks Hb Hk Ht; destruct i; cbn in Hb; try discriminate.
  - injection Hb as <-. cbn. apply in_or_app. left. unfold sched_block. rewrite Ht.
    rewrite Nat.add_0_r. apply (in_sched_keys d i0 toks (fst b0) 0%nat j k Hk).
  - cbn. apply in_or_app. right. replace (i0 + S i)%nat with (S i0 + i)%nat by lia.
    eapply IH; eauto.
Qed.

Theorem schedule_covers_every_key (dirs : list bytes) (bs : list (@block A)) d i b j k toks :
  In d dirs -> nth_error bs i = Some b -> nth_error (fst b) j = Some k ->
  tokens_of (snd b) d = Some toks -> In (d, i, j, k, toks) (schedule dirs bs).
Proof.
  intros Hd Hb Hk Ht. unfold schedule. apply in_flat_map. exists d. split; [exact Hd|].
  apply (in_sched_blocks d bs 0%nat i b j k toks Hb Hk Ht).
Qed.

End Schedule.

(* ---- validate vs start: a simulation ---- *)
Section Sim.
Context {A S1 S2 : Type}.
Variable setup1 : bytes -> nat -> nat -> bytes -> list A -> S1 -> outcome S1.
Variable setup2 : bytes -> nat -> nat -> bytes -> list A -> S2 -> outcome S2.
Variable callback1 : bytes -> S1 -> outcome S1.
Variable callback2 : bytes -> S2 -> outcome S2.
Variable R Q : S1 -> S2 -> Prop.
(* related states give related setup outcomes: both accept or both reject *)
Hypothesis setup_sim : forall d i j k t s1 s2, R s1 s2 -> orel R Q (setup1 d i j k t s1) (setup2 d i j k t s2).
(* a callback of the start run neither fails nor leaves the relation *)
Hypothesis cb_sim : forall d s1 s2, R s1 s2 -> exists s2', callback2 d s2 = Cont s2' /\ R s1 s2'.

Lemma keys_sim d i toks : forall keys j s1 s2, R s1 s2 ->
  orel R Q (run_keys setup1 d i toks keys j s1) (run_keys setup2 d i toks keys j s2).
Proof.
  induction keys as [|k r IH]; intros j s1 s2 H; cbn [run_keys]; [exact H|].
  pose proof (setup_sim d i j k toks s1 s2 H) as Hs.
  destruct (setup1 d i j k toks s1), (setup2 d i j k toks s2); cbn in Hs; try contradiction.
  - apply IH. exact Hs.
  - exact Hs.
Qed.

Lemma blocks_sim d : forall bs i s1 s2, R s1 s2 ->
  orel R Q (run_blocks setup1 d bs i s1) (run_blocks setup2 d bs i s2).
Proof.
  induction bs as [|b r IH]; intros i s1 s2 H; cbn [run_blocks]; [exact H|].
  assert (Hb : orel R Q (run_block setup1 d i b s1) (run_block setup2 d i b s2)).
  { unfold run_block. destruct (tokens_of (snd b) d); [apply keys_sim; exact H|exact H]. }
  destruct (run_block setup1 d i b s1), (run_block setup2 d i b s2); cbn in Hb; try contradiction.
  - apply IH. exact Hb.
  - exact Hb.
Qed.

(* validate (no callbacks) on the left, start (callbacks) on the right *)
Lemma execute_sim bs : forall dirs s1 s2, R s1 s2 ->
  orel R Q (execute setup1 callback1 false dirs bs s1) (execute setup2 callback2 true dirs bs s2).
Proof.
  induction dirs as [|d r IH]; intros s1 s2 H; cbn [execute]; [exact H|].
  unfold run_dir. pose proof (blocks_sim d bs 0%nat s1 s2 H) as Hb.
  destruct (run_blocks setup1 d bs 0 s1) as [a|a], (run_blocks setup2 d bs 0 s2) as [b|b]; cbn in Hb; try contradiction.
  - destruct (cb_sim d a b Hb) as (b' & E & Hr). rewrite E. apply IH. exact Hr.
  - exact Hb.
Qed.
End Sim.

Section AgreeThm.
Context {A St : Type}.
Variable setup : bytes -> nat -> nat -> bytes -> list A -> St -> outcome St.
Variable callback : bytes -> St -> outcome St.
Variable R : St -> St -> Prop.
Hypothesis setup_sim : forall d i j k t s1 s2, R s1 s2 ->
  orel R (fun _ _ => True) (setup d i j k t s1) (setup d i j k t s2).
Hypothesis cb_sim : forall d s1 s2, R s1 s2 -> exists s2', callback d s2 = Cont s2' /\ R s1 s2'.

Theorem validate_start_agree dirs bs s1 s2 : R s1 s2 ->
  accepted setup callback false dirs bs s1 = accepted setup callback true dirs bs s2 /\
  calls setup callback false dirs bs s1 = calls setup callback true dirs bs s2.
Proof.
  intros H. split.
  - unfold accepted.
    pose proof (execute_sim setup setup callback callback R (fun _ _ => True) setup_sim cb_sim bs dirs s1 s2 H) as E.
    destruct (execute setup callback false dirs bs s1), (execute setup callback true dirs bs s2); cbn in E; try contradiction; reflexivity.
  - unfold calls, run_logged.
    set (R' := fun (a b : St * list (@call A)) => R (fst a) (fst b) /\ snd a = snd b).
    set (Q' := fun (a b : St * list (@call A)) => snd a = snd b).
    assert (E : orel R' Q' (execute (lsetup setup) (lcallback callback) false dirs bs (s1, []))
                          (execute (lsetup setup) (lcallback callback) true dirs bs (s2, []))).
    { apply (execute_sim (lsetup setup) (lsetup setup) (lcallback callback) (lcallback callback) R' Q').
      - intros d i j k t [a la] [b lb] [Hr Hl]. cbn in Hr, Hl. subst lb. unfold lsetup. cbn [fst snd].
        pose proof (setup_sim d i j k t a b Hr) as Hs.
        destruct (setup d i j k t a), (setup d i j k t b); cbn in Hs; try contradiction; cbn.
        + unfold R'. cbn. auto.
        + unfold Q'. reflexivity.
      - intros d [a la] [b lb] [Hr Hl]. cbn in Hr, Hl. subst lb.
        destruct (cb_sim d a b Hr) as (b' & E & Hr'). exists (b', la). unfold lcallback. cbn [fst snd].
        rewrite E. split; [reflexivity|]. unfold R'. cbn. auto.
      - unfold R'. cbn. auto. }
    destruct (execute (lsetup setup) (lcallback callback) false dirs bs (s1, [])) as [x|x],
             (execute (lsetup setup) (lcallback callback) true dirs bs (s2, [])) as [y|y]; cbn in E; try contradiction.
    + destruct E as [_ E]. exact E.
    + exact E.
Qed.
End AgreeThm.

(* ---- without the hypotheses the two modes need not agree: a callback that fails ---- *)
Definition ok_setup (d : bytes) (i j : nat) (k : bytes) (toks : list N) (s : N) : outcome N := Cont s.
Definition failing_callback (d : bytes) (s : N) : outcome N := Stop s.

Lemma agree_unconditional_refuted :
  exists (setup : bytes -> nat -> nat -> bytes -> list N -> N -> outcome N) (callback : bytes -> N -> outcome N)
         dirs bs s,
    accepted setup callback false dirs bs s = true /\ accepted setup callback true dirs bs s = false.
Proof.
  exists ok_setup, failing_callback, [[100%N]], [([[]], [([100%N], [0%N])])], 0%N.
  vm_compute. split; reflexivity.
Qed.

(* ---- callbacks that leave the state alone (they may fail): start is an initial part of validate ---- *)
Section Prefix.
Context {A St : Type}.
Variable setup : bytes -> nat -> nat -> bytes -> list A -> St -> outcome St.
Variable callback : bytes -> St -> outcome St.
Hypothesis cb_keeps_state : forall d s, out_state (callback d s) = s.

Lemma execute_prefix bs : forall dirs (s : St) (log : list (@call A)),
  let v := execute (lsetup setup) (lcallback callback) false dirs bs (s, log) in
  let x := execute (lsetup setup) (lcallback callback) true dirs bs (s, log) in
  (out_ok x = true -> x = v) /\ exists rest, snd (out_state v) = snd (out_state x) ++ rest.
Proof.
  induction dirs as [|d r IH]; intros s log; cbn zeta; cbn [execute].
  - split; [reflexivity|]. exists []. rewrite app_nil_r. reflexivity.
  - unfold run_dir.
    destruct (run_blocks (lsetup setup) d bs 0 (s, log)) as [[s' l']|[s' l']] eqn:E.
    + change (lcallback callback d (s', l')) with
        (match callback d s' with Cont s2 => Cont (s2, l') | Stop s2 => Stop (s2, l') end).
      pose proof (cb_keeps_state d s') as K.
      destruct (callback d s') as [s2|s2]; cbn in K; subst s2.
      * apply IH.
      * split; [cbn; discriminate|]. cbn [out_state snd].
        destruct (execute_tracks setup callback false bs r s' l') as (l & rest & _ & H2 & _ & _).
        exists l. rewrite H2. reflexivity.
    + split; [reflexivity|]. exists []. rewrite app_nil_r. reflexivity.
Qed.

Theorem start_is_prefix_of_validate dirs bs s :
  (accepted setup callback true dirs bs s = true -> accepted setup callback false dirs bs s = true) /\
  exists rest, calls setup callback false dirs bs s = calls setup callback true dirs bs s ++ rest.
Proof.
  destruct (execute_prefix bs dirs s []) as [H1 H2]. split.
  - intros Hx. destruct (logging_faithful setup callback true dirs bs s) as [Ex _].
    destruct (logging_faithful setup callback false dirs bs s) as [Ev _].
    unfold run_logged in *. rewrite <- Ev. rewrite <- Ex in Hx. rewrite <- (H1 Hx). exact Hx.
  - exact H2.
Qed.
End Prefix.

(* ---- the oracle instance of the correspondence check ---- *)
Lemma predict_block_mode_independent perkey : predict_block false perkey = predict_block true perkey.
Proof.
  unfold predict_block. cbn [execute]. unfold run_dir.
  destruct (run_blocks (oracle_setup perkey) [100%N] _ 0 0%N); reflexivity.
Qed.

(* ---- sequences of loads in one process ----
   The state a setup function sees is (process-global part, part that belongs to the load being made).  Every load
   starts from a fresh second part [l0] and from the global part the loads before it - accepted or REJECTED - left.
   If setups and callbacks (a) cannot tell apart global states related by [R] (a transparent cache, a mutex that is
   free again) and (b) leave the global part as they found it up to [R] whatever they answer - in particular on
   every error path - then what a configuration does does not depend on what was loaded or rejected before it. *)
Section Seq.
Context {A G L : Type}.
Variable setup : bytes -> nat -> nat -> bytes -> list A -> G * L -> outcome (G * L).
Variable callback : bytes -> G * L -> outcome (G * L).
Variable R : G -> G -> Prop.
Hypothesis R_refl : forall g, R g g.
Hypothesis R_trans : forall a b c, R a b -> R b c -> R a c.
Definition RL (a b : G * L) : Prop := R (fst a) (fst b) /\ snd a = snd b.
Hypothesis setup_resp : forall d i j k t s1 s2, RL s1 s2 -> orel RL RL (setup d i j k t s1) (setup d i j k t s2).
Hypothesis cb_resp : forall d s1 s2, RL s1 s2 -> orel RL RL (callback d s1) (callback d s2).
Hypothesis setup_frame : forall d i j k t s, R (fst s) (fst (out_state (setup d i j k t s))).
Hypothesis cb_frame : forall d s, R (fst s) (fst (out_state (callback d s))).

Lemma execute_resp cbs bs : forall dirs s1 s2, RL s1 s2 ->
  orel RL RL (execute setup callback cbs dirs bs s1) (execute setup callback cbs dirs bs s2).
Proof.
  induction dirs as [|d r IH]; intros s1 s2 H; cbn [execute]; [exact H|].
  unfold run_dir. pose proof (blocks_sim setup setup RL RL setup_resp d bs 0%nat s1 s2 H) as Hb.
  destruct (run_blocks setup d bs 0 s1) as [a|a], (run_blocks setup d bs 0 s2) as [b|b]; cbn in Hb; try contradiction.
  - destruct cbs.
    + pose proof (cb_resp d a b Hb) as Hc.
      destruct (callback d a) as [a'|a'], (callback d b) as [b'|b']; cbn in Hc; try contradiction.
      * apply IH. exact Hc.
      * exact Hc.
    + apply IH. exact Hb.
  - exact Hb.
Qed.

Lemma keys_frame d i toks : forall keys j s, R (fst s) (fst (out_state (run_keys setup d i toks keys j s))).
Proof.
  induction keys as [|k r IH]; intros j s; cbn [run_keys]; [apply R_refl|].
  pose proof (setup_frame d i j k toks s) as F.
  destruct (setup d i j k toks s) as [s'|s']; cbn in F.
  - eapply R_trans; [exact F|apply IH].
  - exact F.
Qed.

Lemma blocks_frame d : forall bs i s, R (fst s) (fst (out_state (run_blocks setup d bs i s))).
Proof.
  induction bs as [|b r IH]; intros i s; cbn [run_blocks]; [apply R_refl|].
  assert (F : R (fst s) (fst (out_state (run_block setup d i b s)))).
  { unfold run_block. destruct (tokens_of (snd b) d); [apply keys_frame|apply R_refl]. }
  destruct (run_block setup d i b s) as [s'|s']; cbn in F.
  - eapply R_trans; [exact F|apply IH].
  - exact F.
Qed.

Lemma execute_frame cbs bs : forall dirs s, R (fst s) (fst (out_state (execute setup callback cbs dirs bs s))).
Proof.
  induction dirs as [|d r IH]; intros s; cbn [execute]; [apply R_refl|].
  assert (F : R (fst s) (fst (out_state (run_dir setup callback cbs d bs s)))).
  { unfold run_dir. pose proof (blocks_frame d bs 0%nat s) as B.
    destruct (run_blocks setup d bs 0 s) as [s'|s']; cbn in B; [|exact B].
    destruct cbs; [|exact B]. eapply R_trans; [exact B|apply cb_frame]. }
  destruct (run_dir setup callback cbs d bs s) as [s'|s']; cbn in F.
  - eapply R_trans; [exact F|apply IH].
  - exact F.
Qed.

Variable l0 : L.
(* one load: mode, directive list, server blocks *)
Definition conf : Type := (bool * list bytes * list (@block A))%type.
Definition load (c : conf) (g : G) : outcome (G * L) :=
  execute setup callback (fst (fst c)) (snd (fst c)) (snd c) (g, l0).
(* the global state after a sequence of loads, whatever each of them answered *)
Fixpoint after_loads (cs : list conf) (g : G) : G :=
  match cs with
  | [] => g
  | c :: r => after_loads r (fst (out_state (load c g)))
  end.

Lemma after_loads_frame : forall cs g, R g (after_loads cs g).
Proof.
  induction cs as [|c r IH]; intros g; cbn [after_loads]; [apply R_refl|].
  eapply R_trans; [|apply IH]. unfold load. apply (execute_frame (fst (fst c)) (snd c) (snd (fst c)) (g, l0)).
Qed.

Theorem outcome_after_any_loads cs g c :
  out_ok (load c (after_loads cs g)) = out_ok (load c g) /\
  R (fst (out_state (load c g))) (fst (out_state (load c (after_loads cs g)))) /\
  snd (out_state (load c (after_loads cs g))) = snd (out_state (load c g)).
Proof.
  pose proof (after_loads_frame cs g) as F.
  assert (H : RL (g, l0) (after_loads cs g, l0)) by (split; [exact F|reflexivity]).
  pose proof (execute_resp (fst (fst c)) (snd c) (snd (fst c)) _ _ H) as E. unfold load.
  destruct (execute setup callback (fst (fst c)) (snd (fst c)) (snd c) (g, l0)) as [x|x],
           (execute setup callback (fst (fst c)) (snd (fst c)) (snd c) (after_loads cs g, l0)) as [y|y];
    cbn in E; try contradiction; destruct E as [E1 E2]; cbn; auto.
Qed.
End Seq.

(* an instance that is not trivial: the global part is a table that setups only ever extend (a cache: tokens seen)
   and that no setup reads; the per-load part counts the calls; a token 7 is rejected AFTER the table was written *)
Definition seq_setup (d : bytes) (i j : nat) (k : bytes) (toks : list N) (s : list N * nat) : outcome (list N * nat) :=
  if existsb (N.eqb 7) toks then Stop (toks ++ fst s, snd s) else Cont (toks ++ fst s, S (snd s)).
Definition seq_callback (d : bytes) (s : list N * nat) : outcome (list N * nat) := Cont s.

(* ... and one that violates the frame hypothesis: the global part is a mutex; a setup that meets it held never
   returns (here: is rejected), the error path for a token 7 returns with the mutex held *)
Definition lock_setup (d : bytes) (i j : nat) (k : bytes) (toks : list N) (s : bool * nat) : outcome (bool * nat) :=
  if fst s then Stop s
  else if existsb (N.eqb 7) toks then Stop (true, snd s) else Cont (false, S (snd s)).
Definition lock_callback (d : bytes) (s : bool * nat) : outcome (bool * nat) := Cont s.

Lemma lock_left_held_refuted :
  exists (bad good : @conf N),
    out_ok (load lock_setup lock_callback 0%nat good false) = true /\
    out_ok (load lock_setup lock_callback 0%nat bad false) = false /\
    out_ok (load lock_setup lock_callback 0%nat good (after_loads lock_setup lock_callback 0%nat [bad] false)) = false.
Proof.
  exists (false, [[100%N]], [([[1%N]], [([100%N], [7%N])])]), (false, [[100%N]], [([[1%N]], [([100%N], [0%N])])]).
  vm_compute. auto.
Qed.

(* the one process-global resource a setup function of the tree takes and must give back: the mutex of the htpasswd
   table of basicauth (model of GetHtpasswdMatcher: C08_Model.get_matcher).  On EVERY path - file missing, file that
   does not parse, user not found, success - the call returns (it never waits for itself) with the mutex free, so
   the next `basicauth ... htpasswd=` rule of the process, in this load or a later one, does not block *)
Require V.C08_Model V.C08_Proofs.
Lemma htpasswd_lock_released e g f u r g' o :
  C08_Model.g_htlock g = false -> C08_Model.get_matcher e g f u = (r, g', o) ->
  r <> C08_Model.RHang /\ C08_Model.g_htlock g' = false.
Proof.
  intros L H. split.
  - exact (C08_Proofs.get_matcher_no_hang e g f u r g' o L H).
  - rewrite (C08_Proofs.c_lock _ _ (C08_Proofs.get_matcher_cext e g f u r g' o H)). exact L.
Qed.

Lemma htpasswd_lock_released_twice e1 e2 g f1 u1 f2 u2 r1 g1 o1 :
  C08_Model.g_htlock g = false -> C08_Model.get_matcher e1 g f1 u1 = (r1, g1, o1) ->
  fst (fst (C08_Model.get_matcher e2 g1 f2 u2)) <> C08_Model.RHang.
Proof.
  intros L H. destruct (htpasswd_lock_released _ _ _ _ _ _ _ L H) as [_ L1].
  destruct (C08_Model.get_matcher e2 g1 f2 u2) as [[r2 g2] o2] eqn:H2. cbn.
  exact (proj1 (htpasswd_lock_released _ _ _ _ _ _ _ L1 H2)).
Qed.

(* ---- whole files of several sites: the oracle instance ---- *)
Lemma run_blocks_sites (l : list N) : forall (pre : list N) (s : N),
  run_blocks (oracle_setup_site (pre ++ l)) [100%N] (map site_block l) (length pre) s =
  match find (fun c => negb (c =? 0)%N) l with
  | Some c => Stop c
  | None => Cont s
  end.
Proof.
  induction l as [|a l IH]; intros pre s; [reflexivity|].
  cbn [map run_blocks find]. unfold run_block.
  change (tokens_of (snd (site_block a)) [100%N]) with (Some [0%N]).
  change (fst (site_block a)) with [@nil N].
  cbn [run_keys]. unfold oracle_setup_site at 1.
  rewrite nth_error_app2 by apply Nat.le_refl. rewrite Nat.sub_diag. cbn [nth_error].
  destruct a as [|p]; cbn [N.eqb negb].
  - replace (pre ++ 0%N :: l) with ((pre ++ [0%N]) ++ l) by (rewrite <- app_assoc; reflexivity).
    replace (S (length pre)) with (length (pre ++ [0%N])) by (rewrite app_length; cbn; apply Nat.add_1_r).
    apply IH.
  - reflexivity.
Qed.

Lemma predict_sites_first_rejected cbs persite : predict_sites cbs persite = first_rejected persite.
Proof.
  unfold predict_sites, first_rejected. cbn [execute]. unfold run_dir.
  pose proof (run_blocks_sites persite [] 0%N) as H. cbn [app length] in H. rewrite H.
  destruct (find _ persite); [reflexivity|]. destruct cbs; reflexivity.
Qed.

Lemma predict_sites_mode_independent persite : predict_sites false persite = predict_sites true persite.
Proof. rewrite !predict_sites_first_rejected. reflexivity. Qed.

Lemma predict_sites_accepted_iff cbs persite :
  predict_sites cbs persite = 0%N <-> Forall (fun c => c = 0%N) persite.
Proof.
  rewrite predict_sites_first_rejected. unfold first_rejected.
  induction persite as [|a l IH]; cbn [find].
  - split; [constructor|reflexivity].
  - destruct a as [|p]; cbn [N.eqb negb].
    + rewrite IH. split; [intro H; constructor; [reflexivity|exact H]|intro H; inversion H; assumption].
    + split; [discriminate|intro H; inversion H; discriminate].
Qed.

(* the same line in effect in every site (written out or through a shared snippet): the file is accepted in either
   mode exactly when the line is accepted in a site of its own - being in effect n times changes nothing *)
Lemma predict_sites_same_line cbs (c : N) (n : nat) :
  predict_sites cbs (repeat c (S n)) = c.
Proof.
  rewrite predict_sites_first_rejected. unfold first_rejected. cbn [repeat find].
  destruct c as [|p]; cbn [N.eqb negb]; [|reflexivity].
  induction n as [|n IH]; [reflexivity|exact IH].
Qed.
