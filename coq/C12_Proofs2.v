(* C12 — proofs, part 2: requests are independent, panics after writing, single commit for
   every script under the handler contract, the directives that answer themselves. *)
Require Import V.Lib V.C12_Model V.C12_Proofs.
Open Scope Z_scope.

(* ---------- requests are independent of the history of the server ---------- *)
Lemma serve_p_indep pooled et c path ae ops ret err :
  serve_p pooled et c path ae ops ret err = serve et c path ae ops ret err.
Proof. reflexivity. Qed.
Lemma serve_req_p_indep pooled et c q : serve_req_p pooled et c q = serve_req et c q.
Proof. reflexivity. Qed.
Lemma serve_srv_fst et c sv q : fst (serve_srv et c sv q) = serve_req et c q.
Proof. reflexivity. Qed.
Lemma requests_independent et c qs : forall sv, run_hist et c sv qs = map (serve_req et c) qs.
Proof.
  induction qs as [|q qs IH]; intro sv; [reflexivity|].
  cbn [run_hist map]. rewrite IH, serve_srv_fst. reflexivity.
Qed.
Lemma last_response_independent et c sv hist q :
  last (run_hist et c sv (hist ++ [q])) st0 = serve_req et c q.
Proof.
  rewrite requests_independent, map_app. cbn [map]. apply last_last.
Qed.
Lemma server_equivalent_after et c sv hist q :
  fst (serve_srv et c (srv_after et c sv hist) q) = fst (serve_srv et c sv q).
Proof. rewrite !serve_srv_fst. reflexivity. Qed.

(* ---------- frames: what the writers of a level leave alone ---------- *)
Definition frame_g (x y : st) : Prop :=
  h_on y = h_on x /\ h_wrote y = h_wrote x /\ b_mode y = b_mode x /\ b_wrote y = b_wrote x /\
  b_stream y = b_stream x /\ gz_on y = gz_on x.
Lemma frame_g_refl x : frame_g x x.
Proof. unfold frame_g; auto 10. Qed.
Lemma frame_g_trans x y z : frame_g x y -> frame_g y z -> frame_g x z.
Proof. unfold frame_g. intros (A1&A2&A3&A4&A5&A6) (B1&B2&B3&B4&B5&B6). repeat split; congruence. Qed.
Lemma frame_g_bnd x o f : frame_g x (out_st o) -> (forall y, frame_g y (out_st (f y))) -> frame_g x (out_st (bnd o f)).
Proof. intros A B. destruct o as [y|y]; cbn in *; [eapply frame_g_trans; [exact A|apply B] | exact A]. Qed.
Lemma frame_g_conn x a b c d e : frame_g x (set_conn x a b c d e).
Proof. destruct x; unfold frame_g; cbn; auto 10. Qed.
Lemma frame_g_gz x a b c d e f g : gz_on x = a -> frame_g x (set_gz x a b c d e f g).
Proof. intros <-. destruct x; unfold frame_g; cbn; auto 10. Qed.
Lemma c_wh_frame s x : frame_g x (out_st (c_wh s x)).
Proof. unfold c_wh. destruct (cm x); [|destruct (valid_code s)]; cbn; try apply frame_g_refl; apply frame_g_conn. Qed.
Lemma c_wr_frame g x : frame_g x (out_st (c_wr g x)).
Proof.
  unfold c_wr. destruct (cm x) eqn:E.
  - rewrite E. destruct (bodyless z); cbn; [apply frame_g_refl | apply frame_g_conn].
  - unfold commit at 1. cbn [cm set_conn]. destruct (bodyless 200); cbn.
    + apply frame_g_conn.
    + eapply frame_g_trans; [apply (frame_g_conn x)|]. apply frame_g_conn.
Qed.
Lemma c_fl_frame x : frame_g x (out_st (c_fl x)).
Proof. unfold c_fl. destruct (cm x); cbn; [apply frame_g_refl | apply frame_g_conn]. Qed.
Lemma gzh_wh_frame s x : frame_g x (out_st (gzh_wh s x)).
Proof.
  unfold gzh_wh. apply frame_g_bnd.
  - eapply frame_g_trans; [apply (frame_g_conn x)|]. apply c_wh_frame.
  - intro y. cbn. apply frame_g_gz. reflexivity.
Qed.
Lemma g_wh_frame s x : frame_g x (out_st (g_wh s x)).
Proof.
  unfold g_wh. destruct (gz_on x) eqn:G; [|apply c_wh_frame].
  destruct (gz_fw x).
  - destruct (gz_comp x); [apply gzh_wh_frame | apply c_wh_frame].
  - apply frame_g_bnd.
    + match goal with |- context [set_gz x ?a ?b ?c ?d ?e ?f ?g] => set (X1 := set_gz x a b c d e f g);
        assert (F : frame_g x X1) by (apply frame_g_gz; exact G) end.
      eapply frame_g_trans; [exact F|].
      match goal with |- context [if ?b then _ else _] => destruct b end; [apply gzh_wh_frame | apply c_wh_frame].
    + intro y. cbn. apply frame_g_gz. reflexivity.
Qed.
Lemma g_wr_frame b x : frame_g x (out_st (g_wr b x)).
Proof.
  unfold g_wr. destruct (gz_on x) eqn:G; [|apply c_wr_frame].
  apply frame_g_bnd.
  - destruct (gz_fw x); [apply frame_g_refl | apply g_wh_frame].
  - intro y. destruct (gz_comp y); [|apply c_wr_frame].
    apply frame_g_bnd.
    + destruct (gz_wrote y); [apply frame_g_refl | apply gzh_wh_frame].
    + intro z. apply frame_g_bnd.
      * destruct (gz_hdr_out z); [apply frame_g_refl | apply c_wr_frame].
      * intro u. cbn. apply frame_g_gz. reflexivity.
Qed.
Lemma g_fl_frame x : frame_g x (out_st (g_fl x)).
Proof.
  unfold g_fl. destruct (gz_on x); [|apply c_fl_frame].
  apply frame_g_bnd; [destruct (gz_fw x); [apply frame_g_refl | apply g_wh_frame] | intro y; apply c_fl_frame].
Qed.
Lemma g_close_frame x : frame_g x (out_st (g_close x)).
Proof.
  unfold g_close. destruct (gz_on x && gz_created x); [|apply frame_g_refl].
  match goal with |- context [set_gz x ?a ?b ?c ?d ?e ?f ?g] => set (X1 := set_gz x a b c d e f g);
    assert (F : frame_g x X1) by (apply frame_g_gz; reflexivity) end.
  eapply frame_g_trans; [exact F|]. apply frame_g_bnd.
  - destruct (gz_hdr_out X1); [apply frame_g_refl | apply c_wr_frame].
  - intro y. apply c_wr_frame.
Qed.

Definition frame_h (x y : st) : Prop :=
  h_on y = h_on x /\ b_mode y = b_mode x /\ b_wrote y = b_wrote x /\ b_stream y = b_stream x /\ gz_on y = gz_on x.
Lemma frame_g_h x y : frame_g x y -> frame_h x y.
Proof. unfold frame_g, frame_h. intros (A1&A2&A3&A4&A5&A6). auto 10. Qed.
Lemma frame_h_refl x : frame_h x x.
Proof. unfold frame_h; auto 10. Qed.
Lemma frame_h_trans x y z : frame_h x y -> frame_h y z -> frame_h x z.
Proof. unfold frame_h. intros (A1&A2&A3&A4&A5) (B1&B2&B3&B4&B5). repeat split; congruence. Qed.
Lemma frame_h_bnd x o f : frame_h x (out_st o) -> (forall y, frame_h y (out_st (f y))) -> frame_h x (out_st (bnd o f)).
Proof. intros A B. destruct o as [y|y]; cbn in *; [eapply frame_h_trans; [exact A|apply B] | exact A]. Qed.
Lemma frame_h_seth x h : h_on x = true -> frame_h x (set_chdr (set_h x true true) h).
Proof. intro H. destruct x; unfold frame_h; cbn in *; auto 10. Qed.
Lemma frame_h_chdr x h : frame_h x (set_chdr x h).
Proof. destruct x; unfold frame_h; cbn; auto 10. Qed.
Lemma h_wh_frame s x : frame_h x (out_st (h_wh s x)).
Proof.
  unfold h_wh. destruct (h_on x) eqn:H; [|apply frame_g_h, g_wh_frame].
  destruct (h_wrote x); [apply frame_h_refl|].
  eapply frame_h_trans; [apply frame_h_seth; exact H|]. apply frame_g_h, g_wh_frame.
Qed.
Lemma h_wr_frame b x : frame_h x (out_st (h_wr b x)).
Proof.
  unfold h_wr. destruct (h_on x); [|apply frame_g_h, g_wr_frame].
  apply frame_h_bnd; [destruct (h_wrote x); [apply frame_h_refl | apply h_wh_frame] | intro y; apply frame_g_h, g_wr_frame].
Qed.
Lemma h_fl_frame x : frame_h x (out_st (h_fl x)).
Proof.
  unfold h_fl. destruct (h_on x); [|apply frame_g_h, g_fl_frame].
  apply frame_h_bnd; [destruct (h_wrote x); [apply frame_h_refl | apply h_wh_frame] | intro y; apply frame_g_h, g_fl_frame].
Qed.

(* the script never switches a wrapper on or off *)
Definition frame_on (x y : st) : Prop := h_on y = h_on x /\ gz_on y = gz_on x /\ b_mode y = b_mode x.
Lemma frame_h_on x y : frame_h x y -> frame_on x y.
Proof. unfold frame_h, frame_on. intros (A1&A2&A3&A4&A5). auto. Qed.
Lemma frame_on_trans x y z : frame_on x y -> frame_on y z -> frame_on x z.
Proof. unfold frame_on. intros (A1&A2&A3) (B1&B2&B3). repeat split; congruence. Qed.
Lemma frame_on_refl x : frame_on x x.
Proof. unfold frame_on; auto. Qed.
Lemma frame_on_bnd x o f : frame_on x (out_st o) -> (forall y, frame_on y (out_st (f y))) -> frame_on x (out_st (bnd o f)).
Proof. intros A B. destruct o as [y|y]; cbn in *; [eapply frame_on_trans; [exact A|apply B] | exact A]. Qed.
Lemma frame_on_setb x w s st h b : frame_on x (set_b x (b_mode x) w s st h b).
Proof. destruct x; unfold frame_on; cbn; auto. Qed.
Lemma frame_on_chdr x h : frame_on x (set_chdr x h).
Proof. destruct x; unfold frame_on; cbn; auto. Qed.
Lemma b_wh_on s x : frame_on x (out_st (b_wh s x)).
Proof.
  unfold b_wh. destruct (b_active x); [|apply frame_h_on, h_wh_frame].
  destruct (b_wrote x); [apply frame_on_refl|].
  match goal with |- context [if ?b then _ else _] => destruct b end.
  - eapply frame_on_trans; [|apply frame_h_on, h_wh_frame].
    eapply frame_on_trans; [apply (frame_on_setb x)|]. apply frame_on_chdr.
  - cbn. apply frame_on_setb.
Qed.
Lemma b_wr_on b x : frame_on x (out_st (b_wr b x)).
Proof.
  unfold b_wr. destruct (b_active x); [|apply frame_h_on, h_wr_frame].
  apply frame_on_bnd; [destruct (b_wrote x); [apply frame_on_refl | apply b_wh_on]|].
  intro y. destruct (b_stream y); [apply frame_h_on, h_wr_frame | cbn; apply frame_on_setb].
Qed.
Lemma b_fl_on x : frame_on x (out_st (b_fl x)).
Proof.
  unfold b_fl. destruct (b_active x); [|apply frame_h_on, h_fl_frame].
  apply frame_on_bnd; [destruct (b_wrote x); [apply frame_on_refl | apply b_wh_on]|].
  intro y. destruct (b_stream y); [apply frame_h_on, h_fl_frame | cbn; apply frame_on_refl].
Qed.
Lemma step_on o x : frame_on x (out_st (step o x)).
Proof.
  destruct o; cbn [step out_st]; [| apply b_wh_on | apply b_wr_on | apply b_fl_on | apply frame_on_refl].
  unfold b_sethdr. destruct (b_active x); [apply frame_on_setb | apply frame_on_chdr].
Qed.
Lemma run_script_on ops : forall x, frame_on x (out_st (run_script ops x)).
Proof.
  induction ops as [|o ops IH]; intro x; [apply frame_on_refl|].
  cbn [run_script]. apply frame_on_bnd; [apply step_on | exact IH].
Qed.

(* ---------- a panic after the handler has started writing ---------- *)
Lemma run_app a : forall b x, run_script (a ++ b) x = bnd (run_script a x) (run_script b).
Proof.
  induction a as [|o a IH]; intros b x; [reflexivity|].
  cbn [app run_script]. destruct (step o x) as [y|y]; cbn [bnd]; [apply IH | reflexivity].
Qed.

Lemma inv3_bwr_hwr n c acc y b : Inv3n n c acc y -> b_wr b y = h_wr b y.
Proof.
  intros (I1 & I2 & I3 & I4 & I5).
  unfold b_wr. destruct I4 as [I4 | [I4 I4']]; rewrite I4; [reflexivity|]. cbv beta iota delta [bnd]. rewrite I4'.
  destruct (b_active y); reflexivity.
Qed.
Lemma inv3_hwr n c acc y b :
  bodyless c = false -> Inv3n n c acc y ->
  exists y', h_wr b y = Done y' /\ Inv3n n c (acc ++ [b]) y' /\ gz_on y' = gz_on y /\ b_mode y' = b_mode y.
Proof. intros Hb I. rewrite <- (inv3_bwr_hwr n c acc y b I). exact (inv3_write n c acc y b Hb I). Qed.

(* WriteHeader on a response that is already committed: header's wrapper swallows it, otherwise
   it reaches net/http, which only logs it *)
Definition extra (y : st) : nat := if h_on y then 0%nat else 1%nat.
Lemma inv3_rewh c acc y h' code :
  Inv3 c acc y ->
  exists y', h_wh code (set_chdr y h') = Done y' /\ Inv3n (extra y) c acc y' /\ gz_on y' = gz_on y /\ h_on y' = h_on y.
Proof.
  intros (I1 & I2 & I3 & I4 & I5).
  destruct y as [cm0 ch cs bd sp gon gfw gcomp gwr gcr gho gp hon hwr bm bw bs0 bst bh bb].
  unfold b_active in I4. unfold extra. nproj. subst.
  destruct gon.
  - destruct I5 as (G1 & G2 & G3 & G4 & G5 & G6 & G7). subst.
    destruct hon; [rewrite (I3 eq_refl) | ];
      unfold h_wh, g_wh, gzh_wh, c_wh; norm;
      (eexists; split; [reflexivity|]); (split; [|split; reflexivity]); unfold Inv3n, b_active; norm;
      (split; [reflexivity|]); (split; [reflexivity|]); (split; [auto|]); (split; [exact I4|]);
      repeat split; auto.
  - destruct I5 as (G5 & G6). subst.
    destruct hon; [rewrite (I3 eq_refl) | ];
      unfold h_wh, g_wh, gzh_wh, c_wh; norm;
      (eexists; split; [reflexivity|]); (split; [|split; reflexivity]); unfold Inv3n, b_active; norm;
      (split; [reflexivity|]); (split; [reflexivity|]); (split; [auto|]); (split; [exact I4|]);
      split; auto.
Qed.

Lemma text_appends c acc y h' code t :
  bodyless c = false -> Inv3 c acc y ->
  exists y', bnd (h_wh code (set_chdr y h')) (h_wr t) = Done y' /\ Inv3n (extra y) c (acc ++ [t]) y' /\ gz_on y' = gz_on y.
Proof.
  intros Hb I. destruct (inv3_rewh c acc y h' code I) as (y1 & E1 & I1 & G1 & H1).
  destruct (inv3_hwr _ c acc y1 t Hb I1) as (y2 & E2 & I2 & G2 & _).
  exists y2. rewrite E1. cbn [bnd]. rewrite E2. split; [reflexivity|]. split; [exact I2|]. congruence.
Qed.

Lemma concat_snoc (acc : list bytes) t : concat (acc ++ [t]) = concat acc ++ t.
Proof. rewrite concat_app. cbn [concat]. rewrite app_nil_r. reflexivity. Qed.

Lemma recovery_appends et m c acc y :
  bodyless c = false -> Inv3 c acc y -> m <> ENone ->
  exists y' acc', recovery et m y = HRet 0 false y' /\ Inv3n (extra y) c acc' y' /\
                  concat acc' = concat acc ++ panic_expected et m /\ gz_on y' = gz_on y.
Proof.
  intros Hb I Hm.
  assert (Hcm : cm y = Some c) by (destruct I as (I1 & _); exact I1).
  assert (TA : forall h' t, exists y' acc', (match bnd (h_wh 500 (set_chdr y h')) (h_wr t) with Done y => HRet 0 false y | Pan y => HPan y end) = HRet 0 false y' /\
             Inv3n (extra y) c acc' y' /\ concat acc' = concat acc ++ t /\ gz_on y' = gz_on y).
  { intros h' t. destruct (text_appends c acc y h' 500 t Hb I) as (y' & E & I' & G').
    exists y', (acc ++ [t]). rewrite E. split; [reflexivity|]. split; [exact I'|]. split; [apply concat_snoc | exact G']. }
  unfold recovery, panic_expected.
  destruct m as [| | |pages generic]; [congruence| | |].
  - unfold error_page, page_or_text. cbn [find_page]. unfold default_error3, text_response. apply TA.
  - unfold text_response. apply TA.
  - unfold error_page, page_or_text.
    destruct (find_page (EPages pages generic) 500) as [[content|]|].
    + rewrite Hcm, Hb.
      destruct content as [|b0 content].
      * destruct (inv3_rewh c acc y (hset (chdr y) K_CT V_HTML) 500 I) as (y1 & E1 & I1 & G1 & H1).
        rewrite E1. cbn [bnd]. exists y1, acc. rewrite app_nil_r. auto.
      * destruct (text_appends c acc y (hset (chdr y) K_CT V_HTML) 500 (b0 :: content) Hb I) as (y' & E & I' & G').
        exists y', (acc ++ [b0 :: content]).
        assert (E2 : bnd (h_wh 500 (set_chdr y (hset (chdr y) K_CT V_HTML)))
                      (fun y0 => bnd (h_wr (b0 :: content) y0) (fun z => Done z)) = Done y').
        { unfold bnd in E |- *. destruct (h_wh 500 (set_chdr y (hset (chdr y) K_CT V_HTML))) as [y0|y0]; [|discriminate E].
          rewrite E. reflexivity. }
        rewrite E2. split; [reflexivity|]. split; [exact I'|]. split; [apply concat_snoc | exact G'].
    + unfold default_error3, text_response. apply TA.
    + unfold default_error3, text_response. apply TA.
Qed.

(* the fallback writers on the bare connection after a response has been started *)
Lemma default_error1_appends et c acc y code :
  gz_on y = false -> bodyless c = false -> Inv3 c acc y ->
  exists z, default_error1 et code y = Done z /\
            cm (finish z) = Some c /\ sup (finish z) = 1%nat /\ view (finish z) = (false, concat acc ++ et code).
Proof.
  intros G Hb (I1 & I2 & I3 & I4 & I5). rewrite G in I5. destruct I5 as (G5 & G6).
  destruct y as [cm0 ch cs bd sp gon gfw gcomp gwr gcr gho gp hon hwr bm bw bs0 bst bh bb].
  nproj. subst.
  unfold default_error1, text_response, c_wh, c_wr; norm. rewrite Hb; norm.
  eexists; split; [reflexivity|]. unfold finish; norm.
  repeat split. unfold view; norm. rewrite G5.
  change (Raw (et code) :: map Raw (rev acc)) with (map Raw (et code :: rev acc)).
  rewrite <- map_rev. cbn [rev]. rewrite rev_involutive, raws_map_raw, concat_snoc. reflexivity.
Qed.

(* the state of the stack after the header sets and WriteHeader s, the response being streamed *)
Lemma commit_streamed m sets s X :
  fresh X -> b_mode X = TOff -> forallb set_ok sets = true -> valid_code s = true ->
  should_buffer m (hs_fun sets []) = false ->
  exists y0, run_script (sets ++ [OWh s]) (enter_templates m X) = Done y0 /\ Inv3 s [] y0.
Proof.
  intros F0 Bm Hs Hv Hsb.
  assert (Fce : hget (chdr X) K_CE = None) by (destruct F0 as (_&_&_&_&_&_&_&_&_&F10); exact F10).
  rewrite (run_sets _ _ _ Hs). cbn [run_script step]. destruct m eqn:Em; cbn [enter_templates].
  - rewrite (apply_sets_off _ _ Bm). unfold b_wh.
    assert (Ba : b_active (set_chdr X (hs_fun sets (chdr X))) = false).
    { unfold b_active. destruct X; cbn in *. rewrite Bm. reflexivity. }
    rewrite Ba.
    destruct (inv3_commit X (hs_fun sets (chdr X)) s F0) as (y0 & E0 & I0 & _); try assumption.
    { rewrite (hs_fun_ce _ _ Hs). exact Fce. }
    { left. unfold b_active. rewrite Bm. reflexivity. }
    rewrite E0. exists y0. auto.
  - discriminate Hsb.
  - rewrite apply_sets_templates by discriminate.
    unfold b_wh. cbn [b_active b_mode set_b b_wrote b_hdr].
    cbn [should_buffer] in Hsb |- *. rewrite Hsb. cbn [negb].
    match goal with |- context [h_wh s (set_chdr ?X0 ?H)] =>
      assert (FX : fresh X0) by (apply fresh_set_b; apply fresh_set_b; exact F0);
      assert (HX : hget H K_CE = None)
        by (rewrite hget_hcopy_none; [destruct X; exact Fce | rewrite (hs_fun_ce _ _ Hs); reflexivity]);
      assert (BX : b_active X0 = false \/ (b_wrote X0 = true /\ b_stream X0 = true)) by (right; split; reflexivity);
      destruct (inv3_commit X0 H s FX HX Hv BX) as (y0 & E0 & I0 & _) end.
    rewrite E0. exists y0. auto.
  - rewrite apply_sets_templates by discriminate.
    unfold b_wh. cbn [b_active b_mode set_b b_wrote b_hdr should_buffer negb].
    match goal with |- context [h_wh s (set_chdr ?X0 ?H)] =>
      assert (FX : fresh X0) by (apply fresh_set_b; apply fresh_set_b; exact F0);
      assert (HX : hget H K_CE = None)
        by (rewrite hget_hcopy_none; [destruct X; exact Fce | rewrite (hs_fun_ce _ _ Hs); reflexivity]);
      assert (BX : b_active X0 = false \/ (b_wrote X0 = true /\ b_stream X0 = true)) by (right; split; reflexivity);
      destruct (inv3_commit X0 H s FX HX Hv BX) as (y0 & E0 & I0 & _) end.
    rewrite E0. exists y0. auto.
Qed.

Definition errors_on (c : cfg) : bool := match eff_errors c with ENone => false | _ => true end.
(* the one extra WriteHeader of whoever recovers, unless header's wrapper swallows it *)
Definition panic_sup (c : cfg) : nat := if errors_on c && c_header c then 0%nat else 1%nat.

Lemma outer_fallback_pan_z et lg hd (E : st -> hres) y z :
  E (entry false hd) = HPan y -> default_error1 et 500 y = Done z ->
  server et (log_mw et lg (gzip_mw et false (header_mw hd E))) = finish z.
Proof.
  intros HE Hz. unfold server, log_mw, log_next, gzip_mw, gzip_mw_p, gw_reset, header_mw.
  assert (Eh : (if hd then E (set_chdr (set_h st0 true false) (hset (hdel (chdr st0) K_XDEL) K_XCFG V_CFG))
                else E st0) = HPan y).
  { rewrite <- HE. unfold entry, enter_header, enter_gzip. destruct hd; reflexivity. }
  rewrite Eh. destruct lg; rewrite Hz; reflexivity.
Qed.

Lemma templates_pan m P X y :
  P (enter_templates m X) = HPan y -> templates_mw m P X = HPan y.
Proof.
  intro H. unfold templates_mw, templates_mw_p, templates_on_p, buf_reset.
  destruct m; cbn [enter_templates] in H; rewrite H; reflexivity.
Qed.

Lemma panic_after_write_streamed et c path ae sets s ws rest ret err :
  forallb set_ok sets = true -> redir_hit c path = false -> status_rule c path = None -> internal_hit c path = false ->
  valid_code s = true -> bodyless s = false ->
  should_buffer (tmode_of c path) (hs_fun sets []) = false ->
  let x := serve et c path ae (sets ++ OWh s :: map wop_op ws ++ OPanic :: rest) ret err in
  cm x = Some s /\ sup x = panic_sup c /\ view x = (false, wbody ws ++ panic_body et c).
Proof.
  intros Hs Hrd Hr Hit Hv Hb Hsb.
  rewrite serve_eq, Hrd, Hr, Hit.
  set (act := c_gzip c && ae). set (hd := c_header c). set (m := tmode_of c path) in *. set (mm := mime_ct c path).
  destruct (entry3_b act hd mm) as [Bm Bs].
  pose proof (fresh_entry3 act hd mm) as F0.
  destruct (commit_streamed m sets s (entry3 act hd mm) F0 Bm Hs Hv Hsb) as (y0 & E0 & I0).
  destruct (inv3_wops 0%nat s ws Hb [] y0 I0) as (y1 & acc1 & E1 & I1 & C1 & _ & _).
  cbn [concat app] in C1.
  set (ops := sets ++ OWh s :: map wop_op ws ++ OPanic :: rest).
  assert (Hrun : run_script ops (enter_templates m (entry3 act hd mm)) = Pan y1).
  { unfold ops. change (sets ++ OWh s :: map wop_op ws ++ OPanic :: rest)
      with (sets ++ [OWh s] ++ (map wop_op ws ++ OPanic :: rest)).
    rewrite app_assoc, run_app, E0. cbn [bnd]. rewrite run_app, E1. reflexivity. }
  assert (Hon : frame_on (enter_templates m (entry3 act hd mm)) y1).
  { pose proof (run_script_on ops (enter_templates m (entry3 act hd mm))) as Q. rewrite Hrun in Q. exact Q. }
  assert (Hh : h_on y1 = hd).
  { destruct Hon as (Q & _ & _). rewrite Q. destruct m, act, hd, mm; reflexivity. }
  assert (Hg : gz_on y1 = act).
  { destruct Hon as (_ & Q & _). rewrite Q. destruct m, act, hd, mm; reflexivity. }
  assert (HT : mid false None mm false (templates_mw m (probe ops ret err)) (entry act hd) = HPan y1).
  { rewrite mid_pass. apply templates_pan. unfold probe. fold (entry3 act hd mm). rewrite Hrun. reflexivity. }
  unfold panic_sup, panic_body, errors_on. fold hd.
  destruct (eff_errors c) eqn:Ee.
  - destruct (eff_errors_none c Ee) as [Hgz _].
    assert (Hact : act = false) by (unfold act; rewrite Hgz; reflexivity).
    revert HT Hg. rewrite Hact. intros HT Hg.
    destruct (default_error1_appends et s acc1 y1 500 Hg Hb I1) as (z & Ez & Zc & Zs & Zv).
    pose proof (outer_fallback_pan_z et (c_log c) hd _ y1 z HT Ez) as Q.
    change (errors_mw et (eff_path c path) ENone (mid false None mm false (templates_mw m (probe ops ret err))))
      with (mid false None mm false (templates_mw m (probe ops ret err))).
    rewrite Q. rewrite C1 in Zv. cbn [andb]. auto.
  - destruct (recovery_appends et EPlain s acc1 y1 Hb I1 ltac:(discriminate)) as (y' & acc' & E' & I' & C' & G').
    pose proof (inv3_answered _ s acc' y' Hb I') as A. rewrite C', C1, G', Hg in A. unfold extra in A. rewrite Hh in A.
    cbn [andb].
    refine (outer_passes_n _ et (c_log c) act hd _ 0 false y' s _ _ eq_refl A).
    unfold errors_mw. rewrite HT. exact E'.
  - destruct (recovery_appends et EDebug s acc1 y1 Hb I1 ltac:(discriminate)) as (y' & acc' & E' & I' & C' & G').
    pose proof (inv3_answered _ s acc' y' Hb I') as A. rewrite C', C1, G', Hg in A. unfold extra in A. rewrite Hh in A.
    cbn [andb].
    refine (outer_passes_n _ et (c_log c) act hd _ 0 false y' s _ _ eq_refl A).
    unfold errors_mw. rewrite HT. exact E'.
  - destruct (recovery_appends et (EPages pages generic) s acc1 y1 Hb I1 ltac:(discriminate)) as (y' & acc' & E' & I' & C' & G').
    pose proof (inv3_answered _ s acc' y' Hb I') as A. rewrite C', C1, G', Hg in A. unfold extra in A. rewrite Hh in A.
    cbn [andb].
    refine (outer_passes_n _ et (c_log c) act hd _ 0 false y' s _ _ eq_refl A).
    unfold errors_mw. rewrite HT. exact E'.
Qed.

(* templates was still buffering: nothing has reached the connection, the panic is answered
   like a panic before anything was written and the buffered response is dropped *)
Lemma probe_buffered_pan m sets s ws rest ret err X :
  m <> TOff -> forallb set_ok sets = true -> should_buffer m (hs_fun sets []) = true ->
  probe (sets ++ OWh s :: map wop_op ws ++ OPanic :: rest) ret err (set_b X m false false 200 [] []) =
  HPan (set_b X m true false s (hs_fun sets []) (wbody ws)).
Proof.
  intros Hm Hs Hsb. unfold probe.
  rewrite (run_sets _ _ _ Hs). rewrite (apply_sets_templates _ _ _ Hm).
  cbn [run_script step]. unfold b_wh.
  assert (Ba : b_active (set_b X m false false 200 (hs_fun sets []) []) = true)
    by (unfold b_active; destruct m; try congruence; destruct X; reflexivity).
  rewrite Ba. cbn [b_wrote set_b b_mode b_hdr]. rewrite Hsb. cbn [negb bnd].
  rewrite run_app.
  rewrite buffered_wops; [| unfold b_active; destruct m; try congruence; destruct X; reflexivity
                            | destruct X; reflexivity | destruct X; reflexivity].
  destruct X; reflexivity.
Qed.

Lemma panic_after_write_buffered et c path ae sets s ws rest ret err :
  forallb set_ok sets = true -> redir_hit c path = false -> status_rule c path = None -> internal_hit c path = false ->
  should_buffer (tmode_of c path) (hs_fun sets []) = true ->
  let x := serve et c path ae (sets ++ OWh s :: map wop_op ws ++ OPanic :: rest) ret err in
  cm x = Some 500 /\ sup x = 0%nat /\ view x = (false, panic_body et c).
Proof.
  intros Hs Hrd Hr Hit Hsb.
  rewrite serve_eq, Hrd, Hr, Hit.
  set (act := c_gzip c && ae). set (hd := c_header c). set (m := tmode_of c path) in *. set (mm := mime_ct c path).
  assert (Hm : m <> TOff) by (intro Q; rewrite Q in Hsb; discriminate Hsb).
  set (ops := sets ++ OWh s :: map wop_op ws ++ OPanic :: rest).
  set (x1 := set_b (entry3 act hd mm) m true false s (hs_fun sets []) (wbody ws)).
  assert (Hin : mid false None mm false (templates_mw m (probe ops ret err)) (entry act hd) = HPan x1).
  { rewrite mid_pass. fold (entry3 act hd mm). rewrite (templates_mw_on _ _ _ Hm).
    unfold templates_on, templates_on_p, buf_reset, ops.
    rewrite (probe_buffered_pan m sets s ws rest ret err (entry3 act hd mm) Hm Hs Hsb). reflexivity. }
  assert (F1 : fresh x1) by (apply fresh_set_b; apply fresh_entry3).
  assert (G1 : gz_on x1 = act) by (unfold x1; destruct act, hd, mm; reflexivity).
  unfold panic_body.
  destruct (eff_errors c) eqn:Ee.
  - destruct (eff_errors_none c Ee) as [Hg He].
    assert (Hact : act = false) by (unfold act; rewrite Hg; reflexivity).
    revert Hin G1. rewrite Hact. intros Hin G1.
    exact (outer_fallback_pan et (c_log c) hd _ x1 Hin F1 G1).
  - destruct (errors_pan et (eff_path c path) EPlain _ _ x1 Hin F1 ltac:(discriminate)) as (y & E & A).
    rewrite G1 in A. exact (outer_answered et (c_log c) act hd _ false y 500 _ E A).
  - destruct (errors_pan et (eff_path c path) EDebug _ _ x1 Hin F1 ltac:(discriminate)) as (y & E & A).
    rewrite G1 in A. exact (outer_answered et (c_log c) act hd _ false y 500 _ E A).
  - destruct (errors_pan et (eff_path c path) (EPages pages generic) _ _ x1 Hin F1 ltac:(discriminate)) as (y & E & A).
    rewrite G1 in A. exact (outer_answered et (c_log c) act hd _ false y 500 _ E A).
Qed.
