(* C12 — proofs, part 2: requests are independent, panics after writing, single commit for
   every script under the handler contract, the directives that answer themselves. *)
Require Import V.Lib V.C12_Model V.C12_Proofs.
Open Scope Z_scope.

(* ---------- requests are independent of the history of the server ---------- *)
Lemma serve_p_indep pooled et c path ae ops ret err :
  serve_p pooled et c path ae ops ret err = serve et c path ae ops ret err.
Proof. reflexivity. Qed.
Lemma serve_req_p_indep pooled et c q : serve_req_p pooled et c q = serve_req et c q.
Proof. reflexivity. Qed.
Lemma serve_srv_fst et c sv q : fst (serve_srv et c sv q) = serve_req et c q.
Proof. reflexivity. Qed.
Lemma requests_independent et c qs : forall sv, run_hist et c sv qs = map (serve_req et c) qs.
Proof.
  induction qs as [|q qs IH]; intro sv; [reflexivity|].
  cbn [run_hist map]. rewrite IH, serve_srv_fst. reflexivity.
Qed.
Lemma last_response_independent et c sv hist q :
  last (run_hist et c sv (hist ++ [q])) st0 = serve_req et c q.
Proof.
  rewrite requests_independent, map_app. cbn [map]. apply last_last.
Qed.
Lemma server_equivalent_after et c sv hist q :
  fst (serve_srv et c (srv_after et c sv hist) q) = fst (serve_srv et c sv q).
Proof. rewrite !serve_srv_fst. reflexivity. Qed.

(* ---------- requests served while another one is in flight ---------- *)
Lemma run_nest_responses et c : forall t sv,
  fst (run_nest et c sv t) = map (serve_req et c) (nest_reqs t).
Proof.
  fix IH 1. intros [q inner] sv. cbn [run_nest nest_reqs fst map]. f_equal.
  generalize ({| gz_pool := if uses_gz c q then snd (pool_get (gz_pool sv)) else gz_pool sv;
                 buf_pool := if uses_buf c q then snd (pool_get (buf_pool sv)) else buf_pool sv |}).
  induction inner as [|t' l IHl]; intro sv1; [reflexivity|].
  cbn [flat_map fst snd]. rewrite map_app, IH. f_equal. apply IHl.
Qed.

(* the pooled objects of the request in flight are not in the pools the inner requests see:
   the pools in between are the initial ones minus what the outer request took *)
Lemma run_nest_holds_objects et c q sv :
  snd (run_nest et c sv (Nest q [])) = snd (serve_srv et c sv q).
Proof.
  cbn [run_nest snd fst]. unfold serve_srv, uses_gz, uses_buf. cbn [snd fst gz_pool buf_pool].
  destruct (c_gzip c && q_ae q), (tmode_of c (q_path q)); reflexivity.
Qed.

(* ---------- frames: what the writers of a level leave alone ---------- *)
Definition frame_g (x y : st) : Prop :=
  h_on y = h_on x /\ h_wrote y = h_wrote x /\ b_mode y = b_mode x /\ b_wrote y = b_wrote x /\
  b_stream y = b_stream x /\ gz_on y = gz_on x /\ b_status y = b_status x.
Lemma frame_g_refl x : frame_g x x.
Proof. unfold frame_g; auto 10. Qed.
Lemma frame_g_trans x y z : frame_g x y -> frame_g y z -> frame_g x z.
Proof. unfold frame_g. intros (A1&A2&A3&A4&A5&A6&A7) (B1&B2&B3&B4&B5&B6&B7). repeat split; congruence. Qed.
Lemma frame_g_bnd x o f : frame_g x (out_st o) -> (forall y, frame_g y (out_st (f y))) -> frame_g x (out_st (bnd o f)).
Proof. intros A B. destruct o as [y|y]; cbn in *; [eapply frame_g_trans; [exact A|apply B] | exact A]. Qed.
Lemma frame_g_conn x a b c d e : frame_g x (set_conn x a b c d e).
Proof. destruct x; unfold frame_g; cbn; auto 10. Qed.
Lemma frame_g_gz x a b c d e f g : gz_on x = a -> frame_g x (set_gz x a b c d e f g).
Proof. intros <-. destruct x; unfold frame_g; cbn; auto 10. Qed.
Lemma c_wh_frame s x : frame_g x (out_st (c_wh s x)).
Proof. unfold c_wh. destruct (cm x); [|destruct (valid_code s)]; cbn; try apply frame_g_refl; apply frame_g_conn. Qed.
Lemma c_wr_frame g x : frame_g x (out_st (c_wr g x)).
Proof.
  unfold c_wr. destruct (cm x) eqn:E.
  - rewrite E. destruct (bodyless z); cbn; [apply frame_g_refl | apply frame_g_conn].
  - unfold commit at 1. cbn [cm set_conn]. destruct (bodyless 200); cbn.
    + apply frame_g_conn.
    + eapply frame_g_trans; [apply (frame_g_conn x)|]. apply frame_g_conn.
Qed.
Lemma c_fl_frame x : frame_g x (out_st (c_fl x)).
Proof. unfold c_fl. destruct (cm x); cbn; [apply frame_g_refl | apply frame_g_conn]. Qed.
Lemma gzh_wh_frame s x : frame_g x (out_st (gzh_wh s x)).
Proof.
  unfold gzh_wh. apply frame_g_bnd.
  - eapply frame_g_trans; [apply (frame_g_conn x)|]. apply c_wh_frame.
  - intro y. cbn. apply frame_g_gz. reflexivity.
Qed.
Lemma g_wh_frame s x : frame_g x (out_st (g_wh s x)).
Proof.
  unfold g_wh. destruct (gz_on x) eqn:G; [|apply c_wh_frame].
  destruct (gz_fw x).
  - destruct (gz_comp x); [apply gzh_wh_frame | apply c_wh_frame].
  - apply frame_g_bnd.
    + match goal with |- context [set_gz x ?a ?b ?c ?d ?e ?f ?g] => set (X1 := set_gz x a b c d e f g);
        assert (F : frame_g x X1) by (apply frame_g_gz; exact G) end.
      eapply frame_g_trans; [exact F|].
      match goal with |- context [if ?b then _ else _] => destruct b end; [apply gzh_wh_frame | apply c_wh_frame].
    + intro y. cbn. apply frame_g_gz. reflexivity.
Qed.
Lemma g_wr_frame b x : frame_g x (out_st (g_wr b x)).
Proof.
  unfold g_wr. destruct (gz_on x) eqn:G; [|apply c_wr_frame].
  apply frame_g_bnd.
  - destruct (gz_fw x); [apply frame_g_refl | apply g_wh_frame].
  - intro y. destruct (gz_comp y); [|apply c_wr_frame].
    apply frame_g_bnd.
    + destruct (gz_wrote y); [apply frame_g_refl | apply gzh_wh_frame].
    + intro z. apply frame_g_bnd.
      * destruct (gz_hdr_out z); [apply frame_g_refl | apply c_wr_frame].
      * intro u. cbn. apply frame_g_gz. reflexivity.
Qed.
Lemma g_fl_frame x : frame_g x (out_st (g_fl x)).
Proof.
  unfold g_fl. destruct (gz_on x); [|apply c_fl_frame].
  apply frame_g_bnd; [destruct (gz_fw x); [apply frame_g_refl | apply g_wh_frame] | intro y; apply c_fl_frame].
Qed.
Lemma g_close_frame x : frame_g x (out_st (g_close x)).
Proof.
  unfold g_close. destruct (gz_on x && gz_created x); [|apply frame_g_refl].
  match goal with |- context [set_gz x ?a ?b ?c ?d ?e ?f ?g] => set (X1 := set_gz x a b c d e f g);
    assert (F : frame_g x X1) by (apply frame_g_gz; reflexivity) end.
  eapply frame_g_trans; [exact F|]. apply frame_g_bnd.
  - destruct (gz_hdr_out X1); [apply frame_g_refl | apply c_wr_frame].
  - intro y. apply c_wr_frame.
Qed.

Definition frame_h (x y : st) : Prop :=
  h_on y = h_on x /\ b_mode y = b_mode x /\ b_wrote y = b_wrote x /\ b_stream y = b_stream x /\ gz_on y = gz_on x /\
  b_status y = b_status x.
Lemma frame_g_h x y : frame_g x y -> frame_h x y.
Proof. unfold frame_g, frame_h. intros (A1&A2&A3&A4&A5&A6&A7). auto 10. Qed.
Lemma frame_h_refl x : frame_h x x.
Proof. unfold frame_h; auto 10. Qed.
Lemma frame_h_trans x y z : frame_h x y -> frame_h y z -> frame_h x z.
Proof. unfold frame_h. intros (A1&A2&A3&A4&A5&A6) (B1&B2&B3&B4&B5&B6). repeat split; congruence. Qed.
Lemma frame_h_bnd x o f : frame_h x (out_st o) -> (forall y, frame_h y (out_st (f y))) -> frame_h x (out_st (bnd o f)).
Proof. intros A B. destruct o as [y|y]; cbn in *; [eapply frame_h_trans; [exact A|apply B] | exact A]. Qed.
Lemma frame_h_seth x h : h_on x = true -> frame_h x (set_chdr (set_h x true true) h).
Proof. intro H. destruct x; unfold frame_h; cbn in *; auto 10. Qed.
Lemma frame_h_chdr x h : frame_h x (set_chdr x h).
Proof. destruct x; unfold frame_h; cbn; auto 10. Qed.
Lemma h_wh_frame s x : frame_h x (out_st (h_wh s x)).
Proof.
  unfold h_wh. destruct (h_on x) eqn:H; [|apply frame_g_h, g_wh_frame].
  destruct (h_wrote x); [apply frame_h_refl|].
  eapply frame_h_trans; [apply frame_h_seth; exact H|]. apply frame_g_h, g_wh_frame.
Qed.
Lemma h_wr_frame b x : frame_h x (out_st (h_wr b x)).
Proof.
  unfold h_wr. destruct (h_on x); [|apply frame_g_h, g_wr_frame].
  apply frame_h_bnd; [destruct (h_wrote x); [apply frame_h_refl | apply h_wh_frame] | intro y; apply frame_g_h, g_wr_frame].
Qed.
Lemma h_fl_frame x : frame_h x (out_st (h_fl x)).
Proof.
  unfold h_fl. destruct (h_on x); [|apply frame_g_h, g_fl_frame].
  apply frame_h_bnd; [destruct (h_wrote x); [apply frame_h_refl | apply h_wh_frame] | intro y; apply frame_g_h, g_fl_frame].
Qed.

(* the script never switches a wrapper on or off *)
Definition frame_on (x y : st) : Prop := h_on y = h_on x /\ gz_on y = gz_on x /\ b_mode y = b_mode x.
Lemma frame_h_on x y : frame_h x y -> frame_on x y.
Proof. unfold frame_h, frame_on. intros (A1&A2&A3&A4&A5&A6). auto. Qed.
Lemma frame_on_trans x y z : frame_on x y -> frame_on y z -> frame_on x z.
Proof. unfold frame_on. intros (A1&A2&A3) (B1&B2&B3). repeat split; congruence. Qed.
Lemma frame_on_refl x : frame_on x x.
Proof. unfold frame_on; auto. Qed.
Lemma frame_on_bnd x o f : frame_on x (out_st o) -> (forall y, frame_on y (out_st (f y))) -> frame_on x (out_st (bnd o f)).
Proof. intros A B. destruct o as [y|y]; cbn in *; [eapply frame_on_trans; [exact A|apply B] | exact A]. Qed.
Lemma frame_on_setb x w s st h b : frame_on x (set_b x (b_mode x) w s st h b).
Proof. destruct x; unfold frame_on; cbn; auto. Qed.
Lemma frame_on_chdr x h : frame_on x (set_chdr x h).
Proof. destruct x; unfold frame_on; cbn; auto. Qed.
Lemma b_wh_on s x : frame_on x (out_st (b_wh s x)).
Proof.
  unfold b_wh. destruct (b_active x); [|apply frame_h_on, h_wh_frame].
  destruct (b_wrote x); [apply frame_on_refl|].
  match goal with |- context [if ?b then _ else _] => destruct b end.
  - eapply frame_on_trans; [|apply frame_h_on, h_wh_frame].
    eapply frame_on_trans; [apply (frame_on_setb x)|]. apply frame_on_chdr.
  - cbn. apply frame_on_setb.
Qed.
Lemma b_wr_on b x : frame_on x (out_st (b_wr b x)).
Proof.
  unfold b_wr. destruct (b_active x); [|apply frame_h_on, h_wr_frame].
  apply frame_on_bnd; [destruct (b_wrote x); [apply frame_on_refl | apply b_wh_on]|].
  intro y. destruct (b_stream y); [apply frame_h_on, h_wr_frame | cbn; apply frame_on_setb].
Qed.
Lemma b_fl_on x : frame_on x (out_st (b_fl x)).
Proof.
  unfold b_fl. destruct (b_active x); [|apply frame_h_on, h_fl_frame].
  apply frame_on_bnd; [destruct (b_wrote x); [apply frame_on_refl | apply b_wh_on]|].
  intro y. destruct (b_stream y); [apply frame_h_on, h_fl_frame | cbn; apply frame_on_refl].
Qed.
Lemma b_rf_on b x : frame_on x (out_st (b_rf b x)).
Proof.
  destruct b as [|b0 b]; [|apply b_wr_on]. cbn [b_rf out_st]. apply frame_on_refl.
Qed.
Lemma step_on o x : frame_on x (out_st (step o x)).
Proof.
  destruct o; cbn [step out_st]; [| apply b_wh_on | apply b_wr_on | apply b_fl_on | apply frame_on_refl | apply b_rf_on].
  unfold b_sethdr. destruct (b_active x); [apply frame_on_setb | apply frame_on_chdr].
Qed.
Lemma run_script_on ops : forall x, frame_on x (out_st (run_script ops x)).
Proof.
  induction ops as [|o ops IH]; intro x; [apply frame_on_refl|].
  cbn [run_script]. apply frame_on_bnd; [apply step_on | exact IH].
Qed.

(* ---------- a panic after the handler has started writing ---------- *)
Lemma run_app a : forall b x, run_script (a ++ b) x = bnd (run_script a x) (run_script b).
Proof.
  induction a as [|o a IH]; intros b x; [reflexivity|].
  cbn [app run_script]. destruct (step o x) as [y|y]; cbn [bnd]; [apply IH | reflexivity].
Qed.

Lemma inv3_bwr_hwr n c acc y b : Inv3n n c acc y -> b_wr b y = h_wr b y.
Proof.
  intros (I1 & I2 & I3 & I4 & I5).
  unfold b_wr. destruct I4 as [I4 | [I4 I4']]; rewrite I4; [reflexivity|]. cbv beta iota delta [bnd]. rewrite I4'.
  destruct (b_active y); reflexivity.
Qed.
Lemma inv3_hwr n c acc y b :
  bodyless c = false -> Inv3n n c acc y ->
  exists y', h_wr b y = Done y' /\ Inv3n n c (acc ++ [b]) y' /\ gz_on y' = gz_on y /\ b_mode y' = b_mode y.
Proof. intros Hb I. rewrite <- (inv3_bwr_hwr n c acc y b I). exact (inv3_write n c acc y b Hb I). Qed.

(* WriteHeader on a response that is already committed: header's wrapper swallows it, otherwise
   it reaches net/http, which only logs it *)
Definition extra (y : st) : nat := if h_on y then 0%nat else 1%nat.
Lemma inv3_rewh c acc y h' code :
  Inv3 c acc y ->
  exists y', h_wh code (set_chdr y h') = Done y' /\ Inv3n (extra y) c acc y' /\ gz_on y' = gz_on y /\ h_on y' = h_on y.
Proof.
  intros (I1 & I2 & I3 & I4 & I5).
  destruct y as [cm0 ch cs bd sp gon gfw gcomp gwr gcr gho gp hon hwr bm bw bs0 bst bh bb].
  unfold b_active in I4. unfold extra. nproj. subst.
  destruct gon.
  - destruct I5 as (G1 & G2 & G3 & G4 & G5 & G6 & G7). subst.
    destruct hon; [rewrite (I3 eq_refl) | ];
      unfold h_wh, g_wh, gzh_wh, c_wh; norm;
      (eexists; split; [reflexivity|]); (split; [|split; reflexivity]); unfold Inv3n, b_active; norm;
      (split; [reflexivity|]); (split; [reflexivity|]); (split; [auto|]); (split; [exact I4|]);
      repeat split; auto.
  - destruct I5 as (G5 & G6). subst.
    destruct hon; [rewrite (I3 eq_refl) | ];
      unfold h_wh, g_wh, gzh_wh, c_wh; norm;
      (eexists; split; [reflexivity|]); (split; [|split; reflexivity]); unfold Inv3n, b_active; norm;
      (split; [reflexivity|]); (split; [reflexivity|]); (split; [auto|]); (split; [exact I4|]);
      split; auto.
Qed.

Lemma text_appends c acc y h' code t :
  bodyless c = false -> Inv3 c acc y ->
  exists y', bnd (h_wh code (set_chdr y h')) (h_wr t) = Done y' /\ Inv3n (extra y) c (acc ++ [t]) y' /\ gz_on y' = gz_on y.
Proof.
  intros Hb I. destruct (inv3_rewh c acc y h' code I) as (y1 & E1 & I1 & G1 & H1).
  destruct (inv3_hwr _ c acc y1 t Hb I1) as (y2 & E2 & I2 & G2 & _).
  exists y2. rewrite E1. cbn [bnd]. rewrite E2. split; [reflexivity|]. split; [exact I2|]. congruence.
Qed.

Lemma concat_snoc (acc : list bytes) t : concat (acc ++ [t]) = concat acc ++ t.
Proof. rewrite concat_app. cbn [concat]. rewrite app_nil_r. reflexivity. Qed.

Lemma recovery_appends et m c acc y :
  bodyless c = false -> Inv3 c acc y -> m <> ENone ->
  exists y' acc', recovery et m y = HRet 0 false y' /\ Inv3n (extra y) c acc' y' /\
                  concat acc' = concat acc ++ panic_expected et m /\ gz_on y' = gz_on y.
Proof.
  intros Hb I Hm.
  assert (Hcm : cm y = Some c) by (destruct I as (I1 & _); exact I1).
  assert (TA : forall h' t, exists y' acc', (match bnd (h_wh 500 (set_chdr y h')) (h_wr t) with Done y => HRet 0 false y | Pan y => HPan y end) = HRet 0 false y' /\
             Inv3n (extra y) c acc' y' /\ concat acc' = concat acc ++ t /\ gz_on y' = gz_on y).
  { intros h' t. destruct (text_appends c acc y h' 500 t Hb I) as (y' & E & I' & G').
    exists y', (acc ++ [t]). rewrite E. split; [reflexivity|]. split; [exact I'|]. split; [apply concat_snoc | exact G']. }
  unfold recovery, panic_expected.
  destruct m as [| | |pages generic]; [congruence| | |].
  - unfold error_page, page_or_text. cbn [find_page]. unfold default_error3, text_response. apply TA.
  - unfold text_response. apply TA.
  - unfold error_page, page_or_text.
    destruct (find_page (EPages pages generic) 500) as [[content|]|].
    + rewrite Hcm, Hb.
      destruct content as [|b0 content].
      * destruct (inv3_rewh c acc y (hset (chdr y) K_CT V_HTML) 500 I) as (y1 & E1 & I1 & G1 & H1).
        rewrite E1. cbn [bnd]. exists y1, acc. rewrite app_nil_r. auto.
      * destruct (text_appends c acc y (hset (chdr y) K_CT V_HTML) 500 (b0 :: content) Hb I) as (y' & E & I' & G').
        exists y', (acc ++ [b0 :: content]).
        assert (E2 : bnd (h_wh 500 (set_chdr y (hset (chdr y) K_CT V_HTML)))
                      (fun y0 => bnd (h_wr (b0 :: content) y0) (fun z => Done z)) = Done y').
        { unfold bnd in E |- *. destruct (h_wh 500 (set_chdr y (hset (chdr y) K_CT V_HTML))) as [y0|y0]; [|discriminate E].
          rewrite E. reflexivity. }
        rewrite E2. split; [reflexivity|]. split; [exact I'|]. split; [apply concat_snoc | exact G'].
    + unfold default_error3, text_response. apply TA.
    + unfold default_error3, text_response. apply TA.
Qed.

(* the fallback writers on the bare connection after a response has been started *)
Lemma default_error1_appends et c acc y code :
  gz_on y = false -> bodyless c = false -> Inv3 c acc y ->
  exists z, default_error1 et code y = Done z /\
            cm (finish z) = Some c /\ sup (finish z) = 1%nat /\ view (finish z) = (false, concat acc ++ et code).
Proof.
  intros G Hb (I1 & I2 & I3 & I4 & I5). rewrite G in I5. destruct I5 as (G5 & G6).
  destruct y as [cm0 ch cs bd sp gon gfw gcomp gwr gcr gho gp hon hwr bm bw bs0 bst bh bb].
  nproj. subst.
  unfold default_error1, text_response, c_wh, c_wr; norm. rewrite Hb; norm.
  eexists; split; [reflexivity|]. unfold finish; norm.
  repeat split. unfold view; norm. rewrite G5.
  change (Raw (et code) :: map Raw (rev acc)) with (map Raw (et code :: rev acc)).
  rewrite <- map_rev. cbn [rev]. rewrite rev_involutive, raws_map_raw, concat_snoc. reflexivity.
Qed.

(* the state of the stack after the header sets and WriteHeader s, the response being streamed *)
Lemma commit_streamed m sets s X :
  fresh X -> b_mode X = TOff -> forallb set_ok sets = true -> valid_code s = true ->
  should_buffer m (hs_fun sets []) = false ->
  exists y0, run_script (sets ++ [OWh s]) (enter_templates m X) = Done y0 /\ Inv3 s [] y0.
Proof.
  intros F0 Bm Hs Hv Hsb.
  assert (Fce : hget (chdr X) K_CE = None) by (destruct F0 as (_&_&_&_&_&_&_&_&_&F10); exact F10).
  rewrite (run_sets _ _ _ Hs). cbn [run_script step]. destruct m eqn:Em; cbn [enter_templates].
  - rewrite (apply_sets_off _ _ Bm). unfold b_wh.
    assert (Ba : b_active (set_chdr X (hs_fun sets (chdr X))) = false).
    { unfold b_active. destruct X; cbn in *. rewrite Bm. reflexivity. }
    rewrite Ba.
    destruct (inv3_commit X (hs_fun sets (chdr X)) s F0) as (y0 & E0 & I0 & _); try assumption.
    { rewrite (hs_fun_ce _ _ Hs). exact Fce. }
    { left. unfold b_active. rewrite Bm. reflexivity. }
    rewrite E0. exists y0. auto.
  - discriminate Hsb.
  - rewrite apply_sets_templates by discriminate.
    unfold b_wh. cbn [b_active b_mode set_b b_wrote b_hdr].
    cbn [should_buffer] in Hsb |- *. rewrite Hsb. cbn [negb].
    match goal with |- context [h_wh s (set_chdr ?X0 ?H)] =>
      assert (FX : fresh X0) by (apply fresh_set_b; apply fresh_set_b; exact F0);
      assert (HX : hget H K_CE = None)
        by (rewrite hget_hcopy_none; [destruct X; exact Fce | rewrite (hs_fun_ce _ _ Hs); reflexivity]);
      assert (BX : b_active X0 = false \/ (b_wrote X0 = true /\ b_stream X0 = true)) by (right; split; reflexivity);
      destruct (inv3_commit X0 H s FX HX Hv BX) as (y0 & E0 & I0 & _) end.
    rewrite E0. exists y0. auto.
  - rewrite apply_sets_templates by discriminate.
    unfold b_wh. cbn [b_active b_mode set_b b_wrote b_hdr should_buffer negb].
    match goal with |- context [h_wh s (set_chdr ?X0 ?H)] =>
      assert (FX : fresh X0) by (apply fresh_set_b; apply fresh_set_b; exact F0);
      assert (HX : hget H K_CE = None)
        by (rewrite hget_hcopy_none; [destruct X; exact Fce | rewrite (hs_fun_ce _ _ Hs); reflexivity]);
      assert (BX : b_active X0 = false \/ (b_wrote X0 = true /\ b_stream X0 = true)) by (right; split; reflexivity);
      destruct (inv3_commit X0 H s FX HX Hv BX) as (y0 & E0 & I0 & _) end.
    rewrite E0. exists y0. auto.
Qed.

Definition errors_on (c : cfg) : bool := match eff_errors c with ENone => false | _ => true end.
(* the one extra WriteHeader of whoever recovers, unless header's wrapper swallows it *)
Definition panic_sup (c : cfg) : nat := if errors_on c && c_header c then 0%nat else 1%nat.

Lemma outer_fallback_pan_z et lg hd (E : st -> hres) y z :
  E (entry false hd) = HPan y -> default_error1 et 500 y = Done z ->
  server et (log_mw et lg (gzip_mw et false (header_mw hd E))) = finish z.
Proof.
  intros HE Hz. unfold server, log_mw, log_next, gzip_mw, gzip_mw_p, gw_reset, header_mw.
  assert (Eh : (if hd then E (set_chdr (set_h st0 true false) (hset (hdel (chdr st0) K_XDEL) K_XCFG V_CFG))
                else E st0) = HPan y).
  { rewrite <- HE. unfold entry, enter_header, enter_gzip. destruct hd; reflexivity. }
  rewrite Eh. destruct lg; rewrite Hz; reflexivity.
Qed.

Lemma templates_pan m P X y :
  P (enter_templates m X) = HPan y -> templates_mw m P X = HPan y.
Proof.
  intro H. unfold templates_mw, templates_mw_p, templates_on_p, buf_reset.
  destruct m; cbn [enter_templates] in H; rewrite H; reflexivity.
Qed.

Lemma panic_after_write_streamed et c path ae sets s ws pv rest ret err :
  forallb set_ok sets = true -> redir_hit c path = false -> status_rule c path = None -> internal_hit c path = false ->
  valid_code s = true -> bodyless s = false ->
  should_buffer (tmode_of c path) (hs_fun sets []) = false ->
  let x := serve et c path ae (sets ++ OWh s :: map wop_op ws ++ OPanic pv :: rest) ret err in
  cm x = Some s /\ sup x = panic_sup c /\ view x = (false, wbody ws ++ panic_body et c).
Proof.
  intros Hs Hrd Hr Hit Hv Hb Hsb.
  rewrite serve_eq, Hrd, Hr, Hit.
  set (act := c_gzip c && ae). set (hd := c_header c). set (m := tmode_of c path) in *. set (mm := mime_ct c path).
  destruct (entry3_b act hd mm) as [Bm Bs].
  pose proof (fresh_entry3 act hd mm) as F0.
  destruct (commit_streamed m sets s (entry3 act hd mm) F0 Bm Hs Hv Hsb) as (y0 & E0 & I0).
  destruct (inv3_wops 0%nat s ws Hb [] y0 I0) as (y1 & acc1 & E1 & I1 & C1 & _ & _).
  cbn [concat app] in C1.
  set (ops := sets ++ OWh s :: map wop_op ws ++ OPanic pv :: rest).
  assert (Hrun : run_script ops (enter_templates m (entry3 act hd mm)) = Pan y1).
  { unfold ops. change (sets ++ OWh s :: map wop_op ws ++ OPanic pv :: rest)
      with (sets ++ [OWh s] ++ (map wop_op ws ++ OPanic pv :: rest)).
    rewrite app_assoc, run_app, E0. cbn [bnd]. rewrite run_app, E1. reflexivity. }
  assert (Hon : frame_on (enter_templates m (entry3 act hd mm)) y1).
  { pose proof (run_script_on ops (enter_templates m (entry3 act hd mm))) as Q. rewrite Hrun in Q. exact Q. }
  assert (Hh : h_on y1 = hd).
  { destruct Hon as (Q & _ & _). rewrite Q. destruct m, act, hd, mm; reflexivity. }
  assert (Hg : gz_on y1 = act).
  { destruct Hon as (_ & Q & _). rewrite Q. destruct m, act, hd, mm; reflexivity. }
  assert (HT : mid false None mm false (templates_mw m (probe ops ret err)) (entry act hd) = HPan y1).
  { rewrite mid_pass. apply templates_pan. unfold probe. fold (entry3 act hd mm). rewrite Hrun. reflexivity. }
  unfold panic_sup, panic_body, errors_on. fold hd.
  destruct (eff_errors c) eqn:Ee.
  - destruct (eff_errors_none c Ee) as [Hgz _].
    assert (Hact : act = false) by (unfold act; rewrite Hgz; reflexivity).
    revert HT Hg. rewrite Hact. intros HT Hg.
    destruct (default_error1_appends et s acc1 y1 500 Hg Hb I1) as (z & Ez & Zc & Zs & Zv).
    pose proof (outer_fallback_pan_z et (c_log c) hd _ y1 z HT Ez) as Q.
    change (errors_mw et (eff_path c path) ENone (mid false None mm false (templates_mw m (probe ops ret err))))
      with (mid false None mm false (templates_mw m (probe ops ret err))).
    rewrite Q. rewrite C1 in Zv. cbn [andb]. auto.
  - destruct (recovery_appends et EPlain s acc1 y1 Hb I1 ltac:(discriminate)) as (y' & acc' & E' & I' & C' & G').
    pose proof (inv3_answered _ s acc' y' Hb I') as A. rewrite C', C1, G', Hg in A. unfold extra in A. rewrite Hh in A.
    cbn [andb].
    refine (outer_passes_n _ et (c_log c) act hd _ 0 false y' s _ _ eq_refl A).
    unfold errors_mw. rewrite HT. exact E'.
  - destruct (recovery_appends et EDebug s acc1 y1 Hb I1 ltac:(discriminate)) as (y' & acc' & E' & I' & C' & G').
    pose proof (inv3_answered _ s acc' y' Hb I') as A. rewrite C', C1, G', Hg in A. unfold extra in A. rewrite Hh in A.
    cbn [andb].
    refine (outer_passes_n _ et (c_log c) act hd _ 0 false y' s _ _ eq_refl A).
    unfold errors_mw. rewrite HT. exact E'.
  - destruct (recovery_appends et (EPages pages generic) s acc1 y1 Hb I1 ltac:(discriminate)) as (y' & acc' & E' & I' & C' & G').
    pose proof (inv3_answered _ s acc' y' Hb I') as A. rewrite C', C1, G', Hg in A. unfold extra in A. rewrite Hh in A.
    cbn [andb].
    refine (outer_passes_n _ et (c_log c) act hd _ 0 false y' s _ _ eq_refl A).
    unfold errors_mw. rewrite HT. exact E'.
Qed.

(* templates was still buffering: nothing has reached the connection, the panic is answered
   like a panic before anything was written and the buffered response is dropped *)
Lemma probe_buffered_pan m sets s ws pv rest ret err X :
  m <> TOff -> forallb set_ok sets = true -> should_buffer m (hs_fun sets []) = true ->
  probe (sets ++ OWh s :: map wop_op ws ++ OPanic pv :: rest) ret err (set_b X m false false 200 [] []) =
  HPan (set_b X m true false s (hs_fun sets []) (wbody ws)).
Proof.
  intros Hm Hs Hsb. unfold probe.
  rewrite (run_sets _ _ _ Hs). rewrite (apply_sets_templates _ _ _ Hm).
  cbn [run_script step]. unfold b_wh.
  assert (Ba : b_active (set_b X m false false 200 (hs_fun sets []) []) = true)
    by (unfold b_active; destruct m; try congruence; destruct X; reflexivity).
  rewrite Ba. cbn [b_wrote set_b b_mode b_hdr]. rewrite Hsb. cbn [negb bnd].
  rewrite run_app.
  rewrite buffered_wops; [| unfold b_active; destruct m; try congruence; destruct X; reflexivity
                            | destruct X; reflexivity | destruct X; reflexivity].
  destruct X; reflexivity.
Qed.

Lemma panic_after_write_buffered et c path ae sets s ws pv rest ret err :
  forallb set_ok sets = true -> redir_hit c path = false -> status_rule c path = None -> internal_hit c path = false ->
  should_buffer (tmode_of c path) (hs_fun sets []) = true ->
  let x := serve et c path ae (sets ++ OWh s :: map wop_op ws ++ OPanic pv :: rest) ret err in
  cm x = Some 500 /\ sup x = 0%nat /\ view x = (false, panic_body et c).
Proof.
  intros Hs Hrd Hr Hit Hsb.
  rewrite serve_eq, Hrd, Hr, Hit.
  set (act := c_gzip c && ae). set (hd := c_header c). set (m := tmode_of c path) in *. set (mm := mime_ct c path).
  assert (Hm : m <> TOff) by (intro Q; rewrite Q in Hsb; discriminate Hsb).
  set (ops := sets ++ OWh s :: map wop_op ws ++ OPanic pv :: rest).
  set (x1 := set_b (entry3 act hd mm) m true false s (hs_fun sets []) (wbody ws)).
  assert (Hin : mid false None mm false (templates_mw m (probe ops ret err)) (entry act hd) = HPan x1).
  { rewrite mid_pass. fold (entry3 act hd mm). rewrite (templates_mw_on _ _ _ Hm).
    unfold templates_on, templates_on_p, buf_reset, ops.
    rewrite (probe_buffered_pan m sets s ws pv rest ret err (entry3 act hd mm) Hm Hs Hsb). reflexivity. }
  assert (F1 : fresh x1) by (apply fresh_set_b; apply fresh_entry3).
  assert (G1 : gz_on x1 = act) by (unfold x1; destruct act, hd, mm; reflexivity).
  unfold panic_body.
  destruct (eff_errors c) eqn:Ee.
  - destruct (eff_errors_none c Ee) as [Hg He].
    assert (Hact : act = false) by (unfold act; rewrite Hg; reflexivity).
    revert Hin G1. rewrite Hact. intros Hin G1.
    exact (outer_fallback_pan et (c_log c) hd _ x1 Hin F1 G1).
  - destruct (errors_pan et (eff_path c path) EPlain _ _ x1 Hin F1 ltac:(discriminate)) as (y & E & A).
    rewrite G1 in A. exact (outer_answered et (c_log c) act hd _ false y 500 _ E A).
  - destruct (errors_pan et (eff_path c path) EDebug _ _ x1 Hin F1 ltac:(discriminate)) as (y & E & A).
    rewrite G1 in A. exact (outer_answered et (c_log c) act hd _ false y 500 _ E A).
  - destruct (errors_pan et (eff_path c path) (EPages pages generic) _ _ x1 Hin F1 ltac:(discriminate)) as (y & E & A).
    rewrite G1 in A. exact (outer_answered et (c_log c) act hd _ false y 500 _ E A).
Qed.

(* ---------- single commit for every script under the handler contract ----------
   Each level of the writer stack knows whether it has passed a header on; the levels agree. *)
Definition isS (o : option Z) : bool := match o with Some _ => true | None => false end.
Definition gcomm (x : st) : bool := if gz_on x then gz_fw x else isS (cm x).
Definition hcomm (x : st) : bool := if h_on x then h_wrote x else gcomm x.
Definition bcomm (x : st) : bool := if b_active x then b_wrote x else hcomm x.

Definition Lg (x : st) : Prop :=
  sup x = 0%nat /\
  (gz_on x = true -> gz_fw x = isS (cm x) /\ (gz_fw x = true -> gz_comp x = true -> gz_wrote x = true) /\
                     (gz_created x = true -> gz_fw x = true)).
Definition Lh (x : st) : Prop := Lg x /\ (h_on x = true -> h_wrote x = gcomm x).
Definition Lb (x : st) : Prop :=
  Lh x /\ (b_active x = true -> (b_wrote x && b_stream x) = hcomm x) /\ valid_code (b_status x) = true.

Ltac gsplit := unfold Lg, gcomm; norm; repeat split; intros; try reflexivity; try discriminate; try assumption.

Lemma g_wh_ok s x : Lg x -> gcomm x = false -> valid_code s = true ->
  exists y, g_wh s x = Done y /\ Lg y /\ gcomm y = true.
Proof.
  intros (L1 & L2) Hc Hv.
  destruct x as [cm0 ch cs bd sp gon gfw gcomp gwr gcr gho gp hon hwr bm bw bs0 bst bh bb].
  unfold gcomm in Hc. nproj. subst sp. destruct gon.
  - destruct (L2 eq_refl) as (A & B & C). rewrite A in Hc. destruct cm0; [discriminate Hc|]. clear Hc.
    cbn [isS] in A. subst gfw.
    unfold g_wh; norm. destruct (ce_listed (hget ch K_CE)); norm;
      unfold gzh_wh, c_wh; norm; rewrite ?Hv; norm; (eexists; split; [reflexivity|]); gsplit.
  - destruct cm0; [discriminate Hc|]. unfold g_wh, c_wh; norm. rewrite Hv; norm.
    eexists; split; [reflexivity|]. gsplit.
Qed.

Lemma g_wr_ok b x : Lg x -> exists y, g_wr b x = Done y /\ Lg y /\ gcomm y = true.
Proof.
  intros (L1 & L2).
  destruct x as [cm0 ch cs bd sp gon gfw gcomp gwr gcr gho gp hon hwr bm bw bs0 bst bh bb].
  nproj. subst sp. destruct gon.
  - destruct (L2 eq_refl) as (A & B & C). subst gfw. destruct cm0 as [s0|]; cbn [isS] in *.
    + destruct gcomp; [rewrite (B eq_refl eq_refl)|]; unfold g_wr; norm; unfold c_wr; norm;
        destruct gho; norm; destruct (bodyless s0); norm; (eexists; split; [reflexivity|]); gsplit.
    + assert (Hcr : gcr = false) by (destruct gcr; [discriminate (C eq_refl) | reflexivity]). subst gcr.
      unfold g_wr, g_wh; norm. destruct (ce_listed (hget ch K_CE)); norm;
        unfold gzh_wh, c_wh; norm; rewrite ?valid_200; norm; unfold c_wr; norm;
        destruct gho; norm; rewrite ?bodyless_200; norm; (eexists; split; [reflexivity|]); gsplit.
  - unfold g_wr, c_wr; norm. destruct cm0 as [s0|]; norm; [destruct (bodyless s0)|rewrite bodyless_200]; norm;
      (eexists; split; [reflexivity|]); gsplit.
Qed.

Lemma g_fl_ok x : Lg x -> exists y, g_fl x = Done y /\ Lg y /\ gcomm y = true.
Proof.
  intros (L1 & L2).
  destruct x as [cm0 ch cs bd sp gon gfw gcomp gwr gcr gho gp hon hwr bm bw bs0 bst bh bb].
  nproj. subst sp. destruct gon.
  - destruct (L2 eq_refl) as (A & B & C). subst gfw. destruct cm0 as [s0|]; cbn [isS] in *.
    + unfold g_fl, c_fl; norm. eexists; split; [reflexivity|]. gsplit; auto.
    + unfold g_fl, g_wh; norm. destruct (ce_listed (hget ch K_CE)); norm;
        unfold gzh_wh, c_wh; norm; rewrite ?valid_200; norm; unfold c_fl; norm;
        (eexists; split; [reflexivity|]); gsplit.
  - unfold g_fl, c_fl; norm. destruct cm0 as [s0|]; norm; (eexists; split; [reflexivity|]); gsplit.
Qed.

Lemma Lg_chdr x h : Lg x -> Lg (set_chdr x h).
Proof. destruct x; exact (fun H => H). Qed.
Lemma Lg_seth x a b : Lg x -> Lg (set_h x a b).
Proof. destruct x; exact (fun H => H). Qed.
Lemma Lg_setb x a b c d e f : Lg x -> Lg (set_b x a b c d e f).
Proof. destruct x; exact (fun H => H). Qed.
Lemma gcomm_chdr x h : gcomm (set_chdr x h) = gcomm x.
Proof. destruct x; reflexivity. Qed.
Lemma gcomm_seth x a b : gcomm (set_h x a b) = gcomm x.
Proof. destruct x; reflexivity. Qed.
Lemma Lh_chdr x h : Lh x -> Lh (set_chdr x h).
Proof. destruct x; exact (fun H => H). Qed.
Lemma Lh_setb x a b c d e f : Lh x -> Lh (set_b x a b c d e f).
Proof. destruct x; exact (fun H => H). Qed.
Lemma hcomm_chdr x h : hcomm (set_chdr x h) = hcomm x.
Proof. destruct x; reflexivity. Qed.
Lemma hcomm_setb x a b c d e f : hcomm (set_b x a b c d e f) = hcomm x.
Proof. destruct x; reflexivity. Qed.

Lemma h_wh_ok s x : Lh x -> hcomm x = false -> valid_code s = true ->
  exists y, h_wh s x = Done y /\ Lh y /\ hcomm y = true.
Proof.
  intros (Lgx & Lhx) Hc Hv. unfold hcomm in Hc. unfold h_wh. destruct (h_on x) eqn:Hon.
  - rewrite Hc. rewrite (Lhx eq_refl) in Hc.
    set (X := set_chdr (set_h x true true) (hdel (chdr x) K_XDEL)).
    assert (LX : Lg X) by (apply Lg_chdr, Lg_seth; exact Lgx).
    assert (CX : gcomm X = false) by (unfold X; rewrite gcomm_chdr, gcomm_seth; exact Hc).
    destruct (g_wh_ok s X LX CX Hv) as (y & E & Ly & Cy).
    pose proof (g_wh_frame s X) as F. rewrite E in F. cbn [out_st] in F. destruct F as (F1 & F2 & _).
    assert (H1 : h_on y = true) by (rewrite F1; destruct x; reflexivity).
    assert (H2 : h_wrote y = true) by (rewrite F2; destruct x; reflexivity).
    exists y. split; [exact E|]. split; [split; [exact Ly | intros _; congruence] | unfold hcomm; rewrite H1; exact H2].
  - destruct (g_wh_ok s x Lgx Hc Hv) as (y & E & Ly & Cy).
    pose proof (g_wh_frame s x) as F. rewrite E in F. cbn [out_st] in F. destruct F as (F1 & _).
    exists y. split; [exact E|]. rewrite Hon in F1.
    split; [split; [exact Ly | intro Q; congruence] | unfold hcomm; rewrite F1; exact Cy].
Qed.

(* a level-g writer applied below a header wrapper that has passed the header on (or is absent) *)
Lemma h_below_ok (f : st -> out) x :
  (forall x, frame_g x (out_st (f x))) ->
  (forall x, Lg x -> exists y, f x = Done y /\ Lg y /\ gcomm y = true) ->
  Lh x -> (h_on x = true -> h_wrote x = true) ->
  exists y, f x = Done y /\ Lh y /\ hcomm y = true.
Proof.
  intros Fr Ok (Lgx & Lhx) Hw. destruct (Ok x Lgx) as (y & E & Ly & Cy).
  pose proof (Fr x) as F. rewrite E in F. cbn [out_st] in F. destruct F as (F1 & F2 & _).
  exists y. split; [exact E|]. unfold hcomm. rewrite F1.
  destruct (h_on x) eqn:Hon.
  - split; [split; [exact Ly | intros _; rewrite F2, (Hw eq_refl), Cy; reflexivity] | rewrite F2; exact (Hw eq_refl)].
  - split; [split; [exact Ly | intro Q; congruence] | exact Cy].
Qed.

Lemma h_any_ok (f : st -> out) (hf : st -> out) x :
  (forall x, frame_g x (out_st (f x))) ->
  (forall x, Lg x -> exists y, f x = Done y /\ Lg y /\ gcomm y = true) ->
  (forall x, hf x = if h_on x then bnd (if h_wrote x then Done x else h_wh 200 x) f else f x) ->
  Lh x -> exists y, hf x = Done y /\ Lh y /\ hcomm y = true.
Proof.
  intros Fr Ok Def L. rewrite Def. destruct (h_on x) eqn:Hon.
  - destruct (h_wrote x) eqn:Hw; cbn [bnd].
    + apply (h_below_ok f x Fr Ok L). auto.
    + destruct (h_wh_ok 200 x L) as (y1 & E1 & L1 & C1); [unfold hcomm; rewrite Hon; exact Hw | reflexivity |].
      rewrite E1. cbn [bnd].
      pose proof (h_wh_frame 200 x) as F. rewrite E1 in F. cbn [out_st] in F. destruct F as (F1 & _).
      apply (h_below_ok f y1 Fr Ok L1). intros _. unfold hcomm in C1. rewrite F1, Hon in C1. exact C1.
  - apply (h_below_ok f x Fr Ok L). intro Q. congruence.
Qed.
Lemma h_wr_ok b x : Lh x -> exists y, h_wr b x = Done y /\ Lh y /\ hcomm y = true.
Proof. apply (h_any_ok (g_wr b) (h_wr b)); [apply g_wr_frame | apply g_wr_ok | reflexivity]. Qed.
Lemma h_fl_ok x : Lh x -> exists y, h_fl x = Done y /\ Lh y /\ hcomm y = true.
Proof. apply (h_any_ok g_fl h_fl); [apply g_fl_frame | apply g_fl_ok | reflexivity]. Qed.

(* answering on a stack on which nothing has been passed on yet *)
Lemma answer_ok code t x h' : Lh x -> hcomm x = false -> valid_code code = true ->
  exists z, bnd (h_wh code (set_chdr x h')) (h_wr t) = Done z /\ Lh z /\ hcomm z = true.
Proof.
  intros L C V. destruct (h_wh_ok code (set_chdr x h') (Lh_chdr x h' L)) as (y & E & Ly & Cy); [rewrite hcomm_chdr; exact C | exact V |].
  rewrite E. cbn [bnd]. apply h_wr_ok. exact Ly.
Qed.
Lemma uncommitted_cm x : Lh x -> hcomm x = false -> cm x = None.
Proof.
  intros ((L1 & L2) & L3) C. unfold hcomm in C.
  assert (G : gcomm x = false) by (destruct (h_on x); [rewrite <- (L3 eq_refl); exact C | exact C]).
  unfold gcomm in G. destruct (gz_on x).
  - destruct (L2 eq_refl) as (A & _). rewrite A in G. destruct (cm x); [discriminate G | reflexivity].
  - destruct (cm x); [discriminate G | reflexivity].
Qed.

Lemma b_wh_ok s x : Lb x -> bcomm x = false -> valid_code s = true ->
  exists y, b_wh s x = Done y /\ Lb y /\ bcomm y = true.
Proof.
  intros (Lhx & Lbx & Vx) Hc Hv. unfold bcomm in Hc. unfold b_wh. destruct (b_active x) eqn:Ba.
  - rewrite Hc. specialize (Lbx eq_refl). rewrite Hc in Lbx. cbn [andb] in Lbx.
    destruct (should_buffer (b_mode x) (b_hdr x)); cbn [negb].
    + eexists; split; [reflexivity|]. unfold Lb, bcomm, b_active in *. destruct x; cbn in *. rewrite Ba.
      split; [split; [exact Lhx | split; [intros _; exact Lbx | exact Hv]] | reflexivity].
    + set (X1 := set_b x (b_mode x) true true s (b_hdr x) (b_buf x)).
      destruct (h_wh_ok s (set_chdr X1 (hcopy (b_hdr X1) (chdr X1)))) as (y & E & Ly & Cy); [apply Lh_chdr, Lh_setb; exact Lhx | | exact Hv |].
      { rewrite hcomm_chdr. unfold X1. rewrite hcomm_setb. congruence. }
      pose proof (h_wh_frame s (set_chdr X1 (hcopy (b_hdr X1) (chdr X1)))) as F. rewrite E in F. cbn [out_st] in F.
      destruct F as (_ & F2 & F3 & F4 & _ & F6).
      assert (Q1 : b_mode y = b_mode x) by (rewrite F2; destruct x; reflexivity).
      assert (Q2 : b_wrote y = true) by (rewrite F3; destruct x; reflexivity).
      assert (Q3 : b_stream y = true) by (rewrite F4; destruct x; reflexivity).
      assert (Q4 : b_status y = s) by (rewrite F6; destruct x; reflexivity).
      exists y. split; [exact E|]. unfold Lb, bcomm, b_active in *. rewrite Q1, Ba, Q2, Q3, Q4.
      split; [split; [exact Ly | split; [intros _; rewrite Cy; reflexivity | exact Hv]] | reflexivity].
  - destruct (h_wh_ok s x Lhx Hc Hv) as (y & E & Ly & Cy).
    pose proof (h_wh_frame s x) as F. rewrite E in F. cbn [out_st] in F. destruct F as (_ & F2 & _ & _ & _ & F6).
    exists y. split; [exact E|]. unfold Lb, bcomm, b_active in *. rewrite F2, Ba, F6.
    split; [split; [exact Ly | split; [intro Q; discriminate Q | exact Vx]] | exact Cy].
Qed.

Lemma b_below_ok (f : st -> out) x :
  (forall x, frame_h x (out_st (f x))) ->
  (forall x, Lh x -> exists y, f x = Done y /\ Lh y /\ hcomm y = true) ->
  Lb x -> (b_active x = true -> b_wrote x = true /\ b_stream x = true) ->
  exists y, f x = Done y /\ Lb y /\ bcomm y = true.
Proof.
  intros Fr Ok (Lhx & Lbx & Vx) Hw. destruct (Ok x Lhx) as (y & E & Ly & Cy).
  pose proof (Fr x) as F. rewrite E in F. cbn [out_st] in F. destruct F as (_ & F2 & F3 & F4 & _ & F6).
  exists y. split; [exact E|]. unfold Lb, bcomm, b_active in *. rewrite F2, F3, F4, F6.
  destruct (match b_mode x with TOff => false | _ => true end).
  - destruct (Hw eq_refl) as [W1 W2]. rewrite W1, W2.
    split; [split; [exact Ly | split; [intros _; rewrite Cy; reflexivity | exact Vx]] | reflexivity].
  - split; [split; [exact Ly | split; [intro Q; discriminate Q | exact Vx]] | exact Cy].
Qed.

Lemma b_tail_ok (f : st -> out) (g : st -> st) x :
  (forall x, frame_h x (out_st (f x))) ->
  (forall x, Lh x -> exists y, f x = Done y /\ Lh y /\ hcomm y = true) ->
  (forall x, Lb x -> Lb (g x) /\ bcomm (g x) = bcomm x) ->
  Lb x -> b_active x = true -> b_wrote x = true ->
  exists y, (if b_stream x then f x else Done (g x)) = Done y /\ Lb y /\ bcomm y = true.
Proof.
  intros Fr Ok Hg L Ba Bw. destruct (b_stream x) eqn:Bs.
  - apply (b_below_ok f x Fr Ok L). auto.
  - destruct (Hg x L) as [L' C']. exists (g x). split; [reflexivity|]. split; [exact L'|].
    rewrite C'. unfold bcomm. rewrite Ba. exact Bw.
Qed.

Lemma b_any_ok (f : st -> out) (g : st -> st) (bf : st -> out) x :
  (forall x, frame_h x (out_st (f x))) ->
  (forall x, Lh x -> exists y, f x = Done y /\ Lh y /\ hcomm y = true) ->
  (forall x, Lb x -> Lb (g x) /\ bcomm (g x) = bcomm x) ->
  (forall x, bf x = if b_active x then bnd (if b_wrote x then Done x else b_wh 200 x)
                                         (fun x1 => if b_stream x1 then f x1 else Done (g x1)) else f x) ->
  Lb x -> exists y, bf x = Done y /\ Lb y /\ bcomm y = true.
Proof.
  intros Fr Ok Hg Def L. rewrite Def. destruct (b_active x) eqn:Ba.
  - destruct (b_wrote x) eqn:Bw; cbn [bnd].
    + apply (b_tail_ok f g x Fr Ok Hg L Ba Bw).
    + destruct (b_wh_ok 200 x L) as (y1 & E1 & L1 & C1); [unfold bcomm; rewrite Ba; exact Bw | reflexivity |].
      rewrite E1. cbn [bnd].
      pose proof (b_wh_on 200 x) as F. rewrite E1 in F. cbn [out_st] in F. destruct F as (_ & _ & F3).
      assert (Ba1 : b_active y1 = true) by (unfold b_active in *; rewrite F3; exact Ba).
      apply (b_tail_ok f g y1 Fr Ok Hg L1 Ba1). unfold bcomm in C1. rewrite Ba1 in C1. exact C1.
  - apply (b_below_ok f x Fr Ok L). intro Q. congruence.
Qed.
Lemma b_wr_ok b x : Lb x -> exists y, b_wr b x = Done y /\ Lb y /\ bcomm y = true.
Proof.
  apply (b_any_ok (h_wr b) (fun x1 => set_b x1 (b_mode x1) (b_wrote x1) (b_stream x1) (b_status x1) (b_hdr x1) (b_buf x1 ++ b)) (b_wr b));
    [apply h_wr_frame | apply h_wr_ok | | reflexivity].
  intros y L. destruct y; split; [exact L | reflexivity].
Qed.
Lemma b_fl_ok x : Lb x -> exists y, b_fl x = Done y /\ Lb y /\ bcomm y = true.
Proof.
  apply (b_any_ok h_fl (fun x1 => x1) b_fl); [apply h_fl_frame | apply h_fl_ok | | reflexivity].
  intros y L. split; [exact L | reflexivity].
Qed.
Lemma b_sethdr_ok k v x : Lb x -> Lb (b_sethdr k v x) /\ bcomm (b_sethdr k v x) = bcomm x.
Proof.
  intro L. unfold b_sethdr. destruct (b_active x); destruct x; split; first [exact L | reflexivity].
Qed.

Lemma script_ok ops : forall x, Lb x -> wh_first (bcomm x) ops = true ->
  Lb (out_st (run_script ops x)) /\ bcomm (out_st (run_script ops x)) = bcomm x || touched ops /\
  (forall y, run_script ops x = Pan y -> panics ops = true).
Proof.
  induction ops as [|o ops IH]; intros x L W.
  - cbn. rewrite orb_false_r. split; [exact L|]. split; [reflexivity|]. intros y Q; discriminate Q.
  - destruct o as [k v|s|b| |pv|b]; [| | | | |destruct b as [|b0 b]; [cbn [run_script step b_rf bnd]; exact (IH x L W)|]];
      cbn [run_script step b_rf wh_first touched is_write_op orb panics] in *.
    + destruct (b_sethdr_ok k v x L) as [L' C']. cbn [bnd]. rewrite <- C' in W |- *. exact (IH _ L' W).
    + apply andb_true_iff in W as [W Wr]. apply andb_true_iff in W as [W W3]. apply andb_true_iff in W as [W1 W2].
      destruct (b_wh_ok s x L) as (y & E & Ly & Cy); [destruct (bcomm x); [discriminate W1|reflexivity] | unfold valid_code; lia |].
      rewrite E. cbn [bnd]. assert (Wr' : wh_first (bcomm y) ops = true) by (rewrite Cy; exact Wr). destruct (IH y Ly Wr') as (A & B & C). rewrite Cy in B.
      rewrite orb_true_r. auto.
    + destruct (b_wr_ok b x L) as (y & E & Ly & Cy).
      rewrite E. cbn [bnd]. assert (Wr' : wh_first (bcomm y) ops = true) by (rewrite Cy; exact W). destruct (IH y Ly Wr') as (A & B & C). rewrite Cy in B.
      rewrite orb_true_r. auto.
    + destruct (b_fl_ok x L) as (y & E & Ly & Cy).
      rewrite E. cbn [bnd]. assert (Wr' : wh_first (bcomm y) ops = true) by (rewrite Cy; exact W). destruct (IH y Ly Wr') as (A & B & C). rewrite Cy in B.
      rewrite orb_true_r. auto.
    + cbn. rewrite orb_false_r. auto.
    + destruct (b_wr_ok (b0 :: b) x L) as (y & E & Ly & Cy).
      rewrite E. cbn [bnd]. assert (Wr' : wh_first (bcomm y) ops = true) by (rewrite Cy; exact W). destruct (IH y Ly Wr') as (A & B & C). rewrite Cy in B.
      rewrite orb_true_r. auto.
Qed.

(* what a handler hands back to the directive around it *)
Definition Rh (r : hres) : Prop :=
  match r with
  | HRet s e y => Lh y /\ ((400 <=? s) = true -> hcomm y = false /\ valid_code s = true)
  | HPan y => Lh y /\ hcomm y = false
  end.

Lemma Lb_uncommitted y : Lb y -> bcomm y = false -> hcomm y = false.
Proof.
  intros (_ & Lby & _) C. unfold bcomm in C. destruct (b_active y); [|exact C].
  rewrite <- (Lby eq_refl), C. reflexivity.
Qed.

Lemma body_out_ok code (buf : bytes) y h' : Lh y -> hcomm y = false -> valid_code code = true ->
  exists z, bnd (h_wh code (set_chdr y h')) (fun z => match buf with [] => Done z | _ => h_wr buf z end) = Done z /\ Lh z.
Proof.
  intros L C V. destruct buf as [|b0 buf].
  - destruct (h_wh_ok code (set_chdr y h') (Lh_chdr y h' L)) as (z & E & Lz & _); [rewrite hcomm_chdr; exact C | exact V |].
    rewrite E. exists z. auto.
  - destruct (answer_ok code (b0 :: buf) y h' L C V) as (z & E & Lz & _). exists z. auto.
Qed.

Lemma templates_ok m ops ret err X :
  handler_contract ops ret = true -> panics_after_write ops = false ->
  Lh X -> hcomm X = false -> b_mode X = TOff -> valid_code (b_status X) = true ->
  Rh (templates_mw m (probe ops ret err) X).
Proof.
  intros Hc Hp LX CX BX VX.
  apply andb_true_iff in Hc as [Hw Hr].
  set (X0 := enter_templates m X).
  assert (L0 : Lb X0).
  { unfold X0. destruct m; cbn [enter_templates].
    - split; [exact LX|]. split; [unfold b_active; rewrite BX; intro Q; discriminate Q | exact VX].
    - split; [apply Lh_setb; exact LX|]. rewrite hcomm_setb, CX. destruct X; split; reflexivity.
    - split; [apply Lh_setb; exact LX|]. rewrite hcomm_setb, CX. destruct X; split; reflexivity.
    - split; [apply Lh_setb; exact LX|]. rewrite hcomm_setb, CX. destruct X; split; reflexivity. }
  assert (C0 : bcomm X0 = false).
  { unfold X0, bcomm. destruct m; cbn [enter_templates]; [unfold b_active; rewrite BX; exact CX | | |]; destruct X; reflexivity. }
  assert (M0 : b_mode X0 = m) by (unfold X0; destruct m; [exact BX | | |]; destruct X; reflexivity).
  assert (W0 : wh_first (bcomm X0) ops = true) by (rewrite C0; exact Hw).
  destruct (script_ok ops X0 L0 W0) as (Ly & Cy & Py). rewrite C0 in Cy. cbn [orb] in Cy.
  pose proof (run_script_on ops X0) as (_ & _ & My). rewrite M0 in My.
  assert (Hprobe : probe ops ret err X0 = match run_script ops X0 with Done y => HRet ret err y | Pan y => HPan y end) by reflexivity.
  assert (Hpan : forall y, run_script ops X0 = Pan y -> Rh (HPan y)).
  { intros y R. rewrite R in Ly, Cy. cbn [out_st] in Ly, Cy.
    unfold panics_after_write in Hp. rewrite (Py y R), andb_true_r in Hp. rewrite Hp in Cy.
    split; [destruct Ly as (Q & _); exact Q | exact (Lb_uncommitted y Ly Cy)]. }
  assert (Herr : forall y, run_script ops X0 = Done y -> (400 <=? ret) = true -> hcomm y = false /\ valid_code ret = true).
  { intros y R H4. rewrite R in Ly, Cy. cbn [out_st] in Ly, Cy.
    destruct (touched ops); [lia|]. split; [exact (Lb_uncommitted y Ly Cy) | unfold valid_code; lia]. }
  unfold templates_mw, templates_mw_p.
  destruct m eqn:Em.
  - change X with X0. rewrite Hprobe. destruct (run_script ops X0) as [y|y] eqn:R.
    + cbn [out_st] in Ly. split; [destruct Ly as (Q & _); exact Q | exact (Herr y eq_refl)].
    + exact (Hpan y eq_refl).
  - unfold templates_on_p, buf_reset. change (set_b X TExt false false 200 [] []) with X0. rewrite Hprobe.
    destruct (run_script ops X0) as [y|y] eqn:R; [|exact (Hpan y eq_refl)].
    cbn [out_st] in Ly, Cy, My. destruct Ly as (Lhy & Lby & Vy).
    assert (Ba : b_active y = true) by (unfold b_active; rewrite My; reflexivity). specialize (Lby Ba).
    destruct (b_stream y || (300 <=? ret) || err) eqn:Cond.
    + destruct (ret <? 400) eqn:R4.
      * unfold b_write_buffered. destruct (b_wrote y && negb (b_stream y)) eqn:Wb.
        -- apply andb_true_iff in Wb as [W1 W2]. destruct (b_stream y); [discriminate W2|]. rewrite W1 in Lby. cbn [andb] in Lby.
           destruct (body_out_ok (b_status y) (b_buf y) y (hcopy (b_hdr y) (chdr y)) Lhy (eq_sym Lby) Vy) as (z & E & Lz).
           rewrite E. split; [exact Lz | intro Q; lia].
        -- split; [exact Lhy | intro Q; lia].
      * split; [exact Lhy | intro Q; exact (Herr y eq_refl Q)].
    + apply orb_false_iff in Cond as [Cond _]. apply orb_false_iff in Cond as [Bs _].
      rewrite Bs, andb_false_r in Lby.
      destruct (contains (b_buf y) TPL_OPEN).
      * split; [exact Lhy | intros _; split; [exact (eq_sym Lby) | reflexivity]].
      * match goal with |- context [set_chdr y ?H] =>
          destruct (body_out_ok (b_status y) (b_buf y) y H Lhy (eq_sym Lby) Vy) as (z & E & Lz) end.
        cbv zeta. rewrite E. split; [exact Lz | intro Q; discriminate Q].
  - unfold templates_on_p, buf_reset. change (set_b X TByCT false false 200 [] []) with X0. rewrite Hprobe.
    destruct (run_script ops X0) as [y|y] eqn:R; [|exact (Hpan y eq_refl)].
    cbn [out_st] in Ly, Cy, My. destruct Ly as (Lhy & Lby & Vy).
    assert (Ba : b_active y = true) by (unfold b_active; rewrite My; reflexivity). specialize (Lby Ba).
    destruct (b_stream y || (300 <=? ret) || err) eqn:Cond.
    + destruct (ret <? 400) eqn:R4.
      * unfold b_write_buffered. destruct (b_wrote y && negb (b_stream y)) eqn:Wb.
        -- apply andb_true_iff in Wb as [W1 W2]. destruct (b_stream y); [discriminate W2|]. rewrite W1 in Lby. cbn [andb] in Lby.
           destruct (body_out_ok (b_status y) (b_buf y) y (hcopy (b_hdr y) (chdr y)) Lhy (eq_sym Lby) Vy) as (z & E & Lz).
           rewrite E. split; [exact Lz | intro Q; lia].
        -- split; [exact Lhy | intro Q; lia].
      * split; [exact Lhy | intro Q; exact (Herr y eq_refl Q)].
    + apply orb_false_iff in Cond as [Cond _]. apply orb_false_iff in Cond as [Bs _].
      rewrite Bs, andb_false_r in Lby.
      destruct (contains (b_buf y) TPL_OPEN).
      * split; [exact Lhy | intros _; split; [exact (eq_sym Lby) | reflexivity]].
      * match goal with |- context [set_chdr y ?H] =>
          destruct (body_out_ok (b_status y) (b_buf y) y H Lhy (eq_sym Lby) Vy) as (z & E & Lz) end.
        cbv zeta. rewrite E. split; [exact Lz | intro Q; discriminate Q].
  - unfold templates_on_p, buf_reset. change (set_b X TNoMatch false false 200 [] []) with X0. rewrite Hprobe.
    destruct (run_script ops X0) as [y|y] eqn:R; [|exact (Hpan y eq_refl)].
    cbn [out_st] in Ly, Cy, My. destruct Ly as (Lhy & Lby & Vy).
    assert (Ba : b_active y = true) by (unfold b_active; rewrite My; reflexivity). specialize (Lby Ba).
    destruct (b_stream y || (300 <=? ret) || err) eqn:Cond.
    + destruct (ret <? 400) eqn:R4.
      * unfold b_write_buffered. destruct (b_wrote y && negb (b_stream y)) eqn:Wb.
        -- apply andb_true_iff in Wb as [W1 W2]. destruct (b_stream y); [discriminate W2|]. rewrite W1 in Lby. cbn [andb] in Lby.
           destruct (body_out_ok (b_status y) (b_buf y) y (hcopy (b_hdr y) (chdr y)) Lhy (eq_sym Lby) Vy) as (z & E & Lz).
           rewrite E. split; [exact Lz | intro Q; lia].
        -- split; [exact Lhy | intro Q; lia].
      * split; [exact Lhy | intro Q; exact (Herr y eq_refl Q)].
    + apply orb_false_iff in Cond as [Cond _]. apply orb_false_iff in Cond as [Bs _].
      rewrite Bs, andb_false_r in Lby.
      destruct (contains (b_buf y) TPL_OPEN).
      * split; [exact Lhy | intros _; split; [exact (eq_sym Lby) | reflexivity]].
      * match goal with |- context [set_chdr y ?H] =>
          destruct (body_out_ok (b_status y) (b_buf y) y H Lhy (eq_sym Lby) Vy) as (z & E & Lz) end.
        cbv zeta. rewrite E. split; [exact Lz | intro Q; discriminate Q].
Qed.

Definition status_ok (c : cfg) : bool :=
  match c_status c with Some s => (200 <=? s) && (s <=? 999) | None => true end.

Lemma mid_ok rd rule mm it (T : st -> hres) x :
  (forall s, rule = Some s -> 200 <= s <= 999) ->
  Lh x -> hcomm x = false -> Rh (T (enter_mime mm x)) -> Rh (mid rd rule mm it T x).
Proof.
  intros Hrule L C HT. unfold mid, redir_mw, status_mw, mime_mw, internal_mw.
  destruct rd.
  - destruct (answer_ok 302 REDIR_BODY x (hset (hset (chdr x) K_LOC V_THERE) K_CT V_HTML) L C eq_refl) as (z & E & Lz & _).
    rewrite E. split; [exact Lz | intro Q; discriminate Q].
  - destruct rule as [s|].
    + specialize (Hrule s eq_refl). destruct (s <? 400) eqn:S4.
      * destruct (h_wh_ok s x L C) as (z & E & Lz & _); [unfold valid_code; lia|].
        rewrite E. split; [exact Lz | intro Q; discriminate Q].
      * split; [exact L | intros _; split; [exact C | unfold valid_code; lia]].
    + destruct it; [split; [|intros _; split; [|reflexivity]]|exact HT].
      * unfold enter_mime. destruct mm; [apply Lh_chdr|]; exact L.
      * unfold enter_mime. destruct mm; [rewrite hcomm_chdr|]; exact C.
Qed.

Lemma error_page_ok et m code y : Lh y -> hcomm y = false -> valid_code code = true ->
  exists z, error_page et m code y = Done z /\ Lh z.
Proof.
  intros L C V. unfold error_page, default_error3, text_response.
  rewrite (uncommitted_cm y L C).
  destruct (find_page m code) as [[content|]|].
  - destruct content as [|b0 content].
    + destruct (h_wh_ok code (set_chdr y (hset (chdr y) K_CT V_HTML)) (Lh_chdr y _ L)) as (z & E & Lz & _); [rewrite hcomm_chdr; exact C | exact V |].
      rewrite E. exists z. auto.
    + destruct (answer_ok code (b0 :: content) y (hset (chdr y) K_CT V_HTML) L C V) as (z & E & Lz & _).
      exists z. split; [|exact Lz].
      unfold bnd in E |- *. destruct (h_wh code (set_chdr y (hset (chdr y) K_CT V_HTML))) as [y0|y0]; [|discriminate E].
      rewrite E. reflexivity.
  - destruct (answer_ok code (et code) y (hset (hset (chdr y) K_CT V_TEXT) K_XCTO V_NOSNIFF) L C V) as (z & E & Lz & _). eauto.
  - destruct (answer_ok code (et code) y (hset (hset (chdr y) K_CT V_TEXT) K_XCTO V_NOSNIFF) L C V) as (z & E & Lz & _). eauto.
Qed.

Lemma recovery_ok et m y : Lh y -> hcomm y = false -> Rh (recovery et m y).
Proof.
  intros L C. unfold recovery.
  assert (A : exists z, (match m with
         | EDebug => text_response h_wh h_wr 500 PANIC_MARK y
         | _ => error_page et m 500 y
         end) = Done z /\ Lh z).
  { destruct m; try (apply error_page_ok; auto).
    unfold text_response.
    destruct (answer_ok 500 PANIC_MARK y (hset (hset (chdr y) K_CT V_TEXT) K_XCTO V_NOSNIFF) L C eq_refl) as (z & E & Lz & _). eauto. }
  destruct A as (z & E & Lz). rewrite E. split; [exact Lz | intro Q; discriminate Q].
Qed.

Lemma errors_ok et ep m (inner : st -> hres) x : Rh (inner x) -> Rh (errors_mw et ep m inner x).
Proof.
  intro R. unfold errors_mw. destruct m eqn:Em; [exact R| | |];
  (destruct (inner x) as [s e y|y]; [|destruct R as [L C]; apply recovery_ok; assumption]);
  destruct R as [L R]; destruct (400 <=? s) eqn:S4.
  - rewrite ?andb_false_r; cbn [andb]; rewrite ?S4. destruct (R eq_refl) as [C V].
    destruct (error_page_ok et EPlain s y L C V) as (z & E & Lz). rewrite E. split; [exact Lz | intro Q; discriminate Q].
  - rewrite ?andb_false_r; cbn [andb]; rewrite ?S4. split; [exact L | rewrite S4; intro Q; discriminate Q].
  - destruct (R eq_refl) as [C V]. destruct e; cbn [andb].
    + destruct (answer_ok s (errmsg ep s) y (hset (chdr y) K_CT V_TEXT) L C V) as (z & E & Lz & _).
      rewrite E. split; [exact Lz | intro Q; discriminate Q].
    + destruct (error_page_ok et EDebug s y L C V) as (z & E & Lz). rewrite E. split; [exact Lz | intro Q; discriminate Q].
  - rewrite ?andb_false_r; cbn [andb]; rewrite ?S4. split; [exact L | rewrite S4; intro Q; discriminate Q].
  - rewrite ?andb_false_r; cbn [andb]; rewrite ?S4. destruct (R eq_refl) as [C V].
    destruct (error_page_ok et (EPages pages generic) s y L C V) as (z & E & Lz). rewrite E. split; [exact Lz | intro Q; discriminate Q].
  - rewrite ?andb_false_r; cbn [andb]; rewrite ?S4. split; [exact L | rewrite S4; intro Q; discriminate Q].
Qed.

(* seen from outside the gzip wrapper: the bare connection *)
Definition Rc (r : hres) : Prop :=
  match r with
  | HRet s e y => sup y = 0%nat /\ ((400 <=? s) = true -> cm y = None /\ valid_code s = true)
  | HPan y => sup y = 0%nat /\ cm y = None
  end.
Lemma Rh_Rc r : Rh r -> Rc r.
Proof.
  destruct r as [s e y|y]; cbn.
  - intros [L R]. split; [destruct L as ((Q & _) & _); exact Q|]. intro S4. destruct (R S4) as [C V].
    split; [exact (uncommitted_cm y L C) | exact V].
  - intros [L C]. split; [destruct L as ((Q & _) & _); exact Q | exact (uncommitted_cm y L C)].
Qed.
Lemma c_wr_sup g x : sup (out_st (c_wr g x)) = sup x.
Proof.
  unfold c_wr. destruct (cm x) eqn:E.
  - rewrite E. destruct (bodyless z); destruct x; reflexivity.
  - unfold commit at 1. cbn [cm set_conn]. destruct (bodyless 200); destruct x; reflexivity.
Qed.
Lemma g_close_sup x : sup (out_st (g_close x)) = sup x.
Proof.
  unfold g_close. destruct (gz_on x && gz_created x); [|reflexivity].
  match goal with |- context [set_gz x ?a ?b ?c ?d ?e ?f ?g] => set (X1 := set_gz x a b c d e f g) end.
  assert (S1 : sup X1 = sup x) by (destruct x; reflexivity).
  destruct (gz_hdr_out X1); cbn [bnd].
  - rewrite c_wr_sup. exact S1.
  - destruct (c_wr_done GzHead X1) as [z Hz]. pose proof (c_wr_sup GzHead X1) as Q. rewrite Hz in Q |- *. cbn [bnd out_st] in *.
    rewrite c_wr_sup. congruence.
Qed.
Lemma default_error1_ok et code y : cm y = None -> sup y = 0%nat -> valid_code code = true ->
  exists z, default_error1 et code y = Done z /\ sup z = 0%nat.
Proof.
  intros C S V. destruct y. cbn in C, S. subst.
  unfold default_error1, text_response, c_wh, c_wr; norm. rewrite V; norm.
  destruct (bodyless code); norm; eexists; split; reflexivity.
Qed.

Lemma gzip_ok et act (inner : st -> hres) x :
  Rh (inner (enter_gzip act x)) -> Rc (gzip_mw et act inner x).
Proof.
  intro R. unfold gzip_mw, gzip_mw_p, gw_reset. unfold enter_gzip in R. destruct act; [|apply Rh_Rc, R].
  set (x0 := set_gz x true false false false false false []) in *.
  destruct (inner x0) as [s e y|y].
  - destruct R as [L R]. destruct (400 <=? s) eqn:S4.
    + destruct (R eq_refl) as [C V].
      destruct (default_error1_ok et s y (uncommitted_cm y L C)) as (z & E & Sz); [destruct L as ((Q & _) & _); exact Q | exact V |].
      rewrite E. destruct (g_close_done z) as [z' Hz]. pose proof (g_close_sup z) as Q. rewrite Hz in Q |- *. cbn in Q.
      split; [congruence | intro W; first [discriminate W | congruence]].
    + destruct (g_close_done y) as [z' Hz]. pose proof (g_close_sup y) as Q. rewrite Hz in Q |- *. cbn in Q.
      split; [destruct L as ((Q0 & _) & _); congruence | intro W; first [discriminate W | congruence]].
  - destruct R as [L C].
    assert (G : g_close y = Done y).
    { destruct L as ((L1 & L2) & L3). unfold g_close. destruct (gz_on y) eqn:Gon; [|reflexivity].
      destruct (L2 eq_refl) as (A & _ & B).
      assert (Gc : gcomm y = false).
      { unfold hcomm in C. destruct (h_on y); [rewrite <- (L3 eq_refl); exact C | exact C]. }
      unfold gcomm in Gc. rewrite Gon in Gc.
      destruct (gz_created y); [rewrite (B eq_refl) in Gc; discriminate Gc | reflexivity]. }
    rewrite G. cbn [out_st]. split; [destruct L as ((Q & _) & _); exact Q | exact (uncommitted_cm y L C)].
Qed.

Lemma log_ok et lg (inner : st -> hres) x : Rc (inner x) -> Rc (log_mw et lg inner x).
Proof.
  intro R. unfold log_mw, log_next. destruct lg; [|exact R].
  destruct (inner x) as [s e y|y].
  - destruct R as [S R]. destruct (400 <=? s) eqn:S4; [|split; [exact S | intro W; first [discriminate W | congruence]]].
    destruct (R eq_refl) as [C V]. destruct (default_error1_ok et s y C S V) as (z & E & Sz).
    rewrite E. split; [exact Sz | intro W; first [discriminate W | congruence]].
  - destruct R as [S C]. cbn. destruct (default_error1_ok et 500 y C S eq_refl) as (z & E & Sz).
    rewrite E. split; [exact Sz | intro W; first [discriminate W | congruence]].
Qed.

Lemma finish_sup x : sup (finish x) = sup x.
Proof. unfold finish. destruct (cm x); destruct x; reflexivity. Qed.
Lemma server_ok et (chain : st -> hres) : Rc (chain st0) -> sup (server et chain) = 0%nat.
Proof.
  intro R. unfold server. destruct (chain st0) as [s e y|y].
  - destruct R as [S R]. destruct (400 <=? s) eqn:S4; [|rewrite finish_sup; exact S].
    destruct (R eq_refl) as [C V]. destruct (default_error1_ok et s y C S V) as (z & E & Sz).
    rewrite E, finish_sup. exact Sz.
  - destruct R as [S C]. destruct (default_error1_ok et 500 y C S eq_refl) as (z & E & Sz).
    rewrite E. cbn [out_st]. rewrite finish_sup. exact Sz.
Qed.

Lemma entry_Lh act hd : Lh (entry act hd) /\ hcomm (entry act hd) = false /\ b_mode (entry act hd) = TOff /\
                       valid_code (b_status (entry act hd)) = true.
Proof.
  destruct act, hd; (split; [|repeat split; reflexivity]); unfold Lh, Lg; cbn; repeat split; intros; try reflexivity; try discriminate.
Qed.

(* THE statement: under the handler contract, whatever the script (any interleaving of header
   sets, Writes and Flushes, WriteHeader or not, any statuses, a panic before writing), in
   every configuration, net/http sees exactly one header commit *)
Lemma single_commit_all et c path ae ops ret err :
  handler_contract ops ret = true -> panics_after_write ops = false -> status_ok c = true ->
  sup (serve et c path ae ops ret err) = 0%nat.
Proof.
  intros Hc Hp Hst. rewrite serve_eq. apply server_ok, log_ok, gzip_ok.
  set (act := c_gzip c && ae). set (hd := c_header c).
  set (T := templates_mw (tmode_of c path) (probe ops ret err)).
  assert (Rule : forall s, status_rule c path = Some s -> 200 <= s <= 999).
  { intros s Q. unfold status_rule in Q. unfold status_ok in Hst. destruct (c_status c) as [s0|]; [|discriminate Q].
    destruct (has_pref _ _); [|discriminate Q]. injection Q as <-. lia. }
  assert (Gen : forall x, Lh x -> hcomm x = false -> b_mode x = TOff -> valid_code (b_status x) = true ->
                Rh (errors_mw et (eff_path c path) (eff_errors c)
                      (mid (redir_hit c path) (status_rule c path) (mime_ct c path) (internal_hit c path) T) x)).
  { intros x L C B V. apply errors_ok, mid_ok; try assumption.
    apply templates_ok; try assumption; unfold enter_mime.
    - destruct (mime_ct c path); [apply Lh_chdr|]; exact L.
    - destruct (mime_ct c path); [rewrite hcomm_chdr|]; exact C.
    - destruct (mime_ct c path); [destruct x|]; exact B.
    - destruct (mime_ct c path); [destruct x|]; exact V. }
  destruct (entry_Lh act hd) as (L & C & B & V).
  pose proof (Gen (entry act hd) L C B V) as R.
  unfold header_mw. unfold entry, enter_header in R. destruct hd; exact R.
Qed.

(* ---------- the directives that answer themselves ---------- *)
Lemma redir_answers et c path ae ops ret err :
  redir_hit c path = true ->
  let x := serve et c path ae ops ret err in
  cm x = Some 302 /\ sup x = 0%nat /\ view x = (false, REDIR_BODY).
Proof.
  intros Hrd. rewrite serve_eq, Hrd.
  set (act := c_gzip c && ae). set (hd := c_header c).
  pose proof (fresh_entry act hd) as F0.
  assert (Fce : hget (chdr (entry act hd)) K_CE = None) by (destruct F0 as (_&_&_&_&_&_&_&_&_&F10); exact F10).
  destruct (write3 (entry act hd) (hset (hset (chdr (entry act hd)) K_LOC V_THERE) K_CT V_HTML) 302 REDIR_BODY F0) as (y & E & A); try reflexivity.
  { rewrite !hget_hset. rewrite ce_ct. change (beq K_CE K_LOC) with false. cbv iota. exact Fce. }
  rewrite (entry_gz act hd) in A.
  set (T := templates_mw (tmode_of c path) (probe ops ret err)).
  assert (Hin : mid true (status_rule c path) (mime_ct c path) (internal_hit c path) T (entry act hd) = HRet 0 false y).
  { unfold mid, redir_mw. rewrite E. reflexivity. }
  pose proof (errors_pass et (eff_path c path) (eff_errors c) _ _ 0 false y Hin eq_refl) as He.
  exact (outer_passes et (c_log c) act hd _ 0 false y 302 _ He eq_refl A).
Qed.

Lemma internal_hidden et c path ae ops ret err :
  redir_hit c path = false -> status_rule c path = None -> internal_hit c path = true ->
  let x := serve et c path ae ops ret err in
  cm x = Some 404 /\ sup x = 0%nat /\ view x = (false, expected_error_body et c path 404 false).
Proof.
  intros Hrd Hr Hit. rewrite serve_eq, Hrd, Hr, Hit.
  set (act := c_gzip c && ae). set (hd := c_header c). set (mm := mime_ct c path).
  set (inner := mid false None mm true (templates_mw (tmode_of c path) (probe ops ret err))).
  assert (Hin : inner (entry act hd) = HRet 404 false (entry3 act hd mm)) by reflexivity.
  pose proof (fresh_entry3 act hd mm) as F1. pose proof (entry3_gz act hd mm) as G1.
  destruct (eff_errors c) eqn:Ee.
  - destruct (eff_errors_none c Ee) as [Hg He].
    assert (Hact : act = false) by (unfold act; rewrite Hg; reflexivity).
    rewrite expected_matches, He.
    revert Hin G1 F1. rewrite Hact. intros Hin G1 F1.
    exact (outer_fallback_ret et (c_log c) hd _ 404 false _ Hin F1 G1 eq_refl eq_refl eq_refl).
  - destruct (errors_ret et (eff_path c path) EPlain _ _ _ 404 false Hin F1 ltac:(discriminate) eq_refl eq_refl eq_refl) as (y & e' & E & A).
    rewrite G1 in A.
    replace (expected_error_body et c path 404 false) with (err_expected et (eff_path c path) EPlain 404 false).
    + exact (outer_answered et (c_log c) act hd _ e' y 404 _ E A).
    + rewrite expected_matches. unfold eff_errors in Ee.
      destruct (c_errors c); try discriminate; destruct (c_gzip c); try discriminate; reflexivity.
  - destruct (errors_ret et (eff_path c path) EDebug _ _ _ 404 false Hin F1 ltac:(discriminate) eq_refl eq_refl eq_refl) as (y & e' & E & A).
    rewrite G1 in A.
    replace (expected_error_body et c path 404 false) with (err_expected et (eff_path c path) EDebug 404 false).
    + exact (outer_answered et (c_log c) act hd _ e' y 404 _ E A).
    + rewrite expected_matches. unfold eff_errors in Ee.
      destruct (c_errors c); try discriminate; destruct (c_gzip c); try discriminate; reflexivity.
  - destruct (errors_ret et (eff_path c path) (EPages pages generic) _ _ _ 404 false Hin F1 ltac:(discriminate) eq_refl eq_refl eq_refl) as (y & e' & E & A).
    rewrite G1 in A.
    replace (expected_error_body et c path 404 false) with (err_expected et (eff_path c path) (EPages pages generic) 404 false).
    + exact (outer_answered et (c_log c) act hd _ e' y 404 _ E A).
    + rewrite expected_matches. unfold eff_errors in Ee.
      destruct (c_errors c); try discriminate; destruct (c_gzip c); try discriminate; congruence.
Qed.

(* ---------- which body is served for which (status, configuration) ---------- *)
Lemma error_body_table_eq et c path code err :
  expected_error_body et c path code err = error_body_table et c path code err.
Proof.
  unfold expected_error_body, error_body_table, find_page.
  destruct (c_errors c) as [| | |pages generic]; try reflexivity.
  destruct (find (fun p => fst p =? code) pages) as [[k [content|]]|]; try reflexivity.
  all: try (destruct generic as [[content|]|]; reflexivity).
Qed.

(* ---------- limits: a request body over the limit, read before anything is written ---------- *)
Lemma limits_413 et c q n :
  c_limits c = true -> (LIMIT < q_blen q)%N -> q_rd q = Some n ->
  forallb set_ok (firstn n (q_ops q)) = true ->
  redir_hit c (q_path q) = false -> status_rule c (q_path q) = None -> internal_hit c (q_path q) = false ->
  let x := serve_req et c q in
  cm x = Some 413 /\ sup x = 0%nat /\ view x = (false, expected_error_body et c (q_path q) 413 true).
Proof.
  intros Hl Hb Hrd Hs H1 H2 H3. unfold serve_req, serve_req_p, limits_view. rewrite Hrd, Hl.
  assert (B : (LIMIT <? q_blen q)%N = true) by (apply N.ltb_lt; exact Hb). rewrite B. cbn [andb fst snd].
  exact (error_status_gets_body et c (q_path q) (q_ae q) _ 413 true Hs H1 H2 H3 ltac:(lia)).
Qed.
Lemma limits_transparent et c q :
  (q_rd q = None \/ (q_blen q <= LIMIT)%N \/ c_limits c = false) ->
  serve_req et c q = serve et c (q_path q) (q_ae q) (q_ops q) (q_ret q) (q_err q).
Proof.
  intros H. unfold serve_req, serve_req_p, limits_view.
  destruct (q_rd q); [|reflexivity].
  destruct H as [H|[H|H]]; [discriminate H | |].
  - assert (B : (LIMIT <? q_blen q)%N = false) by (apply N.ltb_ge; exact H). rewrite B, andb_false_r. reflexivity.
  - rewrite H. reflexivity.
Qed.

(* ---------- the nesting order of [chain_p] is the order of httpserver's directive list ---------- *)
Require V.Gen_C09.
Local Open Scope string_scope.
Definition chain_order : list bytes :=
  [bs "limits"; bs "request_id"; bs "log"; bs "rewrite"; bs "gzip"; bs "header"; bs "errors"; bs "redir";
   bs "status"; bs "mime"; bs "internal"; bs "templates"].
Fixpoint pos_in (l : list bytes) (k : bytes) (n : nat) : option nat :=
  match l with [] => None | x :: r => if beq x k then Some n else pos_in r k (S n) end.
Fixpoint strictly_increasing (l : list (option nat)) : bool :=
  match l with
  | Some a :: ((Some b :: _) as r) => Nat.ltb a b && strictly_increasing r
  | [Some _] => true
  | [] => true
  | _ => false
  end.
Lemma nesting_is_directive_order :
  strictly_increasing (map (fun k => pos_in V.Gen_C09.gen_directives k 0) chain_order) = true.
Proof. vm_compute. reflexivity. Qed.
