(* C05 — property theorems only. *)
Require Import V.Lib V.C05_Model V.C05_Proofs.
Open Scope N_scope.

(* soundness: no policy ever returns an unavailable backend *)
Theorem C05_first_sound : forall av i, first_select av = Some i -> nth i av false = true.
Proof. exact first_sound. Qed.
Print Assumptions C05_first_sound.
Theorem C05_hash_sound : forall av h i, hash_select av h = Some i -> nth i av false = true.
Proof. exact hash_sound. Qed.
Print Assumptions C05_hash_sound.
Theorem C05_round_robin_sound : forall av robin i, fst (rr_select av robin) = Some i -> nth i av false = true.
Proof. exact rr_sound. Qed.
Print Assumptions C05_round_robin_sound.
Theorem C05_random_sound : forall av rs i, random_select av rs = Some i -> nth i av false = true.
Proof. exact random_sound. Qed.
Print Assumptions C05_random_sound.

(* completeness: an available backend exists => one is returned (all pool sizes, states, keys,
   random streams) *)
Theorem C05_first_complete : forall av, existsb (fun b => b) av = true -> first_select av <> None.
Proof. exact first_complete. Qed.
Print Assumptions C05_first_complete.
Theorem C05_hash_complete : forall av h, existsb (fun b => b) av = true -> hash_select av h <> None.
Proof. exact hash_complete. Qed.
Print Assumptions C05_hash_complete.
Theorem C05_random_complete : forall av rs, existsb (fun b => b) av = true -> random_select av rs <> None.
Proof. exact random_complete. Qed.
Print Assumptions C05_random_complete.
Theorem C05_least_conn_complete : forall mf pool rs,
  existsb (available mf) pool = true -> least_conn_select mf pool rs <> None.
Proof. exact least_conn_complete. Qed.
Print Assumptions C05_least_conn_complete.
(* round robin: complete as long as the uint32 counter does not wrap inside the probe window *)
Theorem C05_round_robin_complete_nowrap_partial : forall av robin,
  robin + N.of_nat (length av) < U32 ->
  existsb (fun b => b) av = true -> fst (rr_select av robin) <> None.
Proof. exact rr_complete_nowrap. Qed.
Print Assumptions C05_round_robin_complete_nowrap_partial.
(* ... and the full statement fails exactly at the wrap for pool sizes that do not divide 2^32 *)
Theorem C05_round_robin_complete_wrap_refuted :
  exists av robin, existsb (fun b => b) av = true /\ fst (rr_select av robin) = None.
Proof. exact rr_complete_wrap_refuted. Qed.
Print Assumptions C05_round_robin_complete_wrap_refuted.
(* the probing coded before the fix (index += i) is incomplete for pools of 3, 5, 6, 7 ... *)
Theorem C05_hash_triangular_complete_refuted :
  exists av h, existsb (fun b => b) av = true /\ hash_select_triangular av h = None.
Proof. exact hash_triangular_complete_refuted. Qed.
Print Assumptions C05_hash_triangular_complete_refuted.

(* policy-specific clauses *)
Theorem C05_hash_sticky : forall mf pool pool' h,
  avail_vec mf pool = avail_vec mf pool' ->
  hash_select (avail_vec mf pool) h = hash_select (avail_vec mf pool') h.
Proof. exact hash_sticky. Qed.
Print Assumptions C05_hash_sticky.
Theorem C05_hash_preferred : forall av h,
  (0 < length av)%nat ->
  nth (N.to_nat (h mod N.of_nat (length av))) av false = true ->
  hash_select av h = Some (N.to_nat (h mod N.of_nat (length av))).
Proof. exact hash_preferred. Qed.
Print Assumptions C05_hash_preferred.
Theorem C05_first_earliest : forall av i, first_select av = Some i ->
  forall j, (j < i)%nat -> nth j av false = false.
Proof. exact first_earliest. Qed.
Print Assumptions C05_first_earliest.
Theorem C05_least_conn_minimal : forall mf pool rs i,
  least_conn_select mf pool rs = Some i ->
  exists h, nth_error pool i = Some h /\ available mf h = true /\
    forall h', In h' pool -> available mf h' = true -> (conns h <= conns h')%Z.
Proof. exact least_conn_minimal. Qed.
Print Assumptions C05_least_conn_minimal.
(* round robin is even: with all backends up, n consecutive selections visit each exactly once *)
Theorem C05_round_robin_even : forall av robin,
  (0 < length av)%nat -> robin + N.of_nat (length av) < U32 -> forallb (fun b => b) av = true ->
  forall j, (j < length av)%nat -> In (Some j) (rr_run av robin (length av)) /\
  length (rr_run av robin (length av)) = length av.
Proof. exact rr_even. Qed.
Print Assumptions C05_round_robin_even.

(* the upstream-level shortcuts keep both directions *)
Theorem C05_static_sound : forall av pol i,
  (forall j, pol av = Some j -> nth j av false = true) ->
  static_select av pol = Some i -> nth i av false = true.
Proof. exact static_sound. Qed.
Print Assumptions C05_static_sound.
Theorem C05_static_complete : forall av pol,
  (existsb (fun b => b) av = true -> pol av <> None) ->
  existsb (fun b => b) av = true -> static_select av pol <> None.
Proof. exact static_complete. Qed.
Print Assumptions C05_static_complete.

(* retry loop over ANY sound and complete selector, ANY failure pattern *)
Theorem C05_retry_reaches_healthy :
  forall (S : Type) (sel : S -> list bool -> option nat * S) (fails_at : nat -> nat -> bool),
  (forall st av i st', sel st av = (Some i, st') -> nth i av false = true) ->
  (forall st av, existsb (fun b => b) av = true -> fst (sel st av) <> None) ->
  forall fuel k st base failed trace g,
  length failed = length base ->
  nth g base false = true -> nth g failed false = false -> (forall k', fails_at k' g = false) ->
  (count_true (cur_avail base failed) <= fuel)%nat ->
  exists j k', fst (retry S sel fails_at fuel true k st base failed trace) = Answered j k' /\
               fails_at k' j = false /\ nth j base false = true.
Proof. exact retry_reaches_healthy. Qed.
Print Assumptions C05_retry_reaches_healthy.
Example C05_retry_nonvacuous :
  retry N (sel_of PFirst) (fun _ i => nth i [true; true; false] false) 5 true 0 0
        [true; true; true] [false; false; false] [] = (Answered 2 2, [0; 1; 2]%nat).
Proof. vm_compute. reflexivity. Qed.

Theorem C05_retry_502_when_all_fail :
  forall (S : Type) (sel : S -> list bool -> option nat * S) (fails_at : nat -> nat -> bool)
         fuel mark k st base failed trace,
  (forall k' i, fails_at k' i = true) ->
  fst (retry S sel fails_at fuel mark k st base failed trace) = BadGateway.
Proof. exact retry_502_when_all_fail. Qed.
Print Assumptions C05_retry_502_when_all_fail.

Theorem C05_retry_answer_sound :
  forall (S : Type) (sel : S -> list bool -> option nat * S) (fails_at : nat -> nat -> bool),
  (forall st av i st', sel st av = (Some i, st') -> nth i av false = true) ->
  forall fuel mark k st base failed trace j k',
  length failed = length base ->
  fst (retry S sel fails_at fuel mark k st base failed trace) = Answered j k' ->
  nth j base false = true /\ fails_at k' j = false.
Proof. exact retry_answer_sound. Qed.
Print Assumptions C05_retry_answer_sound.

Theorem C05_attempt_body_complete : forall (A : Type) nhosts (body : list A) consumed,
  (1 < nhosts)%nat -> attempt_body (buffered nhosts true) body consumed = body.
Proof. intros A. exact (@attempt_body_complete A). Qed.
Print Assumptions C05_attempt_body_complete.
Theorem C05_attempt_body_single_host_refuted :
  exists (body : list N) consumed, attempt_body (buffered 1 true) body consumed <> body.
Proof. exact attempt_body_single_host_refuted. Qed.
Print Assumptions C05_attempt_body_single_host_refuted.
