(* C05 — property theorems only. *)
Require Import V.Lib V.C05_Model V.C05_Proofs V.C05_RetryProofs V.C05_OracleProofs V.C05_RRProofs V.C05_ConcProofs V.C05_SeqProofs.
Open Scope N_scope.

(* soundness: no policy ever returns an unavailable backend *)
Theorem C05_first_sound : forall av i, first_select av = Some i -> nth i av false = true.
Proof. exact first_sound. Qed.
Print Assumptions C05_first_sound.
Theorem C05_hash_sound : forall av h i, hash_select av h = Some i -> nth i av false = true.
Proof. exact hash_sound. Qed.
Print Assumptions C05_hash_sound.
Theorem C05_round_robin_sound : forall av robin i, fst (rr_select av robin) = Some i -> nth i av false = true.
Proof. exact rr_sound. Qed.
Print Assumptions C05_round_robin_sound.
Theorem C05_random_sound : forall av rs i, random_select av rs = Some i -> nth i av false = true.
Proof. exact random_sound. Qed.
Print Assumptions C05_random_sound.

(* completeness: an available backend exists => one is returned (all pool sizes, states, keys,
   random streams) *)
Theorem C05_first_complete : forall av, existsb (fun b => b) av = true -> first_select av <> None.
Proof. exact first_complete. Qed.
Print Assumptions C05_first_complete.
Theorem C05_hash_complete : forall av h, existsb (fun b => b) av = true -> hash_select av h <> None.
Proof. exact hash_complete. Qed.
Print Assumptions C05_hash_complete.
Theorem C05_random_complete : forall av rs, existsb (fun b => b) av = true -> random_select av rs <> None.
Proof. exact random_complete. Qed.
Print Assumptions C05_random_complete.
Theorem C05_least_conn_complete : forall mf pool rs,
  existsb (available mf) pool = true -> least_conn_select mf pool rs <> None.
Proof. exact least_conn_complete. Qed.
Print Assumptions C05_least_conn_complete.
(* round robin: complete for EVERY value of the uint32 counter, the wrap included (the pool length
   is converted to uint32 by the code: pools of fewer than 2^32 hosts) *)
Theorem C05_round_robin_complete : forall av robin,
  N.of_nat (length av) < U32 ->
  existsb (fun b => b) av = true -> fst (rr_select av robin) <> None.
Proof. exact rr_complete. Qed.
Print Assumptions C05_round_robin_complete.
Example C05_round_robin_complete_nonvacuous :
  rr_select [false; false; true] 4294967294 = (Some 2%nat, 2) /\
  rr_select [false; false; true] 4294967295 = (Some 2%nat, 2) /\
  rr_run [true; true; true] 4294967294 6 = [Some 0; Some 1; Some 2; Some 0; Some 1; Some 2]%nat.
Proof. exact rr_wrap_hit. Qed.
(* the probing coded before the fix (index += i) is incomplete for pools of 3, 5, 6, 7 ... *)
Theorem C05_hash_triangular_complete_refuted :
  exists av h, existsb (fun b => b) av = true /\ hash_select_triangular av h = None.
Proof. exact hash_triangular_complete_refuted. Qed.
Print Assumptions C05_hash_triangular_complete_refuted.

(* policy-specific clauses *)
Theorem C05_hash_sticky : forall mf pool pool' h,
  avail_vec mf pool = avail_vec mf pool' ->
  hash_select (avail_vec mf pool) h = hash_select (avail_vec mf pool') h.
Proof. exact hash_sticky. Qed.
Print Assumptions C05_hash_sticky.
Theorem C05_hash_preferred : forall av h,
  (0 < length av)%nat ->
  nth (N.to_nat (h mod N.of_nat (length av))) av false = true ->
  hash_select av h = Some (N.to_nat (h mod N.of_nat (length av))).
Proof. exact hash_preferred. Qed.
Print Assumptions C05_hash_preferred.
Theorem C05_first_earliest : forall av i, first_select av = Some i ->
  forall j, (j < i)%nat -> nth j av false = false.
Proof. exact first_earliest. Qed.
Print Assumptions C05_first_earliest.
Theorem C05_least_conn_minimal : forall mf pool rs i,
  least_conn_select mf pool rs = Some i ->
  exists h, nth_error pool i = Some h /\ available mf h = true /\
    forall h', In h' pool -> available mf h' = true -> (conns h <= conns h')%Z.
Proof. exact least_conn_minimal. Qed.
Print Assumptions C05_least_conn_minimal.
(* round robin is even: with all backends up, n consecutive selections visit each exactly once,
   for EVERY counter value (also across the uint32 wrap) *)
Theorem C05_round_robin_even : forall av robin,
  (0 < length av)%nat -> N.of_nat (length av) < U32 -> forallb (fun b => b) av = true ->
  forall j, (j < length av)%nat -> In (Some j) (rr_run av robin (length av)) /\
  length (rr_run av robin (length av)) = length av.
Proof. exact rr_even. Qed.
Print Assumptions C05_round_robin_even.

(* the upstream-level shortcuts keep both directions *)
Theorem C05_static_sound : forall av pol i,
  (forall j, pol av = Some j -> nth j av false = true) ->
  static_select av pol = Some i -> nth i av false = true.
Proof. exact static_sound. Qed.
Print Assumptions C05_static_sound.
Theorem C05_static_complete : forall av pol,
  (existsb (fun b => b) av = true -> pol av <> None) ->
  existsb (fun b => b) av = true -> static_select av pol <> None.
Proof. exact static_complete. Qed.
Print Assumptions C05_static_complete.

(* retry loop abstracted to an iteration budget, over ANY sound and complete selector, ANY failure
   pattern (the discrete-time model follows below) *)
Theorem C05_retry_iter_reaches_healthy :
  forall (S : Type) (sel : S -> list bool -> option nat * S) (fails_at : nat -> nat -> bool),
  (forall st av i st', sel st av = (Some i, st') -> nth i av false = true) ->
  (forall st av, existsb (fun b => b) av = true -> fst (sel st av) <> None) ->
  forall fuel k st base failed trace g,
  length failed = length base ->
  nth g base false = true -> nth g failed false = false -> (forall k', fails_at k' g = false) ->
  (count_true (cur_avail base failed) <= fuel)%nat ->
  exists j k', fst (retry S sel fails_at fuel true k st base failed trace) = Answered j k' /\
               fails_at k' j = false /\ nth j base false = true.
Proof. exact retry_reaches_healthy. Qed.
Print Assumptions C05_retry_iter_reaches_healthy.
Example C05_retry_iter_nonvacuous :
  retry N (sel_of PFirst) (fun _ i => nth i [true; true; false] false) 5 true 0 0
        [true; true; true] [false; false; false] [] = (Answered 2 2, [0; 1; 2]%nat).
Proof. vm_compute. reflexivity. Qed.

Theorem C05_retry_502_when_all_fail :
  forall (S : Type) (sel : S -> list bool -> option nat * S) (fails_at : nat -> nat -> bool)
         fuel mark k st base failed trace,
  (forall k' i, fails_at k' i = true) ->
  fst (retry S sel fails_at fuel mark k st base failed trace) = BadGateway.
Proof. exact retry_502_when_all_fail. Qed.
Print Assumptions C05_retry_502_when_all_fail.

Theorem C05_retry_answer_sound :
  forall (S : Type) (sel : S -> list bool -> option nat * S) (fails_at : nat -> nat -> bool),
  (forall st av i st', sel st av = (Some i, st') -> nth i av false = true) ->
  forall fuel mark k st base failed trace j k',
  length failed = length base ->
  fst (retry S sel fails_at fuel mark k st base failed trace) = Answered j k' ->
  nth j base false = true /\ fails_at k' j = false.
Proof. exact retry_answer_sound. Qed.
Print Assumptions C05_retry_answer_sound.

(* with retries enabled the body is rewound for every attempt, whatever the number of hosts *)
Theorem C05_attempt_body_rewound : forall (A : Type) nhosts (body : list A) consumed,
  attempt_body (buffered nhosts true) body consumed = body.
Proof. intros A. exact (@attempt_body_complete A). Qed.
Print Assumptions C05_attempt_body_rewound.

(* ================= discrete-time model of Proxy.ServeHTTP's retry loop (runT) ================= *)

(* With retries enabled a request is answered by a healthy backend whenever one exists.
   For ANY selector that is sound and complete for the next W+1 calls, ANY fault scripts of the
   other hosts, ANY pre-existing failure records, ANY interference (envdown) on the other hosts:
   if host g never fails, is never made unavailable, and reach_hyp holds
     - max_fails >= 1, no script ends in an endless refusal, forwards take at most dmax,
     - fail_timeout > W * (try_interval + dmax)       (failures seen do not expire too early),
     - W = 0  or  (W-1) * try_interval + W * dmax < try_duration   (the budget, measured where
       keepRetrying measures it, covers the W iterations that can be wasted),
     where W = max_fails * #(other hosts that are up and can fail) + #(scripted refusals),
   then the request is answered, by a successful forward to a host that is not unhealthy. *)
Theorem C05_retry_reaches_healthy :
  forall (S : Type) (sel : S -> list bool -> option nat * S) (sinv : nat -> S -> Prop)
         c unh scr envdown g dmax,
  sel_sound S sel ->
  (forall k st av, length av = t_n c -> sinv (Datatypes.S k) st ->
     existsb (fun b => b) av = true -> fst (sel st av) <> None) ->
  (forall k st av, length av = t_n c -> sinv (Datatypes.S k) st -> sinv k (snd (sel st av))) ->
  reach_hyp c unh scr g dmax = true ->
  (forall it, envdown it g = false) ->
  forall fx0 st0 fuel,
  live 0 (fx0 g) < t_mf c ->
  sinv (Datatypes.S (N.to_nat (waste c unh scr g))) st0 ->
  (N.to_nat (waste c unh scr g) < fuel)%nat ->
  exists j t tr, runT S sel c unh scr envdown fuel 0 fx0 (fun _ => 0%nat) st0 true 0 = (TAnswered j t, tr) /\
                 answered_ok (t_n c) unh tr (TAnswered j t) = true.
Proof. exact runT_reaches_healthy. Qed.
Print Assumptions C05_retry_reaches_healthy.

(* ... in particular behind staticUpstream.Select with every policy of policy.go (round robin: for
   every value of its counter) *)
Theorem C05_retry_reaches_healthy_policies : forall p c unh scr envdown g dmax,
  reach_hyp c unh scr g dmax = true ->
  (forall it, envdown it g = false) ->
  forall fx0 robin rs fuel,
  live 0 (fx0 g) < t_mf c ->
  N.of_nat (t_n c) < U32 ->
  (N.to_nat (waste c unh scr g) < fuel)%nat ->
  exists j t tr, runT (N * list N) (rsel p) c unh scr envdown fuel 0 fx0 (fun _ => 0%nat) (robin, rs) true 0
                 = (TAnswered j t, tr) /\ answered_ok (t_n c) unh tr (TAnswered j t) = true.
Proof. exact runT_reaches_healthy_policies. Qed.
Print Assumptions C05_retry_reaches_healthy_policies.
Example C05_retry_reaches_healthy_nonvacuous :
  reach_hyp exA_c (unh_of [false; false; false]) exA_scr 2 2 = true /\
  runT _ (rsel RFirst) exA_c (unh_of [false; false; false]) exA_scr no_env 3 0 fx_none cnt0 (0, []) true 0 =
  (TAnswered 2 11, [EAttempt 0 0 KFailBefore RxNotRead false 0; EAttempt 4 1 KFailAfter RxFull false 6;
                    EAttempt 10 2 KOk RxFull true 11]).
Proof. exact exA_run. Qed.

(* the selector the case files evaluate (sel_of: first, round robin, hashing) is that policy selector *)
Theorem C05_retry_case_selector_is_policy_selector : forall p rp st rs av,
  rpol_of p = Some rp ->
  fst (sel_of p st av) = fst (rsel rp (st, rs) av) /\ snd (sel_of p st av) = fst (snd (rsel rp (st, rs) av)).
Proof. exact sel_of_is_rsel. Qed.
Print Assumptions C05_retry_case_selector_is_policy_selector.

(* neither hypothesis can be dropped *)
Theorem C05_retry_reaches_healthy_without_fail_timeout_refuted :
  exists c scr t tr,
    t_ft c = 0 /\ all_ok (scr 1%nat) = true /\
    runT _ (rsel RFirst) c (unh_of [false; false]) scr no_env 100 0 fx_none cnt0 (0, []) true 0 = (T502 t, tr).
Proof. exact reach_needs_fail_timeout. Qed.
Print Assumptions C05_retry_reaches_healthy_without_fail_timeout_refuted.
Theorem C05_retry_reaches_healthy_short_budget_refuted :
  exists c scr t tr,
    0 < t_ft c /\ all_ok (scr 1%nat) = true /\
    runT _ (rsel RFirst) c (unh_of [false; false]) scr no_env 100 0 fx_none cnt0 (0, []) true 0 = (T502 t, tr).
Proof. exact reach_needs_budget. Qed.
Print Assumptions C05_retry_reaches_healthy_short_budget_refuted.

(* No host ever succeeds => 502 once try_duration is spent, and the loop terminates: with
   try_interval > 0 it runs at most try_duration/try_interval + 2 iterations and returns at a time t
   with try_duration <= t < try_duration + try_interval + dmax. *)
Theorem C05_retry_502_when_spent :
  forall (S : Type) (sel : S -> list bool -> option nat * S) c unh scr envdown dmax,
  sel_sound S sel ->
  never_ok (t_n c) scr = true -> durs_le (t_n c) scr dmax = true -> 0 < t_ti c ->
  forall fuel fx cnt st fresh,
  (N.to_nat (t_td c / t_ti c) + 2 <= fuel)%nat ->
  exists t tr, runT S sel c unh scr envdown fuel 0 fx cnt st fresh 0 = (T502 t, tr) /\
               t_td c <= t /\ t < t_td c + t_ti c + dmax.
Proof. exact retryT_502_top. Qed.
Print Assumptions C05_retry_502_when_spent.
Example C05_retry_502_when_spent_nonvacuous :
  never_ok 2 (scr_of [always KFailBefore 1; always KFailAfter 3]) = true /\
  runT _ (rsel RFirst) (mk_tcfg 2 1 7 9 2 true) (unh_of [false; false])
       (scr_of [always KFailBefore 1; always KFailAfter 3]) no_env 6 0 fx_none cnt0 (0, []) true 0 =
  (T502 9, [EAttempt 0 0 KFailBefore RxNotRead false 1; EAttempt 3 1 KFailAfter RxFull false 6;
            EAttempt 8 0 KFailBefore RxNotRead false 9]).
Proof. exact exC_502. Qed.

(* "... and otherwise fails with 502 once the duration is spent": a 502 is never returned earlier,
   whatever the hosts and the selector do *)
Theorem C05_retry_502_only_when_spent :
  forall (S : Type) (sel : S -> list bool -> option nat * S) c unh scr envdown fuel now fx cnt st fresh it t,
  fst (runT S sel c unh scr envdown fuel now fx cnt st fresh it) = T502 t -> t_td c <= t.
Proof. exact runT_502_only_spent. Qed.
Print Assumptions C05_retry_502_only_when_spent.

(* never a hang, whatever the hosts and the selector do *)
Theorem C05_retry_terminates :
  forall (S : Type) (sel : S -> list bool -> option nat * S) c unh scr envdown fuel fx cnt st fresh,
  0 < t_ti c -> (N.to_nat (t_td c / t_ti c) + 2 <= fuel)%nat ->
  fst (runT S sel c unh scr envdown fuel 0 fx cnt st fresh 0) <> THang.
Proof. exact retryT_terminates_top. Qed.
Print Assumptions C05_retry_terminates.

(* the final status is that of the last event: 200 only from a successful forward (script step
   KOk, complete body) to a host that is not unhealthy; 502 only after failures *)
Theorem C05_retry_final_status_sound :
  forall (S : Type) (sel : S -> list bool -> option nat * S) c unh scr envdown,
  sel_sound S sel -> forall fuel now fx cnt st fresh it,
  fst (runT S sel c unh scr envdown fuel now fx cnt st fresh it) <> THang ->
  answered_ok (t_n c) unh (snd (runT S sel c unh scr envdown fuel now fx cnt st fresh it))
              (fst (runT S sel c unh scr envdown fuel now fx cnt st fresh it)) = true.
Proof. exact runT_answered_ok. Qed.
Print Assumptions C05_retry_final_status_sound.

(* every attempt of a request gets the complete original body: for ANY configuration (any number
   of hosts, try_duration, fail_timeout, max_fails), any selector, any fault scripts.  The body is
   buffered and rewound whenever there can be a second attempt (try_duration <> 0). *)
Theorem C05_attempt_body_complete :
  forall (S : Type) (sel : S -> list bool -> option nat * S) c unh scr envdown,
  forall fuel now fx cnt st it,
  bodies_ok (snd (runT S sel c unh scr envdown fuel now fx cnt st true it)) = true /\
  forall (A : Type) (body : list A) t i k rx ok te,
    In (EAttempt t i k rx ok te) (snd (runT S sel c unh scr envdown fuel now fx cnt st true it)) ->
    rx_bytes body rx = None \/ rx_bytes body rx = Some body.
Proof. exact body_complete_top. Qed.
Print Assumptions C05_attempt_body_complete.
(* the pool of ONE host that is tried again (max_fails 2): the second forward receives the complete
   body again and answers *)
Example C05_attempt_body_complete_single_host :
  t_n exB_c = 1%nat /\
  runT _ (rsel RFirst) exB_c (unh_of [false]) exB_scr no_env 20 0 fx_none cnt0 (0, []) true 0 =
  (TAnswered 0 3, [EAttempt 0 0 KFailAfter RxFull false 1; EAttempt 3 0 KOk RxFull true 3]).
Proof. exact exB_single_host_replayed. Qed.

(* a host is only used (forwarded to, or acquired) while fewer than max_fails of the failures this
   request has seen on it are unexpired: failed hosts are skipped until fail_timeout has passed *)
Theorem C05_failed_hosts_skipped_until_expiry :
  forall (S : Type) (sel : S -> list bool -> option nat * S) c unh scr envdown,
  sel_sound S sel -> forall fuel now fx cnt st fresh it,
  skip_ok (t_mf c) (t_ft c) (fun _ => []) (snd (runT S sel c unh scr envdown fuel now fx cnt st fresh it)) = true.
Proof. exact skip_top. Qed.
Print Assumptions C05_failed_hosts_skipped_until_expiry.

(* ================= round robin across the uint32 wrap ================= *)

(* EXACT probe order for every counter value, wrap included: RoundRobin.Select probes the n slots
   s, s+1, ..., s+n-1 (mod n) in this order, s = ((robin + 1) mod 2^32) mod n, and returns the first
   available one *)
Theorem C05_round_robin_exact : forall av robin,
  N.of_nat (length av) < U32 ->
  fst (rr_select av robin) =
  probe_seq av (seg (N.of_nat (length av)) (rr_start (N.of_nat (length av)) robin) (length av)).
Proof. exact rr_exact. Qed.
Print Assumptions C05_round_robin_exact.

(* evenness, wrap included.  With all hosts up, m consecutive selections are m consecutive slots for
   EVERY counter value, and over a window of k*n selections every host is chosen exactly k times *)
Theorem C05_round_robin_counts : forall av robin k j,
  (0 < length av)%nat -> N.of_nat (length av) < U32 -> forallb (fun b => b) av = true ->
  (j < length av)%nat ->
  rr_run av robin (k * length av) =
    map Some (seg (N.of_nat (length av)) (rr_start (N.of_nat (length av)) robin) (k * length av)) /\
  cnt j (seg (N.of_nat (length av)) (rr_start (N.of_nat (length av)) robin) (k * length av)) = k.
Proof. exact rr_counts_run. Qed.
Print Assumptions C05_round_robin_counts.
Example C05_round_robin_counts_nonvacuous :
  seg 3 (rr_start 3 4294967293) 6 = [2; 0; 1; 2; 0; 1]%nat /\
  cnt 0 (seg 3 (rr_start 3 4294967293) 6) = 2%nat /\ cnt 1 (seg 3 (rr_start 3 4294967293) 6) = 2%nat.
Proof. exact rr_counts_wrap. Qed.

(* ================= several round_robin blocks: one counter per block ================= *)

(* Every parsed proxy block with `policy round_robin` has its own RoundRobin value.  For EVERY set of
   blocks (availability of their hosts), every counter state and EVERY interleaving of requests over
   the blocks: the hosts block b's requests reach, in order, are exactly those of b served alone from
   its own counter, m = number of b's requests - whatever the other blocks received in between. *)
Theorem C05_round_robin_counter_per_block : forall sched avs st b, (b < length st)%nat ->
  proj b sched (rrb_run avs st sched) = rrs_run (nth b avs []) (nth b st 0) (count_nat b sched).
Proof. exact rrb_proj. Qed.
Print Assumptions C05_round_robin_counter_per_block.

(* ... hence "round_robin visits available backends evenly" holds PER BLOCK: a block of n >= 2 hosts,
   all up, that received k*n of the requests of any interleaving sent exactly k of them to each host *)
Theorem C05_round_robin_even_per_block : forall avs st sched b k j,
  (b < length st)%nat -> (2 <= length (nth b avs []))%nat -> N.of_nat (length (nth b avs [])) < U32 ->
  forallb (fun x : bool => x) (nth b avs []) = true ->
  count_nat b sched = (k * length (nth b avs []))%nat -> (j < length (nth b avs []))%nat ->
  exists l, proj b sched (rrb_run avs st sched) = map Some l /\ cnt j l = k.
Proof. exact rr_even_per_block. Qed.
Print Assumptions C05_round_robin_even_per_block.

(* two blocks of two hosts served alternately: each block alternates between its hosts; with ONE counter
   shared by the blocks, block 0 would only ever reach its host 1 and block 1 its host 0 (and the
   per-block clause of the executable spec rejects that) *)
Example C05_round_robin_counter_per_block_nonvacuous :
  let avs := [[true; true]; [true; true]] in
  let sched := [0; 1; 0; 1; 0; 1; 0; 1]%nat in
  proj 0 sched (rrb_run avs [0; 0] sched) = [Some 1; Some 0; Some 1; Some 0]%nat /\
  proj 1 sched (rrb_run avs [0; 0] sched) = [Some 1; Some 0; Some 1; Some 0]%nat /\
  proj 0 sched (rrb_run_shared avs 0 sched) = [Some 1; Some 1; Some 1; Some 1]%nat /\
  proj 1 sched (rrb_run_shared avs 0 sched) = [Some 0; Some 0; Some 0; Some 0]%nat /\
  block_fair [true; true] (proj 0 sched (rrb_run avs [0; 0] sched)) = true /\
  block_fair [true; true] (proj 0 sched (rrb_run_shared avs 0 sched)) = false.
Proof. exact rr_shared_counter_starves. Qed.

(* ================= the BYTES of the buffered body vs the shared buffer pool ================= *)

(* Memory model of body.go and bufferPool: the buffered body lives in a block of its own (ReadAll),
   Close is a no-op, every attempt rewinds and reads that block.  For EVERY initial memory (any pool
   contents, any blocks held by other goroutines), EVERY body and EVERY interleaving of our attempts
   with the other goroutines' Get / write / Put on the pool (relayed responses, websocket buffers):
   every attempt reads exactly the original body bytes. *)
Theorem C05_retry_body_bytes_survive_other_traffic : forall m body evs, mem_wf m ->
  mrun false (new_body m body) evs = repeat body (length (filter is_attempt evs)).
Proof. exact retry_body_bytes_survive. Qed.
Print Assumptions C05_retry_body_bytes_survive_other_traffic.

(* non-vacuous (the empty memory is well-formed), and what the theorem excludes: with a Close that
   hands the body's block to the pool, a write through the pool between the failed attempt and the
   retry is what the retry sends (right length, another request's bytes) *)
Example C05_retry_body_bytes_nonvacuous :
  mem_wf (mk_mem [] [] []) /\
  let evs := [MAttempt; MGet 0; MWrite 0 [9; 9]; MPut 0; MAttempt] in
  mrun false (new_body (mk_mem [] [] []) [1; 2; 3]) evs = [[1; 2; 3]; [1; 2; 3]] /\
  mrun true (new_body (mk_mem [] [] []) [1; 2; 3]) evs = [[1; 2; 3]; [9; 9; 3]].
Proof. exact retry_body_bytes_witness. Qed.

(* the observation format of the concurrent cases recognises a request's own pattern body *)
Theorem C05_own_bytes_of_pattern : forall salt len, own_bytes (desc_of_pat salt len) salt len = true.
Proof. exact own_bytes_desc. Qed.
Print Assumptions C05_own_bytes_of_pattern.

(* ================= a backend that dies MID-BODY ================= *)

(* The retry loop on a buffered body (bytes.Reader: Len() = UNREAD bytes; rewind before every attempt;
   outreq.ContentLength never touched): for EVERY body, every announced length the request came with,
   every reader offset and EVERY sequence of attempts whose backends read k bytes and die (None: read
   to EOF), each attempt - the first and every retry - is announced the SAME length and reads the body
   from its first byte: exactly (cl, first k bytes) / (cl, whole body). *)
Theorem C05_retry_announces_full_length : forall ks data off cl,
  mid_run false cl (mk_rdr data off) ks = map (fun k => (cl, mid_expect data k)) ks.
Proof. exact mid_run_spec. Qed.
Print Assumptions C05_retry_announces_full_length.

Theorem C05_retry_every_attempt_announced_and_fed : forall ks data off cl o,
  In o (mid_run false cl (mk_rdr data off) ks) ->
  fst o = cl /\ exists k, In k ks /\ snd o = mid_expect data k.
Proof. exact mid_run_announces. Qed.
Print Assumptions C05_retry_every_attempt_announced_and_fed.

(* what the theorem excludes: announcing bb.Len() taken BEFORE the rewind tells the retry's backend
   the unread remainder (3 of 4 bytes) after a backend that read 1 byte and died *)
Example C05_retry_announces_full_length_nonvacuous :
  mid_run false 4 (mk_rdr [1; 2; 3; 4] 0) [Some 1%nat; None] = [(4%Z, [1]); (4%Z, [1; 2; 3; 4])] /\
  mid_run true 4 (mk_rdr [1; 2; 3; 4] 0) [Some 1%nat; None] = [(4%Z, [1]); (3%Z, [1; 2; 3; 4])].
Proof. exact mid_len_before_rewind_witness. Qed.

(* ================= Fails over SEVERAL requests ================= *)

(* Fails as the code keeps it (an integer, +1 at every failed forward, one timer per failure taking it
   back fail_timeout later, untouched by a success): for EVERY fail_timeout and EVERY history of
   failures, successes and readings told in the order of time, the value read at any later time is
   the number of failures that have not expired yet - what the availability predicate (Fails >=
   max_fails) and C05_failed_hosts_skipped_until_expiry rely on from one request to the next. *)
Theorem C05_fails_is_number_of_unexpired_failures : forall ft evs now,
  fmono 0 evs = true -> flast 0 evs <= now ->
  f_cnt (fire now (frun false ft evs)) = Z.of_N (live now (fexp ft evs)).
Proof. exact fails_is_unexpired. Qed.
Print Assumptions C05_fails_is_number_of_unexpired_failures.

Theorem C05_fails_never_negative : forall ft evs,
  fmono 0 evs = true -> (0 <= f_cnt (frun false ft evs))%Z.
Proof. exact fails_never_negative. Qed.
Print Assumptions C05_fails_never_negative.

(* non-vacuous, and what the theorems exclude: a success that stores 0 while the failure's timer is
   pending leaves Fails at -1 once the timer fired, with no failure unexpired *)
Example C05_fails_nonvacuous :
  let evs := [FFail 0; FSucc 1; FRead 10] in
  fmono 0 evs = true /\ f_cnt (frun false 3 evs) = 0%Z /\ f_cnt (frun true 3 evs) = (-1)%Z /\
  live 10 (fexp 3 evs) = 0.
Proof. exact fails_reset_witness. Qed.

(* ================= the policy as a choice oracle: the property does not depend on the policy =================
   [osel] is a selector whose state is the list of choices still to be made (a choice that is not
   available when it is made is overridden by the earliest available host; nil only when no host
   is available).  Every run of the retry loop with ANY sound and complete selector - in
   particular every policy of policy.go behind staticUpstream.Select, random and least_conn
   included, for any random stream and any connection counts - IS the run of [osel] fed with the
   hosts that run chose: same events, same times, same outcome. *)
Theorem C05_retry_run_is_oracle_run :
  forall (S : Type) (sel : S -> list bool -> option nat * S) c unh scr envdown,
  sel_sound S sel ->
  (forall st av, length av = t_n c -> existsb (fun b => b) av = true -> fst (sel st av) <> None) ->
  forall fuel now fx cnt st fresh it,
  runT (list nat) osel c unh scr envdown fuel now fx cnt
       (ev_choices (snd (runT S sel c unh scr envdown fuel now fx cnt st fresh it))) fresh it
  = runT S sel c unh scr envdown fuel now fx cnt st fresh it.
Proof. exact run_is_oracle_run_top. Qed.
Print Assumptions C05_retry_run_is_oracle_run.
Theorem C05_retry_policy_run_is_oracle_run : forall p c unh scr envdown,
  N.of_nat (t_n c) < U32 ->
  forall fuel now fx cnt st fresh it,
  runT (list nat) osel c unh scr envdown fuel now fx cnt
       (ev_choices (snd (runT (N * list N) (rsel p) c unh scr envdown fuel now fx cnt st fresh it))) fresh it
  = runT (N * list N) (rsel p) c unh scr envdown fuel now fx cnt st fresh it.
Proof. exact policy_run_is_oracle_run. Qed.
Print Assumptions C05_retry_policy_run_is_oracle_run.

(* the oracle selector is sound and complete for EVERY oracle ... *)
Theorem C05_oracle_selector_sound : forall st av i st', osel st av = (Some i, st') -> nth i av false = true.
Proof. exact osel_sound. Qed.
Print Assumptions C05_oracle_selector_sound.
Theorem C05_oracle_selector_complete : forall st av,
  existsb (fun b => b) av = true -> fst (osel st av) <> None.
Proof. exact osel_complete. Qed.
Print Assumptions C05_oracle_selector_complete.

(* ... hence, WHATEVER the policy chooses: a request is answered by a healthy backend whenever one
   exists and the budget covers the others (same hypotheses as C05_retry_reaches_healthy, none on
   the choices) ... *)
Theorem C05_retry_reaches_healthy_any_choice : forall c unh scr envdown g dmax,
  reach_hyp c unh scr g dmax = true ->
  (forall it, envdown it g = false) ->
  forall fx0 (choices : list nat) fuel,
  live 0 (fx0 g) < t_mf c ->
  (N.to_nat (waste c unh scr g) < fuel)%nat ->
  exists j t tr, runT (list nat) osel c unh scr envdown fuel 0 fx0 (fun _ => 0%nat) choices true 0
                 = (TAnswered j t, tr) /\ answered_ok (t_n c) unh tr (TAnswered j t) = true.
Proof. exact oracle_reaches_healthy. Qed.
Print Assumptions C05_retry_reaches_healthy_any_choice.
(* the oracle picks host 1 first, then host 1 again while its failure is unexpired (overridden:
   host 0 is tried), then host 2, which answers *)
Example C05_retry_reaches_healthy_any_choice_nonvacuous :
  reach_hyp exA_c (unh_of [false; false; false]) exA_scr 2 2 = true /\
  runT (list nat) osel exA_c (unh_of [false; false; false]) exA_scr no_env 4 0 fx_none cnt0 [1; 1; 2]%nat true 0 =
  (TAnswered 2 11, [EAttempt 0 1 KFailAfter RxFull false 2; EAttempt 6 0 KFailBefore RxNotRead false 6;
                    EAttempt 10 2 KOk RxFull true 11]).
Proof. exact exO_run_eq. Qed.

(* ... and of every run, whatever the choices: failed hosts are skipped until their failures expire
   (Fails accounting), every attempt gets the complete body, 200 only from a successful forward to
   a host that is not unhealthy, 502 only once the duration is spent *)
Theorem C05_retry_any_choice_clauses : forall c unh scr envdown (choices : list nat) fuel now fx cnt it,
  let r := runT (list nat) osel c unh scr envdown fuel now fx cnt choices true it in
  skip_ok (t_mf c) (t_ft c) (fun _ => []) (snd r) = true /\
  bodies_ok (snd r) = true /\
  (fst r <> THang -> answered_ok (t_n c) unh (snd r) (fst r) = true) /\
  (forall t, fst r = T502 t -> t_td c <= t).
Proof. exact oracle_run_clauses. Qed.
Print Assumptions C05_retry_any_choice_clauses.
