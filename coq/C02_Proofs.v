(* C02 — lemmas and proofs. *)
Require Import V.Lib V.GoPath V.GoPathProofs V.Gen_C02 V.Gen_C02b V.C02_Model.
From Coq Require Import Lia.
Open Scope N_scope.

(* ------------------------------------------------------------------------------------------ *)
(* the lexical jail                                                                            *)

Lemma jail_shape name :
  exists segs, jail name = SLASH :: join [SLASH] segs /\ (forall s, In s segs -> good_seg s).
Proof. apply clean_rooted_shape. eexists. reflexivity. Qed.

Lemma jail_rooted name : rooted (jail name).
Proof. destruct (jail_shape name) as (segs & E & _). rewrite E. eexists. reflexivity. Qed.

Lemma jail_idem name : jail (jail name) = jail name.
Proof.
  unfold jail at 1. rewrite clean_extra_slash by apply jail_rooted.
  apply clean_idempotent_rooted. eexists. reflexivity.
Qed.

Lemma jail_of_rooted p : rooted p -> jail p = clean p.
Proof. intros H. unfold jail. apply clean_extra_slash. exact H. Qed.

Lemma has_prefix_app_self (a b : bytes) : has_prefix (a ++ b) a = true.
Proof. apply has_prefix_app. apply has_prefix_refl. Qed.

Theorem clean_rooted_jail (root name : bytes) :
  has_prefix (jail name) [SLASH] = true /\
  has_prefix (root ++ jail name) root = true /\
  exists segs, jail name = SLASH :: join [SLASH] segs /\
    forall s, In s segs -> s <> [] /\ s <> [DOT] /\ s <> [DOT; DOT] /\ ~ In SLASH s.
Proof.
  destruct (jail_shape name) as (segs & E & Hg). split; [|split].
  - rewrite E. cbn [has_prefix]. rewrite has_prefix_nil. vm_compute. reflexivity.
  - apply has_prefix_app_self.
  - exists segs. split; [exact E|]. intros s Hs. destruct (Hg s Hs) as (Hne & Hd & Hdd & Hns).
    repeat split; auto.
    + intros ->. vm_compute in Hd. discriminate.
    + intros ->. vm_compute in Hdd. discriminate.
Qed.

(* ------------------------------------------------------------------------------------------ *)
(* opening files                                                                               *)

Lemma fs_at_some fs p n : fs_at fs p = Some n -> In n fs /\ n_path n = p.
Proof.
  unfold fs_at. intros H. apply find_some in H. destruct H as [Hin Hb].
  apply beq_eq in Hb. auto.
Qed.

Lemma fs_open_some fs name n :
  fs_open fs name = Some n -> In n fs /\ n_path n = jail name /\ bad_name name = false.
Proof.
  unfold fs_open. destruct (bad_name name) eqn:B; [discriminate|].
  intros H. apply fs_at_some in H. destruct H. auto.
Qed.

Lemma first_index_some fs req : forall pages ip n,
  first_index fs req pages = Some (ip, n) ->
  exists pg, In pg pages /\ ip = path_join2 req pg /\ fs_open fs ip = Some n.
Proof.
  induction pages as [|p r IH]; intros ip n H; simpl in H; [discriminate|].
  destruct (fs_open fs (path_join2 req p)) as [m|] eqn:E.
  - injection H as <- <-. exists p. split; [left; reflexivity|]. split; [reflexivity|exact E].
  - destruct (IH ip n H) as (pg & Hin & Hip & Ho). exists pg. split; [right; exact Hin|]. auto.
Qed.

Lemma first_sibling_some fs hide req ae : forall encs n e,
  first_sibling fs hide req ae encs = Some (n, e) ->
  exists ext, In (e, ext) encs /\ accepts ae e = true /\ fs_open fs (req ++ ext) = Some n /\
              n_dir n = false /\ is_hidden fs hide n = false.
Proof.
  induction encs as [|[name ext] r IH]; intros n e H; simpl in H; [discriminate|].
  destruct (accepts ae name) eqn:A.
  - destruct (fs_open fs (req ++ ext)) as [m|] eqn:E.
    + destruct (n_dir m || is_hidden fs hide m) eqn:Hh.
      * destruct (IH n e H) as (x & Hin & Ha & Ho). exists x. split; [right; exact Hin|]. auto.
      * apply orb_false_iff in Hh as [Hd Hh].
        injection H as <- <-. exists ext. split; [left; reflexivity|]. auto.
    + destruct (IH n e H) as (x & Hin & Ha & Ho). exists x. split; [right; exact Hin|]. auto.
  - destruct (IH n e H) as (x & Hin & Ha & Ho). exists x. split; [right; exact Hin|]. auto.
Qed.

(* ------------------------------------------------------------------------------------------ *)
(* the hide list opened once                                                                   *)

Lemma existsb_ext_in {A} (f g : A -> bool) l :
  (forall x, In x l -> f x = g x) -> existsb f l = existsb g l.
Proof.
  induction l as [|a l IH]; intros H; [reflexivity|]. simpl.
  rewrite (H a (or_introl eq_refl)). rewrite IH; [reflexivity|]. intros x Hx. apply H. right. exact Hx.
Qed.

Lemma forallb_ext_in {A} (f g : A -> bool) l :
  (forall x, In x l -> f x = g x) -> forallb f l = forallb g l.
Proof.
  induction l as [|a l IH]; intros H; [reflexivity|]. simpl.
  rewrite (H a (or_introl eq_refl)). rewrite IH; [reflexivity|]. intros x Hx. apply H. right. exact Hx.
Qed.

Lemma filter_ext_in' {A} (f g : A -> bool) l :
  (forall x, In x l -> f x = g x) -> filter f l = filter g l.
Proof.
  induction l as [|a l IH]; intros H; [reflexivity|]. simpl.
  rewrite (H a (or_introl eq_refl)). rewrite IH; [reflexivity|]. intros x Hx. apply H. right. exact Hx.
Qed.

Lemma existsb_filter {A} (f g : A -> bool) l :
  existsb g (filter f l) = existsb (fun x => f x && g x) l.
Proof.
  induction l as [|a l IH]; [reflexivity|]. simpl. destruct (f a); simpl; rewrite IH; reflexivity.
Qed.

Lemma existsb_andb_const {A} (c : bool) (f : A -> bool) l :
  existsb (fun x => c && f x) l = c && existsb f l.
Proof.
  induction l as [|a l IH]; simpl; [rewrite andb_false_r; reflexivity|].
  rewrite IH. destruct c; reflexivity.
Qed.

Lemma existsb_app' {A} (f : A -> bool) l1 l2 : existsb f (l1 ++ l2) = existsb f l1 || existsb f l2.
Proof. induction l1 as [|a l IH]; [reflexivity|]. simpl. rewrite IH. apply orb_assoc. Qed.

Lemma hidden_ids_spec fs hide id : mem_N (hidden_ids fs hide) id = hidden_id fs hide id.
Proof.
  unfold mem_N, hidden_ids, hidden_id. induction hide as [|h hide IH]; [reflexivity|].
  cbn [flat_map existsb]. rewrite existsb_app', IH.
  destruct (fs_open fs h) as [hn|]; [|reflexivity].
  cbn [existsb]. rewrite orb_false_r, N.eqb_sym. reflexivity.
Qed.

Lemma visible_kids_eq fs hide kids :
  visible_kids fs hide kids = filter (fun k => negb (is_hidden fs hide k)) kids.
Proof.
  unfold visible_kids. cbv zeta. apply filter_ext_in'. intros k _.
  rewrite hidden_ids_spec. reflexivity.
Qed.

(* ------------------------------------------------------------------------------------------ *)
(* what serve_file can serve                                                                   *)

Lemma serve_file_serve fs hide pages prefix m req ae n enc :
  serve_file fs hide pages prefix m req ae = Serve n enc ->
  is_get_head m = true /\ In n fs /\ served_from pages req ae enc (n_path n) /\
  n_dir n = false /\ is_hidden fs hide n = false.
Proof.
  unfold serve_file. destruct (is_get_head m); [|discriminate]. simpl negb. cbv iota.
  destruct (bad_name req); [discriminate|].
  destruct (fs_open fs req) as [d|] eqn:Ed; [|discriminate].
  set (up := match (if beq prefix [SLASH] then req else prefix ++ req) with [] => [SLASH] | _ => _ end).
  destruct (n_dir d && negb (ends_with_slash up)); [discriminate|].
  destruct (negb (n_dir d) && ends_with_slash up); [discriminate|].
  assert (Hpair : exists req1 d1,
     (if n_dir d then match first_index fs req pages with Some (ip, n0) => (ip, n0) | None => (req, d) end
      else (req, d)) = (req1, d1) /\ fs_open fs req1 = Some d1 /\
     (req1 = req \/ exists pg, In pg pages /\ req1 = path_join2 req pg)).
  { destruct (n_dir d).
    - destruct (first_index fs req pages) as [[ip n0]|] eqn:Ei.
      + destruct (first_index_some _ _ _ _ _ Ei) as (pg & Hin & Hip & Ho).
        exists ip, n0. split; [reflexivity|]. split; [exact Ho|]. right. exists pg. auto.
      + exists req, d. auto.
    - exists req, d. auto. }
  destruct Hpair as (req1 & d1 & -> & Ho1 & Hbase).
  destruct (n_dir d1 || is_hidden fs hide d1) eqn:Eg; [discriminate|].
  apply orb_false_iff in Eg as [Hnd Hnh].
  intros H. split; [reflexivity|].
  destruct (first_sibling fs hide req1 ae gen_static_encodings) as [[sn e]|] eqn:Es.
  - injection H as <- <-.
    destruct (first_sibling_some _ _ _ _ _ _ _ Es) as (ext & Hin & Ha & Ho & Hd & Hh).
    apply fs_open_some in Ho as (Hfs & Hp & _).
    split; [exact Hfs|]. split; [|split; [exact Hd|exact Hh]].
    exists req1. split; [exact Hbase|]. exists ext. auto.
  - injection H as <- <-.
    apply fs_open_some in Ho1 as (Hfs & Hp & _).
    split; [exact Hfs|]. split; [|auto].
    exists req1. split; [exact Hbase|]. exact Hp.
Qed.

(* a request whose cleaned path names a hidden regular file is never answered with content *)
Lemma hidden_never_served fs hide pages prefix m req ae d :
  fs_open fs req = Some d -> n_dir d = false -> is_hidden fs hide d = true ->
  forall n enc, serve_file fs hide pages prefix m req ae <> Serve n enc.
Proof.
  intros Ho Hd Hh n enc. unfold serve_file.
  destruct (is_get_head m); [|discriminate]. simpl negb. cbv iota.
  destruct (bad_name req); [discriminate|]. rewrite Ho. rewrite Hd. simpl andb.
  match goal with |- context [ends_with_slash ?u] => destruct (ends_with_slash u) end; [discriminate|].
  rewrite Hd, Hh. discriminate.
Qed.

(* ------------------------------------------------------------------------------------------ *)
(* index pages are children of the cleaned directory                                           *)

Lemma split_on_app_sep sep : forall a b cur,
  split_on sep (a ++ sep :: b) cur = split_on sep a cur ++ split_on sep b [].
Proof.
  induction a as [|c a IH]; intros b cur; simpl.
  - rewrite N.eqb_refl. reflexivity.
  - destruct (c =? sep); [rewrite IH; reflexivity|apply IH].
Qed.

Lemma clean_segs_app r : forall xs ys st,
  clean_segs r (xs ++ ys) st = clean_segs r ys (rev (clean_segs r xs st)).
Proof.
  induction xs as [|x xs IH]; intros ys st.
  - simpl. rewrite rev_involutive. reflexivity.
  - simpl. destruct x as [|c x']; [apply IH|].
    destruct (is_dot (c :: x')); [apply IH|].
    destruct (is_dotdot (c :: x')); [|apply IH].
    destruct st as [|top st']; [destruct r; apply IH|].
    destruct (is_dotdot top); apply IH.
Qed.

Lemma join_snoc (segs : list bytes) (s : bytes) : segs <> [] ->
  join [SLASH] (segs ++ [s]) = join [SLASH] segs ++ SLASH :: s.
Proof.
  induction segs as [|a segs IH]; intros Hne; [congruence|].
  destruct segs as [|b segs].
  - reflexivity.
  - change (join [SLASH] ((a :: b :: segs) ++ [s])) with (a ++ [SLASH] ++ join [SLASH] ((b :: segs) ++ [s])).
    rewrite IH by discriminate.
    change (join [SLASH] (a :: b :: segs)) with (a ++ [SLASH] ++ join [SLASH] (b :: segs)).
    rewrite <- !app_assoc. reflexivity.
Qed.

Lemma join_good_nonempty (segs : list bytes) :
  segs <> [] -> (forall s, In s segs -> good_seg s) -> join [SLASH] segs <> [].
Proof.
  destruct segs as [|a segs]; [congruence|]. intros _ Hg.
  destruct (Hg a (or_introl eq_refl)) as (Hne & _).
  destruct a as [|c a]; [congruence|]. destruct segs; discriminate.
Qed.

Lemma clean_rooted_unfold r :
  clean (SLASH :: r) = SLASH :: join [SLASH] (clean_segs true (split SLASH (SLASH :: r)) []).
Proof. unfold clean. rewrite N.eqb_refl. reflexivity. Qed.

Lemma index_is_child req pg : rooted req -> good_seg pg ->
  jail (path_join2 req pg) = child_path (jail req) pg.
Proof.
  intros (r & ->) Hpg. destruct Hpg as (Hne & Hd & Hdd & Hns).
  assert (Hgood : good_seg pg) by (repeat split; assumption).
  destruct pg as [|pc pr] eqn:Epg; [congruence|]. rewrite <- Epg in *.
  assert (Hj : path_join2 (SLASH :: r) pg = clean ((SLASH :: r) ++ SLASH :: pg)) by (subst pg; reflexivity).
  rewrite Hj. clear Hj.
  change ((SLASH :: r) ++ SLASH :: pg) with (SLASH :: (r ++ SLASH :: pg)).
  rewrite clean_rooted_unfold.
  set (S := clean_segs true (split SLASH (SLASH :: r)) []).
  assert (HS : forall s, In s S -> good_seg s).
  { apply clean_segs_rooted_good; [|intros s []]. intros s Hs. unfold no_slash.
    eapply split_no_sep; [exact Hs|]. intros []. }
  assert (Hsplit : split SLASH (SLASH :: (r ++ SLASH :: pg)) = split SLASH (SLASH :: r) ++ [pg]).
  { unfold split. change (SLASH :: r ++ SLASH :: pg) with ((SLASH :: r) ++ SLASH :: pg).
    rewrite split_on_app_sep. f_equal. rewrite split_on_no_sep by exact Hns. reflexivity. }
  rewrite Hsplit, clean_segs_app. fold S.
  assert (Hlast : clean_segs true [pg] (rev S) = S ++ [pg]).
  { rewrite clean_segs_good_id.
    - rewrite rev_involutive. reflexivity.
    - intros s [<-|[]]. exact Hgood. }
  rewrite Hlast.
  assert (HSg : forall s, In s (S ++ [pg]) -> good_seg s).
  { intros s Hs. apply in_app_or in Hs as [Hs|[<-|[]]]; [apply HS; exact Hs|exact Hgood]. }
  rewrite jail_of_rooted by (eexists; reflexivity).
  rewrite clean_of_shape by exact HSg.
  rewrite (jail_of_rooted (SLASH :: r)) by (eexists; reflexivity).
  rewrite clean_rooted_unfold. fold S.
  unfold child_path, dir_prefix.
  destruct S as [|a S'] eqn:ES.
  - simpl. try rewrite N.eqb_refl. reflexivity.
  - rewrite <- ES in *.
    assert (Hnn : join [SLASH] S <> []) by (apply join_good_nonempty; [rewrite ES; discriminate|exact HS]).
    assert (Hb : beq (SLASH :: join [SLASH] S) [SLASH] = false).
    { destruct (join [SLASH] S) eqn:EJ; [congruence|]. reflexivity. }
    rewrite Hb. rewrite join_snoc by (rewrite ES; discriminate).
    simpl. rewrite <- app_assoc. reflexivity.
Qed.

(* ------------------------------------------------------------------------------------------ *)
(* browse: listings and archives                                                               *)

Lemma browse_cases fs hide pages prefix confs m req ae archive limit :
  let out := browse fs hide pages prefix confs m req ae archive limit in
  out = serve_file fs hide pages prefix m req ae \/
  out = Status 501 \/ (out = Status 404 \/ out = Status 400) \/
  (exists u, out = Redirect 301 (http_redirect req (escape_path (trim_dslash u ++ [SLASH]))) /\
             u = (match req with [] => [SLASH] | _ => req end) /\ ends_with_slash u = false /\
             exists d, fs_open fs req = Some d /\ n_dir d = true) \/
  (out = Listing (filter (fun k => negb (is_hidden fs hide k)) (children fs (jail req))) /\ archive = []) \/
  (out = Archive (archive_members fs hide (jail req)) /\ archive <> []).
Proof.
  unfold browse. cbv zeta.
  destruct (find _ confs) as [bc|]; [|left; reflexivity].
  destruct (fs_open fs req) as [d|] eqn:Ed; [|left; reflexivity].
  destruct (n_dir d) eqn:Edir; simpl negb; cbv iota; [|left; reflexivity].
  destruct ((m =? 2) || (m =? 3)); [right; left; reflexivity|].
  destruct (is_get_head m); simpl negb; cbv iota; [|left; reflexivity].
  set (u := match req with [] => [SLASH] | _ :: _ => req end).
  destruct (ends_with_slash u) eqn:Eu; simpl negb; cbv iota.
  - destruct (existsb _ (children fs (jail req))); [left; reflexivity|].
    destruct archive as [|a ar].
    + destruct (limit_of limit).
      * right; right; right; right; left. rewrite visible_kids_eq. split; reflexivity.
      * right; right; left; right. reflexivity.
    + destruct (existsb (beq (a :: ar)) (b_types bc)).
      * right; right; right; right; right. split; [reflexivity|discriminate].
      * right; right; left; left. reflexivity.
  - right; right; right; left. eexists. split; [reflexivity|]. split; [reflexivity|]. split; [exact Eu|].
    exists d. auto.
Qed.

Lemma listing_sound fs hide pages prefix confs m req ae archive limit kids :
  browse fs hide pages prefix confs m req ae archive limit = Listing kids ->
  forall k, In k kids -> In k fs /\ is_child (jail req) (n_path k) = true /\ is_hidden fs hide k = false.
Proof.
  intros H k Hk.
  pose proof (browse_cases fs hide pages prefix confs m req ae archive limit) as C. cbv zeta in C. rewrite H in C.
  destruct C as [C|[C|[[C|C]|[C|[C|C]]]]].
  - symmetry in C. exfalso. revert C. unfold serve_file.
    repeat match goal with
           | |- context [if ?b then _ else _] => destruct b; try discriminate
           | |- context [match ?x with _ => _ end] => destruct x; try discriminate
           end.
  - discriminate.
  - discriminate.
  - discriminate.
  - destruct C as (u & C & _). discriminate.
  - destruct C as [C _]. injection C as ->. apply filter_In in Hk as [Hk Hh].
    apply filter_In in Hk as [Hin Hc]. split; [exact Hin|]. split; [exact Hc|].
    apply negb_true_iff in Hh. exact Hh.
  - destruct C as [C _]. discriminate.
Qed.

Lemma serve_file_not_archive fs hide pages prefix m req ae ms :
  serve_file fs hide pages prefix m req ae <> Archive ms.
Proof.
  unfold serve_file.
  repeat match goal with
         | |- context [if ?b then _ else _] => destruct b; try discriminate
         | |- context [match ?x with _ => _ end] => destruct x; try discriminate
         end.
Qed.

(* what the archive walker keeps: descendants that are not hidden and do not lie below a hidden
   directory (itself below the archived one) *)
Lemma archive_members_in fs hide d k :
  In k (archive_members fs hide d) ->
  In k fs /\ is_desc d (n_path k) = true /\ is_hidden fs hide k = false /\
  (forall a, In a fs -> n_dir a = true -> is_desc d (n_path a) = true ->
             is_desc (n_path a) (n_path k) = true -> is_hidden fs hide a = false).
Proof.
  unfold archive_members, descendants. cbv zeta. intros H.
  apply filter_In in H as [H Ha]. apply filter_In in H as [Hin Hd].
  apply negb_true_iff in Ha.
  assert (Hcut : forall a, In a fs -> is_hidden fs hide a = true -> is_desc d (n_path a) = true ->
                           cut_by k a = false).
  { intros a Hain Hh Hda. destruct (cut_by k a) eqn:E; [|reflexivity].
    assert (X : existsb (cut_by k) (archive_cuts fs hide d) = true).
    { apply existsb_exists. exists a. split; [|exact E]. unfold archive_cuts. cbv zeta.
      apply filter_In. split; [exact Hain|]. rewrite hidden_ids_spec. fold (is_hidden fs hide a).
      rewrite Hh, Hda. reflexivity. }
    congruence. }
  split; [exact Hin|]. split; [exact Hd|]. split.
  - destruct (is_hidden fs hide k) eqn:Hh; [|reflexivity].
    pose proof (Hcut k Hin Hh Hd) as C. unfold cut_by in C. rewrite beq_refl in C. discriminate.
  - intros a Hain Hdir Hda Hak. destruct (is_hidden fs hide a) eqn:Hh; [|reflexivity].
    pose proof (Hcut a Hain Hh Hda) as C. unfold cut_by in C.
    rewrite Hdir, Hak in C. rewrite orb_true_r in C. discriminate.
Qed.

Lemma archive_sound fs hide pages prefix confs m req ae archive limit ms :
  browse fs hide pages prefix confs m req ae archive limit = Archive ms ->
  forall k, In k ms ->
    In k fs /\ is_desc (jail req) (n_path k) = true /\ is_hidden fs hide k = false /\
    (forall a, In a fs -> n_dir a = true -> is_desc (jail req) (n_path a) = true ->
               is_desc (n_path a) (n_path k) = true -> is_hidden fs hide a = false).
Proof.
  intros H k Hk.
  pose proof (browse_cases fs hide pages prefix confs m req ae archive limit) as C. cbv zeta in C. rewrite H in C.
  destruct C as [C|[C|[[C|C]|[C|[C|C]]]]].
  - symmetry in C. exfalso. exact (serve_file_not_archive _ _ _ _ _ _ _ _ C).
  - discriminate.
  - discriminate.
  - discriminate.
  - destruct C as (u & C & _). discriminate.
  - destruct C as [C _]. discriminate.
  - destruct C as [C _]. injection C as ->. apply archive_members_in. exact Hk.
Qed.

Lemma is_desc_prefix d p : is_desc d p = true -> has_prefix p d = true.
Proof.
  unfold is_desc. intros H. apply andb_true_iff in H as [H _].
  unfold dir_prefix in H. destruct (beq d [SLASH]); [exact H|].
  eapply has_prefix_trans; [exact H|]. apply has_prefix_app_self.
Qed.

(* ------------------------------------------------------------------------------------------ *)
(* redirects                                                                                   *)

Definition no_bslash (p : bytes) : Prop := ~ In 92 p.

Lemma same_origin_of p : one_slash p = true -> no_bslash p -> same_origin p = true.
Proof.
  destruct p as [|c r]; [discriminate|]. simpl. intros H Hb.
  apply andb_true_iff in H as [Hc Hr]. rewrite Hc. simpl.
  destruct r as [|d r']; [reflexivity|]. rewrite Hr. simpl.
  apply negb_true_iff. apply N.eqb_neq. intros ->. apply Hb. right. left. reflexivity.
Qed.

(* --- trim_dslash --- *)
Lemma trim_dslash_suffix_cons : forall r c,
  exists pre, c :: r = pre ++ trim_dslash (c :: r) /\ trim_dslash (c :: r) <> [].
Proof.
  induction r as [|d r' IH]; intros c.
  - exists []. split; [reflexivity|discriminate].
  - simpl. destruct ((c =? SLASH) && (d =? SLASH)).
    + destruct (IH d) as (pre & E & Hne). exists (c :: pre). split; [|exact Hne].
      simpl. f_equal. exact E.
    + exists []. split; [reflexivity|discriminate].
Qed.

Lemma trim_dslash_suffix p : exists pre, p = pre ++ trim_dslash p /\ (p <> [] -> trim_dslash p <> []).
Proof.
  destruct p as [|c r].
  - exists []. split; [reflexivity|congruence].
  - destruct (trim_dslash_suffix_cons r c) as (pre & E & Hne). exists pre. auto.
Qed.

Lemma trim_dslash_one_cons : forall r, one_slash (trim_dslash (SLASH :: r)) = true.
Proof.
  induction r as [|d r' IH].
  - reflexivity.
  - change (trim_dslash (SLASH :: d :: r')) with
      (if (SLASH =? SLASH) && (d =? SLASH) then trim_dslash (d :: r') else SLASH :: d :: r').
    rewrite N.eqb_refl. cbn [andb]. destruct (d =? SLASH) eqn:E.
    + apply N.eqb_eq in E. subst d. exact IH.
    + cbn [one_slash]. rewrite N.eqb_refl, E. reflexivity.
Qed.

Lemma trim_dslash_one p : rooted p -> one_slash (trim_dslash p) = true.
Proof. intros (r & ->). apply trim_dslash_one_cons. Qed.

Lemma ends_with_slash_app_suffix pre p : p <> [] -> ends_with_slash (pre ++ p) = ends_with_slash p.
Proof.
  intros Hne. unfold ends_with_slash. rewrite rev_app_distr.
  destruct (rev p) eqn:E; [|reflexivity].
  exfalso. apply Hne. rewrite <- (rev_involutive p), E. reflexivity.
Qed.

Lemma one_slash_snoc p : one_slash p = true -> ends_with_slash p = false -> one_slash (p ++ [SLASH]) = true.
Proof.
  destruct p as [|c r]; [discriminate|]. intros H He. simpl in H. apply andb_true_iff in H as [Hc Hr].
  destruct r as [|d r'].
  - apply N.eqb_eq in Hc. subst c. vm_compute in He. discriminate.
  - simpl. rewrite Hc, Hr. reflexivity.
Qed.

(* --- escape_path --- *)
Lemma hexdig_not_special n : n < 16 -> hexdig n <> SLASH /\ hexdig n <> 92.
Proof. intros H. unfold hexdig, SLASH. destruct (n <? 10) eqn:E; [apply N.ltb_lt in E|apply N.ltb_ge in E]; lia. Qed.

Lemma path_safe_not_bslash c : path_safe c = true -> c <> 92.
Proof. intros H ->. vm_compute in H. discriminate. Qed.

Lemma escape_no_bslash : forall s, no_bslash (escape_path s).
Proof.
  unfold no_bslash. induction s as [|c r IH]; simpl; [tauto|].
  destruct (path_safe c) eqn:E.
  - intros [H|H]; [exact (path_safe_not_bslash _ E H)|exact (IH H)].
  - intros [H|[H|[H|H]]].
    + discriminate.
    + destruct (hexdig_not_special ((c / 16) mod 16)) as [_ Hh]; [apply N.mod_lt; discriminate|]. congruence.
    + destruct (hexdig_not_special (c mod 16)) as [_ Hh]; [apply N.mod_lt; discriminate|]. congruence.
    + exact (IH H).
Qed.

Lemma escape_one_slash p : one_slash p = true -> one_slash (escape_path p) = true.
Proof.
  destruct p as [|c r]; [discriminate|]. cbn [one_slash]. intros H.
  apply andb_true_iff in H as [Hc Hr]. apply N.eqb_eq in Hc. subst c.
  change (escape_path (SLASH :: r)) with (SLASH :: escape_path r).
  cbn [one_slash]. rewrite N.eqb_refl. cbn [andb].
  destruct r as [|d r']; [reflexivity|]. cbn [escape_path].
  destruct (path_safe d); [exact Hr|reflexivity].
Qed.

(* --- the bytes of a cleaned path come from the path --- *)
Lemma split_on_bytes sep : forall s cur x b,
  In x (split_on sep s cur) -> In b x -> In b s \/ In b cur.
Proof.
  induction s as [|c s IH]; intros cur x b Hx Hb; simpl in Hx.
  - destruct Hx as [<-|[]]. right. apply in_rev. exact Hb.
  - destruct (c =? sep).
    + destruct Hx as [<-|Hx]; [right; apply in_rev; exact Hb|].
      destruct (IH [] x b Hx Hb) as [H|[]]. left. right. exact H.
    + destruct (IH (c :: cur) x b Hx Hb) as [H|[H|H]]; [left; right; exact H|left; left; exact H|right; exact H].
Qed.

Lemma clean_segs_in r : forall segs st s, In s (clean_segs r segs st) -> In s segs \/ In s st.
Proof.
  induction segs as [|x segs IH]; intros st s H; simpl in H.
  - right. apply in_rev. exact H.
  - assert (Hskip : forall st', (forall y, In y st' -> y = x \/ In y st) ->
                    In s (clean_segs r segs st') -> In s (x :: segs) \/ In s st).
    { intros st' Hst' H'. destruct (IH st' s H') as [Hi|Hi]; [left; right; exact Hi|].
      destruct (Hst' s Hi) as [->|Hi']; [left; left; reflexivity|right; exact Hi']. }
    destruct x as [|c x']; [apply (Hskip st); [intros y Hy; right; exact Hy|exact H]|].
    destruct (is_dot (c :: x')); [apply (Hskip st); [intros y Hy; right; exact Hy|exact H]|].
    destruct (is_dotdot (c :: x')).
    + destruct st as [|top st'].
      * destruct r; [apply (Hskip []); [intros y []|exact H]|].
        apply (Hskip [c :: x']); [intros y [<-|[]]; left; reflexivity|exact H].
      * destruct (is_dotdot top).
        -- apply (Hskip ((c :: x') :: top :: st')); [|exact H].
           intros y [<-|Hy]; [left; reflexivity|right; exact Hy].
        -- apply (Hskip st'); [|exact H]. intros y Hy. right. right. exact Hy.
    + apply (Hskip ((c :: x') :: st)); [|exact H].
      intros y [<-|Hy]; [left; reflexivity|right; exact Hy].
Qed.

Lemma join_bytes (sep : bytes) : forall l b, In b (join sep l) -> In b sep \/ exists s, In s l /\ In b s.
Proof.
  induction l as [|a l IH]; intros b H; [destruct H|].
  destruct l as [|a' l'].
  - right. exists a. split; [left; reflexivity|exact H].
  - change (join sep (a :: a' :: l')) with (a ++ sep ++ join sep (a' :: l')) in H.
    apply in_app_or in H as [H|H]; [right; exists a; split; [left; reflexivity|exact H]|].
    apply in_app_or in H as [H|H]; [left; exact H|].
    destruct (IH b H) as [Hs|(s & Hs & Hb)]; [left; exact Hs|].
    right. exists s. split; [right; exact Hs|exact Hb].
Qed.

Lemma clean_rooted_bytes r b : In b (clean (SLASH :: r)) -> b = SLASH \/ In b r.
Proof.
  rewrite clean_rooted_unfold. intros [<-|H]; [left; reflexivity|].
  apply join_bytes in H as [[<-|[]]|(s & Hs & Hb)]; [left; reflexivity|].
  apply clean_segs_in in Hs as [Hs|[]].
  destruct (split_on_bytes _ _ _ _ _ Hs Hb) as [[<-|H]|[]]; [left; reflexivity|right; exact H].
Qed.

Lemma clean_one_slash x : rooted x -> one_slash (clean x) = true.
Proof.
  intros H. destruct (clean_rooted_shape x H) as (segs & -> & Hg).
  cbn [one_slash]. rewrite N.eqb_refl. cbn [andb].
  destruct segs as [|a segs]; [reflexivity|].
  destruct (Hg a (or_introl eq_refl)) as (Hne & _ & _ & Hns).
  destruct a as [|c a']; [congruence|].
  assert (Hc : c <> SLASH) by (intros ->; apply Hns; left; reflexivity).
  apply N.eqb_neq in Hc. destruct segs as [|b segs']; simpl; rewrite Hc; reflexivity.
Qed.

Lemma clean_keep_slash_ok x : rooted x -> no_bslash x ->
  one_slash (clean_keep_slash x) = true /\ no_bslash (clean_keep_slash x).
Proof.
  intros Hr Hb. pose proof (clean_one_slash x Hr) as H1.
  assert (Hnb : no_bslash (clean x)).
  { destruct Hr as (r & ->). intros Hin. apply clean_rooted_bytes in Hin as [Hin|Hin]; [discriminate|].
    apply Hb. right. exact Hin. }
  unfold clean_keep_slash.
  destruct (ends_with_slash x && negb (ends_with_slash (clean x))) eqn:E; [|auto].
  apply andb_true_iff in E as [_ E]. apply negb_true_iff in E. split.
  - apply one_slash_snoc; assumption.
  - intros Hin. apply in_app_or in Hin as [Hin|[Hin|[]]]; [exact (Hnb Hin)|discriminate].
Qed.

Lemma one_slash_no_authority p : one_slash p = true -> has_authority p = false /\ rooted p.
Proof.
  destruct p as [|a r]; [discriminate|]. cbn [one_slash]. intros H.
  apply andb_true_iff in H as [Ha Hr]. apply N.eqb_eq in Ha. subst a.
  split; [|eexists; reflexivity].
  destruct r as [|b r']; [reflexivity|]. destruct r' as [|c r'']; [reflexivity|].
  cbn [has_authority]. apply negb_true_iff in Hr. rewrite Hr. rewrite andb_false_r. reflexivity.
Qed.

Lemma redirect_ok req U : one_slash U = true ->
  one_slash (http_redirect req (escape_path U)) = true /\
  same_origin (http_redirect req (escape_path U)) = true.
Proof.
  intros HU. pose proof (escape_one_slash U HU) as HE.
  destruct (one_slash_no_authority _ HE) as [Hna Hroot].
  unfold http_redirect. rewrite Hna.
  destruct Hroot as (t & Et). rewrite Et. rewrite N.eqb_refl. rewrite <- Et.
  destruct (clean_keep_slash_ok (escape_path U)) as [H1 H2]; [rewrite Et; eexists; reflexivity|apply escape_no_bslash|].
  split; [exact H1|]. apply same_origin_of; assumption.
Qed.

Lemma ends_with_slash_drop_last p : ends_with_slash p = true -> p = drop_last p ++ [SLASH].
Proof.
  unfold ends_with_slash, drop_last. intros H.
  destruct (rev p) as [|c t] eqn:E; [discriminate|]. apply N.eqb_eq in H. subst c.
  rewrite <- (rev_involutive p), E. reflexivity.
Qed.

(* [prefix] is the site's path prefix ("/" if none): the redirect target is built from
   prefix ++ req, trimmed of leading double slashes *)
Lemma static_redirect fs hide pages prefix m req ae code loc :
  rooted prefix -> rooted req -> serve_file fs hide pages prefix m req ae = Redirect code loc ->
  code = 307 /\ one_slash loc = true /\ same_origin loc = true.
Proof.
  intros Hpre Hroot. unfold serve_file.
  destruct (is_get_head m); [|discriminate]. simpl negb. cbv iota.
  destruct (bad_name req); [discriminate|].
  destruct (fs_open fs req) as [d|]; [|discriminate].
  set (up0 := if beq prefix [SLASH] then req else prefix ++ req).
  assert (Hup0 : rooted up0).
  { unfold up0. destruct (beq prefix [SLASH]); [exact Hroot|].
    destruct Hpre as (t & ->). eexists. reflexivity. }
  assert (Hone : up0 = [SLASH] -> req = [SLASH]).
  { unfold up0. destruct (beq prefix [SLASH]); [auto|].
    destruct Hpre as (t & ->). destruct Hroot as (r & ->). intros EX.
    destruct t; discriminate. }
  replace (match up0 with [] => [SLASH] | _ :: _ => up0 end) with up0
    by (destruct Hup0 as (r & ->); reflexivity).
  destruct (n_dir d && negb (ends_with_slash up0)) eqn:E1.
  - intros H. injection H as <- <-. split; [reflexivity|]. apply redirect_ok.
    apply andb_true_iff in E1 as [_ E1]. apply negb_true_iff in E1.
    apply one_slash_snoc; [apply trim_dslash_one; exact Hup0|].
    destruct (trim_dslash_suffix up0) as (pre & E & Hne).
    rewrite E in E1. rewrite ends_with_slash_app_suffix in E1; [exact E1|apply Hne; destruct Hup0 as (r0 & ->); discriminate].
  - destruct (negb (n_dir d) && ends_with_slash up0) eqn:E2.
    + intros H. injection H as <- <-. split; [reflexivity|].
      apply andb_true_iff in E2 as [_ E2].
      pose proof (ends_with_slash_drop_last up0 E2) as EX.
      destruct (drop_last up0) as [|x X'] eqn:EX'.
      * (* prefix ++ req = "/": no prefix and req = "/" *)
        simpl in EX. rewrite (Hone EX). vm_compute. auto.
      * assert (x = SLASH) by (destruct Hup0 as (r & Er); rewrite Er in EX; simpl in EX; injection EX as -> _; reflexivity).
        subst x. apply redirect_ok. apply trim_dslash_one. eexists. reflexivity.
    + destruct (if n_dir d then _ else _) as [req1 d1].
      destruct (n_dir d1 || is_hidden fs hide d1); [discriminate|].
      destruct (first_sibling fs hide req1 ae gen_static_encodings) as [[sn e]|]; discriminate.
Qed.

Lemma browse_redirect fs hide pages prefix confs m req ae archive limit code loc :
  rooted prefix -> rooted req ->
  browse fs hide pages prefix confs m req ae archive limit = Redirect code loc ->
  one_slash loc = true /\ same_origin loc = true.
Proof.
  intros Hpre Hroot H.
  pose proof (browse_cases fs hide pages prefix confs m req ae archive limit) as C. cbv zeta in C. rewrite H in C.
  destruct C as [C|[C|[[C|C]|[C|[C|C]]]]]; try discriminate.
  - symmetry in C. apply static_redirect in C; [tauto|exact Hpre|exact Hroot].
  - destruct C as (u & C & Eu & Hends & _). injection C as -> ->.
    assert (Hu : u = req) by (destruct Hroot as (t & ->); exact Eu). clear Eu. subst u.
    apply redirect_ok. apply one_slash_snoc; [apply trim_dslash_one; exact Hroot|].
    destruct (trim_dslash_suffix req) as (pre & E & Hne).
    rewrite E in Hends. rewrite ends_with_slash_app_suffix in Hends; [exact Hends|].
    apply Hne. destruct Hroot as (t & ->). discriminate.
  - destruct C as [C _]. discriminate.
  - destruct C as [C _]. discriminate.
Qed.

(* ------------------------------------------------------------------------------------------ *)
(* hideCasketfile                                                                              *)

Lemma skipn_app_self {A} (a b : list A) : skipn (length a) (a ++ b) = b.
Proof. induction a as [|x a IH]; [reflexivity|exact IH]. Qed.

Lemma hide_casketfile_inside root name :
  hide_casketfile root (root ++ jail name) = Some (jail name) /\ jail (jail name) = jail name.
Proof.
  split; [|apply jail_idem]. unfold hide_casketfile.
  destruct (root ++ jail name) eqn:E.
  - destruct (jail_rooted name) as (t & Et). rewrite Et in E. destruct root; discriminate.
  - rewrite <- E. rewrite has_prefix_app_self, skipn_app_self. reflexivity.
Qed.

(* the origin Casketfile inside the root is never served, under any spelling of the request *)
Lemma casketfile_never_served fs hide pages root name cf m req ae h :
  hide_casketfile root (root ++ jail name) = Some h -> In h hide ->
  fs_open fs (jail name) = Some cf ->
  forall n enc, serve_file fs hide pages [SLASH] m req ae = Serve n enc -> n_id n <> n_id cf.
Proof.
  intros Hh Hin Hcf n enc Hs Heq.
  destruct (hide_casketfile_inside root name) as [E _]. rewrite E in Hh. injection Hh as <-.
  apply serve_file_serve in Hs as (_ & _ & _ & _ & Hnh).
  unfold is_hidden, hidden_id in Hnh.
  assert (Ht : existsb (fun h => match fs_open fs h with Some hn => n_id hn =? n_id n | None => false end) hide = true).
  { apply existsb_exists. exists (jail name). split; [exact Hin|]. rewrite Hcf. apply N.eqb_eq. congruence. }
  congruence.
Qed.

(* ------------------------------------------------------------------------------------------ *)
(* a precompressed sibling is the sibling of the cleaned path                                  *)

Lemma jail_last_seg p x : good_seg x ->
  jail (p ++ SLASH :: x) =
  SLASH :: join [SLASH] (clean_segs true (split SLASH (SLASH :: p)) [] ++ [x]).
Proof.
  intros Hx. destruct Hx as (Hne & Hd & Hdd & Hns).
  assert (Hgood : good_seg x) by (repeat split; assumption).
  unfold jail. rewrite clean_rooted_unfold.
  assert (Hsplit : split SLASH (SLASH :: (p ++ SLASH :: x)) = split SLASH (SLASH :: p) ++ [x]).
  { unfold split. change (SLASH :: p ++ SLASH :: x) with ((SLASH :: p) ++ SLASH :: x).
    rewrite split_on_app_sep. f_equal. rewrite split_on_no_sep by exact Hns. reflexivity. }
  rewrite Hsplit, clean_segs_app.
  rewrite clean_segs_good_id by (intros s [<-|[]]; exact Hgood).
  rewrite rev_involutive. reflexivity.
Qed.

Lemma ext_good s e ext : In (e, ext) gen_static_encodings -> good_seg s -> good_seg (s ++ ext).
Proof.
  intros Hin (Hne & _ & _ & Hns).
  assert (Hext : ext = [46; 122; 115; 116] \/ ext = [46; 98; 114] \/ ext = [46; 103; 122]).
  { vm_compute in Hin. destruct Hin as [H | [H | [H | [] ] ] ]; inversion H; auto. }
  destruct s as [|a s]; [congruence|].
  assert (Hnil : forall t, beq (t ++ ext) [] = false).
  { intros t. destruct t; [|reflexivity]. destruct Hext as [Ex|[Ex|Ex]]; rewrite Ex; reflexivity. }
  repeat split.
  - discriminate.
  - unfold is_dot. cbn [app beq]. rewrite Hnil. apply andb_false_r.
  - unfold is_dotdot. cbn [app beq]. destruct s as [|b s].
    + destruct Hext as [Ex|[Ex|Ex]]; rewrite Ex; cbn; apply andb_false_r.
    + cbn [app beq]. rewrite Hnil. rewrite !andb_false_r. reflexivity.
  - intros Hin'. apply in_app_or in Hin' as [H|H]; [exact (Hns H)|].
    destruct Hext as [Ex|[Ex|Ex]]; rewrite Ex in H; cbn in H; intuition discriminate.
Qed.

Lemma sibling_of_cleaned p s e ext :
  In (e, ext) gen_static_encodings -> good_seg s ->
  jail ((p ++ SLASH :: s) ++ ext) = jail (p ++ SLASH :: s) ++ ext.
Proof.
  intros Hin Hs. rewrite <- app_assoc. cbn [app].
  rewrite (jail_last_seg p (s ++ ext)) by (eapply ext_good; eassumption).
  rewrite (jail_last_seg p s) by exact Hs.
  set (S := clean_segs true (split SLASH (SLASH :: p)) []).
  destruct S as [|a S'] eqn:ES.
  - reflexivity.
  - rewrite <- ES. rewrite !join_snoc by (rewrite ES; discriminate).
    cbn [app]. rewrite <- app_assoc. reflexivity.
Qed.

(* ------------------------------------------------------------------------------------------ *)
(* statements as used in C02_Props.v                                                           *)

Lemma static_served_inside_root fs hide pages prefix m req ae n enc :
  serve_file fs hide pages prefix m req ae = Serve n enc ->
  is_get_head m = true /\ In n fs /\
  exists base, (base = req \/ exists pg, In pg pages /\ base = path_join2 req pg) /\
    match enc with
    | None => n_path n = jail base
    | Some e => exists ext, In (e, ext) gen_static_encodings /\ accepts ae e = true /\
                            n_path n = jail (base ++ ext)
    end.
Proof.
  intros H. destruct (serve_file_serve _ _ _ _ _ _ _ _ _ H) as (Hm & Hin & Hs & _). auto.
Qed.

Lemma static_body_regular fs hide pages prefix m req ae n enc :
  serve_file fs hide pages prefix m req ae = Serve n enc ->
  n_dir n = false /\ is_hidden fs hide n = false.
Proof.
  intros H. destruct (serve_file_serve _ _ _ _ _ _ _ _ _ H) as (_ & _ & _ & Hn & Hh). auto.
Qed.

Lemma static_never_hidden fs hide pages prefix m req ae n enc :
  serve_file fs hide pages prefix m req ae = Serve n enc -> is_hidden fs hide n = false.
Proof.
  intros H. destruct (serve_file_serve _ _ _ _ _ _ _ _ _ H) as (_ & _ & _ & _ & Hh). exact Hh.
Qed.

Lemma archive_inside_root fs hide pages prefix confs m req ae archive limit ms :
  browse fs hide pages prefix confs m req ae archive limit = Archive ms ->
  forall k, In k ms ->
    In k fs /\ is_desc (jail req) (n_path k) = true /\ has_prefix (n_path k) (jail req) = true.
Proof.
  intros H k Hk.
  destruct (archive_sound _ _ _ _ _ _ _ _ _ _ _ H k Hk) as (Hin & Hd & _).
  split; [exact Hin|]. split; [exact Hd|]. apply is_desc_prefix. exact Hd.
Qed.

Lemma archive_never_hidden fs hide pages prefix confs m req ae archive limit ms :
  browse fs hide pages prefix confs m req ae archive limit = Archive ms ->
  forall k, In k ms ->
    is_hidden fs hide k = false /\
    (forall a, In a fs -> n_dir a = true -> is_desc (jail req) (n_path a) = true ->
               is_desc (n_path a) (n_path k) = true -> is_hidden fs hide a = false).
Proof.
  intros H k Hk.
  destruct (archive_sound _ _ _ _ _ _ _ _ _ _ _ H k Hk) as (_ & _ & Hh & Ha). auto.
Qed.

(* ---- the whole site: internal -> browse -> static ---- *)
Lemma serve_file_not_listing fs hide pages prefix m req ae ks :
  serve_file fs hide pages prefix m req ae <> Listing ks.
Proof.
  unfold serve_file.
  repeat match goal with
         | |- context [if ?b then _ else _] => destruct b; try discriminate
         | |- context [match ?x with _ => _ end] => destruct x; try discriminate
         end.
Qed.

Lemma handle_cases (s : site) (r : request) :
  handle s r = Status 404 \/
  handle s r = browse (s_fs s) (s_hide s) (s_pages s) (s_prefix s) (s_browse s) (q_meth r) (q_path r) (q_ae r) (q_archive r) (q_limit r).
Proof. unfold handle. destruct (internal_blocks (s_internal s) (q_path r)); auto. Qed.

Lemma browse_serve fs hide pages prefix confs m req ae archive limit n enc :
  browse fs hide pages prefix confs m req ae archive limit = Serve n enc ->
  serve_file fs hide pages prefix m req ae = Serve n enc.
Proof.
  intros H.
  pose proof (browse_cases fs hide pages prefix confs m req ae archive limit) as C. cbv zeta in C. rewrite H in C.
  destruct C as [C|[C|[[C|C]|[C|[C|C]]]]]; try discriminate.
  - symmetry. exact C.
  - destruct C as (u & C & _). discriminate.
  - destruct C as [C _]. discriminate.
  - destruct C as [C _]. discriminate.
Qed.

(* every answer of a site that carries file content, and every redirect *)
Lemma site_sound (s : site) (r : request) :
  match handle s r with
  | Serve n enc =>
      is_get_head (q_meth r) = true /\ In n (s_fs s) /\
      served_from (s_pages s) (q_path r) (q_ae r) enc (n_path n) /\
      n_dir n = false /\ is_hidden (s_fs s) (s_hide s) n = false
  | Listing kids =>
      forall k, In k kids -> In k (s_fs s) /\ is_child (jail (q_path r)) (n_path k) = true /\
                             is_hidden (s_fs s) (s_hide s) k = false
  | Archive ms =>
      forall k, In k ms -> In k (s_fs s) /\ is_desc (jail (q_path r)) (n_path k) = true /\
                           has_prefix (n_path k) (jail (q_path r)) = true /\
                           is_hidden (s_fs s) (s_hide s) k = false
  | Redirect code loc =>
      rooted (s_prefix s) -> rooted (q_path r) -> one_slash loc = true /\ same_origin loc = true
  | Status _ => True
  end.
Proof.
  destruct (handle_cases s r) as [E|E]; [rewrite E; exact I|].
  destruct (handle s r) as [c|c loc|n enc|kids|ms] eqn:H; [exact I| | | |]; symmetry in E.
  - intros Hp Hr. eapply browse_redirect; [exact Hp|exact Hr|exact E].
  - apply browse_serve in E.
    destruct (serve_file_serve _ _ _ _ _ _ _ _ _ E) as (Hm & Hin & Hs & Hn & Hh).
    repeat split; auto.
  - intros k Hk. eapply listing_sound; eassumption.
  - intros k Hk.
    destruct (archive_inside_root _ _ _ _ _ _ _ _ _ _ _ E k Hk) as (H1 & H2 & H3).
    destruct (archive_never_hidden _ _ _ _ _ _ _ _ _ _ _ E k Hk) as (H4 & _). auto.
Qed.

(* ------------------------------------------------------------------------------------------ *)
(* the executable spec as evaluated (per-site data computed once) is the reference spec         *)

Lemma mem_b_app l1 l2 p : mem_b (l1 ++ l2) p = mem_b l1 p || mem_b l2 p.
Proof. apply existsb_app'. Qed.

Lemma mem_b_flat_map {A} (f : A -> list bytes) l p :
  mem_b (flat_map f l) p = existsb (fun e => mem_b (f e) p) l.
Proof.
  induction l as [|a l IH]; [reflexivity|]. cbn [flat_map existsb]. rewrite mem_b_app, IH. reflexivity.
Qed.

Lemma allowed_static_set_spec pages req ae p :
  mem_b (allowed_static_set pages req ae) p = allowed_static pages req ae p.
Proof.
  unfold allowed_static_set, allowed_static. cbv zeta.
  rewrite mem_b_app, mem_b_flat_map. f_equal.
  apply existsb_ext_in. intros e _. destruct (accepts ae (fst e)); reflexivity.
Qed.

Lemma spec_ok_eq s r o : spec_ok s r o = spec_ok_ref s r o.
Proof.
  unfold spec_ok, spec_ok_ref. cbv zeta.
  set (fs := s_fs s). set (hide := s_hide s). set (c := jail (q_path r)).
  assert (Hok : forall (w1 w2 : bytes -> bool), (forall p, w1 p = w2 p) -> forall id,
     inside_id id && negb (mem_N (hidden_ids fs hide) id) &&
     existsb (fun n => if (n_id n =? id) && negb (n_dir n) then w1 (n_path n) else false) fs =
     inside_id id &&
     existsb (fun n => (n_id n =? id) && negb (n_dir n) && negb (hidden_id fs hide id) && w2 (n_path n)) fs).
  { intros w1 w2 Hw id. rewrite <- andb_assoc. f_equal. rewrite hidden_ids_spec. rewrite <- existsb_andb_const.
    apply existsb_ext_in. intros n _. rewrite Hw.
    destruct (n_id n =? id), (n_dir n), (hidden_id fs hide id), (w2 (n_path n)); reflexivity. }
  assert (Hvis : forall p,
     match fs_at fs p with Some n => negb (mem_N (hidden_ids fs hide) (n_id n)) | None => false end =
     match fs_at fs p with Some n => negb (hidden_id fs hide (n_id n)) | None => false end).
  { intros p. destruct (fs_at fs p); [rewrite hidden_ids_spec|]; reflexivity. }
  assert (Hbel : forall p,
     existsb (fun a => is_desc (n_path a) p)
             (filter (fun a => n_dir a && mem_N (hidden_ids fs hide) (n_id a) && is_desc c (n_path a)) fs) =
     existsb (fun a => n_dir a && hidden_id fs hide (n_id a) && is_desc c (n_path a) && is_desc (n_path a) p) fs).
  { intros p. rewrite existsb_filter. apply existsb_ext_in. intros a _. rewrite hidden_ids_spec. reflexivity. }
  pose (w1 := fun p => is_desc c p && negb (existsb (fun a => is_desc (n_path a) p)
     (filter (fun a => n_dir a && mem_N (hidden_ids fs hide) (n_id a) && is_desc c (n_path a)) fs))).
  pose (w2 := fun p => is_desc c p && negb (existsb (fun a => n_dir a && hidden_id fs hide (n_id a) &&
     is_desc c (n_path a) && is_desc (n_path a) p) fs)).
  assert (Hw : forall p, w1 p = w2 p) by (intros p; unfold w1, w2; rewrite Hbel; reflexivity).
  assert (Hfil : filter (fun k => negb (mem_N (hidden_ids fs hide) (n_id k))) (children fs c) =
                 filter (fun k => negb (hidden_id fs hide (n_id k))) (children fs c)).
  { apply filter_ext_in'. intros k _. rewrite hidden_ids_spec. reflexivity. }
  f_equal. destruct (o_kind o) as [|k].
  - f_equal. f_equal; apply forallb_ext_in; intros id _; apply Hok; intros p; apply allowed_static_set_spec.
  - destruct k as [k|k|].
    + f_equal; [f_equal; apply forallb_ext_in; intros id _; exact (Hok w1 w2 Hw id)|].
      apply forallb_ext_in. intros nm _. rewrite Hvis, Hbel. reflexivity.
    + f_equal; [f_equal; apply forallb_ext_in; intros id _; exact (Hok w1 w2 Hw id)|].
      apply forallb_ext_in. intros nm _. rewrite Hvis, Hbel. reflexivity.
    + rewrite Hfil. f_equal. f_equal. apply forallb_ext_in. intros nm _. apply Hvis.
Qed.

(* ------------------------------------------------------------------------------------------ *)
(* hideCasketfile over the whole list of site configs                                          *)

Lemma hide_all_length cfgs : length (hide_casketfile_all cfgs) = length cfgs.
Proof.
  induction cfgs as [|c r IH]; [reflexivity|]. cbn [hide_casketfile_all].
  destruct (sc_origin c).
  - rewrite map_length. reflexivity.
  - cbn [length]. rewrite IH. reflexivity.
Qed.

(* every site config gets ITS entry, whatever stands before or after it in the list *)
Lemma hide_all_map cfgs :
  (forall c, In c cfgs -> sc_origin c <> []) -> hide_casketfile_all cfgs = map hide_entry cfgs.
Proof.
  induction cfgs as [|c r IH]; intros H; [reflexivity|]. cbn [hide_casketfile_all map].
  destruct (sc_origin c) eqn:E.
  - exfalso. apply (H c); [left; reflexivity|exact E].
  - rewrite IH; [reflexivity|]. intros x Hx. apply H. right. exact Hx.
Qed.

Lemma hide_all_every_site cfgs :
  (forall c, In c cfgs -> sc_origin c <> []) ->
  length (hide_casketfile_all cfgs) = length cfgs /\
  forall i c, nth_error cfgs i = Some c -> nth i (hide_casketfile_all cfgs) [] = hide_entry c.
Proof.
  intros H. split; [apply hide_all_length|]. intros i c Hi. rewrite hide_all_map by exact H.
  change (@nil bytes) with (hide_entry {| sc_root := []; sc_origin := [] |}).
  rewrite map_nth. f_equal. apply nth_error_nth. exact Hi.
Qed.

(* the code's early return: a config without origin ends the pass — it and every later config get nothing *)
Lemma hide_all_stops pre c post :
  sc_origin c = [] -> (forall x, In x pre -> sc_origin x <> []) ->
  hide_casketfile_all (pre ++ c :: post) = map hide_entry pre ++ map (fun _ => []) (c :: post).
Proof.
  intros Hc. induction pre as [|x pre IH]; intros H.
  - cbn [app map hide_casketfile_all]. rewrite Hc. reflexivity.
  - cbn [app map hide_casketfile_all]. destruct (sc_origin x) eqn:E.
    + exfalso. apply (H x); [left; reflexivity|exact E].
    + rewrite IH; [reflexivity|]. intros y Hy. apply H. right. exact Hy.
Qed.

(* the site configs of one Casketfile share their origin *)
Lemma msite_confs_origin roots origin c : origin <> [] -> In c (msite_confs roots origin) -> sc_origin c <> [].
Proof.
  intros Ho Hc. unfold msite_confs in Hc. apply in_map_iff in Hc as (r & <- & _). cbn.
  unfold abs_path. destruct origin as [|a o]; [contradiction|].
  unfold clean. cbv zeta. destruct (a =? SLASH); [discriminate|].
  destruct (join [SLASH] (clean_segs false (split SLASH (a :: o)) [])); discriminate.
Qed.

(* the root "/" (every absolute path has it as a string prefix): the entry is the origin without
   its leading slash, and the jail opens exactly the origin *)
Lemma hide_casketfile_root_slash name :
  hide_casketfile [SLASH] (jail name) = Some (tl (jail name)) /\ jail (tl (jail name)) = jail name.
Proof.
  destruct (jail_rooted name) as (t & Et). rewrite Et. cbn [tl]. split.
  - unfold hide_casketfile. cbn [has_prefix length skipn]. rewrite N.eqb_refl. destruct t; reflexivity.
  - change (jail t) with (clean (SLASH :: t)). rewrite <- Et.
    rewrite <- (jail_of_rooted (jail name)) by (apply jail_rooted). apply jail_idem.
Qed.

(* an entry of the hide list that opens a file hides every node with that file's identity *)
Lemma hidden_by_entry fs hide h cf n :
  In h hide -> fs_open fs h = Some cf -> n_id n = n_id cf -> is_hidden fs hide n = true.
Proof.
  intros Hin Ho Hid. unfold is_hidden, hidden_id. apply existsb_exists. exists h. split; [exact Hin|].
  rewrite Ho. apply N.eqb_eq. congruence.
Qed.

(* a site config whose root contains the origin (origin = root ++ c, c a cleaned rooted path):
   its entry of the pass over ANY list of site configs it is a member of, at ANY position, is c *)
Lemma hide_all_entry_inside cfgs i c name :
  (forall x, In x cfgs -> sc_origin x <> []) -> nth_error cfgs i = Some c ->
  sc_origin c = sc_root c ++ jail name ->
  nth i (hide_casketfile_all cfgs) [] = [jail name].
Proof.
  intros Hall Hi Ho. destruct (hide_all_every_site cfgs Hall) as [_ H]. rewrite (H i c Hi).
  unfold hide_entry. rewrite Ho. destruct (hide_casketfile_inside (sc_root c) name) as [-> _]. reflexivity.
Qed.

Section OriginHidden.
  Variables (cfgs : list sconf) (i : nat) (c : sconf) (name : bytes) (fs : fsys) (hide : list bytes) (cf : node).
  Hypothesis Hall : forall x, In x cfgs -> sc_origin x <> [].
  Hypothesis Hi : nth_error cfgs i = Some c.
  Hypothesis Ho : sc_origin c = sc_root c ++ jail name.
  Hypothesis Hhide : forall h, In h (nth i (hide_casketfile_all cfgs) []) -> In h hide.
  Hypothesis Hcf : fs_open fs (jail name) = Some cf.

  Lemma origin_entry_hides n : n_id n = n_id cf -> is_hidden fs hide n = true.
  Proof.
    intros Hid. apply (hidden_by_entry fs hide (jail name) cf n); [|exact Hcf|exact Hid].
    apply Hhide. rewrite (hide_all_entry_inside cfgs i c name Hall Hi Ho). left. reflexivity.
  Qed.

  Lemma multi_casketfile_never_served pages prefix m req ae n enc :
    serve_file fs hide pages prefix m req ae = Serve n enc -> n_id n <> n_id cf.
  Proof.
    intros Hs Heq. apply serve_file_serve in Hs as (_ & _ & _ & _ & Hnh).
    rewrite (origin_entry_hides n Heq) in Hnh. discriminate.
  Qed.

  Lemma multi_casketfile_never_listed pages prefix confs m req ae archive limit kids :
    browse fs hide pages prefix confs m req ae archive limit = Listing kids ->
    forall k, In k kids -> n_id k <> n_id cf.
  Proof.
    intros H k Hk Heq. destruct (listing_sound _ _ _ _ _ _ _ _ _ _ _ H k Hk) as (_ & _ & Hnh).
    rewrite (origin_entry_hides k Heq) in Hnh. discriminate.
  Qed.

  Lemma multi_casketfile_never_archived pages prefix confs m req ae archive limit ms :
    browse fs hide pages prefix confs m req ae archive limit = Archive ms ->
    forall k, In k ms -> n_id k <> n_id cf.
  Proof.
    intros H k Hk Heq. destruct (archive_never_hidden _ _ _ _ _ _ _ _ _ _ _ H k Hk) as (Hnh & _).
    rewrite (origin_entry_hides k Heq) in Hnh. discriminate.
  Qed.
End OriginHidden.

(* the whole handler chain of a site config at position i of a multi-site Casketfile *)
Lemma multi_site_casketfile_never_disclosed cfgs i c name (s : site) cf (r : request) :
  (forall x, In x cfgs -> sc_origin x <> []) -> nth_error cfgs i = Some c ->
  sc_origin c = sc_root c ++ jail name ->
  (forall h, In h (nth i (hide_casketfile_all cfgs) []) -> In h (s_hide s)) ->
  fs_open (s_fs s) (jail name) = Some cf ->
  match handle s r with
  | Serve n _ => n_id n <> n_id cf
  | Listing kids => forall k, In k kids -> n_id k <> n_id cf
  | Archive ms => forall k, In k ms -> n_id k <> n_id cf
  | _ => True
  end.
Proof.
  intros Hall Hi Ho Hh Hcf.
  pose proof (site_sound s r) as S.
  destruct (handle s r) as [co|co loc|n enc|kids|ms]; try exact I.
  - destruct S as (_ & _ & _ & _ & Hnh). intros Heq.
    rewrite (origin_entry_hides cfgs i c name (s_fs s) (s_hide s) cf Hall Hi Ho Hh Hcf n Heq) in Hnh. discriminate.
  - intros k Hk Heq. destruct (S k Hk) as (_ & _ & Hnh).
    rewrite (origin_entry_hides cfgs i c name (s_fs s) (s_hide s) cf Hall Hi Ho Hh Hcf k Heq) in Hnh. discriminate.
  - intros k Hk Heq. destruct (S k Hk) as (_ & _ & _ & Hnh).
    rewrite (origin_entry_hides cfgs i c name (s_fs s) (s_hide s) cf Hall Hi Ho Hh Hcf k Heq) in Hnh. discriminate.
Qed.

(* ------------------------------------------------------------------------------------------ *)
(* HEAD is GET without the body; the limit parameter                                           *)

Lemma head_like_get (s : site) p ae ar l : handle s (mkreq 1 p ae ar l) = handle s (mkreq 0 p ae ar l).
Proof. reflexivity. Qed.

Lemma listing_limit_ok fs hide pages prefix confs m req ae archive limit kids :
  browse fs hide pages prefix confs m req ae archive limit = Listing kids -> limit_of limit <> None.
Proof.
  intros H E. revert H. unfold browse. cbv zeta. rewrite E.
  pose proof (serve_file_not_listing fs hide pages prefix m req ae kids) as NL.
  repeat match goal with
         | |- context [if ?b then _ else _] => destruct b; try discriminate; try (intros X; exact (NL X))
         | |- context [match ?x with _ => _ end] => destruct x; try discriminate; try (intros X; exact (NL X))
         end.
Qed.

Lemma listing_independent_of_limit fs hide pages prefix confs m req ae archive l1 l2 k1 k2 :
  browse fs hide pages prefix confs m req ae archive l1 = Listing k1 ->
  browse fs hide pages prefix confs m req ae archive l2 = Listing k2 -> k1 = k2.
Proof.
  intros H1 H2.
  pose proof (browse_cases fs hide pages prefix confs m req ae archive l1) as C1. cbv zeta in C1. rewrite H1 in C1.
  pose proof (browse_cases fs hide pages prefix confs m req ae archive l2) as C2. cbv zeta in C2. rewrite H2 in C2.
  assert (E1 : Listing k1 = Listing (filter (fun k => negb (is_hidden fs hide k)) (children fs (jail req)))).
  { destruct C1 as [C|[C|[[C|C]|[C|[C|C]]]]]; try discriminate.
    - exfalso. symmetry in C. exact (serve_file_not_listing _ _ _ _ _ _ _ _ C).
    - destruct C as (u & C & _). discriminate.
    - destruct C as [C _]. exact C.
    - destruct C as [C _]. discriminate. }
  assert (E2 : Listing k2 = Listing (filter (fun k => negb (is_hidden fs hide k)) (children fs (jail req)))).
  { destruct C2 as [C|[C|[[C|C]|[C|[C|C]]]]]; try discriminate.
    - exfalso. symmetry in C. exact (serve_file_not_listing _ _ _ _ _ _ _ _ C).
    - destruct C as (u & C & _). discriminate.
    - destruct C as [C _]. exact C.
    - destruct C as [C _]. discriminate. }
  congruence.
Qed.

(* ------------------------------------------------------------------------------------------ *)
(* the numbers an HTML listing announces                                                        *)

Lemma count_kind_total l : count_kind true l + count_kind false l = N.of_nat (length l).
Proof.
  unfold count_kind.
  assert (H : (length (filter (fun k => Bool.eqb (n_dir k) true) l) +
               length (filter (fun k => Bool.eqb (n_dir k) false) l) = length l)%nat).
  { induction l as [|a l IH]; [reflexivity|]. cbn [filter]. destruct (n_dir a); cbn [Bool.eqb length]; lia. }
  lia.
Qed.

(* what a listing announces is what it lists: the numbers of directories and of files among the
   entries of the listing — the non-hidden children of the cleaned directory — which together are
   all of them; these are the numbers the executable property asks for ([counts_ok]) *)
Lemma listing_counts fs hide pages prefix confs m req ae archive limit kids :
  browse fs hide pages prefix confs m req ae archive limit = Listing kids ->
  announced_counts fs hide (jail req) = (count_kind true kids, count_kind false kids) /\
  count_kind true kids + count_kind false kids = N.of_nat (length kids) /\
  counts_ok [fst (announced_counts fs hide (jail req)); snd (announced_counts fs hide (jail req))]
            (filter (fun k => negb (hidden_id fs hide (n_id k))) (children fs (jail req))) = true.
Proof.
  intros H.
  pose proof (browse_cases fs hide pages prefix confs m req ae archive limit) as C. cbv zeta in C. rewrite H in C.
  assert (E : kids = filter (fun k => negb (is_hidden fs hide k)) (children fs (jail req))).
  { destruct C as [C|[C|[[C|C]|[C|[C|C]]]]]; try discriminate.
    - exfalso. symmetry in C. exact (serve_file_not_listing _ _ _ _ _ _ _ _ C).
    - destruct C as (u & C & _). discriminate.
    - destruct C as [C _]. injection C as ->. reflexivity.
    - destruct C as [C _]. discriminate. }
  assert (A : announced_counts fs hide (jail req) = (count_kind true kids, count_kind false kids)).
  { unfold announced_counts. cbv zeta. rewrite visible_kids_eq, <- E. reflexivity. }
  split; [exact A|]. split; [apply count_kind_total|].
  rewrite A. cbn [fst snd]. unfold counts_ok.
  change (filter (fun k => negb (hidden_id fs hide (n_id k))) (children fs (jail req)))
    with (filter (fun k => negb (is_hidden fs hide k)) (children fs (jail req))).
  rewrite <- E, !N.eqb_refl. reflexivity.
Qed.

(* ------------------------------------------------------------------------------------------ *)
(* the sites of a multi-site Casketfile as the harness builds them                              *)

Lemma subtree_inside fs d n :
  In n (subtree fs d) ->
  exists n0, In n0 fs /\ n_id n = n_id n0 /\ n_dir n = n_dir n0 /\
    ((d = [SLASH] /\ n_path n = n_path n0) \/
     (n_path n0 = d /\ n_path n = [SLASH]) \/
     (is_desc d (n_path n0) = true /\ n_path n = SLASH :: rel_name d (n_path n0))).
Proof.
  unfold subtree. intros H. apply in_flat_map in H as (n0 & Hin & H). exists n0. split; [exact Hin|].
  unfold reroot in H.
  destruct (beq d [SLASH]) eqn:Ed.
  - destruct H as [<-|[]]. cbn. repeat split. left. split; [|reflexivity]. apply beq_eq. exact Ed.
  - destruct (beq (n_path n0) d) eqn:Ep.
    + destruct H as [<-|[]]. cbn. repeat split. right. left. split; [|reflexivity]. apply beq_eq. exact Ep.
    + destruct (is_desc d (n_path n0)) eqn:Ei; [|destruct H].
      destruct H as [<-|[]]. cbn. repeat split. right. right. split; reflexivity.
Qed.

Lemma msite_casketfile_never_disclosed roots origin pos root rootrel scope types name cf (r : request) :
  origin <> [] -> nth_error roots pos = Some root ->
  abs_path origin = abs_path root ++ jail name ->
  fs_open (subtree mtree_fs rootrel) (jail name) = Some cf ->
  match handle (msite roots origin pos rootrel scope types) r with
  | Serve n _ => n_id n <> n_id cf
  | Listing kids => forall k, In k kids -> n_id k <> n_id cf
  | Archive ms => forall k, In k ms -> n_id k <> n_id cf
  | _ => True
  end.
Proof.
  intros Ho Hn Hin Hcf.
  apply (multi_site_casketfile_never_disclosed (msite_confs roots origin) pos
           {| sc_root := abs_path root; sc_origin := abs_path origin |} name).
  - intros x Hx. exact (msite_confs_origin roots origin x Ho Hx).
  - unfold msite_confs.
    exact (map_nth_error (fun r0 => {| sc_root := abs_path r0; sc_origin := abs_path origin |}) pos roots Hn).
  - exact Hin.
  - intros h Hh. cbn [msite s_hide]. apply in_or_app. left. exact Hh.
  - exact Hcf.
Qed.

(* ------------------------------------------------------------------------------------------ *)
(* component-wise containment (the test of the executable origin clause) implies the string-    *)
(* prefix test of hideCasketfile, and the entry it yields opens exactly the origin             *)

Lemma has_prefix_split : forall (s p : bytes), has_prefix s p = true -> s = p ++ skipn (length p) s.
Proof.
  intros s p. revert s. induction p as [|y p IH]; intros s H; [reflexivity|].
  destruct s as [|x s]; [discriminate|]. cbn [has_prefix] in H.
  apply andb_true_iff in H as [Hxy Hr]. apply N.eqb_eq in Hxy. subst y.
  cbn [length skipn app]. f_equal. apply IH. exact Hr.
Qed.

Lemma app_cut_noslash : forall (s a rel t : bytes),
  ~ In SLASH s -> a ++ SLASH :: rel = s ++ t -> exists a', a = s ++ a' /\ t = a' ++ SLASH :: rel.
Proof.
  induction s as [|c s IH]; intros a rel t Hs E.
  - exists a. split; [reflexivity|]. symmetry. exact E.
  - destruct a as [|x a].
    + cbn in E. injection E as Ec _. exfalso. apply Hs. left. symmetry. exact Ec.
    + cbn in E. injection E as Ex E. subst x.
      destruct (IH a rel t) as (a' & Ha & Ht); [intros Hin; apply Hs; right; exact Hin|exact E|].
      exists a'. split; [cbn; f_equal; exact Ha|exact Ht].
Qed.

(* a suffix of a cleaned path that starts after a separator is the join of a suffix of its segments *)
Lemma join_suffix : forall (segs : list bytes) (a rel : bytes),
  (forall s, In s segs -> good_seg s) -> join [SLASH] segs = a ++ SLASH :: rel ->
  exists segs', rel = join [SLASH] segs' /\ (forall s, In s segs' -> good_seg s).
Proof.
  induction segs as [|s segs IH]; intros a rel Hg E.
  - destruct a; discriminate.
  - assert (Hs : ~ In SLASH s) by (destruct (Hg s (or_introl eq_refl)) as (_ & _ & _ & H); exact H).
    destruct segs as [|s2 segs].
    + cbn [join] in E. exfalso. apply Hs. rewrite E. apply in_or_app. right. left. reflexivity.
    + change (join [SLASH] (s :: s2 :: segs)) with (s ++ [SLASH] ++ join [SLASH] (s2 :: segs)) in E.
      symmetry in E. destruct (app_cut_noslash s a rel _ Hs E) as (a' & _ & Ht).
      destruct a' as [|x a'].
      * cbn in Ht. injection Ht as Ht. exists (s2 :: segs). split; [symmetry; exact Ht|].
        intros y Hy. apply Hg. right. exact Hy.
      * cbn in Ht. injection Ht as _ Ht.
        apply (IH a' rel); [intros y Hy; apply Hg; right; exact Hy|exact Ht].
Qed.

Lemma skipn_all_self {A} (l : list A) : skipn (length l) l = [].
Proof. induction l as [|x l IH]; [reflexivity|exact IH]. Qed.

Lemma origin_inside_root_is_hidden base rootrel x p :
  reroot rootrel (jail x) = Some p ->
  exists h, hide_casketfile (abs_of base rootrel) (base ++ jail x) = Some h /\ jail h = p /\ jail p = p.
Proof.
  unfold reroot, abs_of. destruct (beq rootrel [SLASH]) eqn:Er.
  - intros E. injection E as <-. exists (jail x).
    destruct (hide_casketfile_inside base x) as [-> Hj]. auto.
  - destruct (beq (jail x) rootrel) eqn:Eo.
    + intros E. injection E as <-. apply beq_eq in Eo. rewrite <- Eo. exists [].
      split; [|split; vm_compute; reflexivity].
      unfold hide_casketfile. destruct (base ++ jail x) eqn:E.
      * destruct (jail_rooted x) as (t & Et). rewrite Et in E. destruct base; discriminate.
      * rewrite has_prefix_refl, skipn_all_self. reflexivity.
    + destruct (is_desc rootrel (jail x)) eqn:Ed; [|discriminate].
      intros E. injection E as <-.
      unfold is_desc in Ed. apply andb_true_iff in Ed as [Hp _].
      unfold rel_name. unfold dir_prefix in *. rewrite Er in *.
      pose proof (has_prefix_split _ _ Hp) as Hsplit.
      set (rel := skipn (length (rootrel ++ [SLASH])) (jail x)) in *.
      assert (Ho : jail x = rootrel ++ SLASH :: rel) by (rewrite Hsplit at 1; rewrite <- app_assoc; reflexivity).
      exists (SLASH :: rel). split; [|split].
      * unfold hide_casketfile. rewrite Ho. destruct (base ++ rootrel ++ SLASH :: rel) eqn:E.
        { destruct base; [destruct rootrel|]; discriminate. }
        rewrite <- E. rewrite app_assoc. rewrite has_prefix_app_self, skipn_app_self. reflexivity.
      * (* jail (SLASH :: rel) = SLASH :: rel *)
        destruct (clean_rooted_shape (SLASH :: x)) as (segs & Hc & Hg); [exists x; reflexivity|].
        change (clean (SLASH :: x)) with (jail x) in Hc.
        destruct rootrel as [|c r'].
        -- change ([] ++ SLASH :: rel) with (SLASH :: rel) in Ho. rewrite <- Ho. apply jail_idem.
        -- rewrite Hc in Ho. change ((c :: r') ++ SLASH :: rel) with (c :: (r' ++ SLASH :: rel)) in Ho. injection Ho as _ Ho.
           destruct (join_suffix segs r' rel Hg Ho) as (segs' & -> & Hg').
           unfold jail. rewrite clean_extra_slash by (eexists; reflexivity). apply clean_of_shape. exact Hg'.
      * destruct (clean_rooted_shape (SLASH :: x)) as (segs & Hc & Hg); [exists x; reflexivity|].
        change (clean (SLASH :: x)) with (jail x) in Hc.
        destruct rootrel as [|c r'].
        -- change ([] ++ SLASH :: rel) with (SLASH :: rel) in Ho. rewrite <- Ho. apply jail_idem.
        -- rewrite Hc in Ho. change ((c :: r') ++ SLASH :: rel) with (c :: (r' ++ SLASH :: rel)) in Ho. injection Ho as _ Ho.
           destruct (join_suffix segs r' rel Hg Ho) as (segs' & -> & Hg').
           unfold jail. rewrite clean_extra_slash by (eexists; reflexivity). apply clean_of_shape. exact Hg'.
Qed.

Lemma hide_casketfile_iff root origin h :
  hide_casketfile root origin = Some h <->
  origin <> [] /\ has_prefix origin root = true /\ h = skipn (length root) origin.
Proof.
  unfold hide_casketfile. destruct origin as [|a o].
  - split; [discriminate|]. intros (H & _). contradiction.
  - destruct (has_prefix (a :: o) root).
    + split.
      * intros E. injection E as <-. split; [discriminate|]. split; reflexivity.
      * intros (_ & _ & ->). reflexivity.
    + split; [discriminate|]. intros (_ & H & _). discriminate.
Qed.

(* ------------------------------------------------------------------------------------------ *)
(* histories on one running site: the answer to a request is a function of the file system as it
   is when the request arrives; whatever was asked and whatever was on disk before is irrelevant *)
Definition sound_outcome (s : site) (r : request) (o : outcome) : Prop :=
  match o with
  | Serve n enc =>
      is_get_head (q_meth r) = true /\ In n (s_fs s) /\
      served_from (s_pages s) (q_path r) (q_ae r) enc (n_path n) /\
      n_dir n = false /\ is_hidden (s_fs s) (s_hide s) n = false
  | Listing kids =>
      forall k, In k kids -> In k (s_fs s) /\ is_child (jail (q_path r)) (n_path k) = true /\
                             is_hidden (s_fs s) (s_hide s) k = false
  | Archive ms =>
      forall k, In k ms -> In k (s_fs s) /\ is_desc (jail (q_path r)) (n_path k) = true /\
                           has_prefix (n_path k) (jail (q_path r)) = true /\
                           is_hidden (s_fs s) (s_hide s) k = false
  | Redirect code loc =>
      rooted (s_prefix s) -> rooted (q_path r) -> one_slash loc = true /\ same_origin loc = true
  | Status _ => True
  end.

Lemma site_sound_outcome (s : site) (r : request) : sound_outcome s r (handle s r).
Proof. unfold sound_outcome. exact (site_sound s r). Qed.

Lemma with_fs_same (s : site) : with_fs s (s_fs s) = s.
Proof. destruct s; reflexivity. Qed.

Lemma with_fs_twice (s : site) (a b : fsys) : with_fs (with_fs s a) b = with_fs s b.
Proof. reflexivity. Qed.

Lemma history_current_files (s : site) (h : list event) (fs : fsys) (r : request) (o : outcome) :
  In (fs, r, o) (run_history s h) ->
  o = handle (with_fs s fs) r /\ sound_outcome (with_fs s fs) r o.
Proof.
  revert s. induction h as [|e t IH]; intros s Hin; [destruct Hin|].
  destruct e as [r0|fs0]; simpl in Hin.
  - destruct Hin as [E|Hin].
    + injection E as <- <- <-. rewrite with_fs_same. split; [reflexivity|apply site_sound_outcome].
    + exact (IH s Hin).
  - destruct (IH (with_fs s fs0) Hin) as (H1 & H2).
    rewrite with_fs_twice in H1, H2. split; assumption.
Qed.

Lemma run_history_app (s : site) (h t : list event) :
  run_history s (h ++ t) = run_history s h ++ run_history (with_fs s (current_fs (s_fs s) h)) t.
Proof.
  revert s. induction h as [|e h IH]; intros s; simpl.
  - rewrite with_fs_same. reflexivity.
  - destruct e as [r0|fs0]; simpl.
    + rewrite IH. reflexivity.
    + rewrite IH. reflexivity.
Qed.

(* two histories that end with the same files on disk: the next request gets the same answer *)
Lemma history_irrelevant (s : site) (h1 h2 : list event) (fs : fsys) (r : request) :
  run_history s (h1 ++ [EDisk fs; EReq r]) = run_history s h1 ++ [(fs, r, handle (with_fs s fs) r)] /\
  run_history s (h2 ++ [EDisk fs; EReq r]) = run_history s h2 ++ [(fs, r, handle (with_fs s fs) r)].
Proof. split; rewrite run_history_app; reflexivity. Qed.

(* ------------------------------------------------------------------------------------------ *)
(* http.ServeContent: byte ranges and conditional requests                                      *)

Definition range_inside (size : N) (r : N * N) : Prop := fst r + snd r <= size.

Lemma parse_one_inside ra size r : parse_one ra size = Some (Some r) -> range_inside size r.
Proof.
  unfold parse_one, range_inside. intros H.
  destruct (cut_at 45 ra) as [[st0 en0]|]; [|discriminate].
  destruct (trim_spaces st0) as [|sc sr].
  - destruct (trim_spaces en0) as [|c en']; [discriminate|].
    destruct (c =? 45); [discriminate|].
    destruct (atoi (c :: en')) as [z|]; [|discriminate].
    destruct (z <? 0)%Z; [discriminate|].
    injection H as <-. simpl. lia.
  - destruct (atoi (sc :: sr)) as [z|]; [|discriminate].
    destruct (z <? 0)%Z; [discriminate|].
    destruct (size <=? Z.to_N z) eqn:Hs; [discriminate|].
    apply N.leb_gt in Hs.
    destruct (trim_spaces en0) as [|c en'].
    + injection H as <-. simpl. lia.
    + destruct (atoi (c :: en')) as [e|]; [|discriminate].
      destruct (e <? Z.of_N (Z.to_N z))%Z eqn:He; [discriminate|].
      apply Z.ltb_ge in He.
      injection H as <-. simpl.
      destruct (size <=? Z.to_N e) eqn:Hse.
      * lia.
      * apply N.leb_gt in Hse. lia.
Qed.

Lemma parse_specs_inside specs : forall size acc noov rs,
  Forall (range_inside size) acc ->
  parse_specs specs size acc noov = RRanges rs -> Forall (range_inside size) rs.
Proof.
  induction specs as [|s r IH]; intros size acc noov rs Hacc H; simpl in H.
  - destruct acc as [|a acc'].
    + destruct noov; [discriminate|]. injection H as <-. constructor.
    + injection H as <-. change (Forall (range_inside size) (rev (a :: acc'))). apply Forall_rev. exact Hacc.
  - destruct (trim_spaces s) as [|c ra'] eqn:Et.
    + eapply IH; eauto.
    + destruct (parse_one (c :: ra') size) as [[x|]|] eqn:Ep; [| |discriminate].
      * eapply IH; [|exact H]. constructor; [|exact Hacc]. eapply parse_one_inside; eauto.
      * eapply IH; eauto.
Qed.

Lemma parse_range_inside s size rs :
  parse_range s size = RRanges rs -> Forall (range_inside size) rs.
Proof.
  unfold parse_range. intros H. destruct s as [|c s'].
  - injection H as <-. constructor.
  - destruct (has_prefix (c :: s') bytes_eq_prefix); [|discriminate].
    eapply parse_specs_inside; [|exact H]. constructor.
Qed.

(* every range ServeContent sends lies inside the file, there is at least one, and together they
   are no longer than the file *)
Lemma serve_content_parts size q rs :
  serve_content size q = CParts rs ->
  Forall (range_inside size) rs /\ rs <> [] /\ sum_lens rs <= size.
Proof.
  unfold serve_content. intros H.
  destruct (not_modified q); [discriminate|].
  destruct (parse_range (range_req q) size) as [| |rs'] eqn:Ep.
  - discriminate.
  - destruct (size =? 0); discriminate.
  - destruct (size <? sum_lens rs') eqn:Hs; [discriminate|]. apply N.ltb_ge in Hs.
    destruct rs' as [|a rs'']; [discriminate|]. injection H as <-.
    split; [eapply parse_range_inside; eauto|]. split; [discriminate|exact Hs].
Qed.

(* a validator that says "not modified" wins over any Range header; a failed If-Range makes the
   answer the whole file *)
Lemma serve_content_not_modified size q :
  (c_inm q = 1 \/ (c_inm q = 0 /\ c_ims q = 1)) -> serve_content size q = CNotModified.
Proof.
  unfold serve_content, not_modified. intros [H|[H1 H2]].
  - rewrite H. reflexivity.
  - rewrite H1, H2. reflexivity.
Qed.

Lemma serve_content_if_range_fails size q :
  c_ifr q = 2 -> serve_content size q = CNotModified \/ serve_content size q = CFull.
Proof.
  unfold serve_content, range_req. intros H. rewrite H. simpl.
  destruct (not_modified q); [left; reflexivity|].
  right. destruct (size <? 0); reflexivity.
Qed.

(* a piece taken inside the content is exactly the bytes [start, start+length) of it *)
Lemma piece_is_slice (cnt : bytes) (r : N * N) :
  range_inside (blen cnt) r ->
  exists pre post, cnt = pre ++ piece cnt r ++ post /\
                   length pre = N.to_nat (fst r) /\ length (piece cnt r) = N.to_nat (snd r).
Proof.
  unfold range_inside, blen, piece. intros H.
  exists (firstn (N.to_nat (fst r)) cnt), (skipn (N.to_nat (snd r)) (skipn (N.to_nat (fst r)) cnt)).
  split; [|split].
  - rewrite firstn_skipn. rewrite firstn_skipn. reflexivity.
  - rewrite firstn_length. lia.
  - rewrite firstn_length, skipn_length. lia.
Qed.

(* every piece of body ServeContent sends for a content [cnt] is a slice of [cnt] at the place
   its range says; 304 and 416 send none *)
Lemma content_body_slices (cnt : bytes) (q : cond) (p : bytes) :
  In p (content_body cnt (serve_content (blen cnt) q)) ->
  exists pre post, cnt = pre ++ p ++ post /\
    (p = cnt \/ exists r, p = piece cnt r /\ length pre = N.to_nat (fst r) /\
                          length p = N.to_nat (snd r) /\ fst r + snd r <= blen cnt).
Proof.
  destruct (serve_content (blen cnt) q) as [| | |rs] eqn:E; simpl; intros H; try contradiction.
  - destruct H as [<-|[]]. exists [], []. rewrite app_nil_r. split; [reflexivity|left; reflexivity].
  - apply in_map_iff in H. destruct H as (r & <- & Hin).
    apply serve_content_parts in E. destruct E as (Hall & _ & _).
    rewrite Forall_forall in Hall. specialize (Hall r Hin).
    destruct (piece_is_slice cnt r Hall) as (pre & post & E1 & E2 & E3).
    exists pre, post. split; [exact E1|]. right. exists r. repeat split; assumption.
Qed.

Lemma no_content_answers (content : N -> bytes) (r : request) (a : answer) :
  answer_status a = 304 \/ answer_status a = 416 ->
  match a with AContent _ _ _ => answer_body content r a = [] | AOther _ => True end.
Proof.
  destruct a as [o|n enc ca]; [trivial|]. destruct ca; simpl; intros [H|H]; try discriminate;
    destruct (q_meth r =? 1); reflexivity.
Qed.

(* THE range theorem: whatever Range / If-Range / If-None-Match / If-Modified-Since say, every
   piece of file content in the answer of a site is a slice of the content of ONE node: the node
   [handle] serves — inside the root at a permitted name, a regular file, not hidden (a
   precompressed sibling that is hidden is never that node) *)
Lemma respond_sound (content : N -> bytes) (s : site) (r : request) (q : cond) (p : bytes) :
  In p (answer_body content r (respond (fun id => blen (content id)) s r q)) ->
  exists n enc pre post,
    handle s r = Serve n enc /\ q_meth r = 0 /\ In n (s_fs s) /\
    served_from (s_pages s) (q_path r) (q_ae r) enc (n_path n) /\
    n_dir n = false /\ is_hidden (s_fs s) (s_hide s) n = false /\
    content (n_id n) = pre ++ p ++ post.
Proof.
  unfold respond. pose proof (site_sound s r) as S.
  destruct (handle s r) as [c|c l|n enc|k|m] eqn:E; simpl; try contradiction.
  destruct S as (Hm & Hin & Hfrom & Hdir & Hhid).
  destruct (q_meth r =? 1) eqn:Hh; [contradiction|]. intros H.
  apply content_body_slices in H. destruct H as (pre & post & Ec & _).
  exists n, enc, pre, post. repeat split; try assumption.
  unfold is_get_head in Hm. apply N.eqb_neq in Hh.
  apply Bool.orb_true_iff in Hm. destruct Hm as [Hm|Hm]; apply N.eqb_eq in Hm; [exact Hm|contradiction].
Qed.

(* HEAD, 304 and 416 carry no file content at all *)
Lemma respond_no_content (content : N -> bytes) (s : site) (r : request) (q : cond) :
  let a := respond (fun id => blen (content id)) s r q in
  q_meth r = 1 \/ answer_status a = 304 \/ answer_status a = 416 ->
  answer_body content r a = [].
Proof.
  intros a H. subst a. destruct (respond (fun id => blen (content id)) s r q) as [o|n enc ca] eqn:E; [reflexivity|].
  destruct H as [H|H].
  - simpl. rewrite H. reflexivity.
  - exact (no_content_answers content r (AContent n enc ca) H).
Qed.

(* headers other than the ones of the ordinary request change nothing unless the answer is a file *)
Lemma respond_other (size_of : N -> N) (s : site) (r : request) (q : cond) o :
  respond size_of s r q = AOther o -> o = handle s r /\ (forall n enc, o <> Serve n enc).
Proof.
  unfold respond. destruct (handle s r) eqn:E; intros H; try discriminate; injection H as <-;
    (split; [reflexivity|intros; discriminate]).
Qed.

Lemma respond_no_cond (size_of : N -> N) (s : site) (r : request) n enc :
  handle s r = Serve n enc -> respond size_of s r no_cond = AContent n enc CFull.
Proof.
  unfold respond. intros ->. unfold serve_content, no_cond. simpl.
  destruct (size_of (n_id n) <? 0); reflexivity.
Qed.

Lemma range_validators (size : N) (q : cond) :
  ((c_inm q = 1 \/ (c_inm q = 0 /\ c_ims q = 1)) -> serve_content size q = CNotModified) /\
  (c_ifr q = 2 -> serve_content size q = CNotModified \/ serve_content size q = CFull).
Proof. split; [apply serve_content_not_modified|apply serve_content_if_range_fails]. Qed.

Lemma range_only_file_answers (size_of : N -> N) (s : site) (r : request) (q : cond) :
  (forall o, respond size_of s r q = AOther o -> o = handle s r /\ (forall n enc, o <> Serve n enc)) /\
  (forall n enc, handle s r = Serve n enc -> respond size_of s r no_cond = AContent n enc CFull).
Proof. split; [intros o; apply respond_other|intros n enc; apply respond_no_cond]. Qed.

(* the listing filter is EXACT: an entry of the directory is listed iff it is not hidden — by
   identity, i.e. by what os.Stat sees: for a symbolic link, the identity of its followed target *)
Lemma visible_kids_exact fs hide kids k :
  In k (visible_kids fs hide kids) <-> In k kids /\ is_hidden fs hide k = false.
Proof.
  unfold visible_kids, is_hidden. rewrite filter_In, hidden_ids_spec, Bool.negb_true_iff. reflexivity.
Qed.
