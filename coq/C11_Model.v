(* C11 — the Dispenser every directive setup reads its tokens through: executable model of
   casketfile/dispenser.go with CHECKED indexing (an out-of-range index is [Panic], never a
   default), so that totality is a theorem and not an artefact of the model. *)
Require Import V.Lib.
Open Scope Z_scope.

Record token := { t_file : N; t_line : Z; t_text : list N }.
Record disp := { d_tokens : list token; d_cursor : Z; d_nesting : Z }.

Definition dlen (d : disp) : Z := Z.of_nat (length (d_tokens d)).
(* d.tokens[i] with Go semantics *)
Definition tk (d : disp) (i : Z) : res token :=
  if i <? 0 then Panic else idx (d_tokens d) (Z.to_nat i).
Definition with_cursor (d : disp) (c : Z) : disp :=
  {| d_tokens := d_tokens d; d_cursor := c; d_nesting := d_nesting d |}.
Definition with_nesting (d : disp) (n : Z) : disp :=
  {| d_tokens := d_tokens d; d_cursor := d_cursor d; d_nesting := n |}.

Fixpoint count_nl (s : list N) : Z :=
  match s with [] => 0 | c :: r => (if (c =? 10)%N then 1 else 0) + count_nl r end.
Definition next_on_new_line (a b : token) : bool :=
  negb (t_file a =? t_file b)%N || (t_line a + count_nl (t_text a) <? t_line b).

(* Next *)
Definition d_next (d : disp) : res (bool * disp) :=
  if d_cursor d <? dlen d - 1 then Ok (true, with_cursor d (d_cursor d + 1)) else Ok (false, d).

(* numLineBreaks(idx): guarded *)
Definition num_lb (d : disp) (i : Z) : res Z :=
  if (i <? 0) || (dlen d <=? i) then Ok 0
  else do t <- tk d i; Ok (count_nl (t_text t)).

(* NextArg *)
Definition d_next_arg (d : disp) : res (bool * disp) :=
  let c := d_cursor d in
  if c <? 0 then Ok (true, with_cursor d (c + 1))
  else if dlen d <=? c then Ok (false, d)
  else if c <? dlen d - 1 then
    do a <- tk d c; do b <- tk d (c + 1); do nl <- num_lb d c;
    if (t_file a =? t_file b)%N && (t_line a + nl =? t_line b)
    then Ok (true, with_cursor d (c + 1)) else Ok (false, d)
  else Ok (false, d).

(* nextOnSameLine / NextLine *)
Definition d_next_on_same_line (d : disp) : res (bool * disp) :=
  let c := d_cursor d in
  if c <? 0 then Ok (true, with_cursor d (c + 1))
  else if dlen d - 1 <=? c then Ok (false, d)
  else do a <- tk d c; do b <- tk d (c + 1);
       if negb (next_on_new_line a b) then Ok (true, with_cursor d (c + 1)) else Ok (false, d).

Definition d_next_line (d : disp) : res (bool * disp) :=
  let c := d_cursor d in
  if c <? 0 then Ok (true, with_cursor d (c + 1))
  else if dlen d - 1 <=? c then Ok (false, d)
  else do a <- tk d c; do b <- tk d (c + 1);
       if next_on_new_line a b then Ok (true, with_cursor d (c + 1)) else Ok (false, d).

(* Val: guarded *)
Definition d_val (d : disp) : res (list N) :=
  if (d_cursor d <? 0) || (dlen d <=? d_cursor d) then Ok []
  else do t <- tk d (d_cursor d); Ok (t_text t).

Definition LBRACE : list N := [123%N].
Definition RBRACE : list N := [125%N].
Fixpoint leqb (a b : list N) : bool :=
  match a, b with
  | [], [] => true
  | x :: a', y :: b' => (x =? y)%N && leqb a' b'
  | _, _ => false
  end.

(* NextBlockNesting(initial) *)
Definition d_next_block (d : disp) (initial : Z) : res (bool * disp) :=
  if initial <? d_nesting d then
    do r <- d_next d;
    let '(ok, d1) := r in
    if negb ok then Ok (false, d1)
    else
      do v <- d_val d1;
      if leqb v RBRACE then
        do r2 <- d_next_on_same_line d1;
        let '(same, d2) := r2 in
        if negb same then
          let d3 := with_nesting d2 (d_nesting d2 - 1) in Ok (initial <? d_nesting d3, d3)
        else
          (* Go: `d.Val() == "}" && !d.nextOnSameLine()` failed AFTER nextOnSameLine moved the cursor
             onto the next token of the line; the `else if d.Val() == "{" && !d.nextOnSameLine()`
             then re-reads Val() at the NEW cursor *)
          do v' <- d_val d2;
          if leqb v' LBRACE then
            do r3 <- d_next_on_same_line d2;
            let '(same3, d3) := r3 in
            let d4 := if negb same3 then with_nesting d3 (d_nesting d3 + 1) else d3 in
            Ok (initial <? d_nesting d4, d4)
          else Ok (initial <? d_nesting d2, d2)
      else if leqb v LBRACE then
        do r2 <- d_next_on_same_line d1;
        let '(same, d2) := r2 in
        let d3 := if negb same then with_nesting d2 (d_nesting d2 + 1) else d2 in
        Ok (initial <? d_nesting d3, d3)
      else Ok (initial <? d_nesting d1, d1)
  else
    do r <- d_next_on_same_line d;
    let '(same, d1) := r in
    if negb same then Ok (false, d1)
    else
      do v <- d_val d1;
      if negb (leqb v LBRACE) then Ok (false, with_cursor d1 (d_cursor d1 - 1))
      else
        do r2 <- d_next d1;
        let '(_, d2) := r2 in
        do v2 <- d_val d2;
        if leqb v2 RBRACE then Ok (false, d2)
        else Ok (true, with_nesting d2 (d_nesting d2 + 1)).

(* RemainingArgs: the loop `for d.NextArg() { if Val()=="{" {cursor--; break}; append }`;
   fuel = number of tokens bounds the loop (see remaining_args_fuel_enough) *)
Fixpoint d_remaining_args (fuel : nat) (d : disp) (acc : list (list N)) : res (list (list N) * disp) :=
  match fuel with
  | O => Ok (rev acc, d)
  | S f =>
    do r <- d_next_arg d;
    let '(ok, d1) := r in
    if negb ok then Ok (rev acc, d1)
    else do v <- d_val d1;
         if leqb v LBRACE then Ok (rev acc, with_cursor d1 (d_cursor d1 - 1))
         else d_remaining_args f d1 (v :: acc)
  end.

(* invariant on which every guard of dispenser.go relies *)
Definition cursor_ok (d : disp) : Prop := -1 <= d_cursor d /\ d_cursor d <= Z.max (dlen d - 1) 0.
